//! C13: damaged or stale write-ahead logs are rejected at open, never half-applied.
//!
//! Per case: a real database directory with pending log files is built through the stepping
//! API (every commit is processed at once, so every commit is one log record; in growth mode
//! `process_reindex` adds records that are no transactions; the byte span of every record is
//! learnt from the growth of the log files), the directory image is copied, the log files of
//! the copy are damaged, `Db::open` runs on the copy inside `catch_unwind`.
//!
//! Correspondence: one op per damaged image.  Generated and scenario cases:
//! `c13 replaytab <cfg> auto <hex of each log file in directory order> / <cell> ...` where the
//! cells are the content of the image's tables BEFORE replay (dumped once per image from a
//! scratch copy without log files, hooks `Db::verif_dump`, `verif_table_state`,
//! `verif_table_entry`): `I<table>@<chunk>.<slot>=<8 bytes hex>` for every non-empty entry of
//! every index table of every hash column and `V<table>@<slot>=<raw slot>` for the probed value
//! slots (per value table: the slots below `filled` before or after replay and every slot that
//! holds a non-zero byte in the table file before or after replay); observed
//! `last=<n> cfg=<cfg> idx=<k>:<crc32> val=<k>:<crc32> xval=0`: `Db::verif_last_enacted()`,
//! `Db::verif_table_cfg()`, the non-empty index entries after replay (undamaged control:
//! `Db::verif_dump`; damaged images: the same entries read from the index files, which
//! `dump_base` checks to be identical) and the raw content of the probed slots after replay.
//! `c13 replaylast <cfg> auto <hex ...>` with observation `last=<n> cfg=<cfg>` (or `panic` /
//! `err:<kind>`) for the fixed corpus, when open fails, and when the cells exceed 64 KiB.
//!
//! Oracle (plain Rust, independent of the Lean model): no panic, open succeeds, the content of
//! the key pool equals the `p1::Oracle` state after some prefix of the logged records of length
//! >= the number of records that were in the tables when the image was taken; the table
//! configuration after replay is the one the ACCEPTED records produce (their original
//! encodings are walked by `walk_record` / `TabCfg::apply_record`): more bits than that in some
//! column with the queue extended accordingly is the known finding F3d
//! (`REINDEX-BY-REJECTED-RECORD: ... rose ...`), any other difference is
//! `TABLE-CONFIGURATION-MISMATCH`; afterwards a further commit is accepted and the database
//! reopens with exactly that content.
//! Known finding F3b (an already applied record is not reached intact by replay): reported
//! with `t.known`, everything else with `t.oracle_fail`.
//! HOW MUCH THE KNOWN FINDINGS MASK is part of the evidence (`#STAT`): `mask.images.*` classifies
//! every opened image by (F3b-eligible, replay started behind a gap): on the first three classes
//! every non-prefix state / panicking read is attributed to F3b (harness) or carries the F3c
//! signature (`check`), only on `mask.images.none(..)` is it a violation; `verdict.*` counts the
//! oracle verdicts themselves: `verdict.nonprefix_or_read_panic` = `verdict.suppressed_by.F3b` +
//! `..F3c(gap_signature)` + the unsuppressed ones, `verdict.suppressed_by.F3d(..)` for the
//! configuration verdicts, `verdict.unsuppressed` = what `check` reports as violations.
//!
//! Case seeds below `CORPUS_SEED_LIMIT` name the fixed cases, which run first: byte patterns of
//! the panic audit and accepted / rejected controls (`corpus`), scripted scenarios of the
//! findings and of index growth (`scenarios`), crafted records with a valid checksum that crash
//! the unfixed crate inside `Db::open` (`crafted_valid`, each in a child process).
use crate::p1::{self, Kind, Op, Oracle, Tx};
use crate::util::*;
use parity_db::{CompressionType, Db, Operation};
use std::collections::{BTreeMap, VecDeque};
use std::path::{Path, PathBuf};
use std::sync::Mutex;

// ------------------------------------------------------------------------------ tunables

/// quick: every truncation offset of a log file up to this length (in sweep cases)
const QUICK_TRUNC_ALL_MAX: usize = 300;
/// quick: every single bit of a log file up to this length (in sweep cases)
const QUICK_BITS_ALL_MAX: usize = 200;
/// thorough: every truncation offset up to this length (in sweep cases)
const THOROUGH_TRUNC_ALL_MAX: usize = 65536;
/// thorough: every single bit up to this length (in sweep cases)
const THOROUGH_BITS_ALL_MAX: usize = 2048;
/// sweeps over files longer than this emit the model op only for every 16th offset and around
/// record boundaries (the oracle still judges every offset); keeps traces below a few 100 MB
const SWEEP_FULL_OPS_MAX: usize = 2048;
/// one generated case in this many is a sweep case (tiny history, exhaustive damage)
const QUICK_SWEEP_ONE_IN: u64 = 8;
const THOROUGH_SWEEP_ONE_IN: u64 = 4;
/// thorough only: one non-tiny case in this many is swept as well
const THOROUGH_BIG_SWEEP_ONE_IN: u64 = 10;
/// case seeds below this are the fixed cases
const CORPUS_SEED_LIMIT: u64 = 1000;

// ------------------------------------------------------------------------------ determinism

// `LogChange::flush_to_file` walks `HashMap`s keyed by table id, so the order of the actions
// inside a log record depends on the per-thread `RandomState` keys, which std draws with
// `getrandom` through a weak symbol ("allows interposition ... to disable randomness for
// consistency").  Every case runs in a thread of its own with these keys derived from the
// case seed: the log bytes of a case, hence `--case-seed` replays, are exact.  While no case
// is armed the call is forwarded to the kernel unchanged.
static DET_SEED: std::sync::atomic::AtomicU64 = std::sync::atomic::AtomicU64::new(0);
static DET_CTR: std::sync::atomic::AtomicU64 = std::sync::atomic::AtomicU64::new(0);

#[no_mangle]
pub unsafe extern "C" fn getrandom(buf: *mut libc::c_void, len: libc::size_t, flags: libc::c_uint) -> libc::ssize_t {
	use std::sync::atomic::Ordering::SeqCst;
	let seed = DET_SEED.load(SeqCst);
	if seed == 0 {
		return libc::syscall(libc::SYS_getrandom, buf, len, flags) as libc::ssize_t
	}
	let mut r = Rng::new(seed ^ DET_CTR.fetch_add(1, SeqCst).wrapping_mul(0xA24B_AED4_963E_E407));
	let p = buf as *mut u8;
	for i in 0..len {
		*p.add(i) = r.next() as u8;
	}
	len as libc::ssize_t
}

struct SendPtr<T>(*mut T);
unsafe impl<T> Send for SendPtr<T> {}

/// Run one case in a fresh thread whose hash keys derive from `seed`.
fn in_case_thread(
	seed: u64,
	t: &mut Trace,
	ctr: &mut Counters,
	prop: &str,
	f: impl FnOnce(&mut Trace, &mut Counters) -> bool + Send,
) -> bool {
	use std::sync::atomic::Ordering::SeqCst;
	DET_CTR.store(0, SeqCst);
	DET_SEED.store(seed.wrapping_mul(0x9E37_79B9_7F4A_7C15) | 1, SeqCst);
	let (tp, cp) = (SendPtr(t as *mut Trace), SendPtr(ctr as *mut Counters));
	let r = std::thread::scope(|s| {
		std::thread::Builder::new()
			.stack_size(16 << 20)
			.spawn_scoped(s, move || {
				let (tp, cp) = (tp, cp);
				// exclusive: the spawning thread does nothing but wait for this one
				let (t, ctr) = unsafe { (&mut *tp.0, &mut *cp.0) };
				f(t, ctr)
			})
			.unwrap()
			.join()
	});
	DET_SEED.store(0, SeqCst);
	match r {
		Ok(ok) => ok,
		Err(_) => {
			t.oracle_fail(prop, &format!("harness thread panicked outside catch_unwind: {} (case seed {})", last_panic(), seed));
			t.end_case(false);
			false
		},
	}
}

// ------------------------------------------------------------------------------ CRC-32

/// Reflected CRC-32 (poly 0xEDB88320, init / xorout 0xFFFFFFFF), bit by bit.
fn crc32(data: &[u8]) -> u32 {
	let mut c: u32 = 0xFFFF_FFFF;
	for b in data {
		c ^= *b as u32;
		for _ in 0..8 {
			c = if c & 1 == 1 { (c >> 1) ^ 0xEDB8_8320 } else { c >> 1 };
		}
	}
	!c
}

/// A complete log record: BEGIN id, the given action bytes, END, CRC of all that.
fn record(id: u64, actions: &[u8]) -> Vec<u8> {
	let mut v = vec![1u8];
	v.extend_from_slice(&id.to_le_bytes());
	v.extend_from_slice(actions);
	v.push(4);
	let c = crc32(&v);
	v.extend_from_slice(&c.to_le_bytes());
	v
}

fn act_table_index(op: u8, table: u16, index: u64) -> Vec<u8> {
	let mut v = vec![op];
	v.extend_from_slice(&table.to_le_bytes());
	v.extend_from_slice(&index.to_le_bytes());
	v
}

fn act_masked(op: u8, table: u16, chunk: u64, mask: u64, entry_bytes: usize) -> Vec<u8> {
	let mut v = act_table_index(op, table, chunk);
	v.extend_from_slice(&mask.to_le_bytes());
	for i in 0..(mask.count_ones() as usize * entry_bytes) {
		v.push((i * 7 + 1) as u8);
	}
	v
}

fn act_value(table: u16, index: u64, payload: &[u8]) -> Vec<u8> {
	let mut v = act_table_index(3, table, index);
	v.extend_from_slice(payload);
	v
}

fn act_drop(op: u8, table: u16) -> Vec<u8> {
	let mut v = vec![op];
	v.extend_from_slice(&table.to_le_bytes());
	v
}

// ------------------------------------------------------------------------------ record walker

/// One action of a log record, as far as the table configuration is concerned.
#[derive(Clone, Debug, PartialEq)]
enum Act {
	Index { table: u16 },
	Value,
	RefCount { table: u16 },
	Drop(u16),
	DropRc(u16),
}

/// Walk the encoding of ONE complete log record as the crate writes it (plain Rust, independent
/// of the Lean model): BEGIN id, actions, END, checksum.  `None` when the bytes are not exactly
/// one well-formed record (the checksum itself is not verified here).
fn walk_record(b: &[u8]) -> Option<(u64, Vec<Act>)> {
	let u16_at = |p: usize| -> Option<u16> { Some(u16::from_le_bytes(b.get(p..p + 2)?.try_into().ok()?)) };
	let u64_at = |p: usize| -> Option<u64> { Some(u64::from_le_bytes(b.get(p..p + 8)?.try_into().ok()?)) };
	if *b.first()? != 1 {
		return None
	}
	let id = u64_at(1)?;
	let mut p = 9;
	let mut acts = vec![];
	loop {
		let op = *b.get(p)?;
		p += 1;
		match op {
			2 | 6 => {
				let table = u16_at(p)?;
				let mask = u64_at(p + 10)?;
				p += 18 + mask.count_ones() as usize * if op == 2 { 8 } else { 16 };
				acts.push(if op == 2 { Act::Index { table } } else { Act::RefCount { table } });
			},
			3 => {
				let table = u16_at(p)?;
				let index = u64_at(p + 2)?;
				p += 10;
				let len = if index == 0 {
					16
				} else {
					let m = [*b.get(p)?, *b.get(p + 1)?];
					if m == [0xff, 0xff] {
						10
					} else if table & 0xff == 255 && (m == [0xfe, 0xff] || m == [0xfd, 0xff] || m == [0xfd, 0x7f]) {
						4096
					} else {
						2 + (u16::from_le_bytes(m) & 0x7fff) as usize
					}
				};
				p += len;
				acts.push(Act::Value);
			},
			5 | 7 => {
				let table = u16_at(p)?;
				p += 2;
				acts.push(if op == 5 { Act::Drop(table) } else { Act::DropRc(table) });
			},
			4 => return if p + 4 == b.len() { Some((id, acts)) } else { None },
			_ => return None,
		}
	}
}

// ------------------------------------------------------------------------------ table configuration

/// One column of the `<cfg>` string (`Db::verif_table_cfg`, `Spec::model_cfg`).
#[derive(Clone, PartialEq, Debug)]
struct ColT {
	btree: bool,
	idx: u32,
	rc: Option<u32>,
	/// reindex queue, front first: ('i' | 'r', bits)
	queue: Vec<(char, u32)>,
}

#[derive(Clone, PartialEq, Debug)]
struct TabCfg {
	v4: String,
	cols: Vec<ColT>,
}

/// `MAX_INDEX_BITS` of the crate: a table id with more bits is rejected, not created.
const MAX_INDEX_BITS: u32 = 49;

impl TabCfg {
	fn parse(s: &str) -> Option<TabCfg> {
		let mut it = s.split('/');
		let v4 = it.next()?.to_string();
		let mut cols = vec![];
		for c in it {
			if c == "b" {
				cols.push(ColT { btree: true, idx: 0, rc: None, queue: vec![] });
				continue
			}
			let f: Vec<&str> = c.split(',').collect();
			if f.len() != 4 || f[0] != "h" {
				return None
			}
			let mut queue = vec![];
			for q in f[3].split('.').filter(|q| !q.is_empty()) {
				let k = q.chars().next()?;
				if k != 'i' && k != 'r' {
					return None
				}
				queue.push((k, q[1..].parse().ok()?));
			}
			cols.push(ColT {
				btree: false,
				idx: f[1].parse().ok()?,
				rc: if f[2] == "-" { None } else { Some(f[2].parse().ok()?) },
				queue,
			});
		}
		Some(TabCfg { v4, cols })
	}
	fn render(&self) -> String {
		let mut s = self.v4.clone();
		for c in &self.cols {
			if c.btree {
				s.push_str("/b");
			} else {
				s.push_str(&format!(
					"/h,{},{},{}",
					c.idx,
					c.rc.map_or("-".to_string(), |b| b.to_string()),
					c.queue.iter().map(|(k, b)| format!("{}{}", k, b)).collect::<Vec<_>>().join(".")
				));
			}
		}
		s
	}
	/// What ONE accepted record does to the configuration, in the crate's order: the whole
	/// record is validated first (an insert that names a table with more bits than the current
	/// one starts a reindex: the current table and every size in between is queued), then it is
	/// applied (a drop removes the queue front if it is that table, else nothing).
	fn apply_record(&mut self, acts: &[Act]) {
		for a in acts {
			let (table, is_index) = match a {
				Act::Index { table } => (*table, true),
				Act::RefCount { table } => (*table, false),
				_ => continue,
			};
			let (c, bits) = ((table >> 8) as usize, (table & 0xff) as u32);
			let col = match self.cols.get_mut(c) {
				Some(col) if !col.btree => col,
				_ => continue,
			};
			if bits > MAX_INDEX_BITS {
				continue
			}
			if is_index {
				while col.idx < bits {
					col.queue.push(('i', col.idx));
					col.idx += 1;
				}
			} else if let Some(rc) = col.rc.as_mut() {
				while *rc < bits {
					col.queue.push(('r', *rc));
					*rc += 1;
				}
			}
		}
		for a in acts {
			let (table, kind) = match a {
				Act::Drop(t) => (*t, 'i'),
				Act::DropRc(t) => (*t, 'r'),
				_ => continue,
			};
			let (c, bits) = ((table >> 8) as usize, (table & 0xff) as u32);
			if let Some(col) = self.cols.get_mut(c) {
				if !col.btree && col.queue.first() == Some(&(kind, bits)) {
					col.queue.remove(0);
				}
			}
		}
	}
}

/// A table (index or ref-count) of one column that has more bits than expected.
struct Rose {
	col: usize,
	what: &'static str,
	from: u32,
	to: u32,
}

enum CfgVerdict {
	Equal,
	/// the only difference: tables with MORE bits than the accepted records explain, the queue
	/// extended by exactly the sizes in between (a rejected record started a reindex)
	Rose(Vec<Rose>),
	Mismatch,
}

fn cfg_verdict(expected: &TabCfg, observed: &TabCfg) -> CfgVerdict {
	if expected == observed {
		return CfgVerdict::Equal
	}
	if expected.v4 != observed.v4 || expected.cols.len() != observed.cols.len() {
		return CfgVerdict::Mismatch
	}
	let mut rose = vec![];
	for (c, (e, o)) in expected.cols.iter().zip(observed.cols.iter()).enumerate() {
		if e == o {
			continue
		}
		if e.btree || o.btree || o.idx < e.idx || e.rc.is_some() != o.rc.is_some() || o.rc < e.rc {
			return CfgVerdict::Mismatch
		}
		// the queue entries a reindex from the expected to the observed size adds
		let extra_i: Vec<(char, u32)> = (e.idx..o.idx).map(|b| ('i', b)).collect();
		let extra_r: Vec<(char, u32)> = match (e.rc, o.rc) {
			(Some(x), Some(y)) => (x..y).map(|b| ('r', b)).collect(),
			_ => vec![],
		};
		let is_extra = |q: &(char, u32)| extra_i.contains(q) || extra_r.contains(q);
		let rest: Vec<(char, u32)> = o.queue.iter().filter(|q| !is_extra(q)).cloned().collect();
		let got_i: Vec<(char, u32)> = o.queue.iter().filter(|q| extra_i.contains(q)).cloned().collect();
		let got_r: Vec<(char, u32)> = o.queue.iter().filter(|q| extra_r.contains(q)).cloned().collect();
		if rest != e.queue || got_i != extra_i || got_r != extra_r {
			return CfgVerdict::Mismatch
		}
		if o.idx > e.idx {
			rose.push(Rose { col: c, what: "index", from: e.idx, to: o.idx });
		}
		if let (Some(x), Some(y)) = (e.rc, o.rc) {
			if y > x {
				rose.push(Rose { col: c, what: "ref-count", from: x, to: y });
			}
		}
	}
	if rose.is_empty() {
		CfgVerdict::Mismatch
	} else {
		CfgVerdict::Rose(rose)
	}
}

// ------------------------------------------------------------------------------ configuration

#[derive(Clone, Copy, PartialEq, Eq, Debug)]
enum CK {
	Plain,
	Rc,
	Btree,
	/// multitree column (has a ref-count table); no operations are issued on it
	Multi,
}

#[derive(Clone)]
struct Spec {
	cols: Vec<CK>,
	p1: p1::Cfg,
}

impl Spec {
	fn new(cols: Vec<CK>, compression: Vec<CompressionType>, salt: [u8; 32]) -> Spec {
		let pc = cols
			.iter()
			.zip(compression.iter())
			.map(|(c, z)| p1::ColCfg {
				kind: if *c == CK::Rc { Kind::Rc } else { Kind::Plain },
				uniform: false,
				btree: *c == CK::Btree,
				compression: if *c == CK::Multi { CompressionType::NoCompression } else { *z },
			})
			.collect();
		Spec { cols, p1: p1::Cfg { cols: pc, salt, threshold: None, sync: true } }
	}
	fn plain(cols: Vec<CK>) -> Spec {
		let n = cols.len();
		Spec::new(cols, vec![CompressionType::NoCompression; n], [7u8; 32])
	}
	fn options(&self, path: &Path) -> parity_db::Options {
		let mut o = self.p1.options(path);
		for (i, c) in self.cols.iter().enumerate() {
			if *c == CK::Multi {
				o.columns[i].multitree = true;
			}
		}
		o
	}
	fn describe(&self) -> String {
		self.cols
			.iter()
			.zip(self.p1.cols.iter())
			.map(|(c, p)| {
				format!(
					"{}{}{}",
					match c {
						CK::Plain => "plain",
						CK::Rc => "rc",
						CK::Btree => "btree",
						CK::Multi => "multitree",
					},
					if p.uniform { "+uniform" } else { "" },
					match p.compression {
						CompressionType::NoCompression => "",
						CompressionType::Lz4 => "+lz4",
						CompressionType::Snappy => "+snappy",
					}
				)
			})
			.collect::<Vec<_>>()
			.join(",")
	}
	/// The `<cfg>` argument of the model: what `Column::open` will find in `dir`
	/// (db version 8 -> v4 = 0; index / ref-count tables by their files, 16 bits when none).
	fn model_cfg(&self, dir: &Path) -> String {
		let names = dir_names(dir);
		let bits_of = |prefix: &str| -> Vec<u32> {
			let mut v: Vec<u32> =
				names.iter().filter(|n| n.starts_with(prefix)).filter_map(|n| n[prefix.len()..].parse().ok()).collect();
			v.sort();
			v
		};
		let mut s = String::from("0");
		for (c, k) in self.cols.iter().enumerate() {
			if *k == CK::Btree {
				s.push_str("/b");
				continue
			}
			let ib = bits_of(&format!("index_{:02}_", c));
			let cur = ib.last().copied().unwrap_or(16);
			let mut queue: Vec<String> = vec![];
			let rc = if *k == CK::Multi {
				let rb = bits_of(&format!("refcount_{:02}_", c));
				// open_ref_count pushes the stale ref-count tables in front of the stale indexes
				for b in rb.iter().take(rb.len().saturating_sub(1)) {
					queue.push(format!("r{}", b));
				}
				rb.last().copied().unwrap_or(16).to_string()
			} else {
				"-".to_string()
			};
			for b in ib.iter().take(ib.len().saturating_sub(1)) {
				queue.push(format!("i{}", b));
			}
			s.push_str(&format!("/h,{},{},{}", cur, rc, queue.join(".")));
		}
		s
	}
}

fn dir_names(dir: &Path) -> Vec<String> {
	std::fs::read_dir(dir)
		.unwrap()
		.map(|e| e.unwrap())
		.filter(|e| e.file_type().unwrap().is_file())
		.map(|e| e.file_name().to_string_lossy().to_string())
		.collect()
}

/// `Log::open` considers files named `log<u32>`.
fn log_number(name: &str) -> Option<u32> {
	if name.starts_with("log") {
		name[3..].parse().ok()
	} else {
		None
	}
}

/// Log files in directory-listing order (the order `Log::open` sees).
fn list_logs(dir: &Path) -> Vec<(String, Vec<u8>)> {
	dir_names(dir)
		.into_iter()
		.filter(|n| log_number(n).is_some())
		.map(|n| {
			let b = std::fs::read(dir.join(&n)).unwrap();
			(n, b)
		})
		.collect()
}

/// Copy a file preserving holes, visiting only the data extents (index files are 33 MB sparse).
fn copy_extents(from: &Path, to: &Path) {
	use std::os::unix::fs::FileExt;
	use std::os::unix::io::AsRawFd;
	let f = std::fs::File::open(from).unwrap();
	let len = f.metadata().unwrap().len();
	let t = std::fs::File::create(to).unwrap();
	if len == 0 {
		return
	}
	t.set_len(len).unwrap();
	let fd = f.as_raw_fd();
	let mut buf = vec![0u8; 1 << 16];
	let mut off: i64 = 0;
	while (off as u64) < len {
		let d = unsafe { libc::lseek(fd, off, libc::SEEK_DATA) };
		if d < 0 {
			break
		}
		let h = unsafe { libc::lseek(fd, d, libc::SEEK_HOLE) };
		let h = if h < 0 { len as i64 } else { h };
		let mut p = d as u64;
		while p < h as u64 {
			let n = std::cmp::min(buf.len() as u64, h as u64 - p) as usize;
			f.read_exact_at(&mut buf[..n], p).unwrap();
			if buf[..n].iter().any(|b| *b != 0) {
				t.write_all_at(&buf[..n], p).unwrap();
			}
			p += n as u64;
		}
		off = h;
	}
}

/// Copy every regular file except log files (the `lock` file is copied: an unlocked lock file
/// keeps the directory unchanged between our listing and the one of `Log::open`).
fn copy_tables(from: &Path, to: &Path) {
	let _ = std::fs::remove_dir_all(to);
	std::fs::create_dir_all(to).unwrap();
	for n in dir_names(from) {
		if log_number(&n).is_none() {
			copy_extents(&from.join(&n), &to.join(&n));
		}
	}
}

// ------------------------------------------------------------------------------ table contents

/// (index table id = col << 8 | bits, chunk, slot in the chunk, raw entry), non-empty entries.
type IdxEntry = (u16, u64, u8, u64);

/// the cell list of one `replaytab` op stays below this many characters
const TAB_CELLS_MAX: usize = 64 * 1024;
/// `verif_dump` walks every chunk of a table: only for tables up to this size
const HOOK_DUMP_MAX_BITS: u8 = 18;

fn hash_cols(spec: &Spec) -> Vec<u8> {
	(0..spec.cols.len()).filter(|c| spec.cols[*c] != CK::Btree).map(|c| c as u8).collect()
}

/// Index entries through the hook `Db::verif_dump`: every index table of every hash column
/// (current table and reindex queue), sorted by (table id, chunk, slot).
fn index_entries_hook(db: &Db, spec: &Spec) -> Result<Vec<IdxEntry>, String> {
	let mut out = vec![];
	for c in hash_cols(spec) {
		let d = db.verif_dump(c, false).map_err(|e| format!("verif_dump({}): {:?}", c, e))?;
		for (bits, entries) in d.index {
			let id = ((c as u16) << 8) | bits as u16;
			out.extend(entries.into_iter().map(|(chunk, slot, raw)| (id, chunk, slot, raw)));
		}
	}
	out.sort();
	Ok(out)
}

/// The same entries read from the index files of `dir` (only the data extents are visited; a
/// table that never got a file is empty); which tables exist is asked from the handle.  Index
/// file layout: 16 KiB of metadata, then chunks of 64 entries of 8 bytes.
fn index_entries_files(db: &Db, dir: &Path, spec: &Spec) -> Result<Vec<IdxEntry>, String> {
	use std::os::unix::fs::FileExt;
	use std::os::unix::io::AsRawFd;
	const META: u64 = 16 * 1024;
	let mut out = vec![];
	for c in hash_cols(spec) {
		let (cur, queued) = db.verif_index_tables(c).ok_or_else(|| format!("column {} has no index", c))?;
		for bits in std::iter::once(cur).chain(queued.into_iter()) {
			let id = ((c as u16) << 8) | bits as u16;
			let f = match std::fs::File::open(dir.join(format!("index_{:02}_{}", c, bits))) {
				Ok(f) => f,
				Err(_) => continue,
			};
			let len = f.metadata().map_err(|e| e.to_string())?.len();
			let fd = f.as_raw_fd();
			let mut buf = vec![0u8; 1 << 16];
			let mut off = META as i64;
			while (off as u64) < len {
				let d = unsafe { libc::lseek(fd, off, libc::SEEK_DATA) };
				if d < 0 {
					break
				}
				let h = unsafe { libc::lseek(fd, d, libc::SEEK_HOLE) };
				let h = if h < 0 { len } else { h as u64 };
				let mut p = (d as u64) & !7;
				while p < h {
					let n = std::cmp::min(buf.len() as u64, h - p) as usize & !7;
					if n == 0 {
						break
					}
					f.read_exact_at(&mut buf[..n], p).map_err(|e| e.to_string())?;
					for (i, w) in buf[..n].chunks_exact(8).enumerate() {
						let raw = u64::from_le_bytes(w.try_into().unwrap());
						if raw != 0 {
							let e = (p - META) / 8 + i as u64;
							out.push((id, e / 64, (e % 64) as u8, raw));
						}
					}
					p += n as u64;
				}
				off = h as i64;
			}
		}
	}
	out.sort();
	Ok(out)
}

fn idx_text(e: &IdxEntry) -> String {
	format!("{}@{}.{}={}", e.0, e.1, e.2, hex(&e.3.to_le_bytes()))
}

/// `(tier, entry size, filled)` of the value tables of every column that were ever written.
fn value_tables(db: &Db, spec: &Spec) -> Result<BTreeMap<(u8, u8), (u16, u64)>, String> {
	let mut m = BTreeMap::new();
	for c in 0..spec.cols.len() as u8 {
		for (tier, es, filled, _, _) in db.verif_table_state(c).map_err(|e| format!("verif_table_state({}): {:?}", c, e))? {
			m.insert((c, tier), (es, filled));
		}
	}
	Ok(m)
}

fn table_file(dir: &Path, col: u8, tier: u8) -> PathBuf {
	dir.join(format!("table_{:02}_{:02x}", col, tier))
}

fn table_file_len(dir: &Path, col: u8, tier: u8) -> u64 {
	std::fs::metadata(table_file(dir, col, tier)).map(|m| m.len()).unwrap_or(0)
}

/// Raw slot through the hook `Db::verif_table_entry`; a table without file, or a slot beyond
/// the end of the file, reads as zeros.
fn slot_now(db: &Db, dir: &Path, col: u8, tier: u8, es: u16, slot: u64) -> Result<Vec<u8>, String> {
	if (slot + 1) * es as u64 > table_file_len(dir, col, tier) {
		return Ok(vec![0u8; es as usize])
	}
	let v = db.verif_table_entry(col, tier, slot).map_err(|e| format!("verif_table_entry: {:?}", e))?;
	Ok(if v.is_empty() { vec![0u8; es as usize] } else { v })
}

/// Value table files of a directory: (col, tier) from the names `table_<col>_<tier in hex>`.
fn table_files(dir: &Path) -> Vec<(u8, u8)> {
	let mut v: Vec<(u8, u8)> = dir_names(dir)
		.iter()
		.filter(|n| n.len() == 11 && n.starts_with("table_") && n.as_bytes()[8] == b'_')
		.filter_map(|n| Some((n[6..8].parse().ok()?, u8::from_str_radix(&n[9..11], 16).ok()?)))
		.collect();
	v.sort();
	v
}

/// Entry size of a value table tier (`column::SIZES`, 4096 for the multipart tier 255).
fn entry_size_of(tier: u8) -> u16 {
	parity_db::verif::entry_sizes().get(tier as usize).copied().unwrap_or(4096)
}

/// The slots of a value table file that hold a non-zero byte (only data extents are read).  A
/// record replayed behind a gap can write slots of a table whose header it does not write
/// (`filled` stays 0): such slots are found here.
fn nonzero_slots(dir: &Path, col: u8, tier: u8, es: u16) -> std::collections::BTreeSet<u64> {
	use std::os::unix::fs::FileExt;
	use std::os::unix::io::AsRawFd;
	let mut out = std::collections::BTreeSet::new();
	let f = match std::fs::File::open(table_file(dir, col, tier)) {
		Ok(f) => f,
		Err(_) => return out,
	};
	let len = f.metadata().map(|m| m.len()).unwrap_or(0);
	let fd = f.as_raw_fd();
	let mut buf = vec![0u8; 1 << 16];
	let mut off: i64 = 0;
	while (off as u64) < len {
		let d = unsafe { libc::lseek(fd, off, libc::SEEK_DATA) };
		if d < 0 {
			break
		}
		let h = unsafe { libc::lseek(fd, d, libc::SEEK_HOLE) };
		let h = if h < 0 { len } else { h as u64 };
		let mut p = d as u64;
		while p < h {
			let n = std::cmp::min(buf.len() as u64, h - p) as usize;
			if f.read_exact_at(&mut buf[..n], p).is_err() {
				return out
			}
			for (i, b) in buf[..n].iter().enumerate() {
				if *b != 0 {
					out.insert((p + i as u64) / es as u64);
				}
			}
			p += n as u64;
		}
		off = h as i64;
	}
	out
}

/// Content of the tables of an image before replay (no log file).
struct BaseTabs {
	idx: Vec<IdxEntry>,
	/// (col, tier) -> (entry size, filled)
	tabs: BTreeMap<(u8, u8), (u16, u64)>,
	/// the slots below `filled`
	slots: BTreeMap<(u8, u8, u64), Vec<u8>>,
	/// per table file of the image: the slots with a non-zero byte
	nonzero: BTreeMap<(u8, u8), std::collections::BTreeSet<u64>>,
}

/// Open a scratch copy of the image's tables without any log file and dump it through the
/// hooks.  The index is also read from the files, which must give the same entries (the
/// damaged images of sweeps are observed that way).
fn dump_base(spec: &Spec, base: &Path, scratch: &Path) -> Result<BaseTabs, String> {
	copy_tables(base, scratch);
	let opts = spec.options(scratch);
	let r = std::panic::catch_unwind(std::panic::AssertUnwindSafe(|| -> Result<BaseTabs, String> {
		let db = Db::open(&opts).map_err(|e| format!("open of the tables without log: {:?}", e))?;
		let idx = index_entries_hook(&db, spec)?;
		let scanned = index_entries_files(&db, scratch, spec)?;
		if idx != scanned {
			return Err(format!("index read from the files ({} entries) differs from verif_dump ({} entries)", scanned.len(), idx.len()))
		}
		let tabs = value_tables(&db, spec)?;
		let mut slots = BTreeMap::new();
		for ((c, tier), (es, filled)) in &tabs {
			for i in 0..*filled {
				slots.insert((*c, *tier, i), slot_now(&db, scratch, *c, *tier, *es, i)?);
			}
		}
		drop(db);
		let nonzero = table_files(base).into_iter().map(|(c, tier)| ((c, tier), nonzero_slots(base, c, tier, entry_size_of(tier)))).collect();
		Ok(BaseTabs { idx, tabs, slots, nonzero })
	}));
	let _ = std::fs::remove_dir_all(scratch);
	match r {
		Ok(x) => x,
		Err(_) => Err(format!("dump of the tables without log panicked: {}", last_panic())),
	}
}

/// Slot of the base image that lies at or above `filled` (not dumped): straight from the file.
fn base_slot_from_file(base: &Path, col: u8, tier: u8, es: u16, slot: u64) -> Vec<u8> {
	use std::os::unix::fs::FileExt;
	let mut v = vec![0u8; es as usize];
	if (slot + 1) * es as u64 <= table_file_len(base, col, tier) {
		if let Ok(f) = std::fs::File::open(table_file(base, col, tier)) {
			let _ = f.read_exact_at(&mut v, slot * es as u64);
		}
	}
	v
}

/// The cell list and the observation of a `replaytab` op: `(cells, "idx=.. val=.. xval=0")`.
/// `Err(reason)`: this image is reported with `replaylast` instead.
fn tab_observation(img: &Image, work: &Path, db: &Db, from_files: bool) -> Result<(String, String, bool), &'static str> {
	let base = img.tabs.as_ref().ok_or("no-base-dump")?;
	let big =hash_cols(&img.spec).iter().any(|c| {
		db.verif_index_tables(*c).map_or(true, |(cur, q)| cur > HOOK_DUMP_MAX_BITS || q.iter().any(|b| *b > HOOK_DUMP_MAX_BITS))
	});
	let idx = if from_files || big { index_entries_files(db, work, &img.spec) } else { index_entries_hook(db, &img.spec) }
		.map_err(|_| "index-dump-failed")?;
	let after = value_tables(db, &img.spec).map_err(|_| "table-state-failed")?;
	let mut cells = String::new();
	let mut unlisted = false;
	for e in &base.idx {
		cells.push_str(" I");
		cells.push_str(&idx_text(e));
		if cells.len() > TAB_CELLS_MAX {
			return Err("cells-above-64KiB")
		}
	}
	// probes: per value table that is listed by `verif_table_state` before or after, or has a
	// file before or after: the slots below `filled` (before / after) and every slot that holds
	// a non-zero byte in the file (before / after)
	let mut tables: Vec<(u8, u8)> =
		base.tabs.keys().chain(after.keys()).chain(base.nonzero.keys()).cloned().chain(table_files(work).into_iter()).collect();
	tables.sort();
	tables.dedup();
	let mut now: Vec<u8> = vec![];
	let mut probes = 0usize;
	for (c, tier) in tables {
		let es = base.tabs.get(&(c, tier)).or(after.get(&(c, tier))).map_or(entry_size_of(tier), |x| x.0);
		let fb = base.tabs.get(&(c, tier)).map_or(0, |x| x.1);
		let fa = after.get(&(c, tier)).map_or(0, |x| x.1);
		let id = ((c as u16) << 8) | tier as u16;
		let n = std::cmp::max(fb, fa);
		if n.saturating_mul(2 * es as u64) > TAB_CELLS_MAX as u64 {
			return Err("cells-above-64KiB")
		}
		let mut slots: std::collections::BTreeSet<u64> = (0..n).collect();
		if let Some(nz) = base.nonzero.get(&(c, tier)) {
			slots.extend(nz.iter());
		}
		let nz_now = nonzero_slots(work, c, tier, es);
		if nz_now.iter().any(|s| *s >= n) {
			unlisted = true;
		}
		slots.extend(nz_now.into_iter());
		for slot in slots {
			let before = match base.slots.get(&(c, tier, slot)) {
				Some(v) => v.clone(),
				None => base_slot_from_file(&img.base, c, tier, es, slot),
			};
			cells.push_str(&format!(" V{}@{}={}", id, slot, hex(&before)));
			if cells.len() > TAB_CELLS_MAX {
				return Err("cells-above-64KiB")
			}
			now.extend_from_slice(&slot_now(db, work, c, tier, es, slot).map_err(|_| "slot-read-failed")?);
			probes += 1;
		}
	}
	let mut text = String::new();
	for e in &idx {
		text.push_str(&idx_text(e));
		text.push(';');
	}
	Ok((cells, format!("idx={}:{:x} val={}:{:x} xval=0", idx.len(), crc32(text.as_bytes()), probes, crc32(&now)), unlisted))
}

// ------------------------------------------------------------------------------ image builder

#[derive(Clone, Debug)]
struct Span {
	id: u64,
	start: usize,
	end: usize,
}

#[derive(Clone)]
struct LogFile {
	name: String,
	bytes: Vec<u8>,
	spans: Vec<Span>,
}

#[derive(Clone)]
struct StaleLog {
	bytes: Vec<u8>,
	spans: Vec<Span>,
}

/// The real database driven step by step, with the bookkeeping of which record lies where.
struct Builder {
	dir: PathBuf,
	db: Option<Db>,
	spans: BTreeMap<String, Vec<Span>>,
	appending: Option<String>,
	unread: VecDeque<String>,
	dirty: Vec<String>,
	/// records logged (= last record id): transactions and reindex records
	n: usize,
	/// records applied to the tables (= last enacted record id)
	a: usize,
	stale: Vec<StaleLog>,
}

impl Builder {
	fn create(spec: &Spec, dir: PathBuf) -> Result<Builder, String> {
		let db = Db::open_or_create(&spec.options(&dir)).map_err(|e| format!("create: {:?}", e))?;
		Ok(Builder {
			dir,
			db: Some(db),
			spans: Default::default(),
			appending: None,
			unread: Default::default(),
			dirty: vec![],
			n: 0,
			a: 0,
			stale: vec![],
		})
	}
	fn log_sizes(&self) -> BTreeMap<String, u64> {
		let mut m = BTreeMap::new();
		for n in dir_names(&self.dir) {
			if log_number(&n).is_some() {
				m.insert(n.clone(), std::fs::metadata(self.dir.join(&n)).unwrap().len());
			}
		}
		m
	}
	fn db(&self) -> &Db {
		self.db.as_ref().unwrap()
	}
	/// The log record `n+1` that the call between the two size snapshots appended (if any).
	fn note_record(&mut self, before: &BTreeMap<String, u64>, must: bool) -> Result<bool, String> {
		let after = self.log_sizes();
		let grown: Vec<(&String, u64, u64)> = after
			.iter()
			.map(|(k, v)| (k, *before.get(k).unwrap_or(&0), *v))
			.filter(|(_, b, a)| a > b)
			.collect();
		if grown.is_empty() && !must {
			return Ok(false)
		}
		if grown.len() != 1 {
			return Err(format!("expected one log file to grow, got {:?}", grown))
		}
		let (name, b, a) = (grown[0].0.clone(), grown[0].1 as usize, grown[0].2 as usize);
		match &self.appending {
			Some(x) if *x != name => return Err(format!("record went to {} while {} is appending", name, x)),
			_ => self.appending = Some(name.clone()),
		}
		let id = self.n as u64 + 1;
		let bytes = std::fs::read(self.dir.join(&name)).unwrap();
		if bytes[b] != 1 || bytes[b + 1..b + 9] != id.to_le_bytes() {
			return Err(format!("record at {}:{} is not BEGIN {}", name, b, id))
		}
		match walk_record(&bytes[b..a]) {
			Some((i, _)) if i == id => {},
			_ => return Err(format!("record {} at {}:{}..{} is not one well-formed record", id, name, b, a)),
		}
		self.spans.entry(name).or_default().push(Span { id, start: b, end: a });
		self.n += 1;
		Ok(true)
	}
	/// commit + process: the transaction becomes log record `n+1`
	fn commit(&mut self, tx: Vec<(u8, Operation<Vec<u8>, Vec<u8>>)>) -> Result<(), String> {
		let before = self.log_sizes();
		self.db().commit_changes(tx).map_err(|e| format!("commit: {:?}", e))?;
		self.db().process_commits().map_err(|e| format!("process: {:?}", e))?;
		self.note_record(&before, true).map(|_| ())
	}
	/// `process_reindex`: once the record that made an index grow is enacted, this appends a
	/// record `n+1` that is not a transaction (a batch of moved index entries and / or the
	/// DROP_TABLE of the old table).  Returns whether a record was written.
	fn reindex(&mut self) -> Result<bool, String> {
		let before = self.log_sizes();
		self.db().process_reindex().map_err(|e| format!("reindex: {:?}", e))?;
		self.note_record(&before, false)
	}
	/// bytes of record `id` while its log file is not reclaimed
	fn record_bytes(&self, id: u64) -> Option<Vec<u8>> {
		for (name, spans) in &self.spans {
			if let Some(s) = spans.iter().find(|s| s.id == id) {
				let b = std::fs::read(self.dir.join(name)).ok()?;
				return b.get(s.start..s.end).map(|x| x.to_vec())
			}
		}
		None
	}
	fn flush(&mut self) -> Result<(), String> {
		if let Some(nm) = self.appending.take() {
			self.db().flush_logs().map_err(|e| format!("flush: {:?}", e))?;
			self.unread.push_back(nm);
		}
		Ok(())
	}
	/// enact one flushed log file; it stays on disk (dirty) until `clean`
	fn enact(&mut self) -> Result<bool, String> {
		if self.unread.is_empty() || self.dirty.len() >= 3 {
			return Ok(false)
		}
		self.db().enact_logs().map_err(|e| format!("enact: {:?}", e))?;
		let f = self.unread.pop_front().unwrap();
		self.a = self.spans[&f].last().unwrap().id as usize;
		self.dirty.push(f);
		Ok(true)
	}
	fn clean(&mut self) -> Result<bool, String> {
		if self.dirty.is_empty() {
			return Ok(false)
		}
		for f in &self.dirty {
			self.stale.push(StaleLog { bytes: std::fs::read(self.dir.join(f)).unwrap(), spans: self.spans[f].clone() });
		}
		self.db().clean_logs().map_err(|e| format!("clean: {:?}", e))?;
		for f in self.dirty.drain(..) {
			let l = std::fs::metadata(self.dir.join(&f)).map(|m| m.len()).unwrap_or(0);
			if l != 0 {
				return Err(format!("{} not reclaimed by clean_logs (len {})", f, l))
			}
			self.spans.insert(f, vec![]);
		}
		Ok(true)
	}
}

/// Everything a damaged run needs to know about the undamaged image.
struct Image {
	spec: Spec,
	base: PathBuf,
	cfg: String,
	logs: Vec<LogFile>,
	/// oracle state after each log record (index = number of records; a reindex record repeats
	/// the state of the record before it)
	states: Vec<Oracle>,
	keys: Vec<Vec<Vec<u8>>>,
	/// records logged / records applied to the tables when the image was taken
	n: usize,
	a: usize,
	stale: Vec<StaleLog>,
	extra_col: u8,
	/// key of the further commit after recovery
	extra_key: Vec<u8>,
	/// original encoding of every record ever logged (id -> bytes)
	records: BTreeMap<u64, Vec<u8>>,
	/// content of the tables before replay (`None`: fixed corpus, or the dump failed)
	tabs: Option<BaseTabs>,
}

/// The key of the further commit: 32 bytes on a uniform column (identity hash), in an index
/// chunk of its own.
fn extra_key_for(spec: &Spec, col: u8, keys: &[Vec<Vec<u8>>]) -> Vec<u8> {
	if spec.p1.cols[col as usize].uniform {
		let mut k = vec![0xEEu8; 32];
		if let Some(f) = keys[col as usize].first() {
			k[0] = !f[0];
		}
		k
	} else {
		b"c13 extra key".to_vec()
	}
}

/// Freeze the directory of a running builder into an image (tables copied, logs read).
fn take_image(
	mut b: Builder,
	spec: Spec,
	states: Vec<Oracle>,
	keys: Vec<Vec<Vec<u8>>>,
	root: &Path,
	tag: &str,
	ctr: &mut Counters,
) -> Result<Image, String> {
	let base = fresh_dir(root, &format!("c13-{}-base", tag));
	copy_tables(&b.dir, &base);
	let mut logs = vec![];
	for (name, bytes) in list_logs(&b.dir) {
		let spans = b.spans.get(&name).cloned().unwrap_or_default();
		if let Some(s) = spans.last() {
			if s.end != bytes.len() {
				return Err(format!("span bookkeeping: {} has {} bytes, last record ends at {}", name, bytes.len(), s.end))
			}
		} else if !bytes.is_empty() {
			return Err(format!("span bookkeeping: {} has {} bytes and no known record", name, bytes.len()))
		}
		logs.push(LogFile { name, bytes, spans });
	}
	let (n, a) = (b.n, b.a);
	ctr.inc(&format!("image.log_files_with_records.{}", logs.iter().filter(|l| !l.spans.is_empty()).count()));
	ctr.inc(&format!("image.empty_pool_files.{}", std::cmp::min(3, logs.iter().filter(|l| l.bytes.is_empty()).count())));
	ctr.add("image.records", n as u64);
	ctr.add("image.enacted_at_image", a as u64);
	ctr.add("image.log_bytes", logs.iter().map(|l| l.bytes.len() as u64).sum());
	let applied_unreclaimed = logs.iter().flat_map(|l| l.spans.iter()).filter(|s| s.id <= a as u64).count();
	ctr.inc(if applied_unreclaimed > 0 { "image.has_applied_unreclaimed_records" } else { "image.no_applied_unreclaimed_records" });
	if !b.stale.is_empty() {
		ctr.inc("image.has_earlier_generation_log");
	}
	let stale = b.stale.clone();
	let mut records: BTreeMap<u64, Vec<u8>> = BTreeMap::new();
	for st in &stale {
		for s in &st.spans {
			records.insert(s.id, st.bytes[s.start..s.end].to_vec());
		}
	}
	for l in &logs {
		for s in &l.spans {
			records.insert(s.id, l.bytes[s.start..s.end].to_vec());
		}
	}
	// let the source handle finish in its own directory, then discard it
	if b.dirty.len() >= 3 {
		let _ = b.clean();
	}
	drop(b.db.take());
	let _ = std::fs::remove_dir_all(&b.dir);
	let cfg = spec.model_cfg(&base);
	let extra_col = spec.cols.iter().position(|c| *c != CK::Multi).unwrap() as u8;
	let extra_key = extra_key_for(&spec, extra_col, &keys);
	if states.len() != n + 1 {
		return Err(format!("state bookkeeping: {} records, {} oracle states", n, states.len()))
	}
	let tabs = match dump_base(&spec, &base, &fresh_dir(root, &format!("c13-{}-dump", tag))) {
		Ok(x) => {
			ctr.inc("image.base_dump.ok");
			ctr.add("image.base_dump.index_entries", x.idx.len() as u64);
			ctr.add("image.base_dump.value_slots", x.slots.len() as u64);
			Some(x)
		},
		Err(e) => return Err(format!("base dump: {}", e)),
	};
	Ok(Image { spec, base, cfg, logs, states, keys, n, a, stale, extra_col, extra_key, records, tabs })
}

// ------------------------------------------------------------------------------ damages

struct Damage {
	kind: &'static str,
	desc: String,
	files: Vec<(String, Vec<u8>)>,
	/// smallest id of a record whose bytes the damage touches (added stale file: the records
	/// it carries); statistics only, the classification uses `first_broken_applied`
	touched: Option<u64>,
	followup: bool,
	emit_op: bool,
}

impl Damage {
	fn new(kind: &'static str, desc: String, files: Vec<(String, Vec<u8>)>, touched: Option<u64>) -> Damage {
		Damage { kind, desc, files, touched, followup: true, emit_op: true }
	}
}

fn touch(lf: &LogFile, lo: usize, hi: usize) -> Option<u64> {
	lf.spans.iter().filter(|s| s.start < hi && s.end > lo).map(|s| s.id).min()
}

fn min_opt(a: Option<u64>, b: Option<u64>) -> Option<u64> {
	match (a, b) {
		(Some(x), Some(y)) => Some(x.min(y)),
		(x, None) => x,
		(None, y) => y,
	}
}

fn plain_files(img: &Image) -> Vec<(String, Vec<u8>)> {
	img.logs.iter().map(|l| (l.name.clone(), l.bytes.clone())).collect()
}

fn fresh_log_name(img: &Image, rng: &mut Rng) -> String {
	let mx = img.logs.iter().filter_map(|l| log_number(&l.name)).max().unwrap_or(0);
	format!("log{}", mx + 1 + rng.below(3) as u32)
}

fn d_trunc(img: &Image, fi: usize, off: usize) -> Damage {
	let lf = &img.logs[fi];
	let mut files = plain_files(img);
	files[fi].1.truncate(off);
	Damage::new(
		if off == 0 {
			"zero-length"
		} else if off < 9 {
			"sub-header"
		} else {
			"truncate"
		},
		format!("truncate {} at {} of {}", lf.name, off, lf.bytes.len()),
		files,
		touch(lf, off, lf.bytes.len()),
	)
}

fn d_bitflip(img: &Image, fi: usize, byte: usize, bit: u32) -> Damage {
	let lf = &img.logs[fi];
	let mut files = plain_files(img);
	files[fi].1[byte] ^= 1 << bit;
	Damage::new(
		"bitflip",
		format!("flip bit {} of byte {} in {} ({} bytes)", bit, byte, lf.name, lf.bytes.len()),
		files,
		touch(lf, byte, byte + 1),
	)
}

fn d_burst(img: &Image, fi: usize, off: usize, len: usize, rng: &mut Rng) -> Damage {
	let lf = &img.logs[fi];
	let mut files = plain_files(img);
	let hi = std::cmp::min(off + len, lf.bytes.len());
	let mut changed = false;
	for p in off..hi {
		let nb = match rng.below(4) {
			0 => 0,
			1 => 0xff,
			_ => rng.below(256) as u8,
		};
		changed |= nb != files[fi].1[p];
		files[fi].1[p] = nb;
	}
	if !changed {
		files[fi].1[off] ^= 0x55;
	}
	Damage::new(
		"burst",
		format!("overwrite bytes {}..{} of {} ({} bytes)", off, hi, lf.name, lf.bytes.len()),
		files,
		touch(lf, off, hi),
	)
}

fn d_append(img: &Image, fi: usize, tail: Vec<u8>, kind: &'static str) -> Damage {
	let lf = &img.logs[fi];
	let mut files = plain_files(img);
	files[fi].1.extend_from_slice(&tail);
	Damage::new(kind, format!("append {} bytes ({}) to {}", tail.len(), kind, lf.name), files, None)
}

fn d_delete(img: &Image, fi: usize) -> Damage {
	let mut files = plain_files(img);
	let f = files.remove(fi);
	Damage::new(
		"delete-file",
		format!(
			"delete {} ({} bytes, records {}..{})",
			f.0,
			f.1.len(),
			img.logs[fi].spans[0].id,
			img.logs[fi].spans.last().unwrap().id
		),
		files,
		Some(img.logs[fi].spans[0].id),
	)
}

fn d_stale(img: &Image, st: &StaleLog, name: String) -> Damage {
	let mut files = plain_files(img);
	files.push((name.clone(), st.bytes.clone()));
	Damage::new(
		"stale-generation-file",
		format!("add {} = reclaimed log with records {}..{}", name, st.spans[0].id, st.spans.last().unwrap().id),
		files,
		Some(st.spans[0].id),
	)
}

fn files_with_records(img: &Image) -> Vec<usize> {
	(0..img.logs.len()).filter(|i| !img.logs[*i].spans.is_empty()).collect()
}

/// Offsets worth cutting at: inside the first header, record boundaries and their
/// neighbourhood, inside the checksum, anywhere.
fn sample_trunc_offset(lf: &LogFile, rng: &mut Rng) -> usize {
	let len = lf.bytes.len();
	let s = rng.pick(&lf.spans).clone();
	let off = match rng.below(9) {
		0 => 0,
		1 => rng.range(1, 8) as usize,
		2 => 9,
		3 => s.start,
		4 => s.start + 1 + rng.below(8) as usize,
		5 => s.end - 1 - rng.below(5) as usize,
		6 => s.start + 9 + rng.below(12) as usize,
		_ => rng.below(len as u64) as usize,
	};
	std::cmp::min(off, len - 1)
}

fn sample_bit(lf: &LogFile, rng: &mut Rng) -> (usize, u32) {
	let len = lf.bytes.len();
	let s = if rng.chance(1, 2) { lf.spans[0].clone() } else { rng.pick(&lf.spans).clone() };
	let byte = match rng.below(8) {
		0 => s.start,                                  // BEGIN opcode
		1 | 2 => s.start + 1 + rng.below(8) as usize,  // record id
		3 => s.start + 9,                              // first action opcode
		4 => s.start + 10 + rng.below(2) as usize,     // its table id
		5 => s.end - 5,                                // END opcode
		6 => s.end - 1 - rng.below(4) as usize,        // checksum
		_ => rng.range(s.start as u64, s.end as u64 - 1) as usize,
	};
	(std::cmp::min(byte, len - 1), rng.below(8) as u32)
}

/// The sampled damages of one image.
fn sampled_damages(img: &Image, rng: &mut Rng, thorough: bool) -> Vec<Damage> {
	let mut out = vec![];
	let withrec = files_with_records(img);
	if withrec.is_empty() {
		return out
	}
	let reps = if thorough { 4 } else { 1 };
	for _ in 0..reps {
		// byte-level damages
		for _ in 0..2 {
			let fi = *rng.pick(&withrec);
			let off = sample_trunc_offset(&img.logs[fi], rng);
			out.push(d_trunc(img, fi, off));
		}
		for _ in 0..3 {
			let fi = *rng.pick(&withrec);
			let (byte, bit) = sample_bit(&img.logs[fi], rng);
			out.push(d_bitflip(img, fi, byte, bit));
		}
		{
			let fi = *rng.pick(&withrec);
			let len = img.logs[fi].bytes.len();
			let off = rng.below(len as u64) as usize;
			let n = rng.range(2, 16) as usize;
			out.push(d_burst(img, fi, off, n, rng));
		}
		{
			// two independent flips in two places
			let fi = *rng.pick(&withrec);
			let (b1, k1) = sample_bit(&img.logs[fi], rng);
			let fj = *rng.pick(&withrec);
			let (b2, k2) = sample_bit(&img.logs[fj], rng);
			let mut d = d_bitflip(img, fi, b1, k1);
			if !(fi == fj && b1 == b2 && k1 == k2) {
				d.files[fj].1[b2] ^= 1 << k2;
			}
			d.kind = "two-bitflips";
			d.desc = format!("{} and bit {} of byte {} in {}", d.desc, k2, b2, img.logs[fj].name);
			d.touched = min_opt(d.touched, touch(&img.logs[fj], b2, b2 + 1));
			out.push(d);
		}
		// tails
		{
			// the file that holds the newest record
			let last_fi = *withrec.iter().max_by_key(|i| img.logs[**i].spans.last().unwrap().id).unwrap();
			let fi = if rng.chance(2, 3) { last_fi } else { *rng.pick(&withrec) };
			let n = rng.range(1, 40) as usize;
			let garbage: Vec<u8> = (0..n)
				.map(|i| match (i, rng.below(5)) {
					(0, 0) => 1, // looks like BEGIN
					(_, 1) => 0,
					_ => rng.below(256) as u8,
				})
				.collect();
			out.push(d_append(img, fi, garbage, "append-garbage"));
			// a verbatim copy of an earlier real record (valid checksum, stale id)
			let src = &img.logs[*rng.pick(&withrec)];
			let s = rng.pick(&src.spans).clone();
			out.push(d_append(img, last_fi, src.bytes[s.start..s.end].to_vec(), "append-stale-record"));
			if rng.chance(1, 2) {
				// a well-formed empty record that continues the sequence: accepted, changes nothing
				out.push(d_append(img, last_fi, record(img.n as u64 + 1, &[]), "append-valid-empty-record"));
			}
		}
		// file games
		if !img.stale.is_empty() {
			// a saved copy of an already reclaimed log of this database
			let st = rng.pick(&img.stale).clone();
			let nn = fresh_log_name(img, rng);
			out.push(d_stale(img, &st, nn));
		}
		for _ in 0..3 {
			let mut files = plain_files(img);
			let d = match rng.below(8) {
				0 => {
					let fi = *rng.pick(&withrec);
					let nn = fresh_log_name(img, rng);
					files.push((nn.clone(), img.logs[fi].bytes.clone()));
					Damage::new("duplicate-file", format!("copy {} to {}", img.logs[fi].name, nn), files, None)
				},
				1 => {
					// duplicate, then damage the original or the copy
					let fi = *rng.pick(&withrec);
					let nn = fresh_log_name(img, rng);
					let mut copy = img.logs[fi].bytes.clone();
					let (byte, bit) = sample_bit(&img.logs[fi], rng);
					let in_copy = rng.chance(1, 2);
					if in_copy {
						copy[byte] ^= 1 << bit;
					} else {
						files[fi].1[byte] ^= 1 << bit;
					}
					files.push((nn.clone(), copy));
					Damage::new(
						"duplicate-file-damaged",
						format!(
							"copy {} to {}, flip bit {} of byte {} in the {}",
							img.logs[fi].name,
							nn,
							bit,
							byte,
							if in_copy { "copy" } else { "original" }
						),
						files,
						touch(&img.logs[fi], byte, byte + 1),
					)
				},
				2 if img.logs.len() >= 2 => {
					// exchange the contents of two log files (= rename both)
					let i = rng.below(img.logs.len() as u64) as usize;
					let mut j = rng.below(img.logs.len() as u64) as usize;
					if i == j {
						j = (j + 1) % img.logs.len();
					}
					let bi = files[i].1.clone();
					files[i].1 = files[j].1.clone();
					files[j].1 = bi;
					Damage::new(
						"reorder-files",
						format!("exchange contents of {} and {}", img.logs[i].name, img.logs[j].name),
						files,
						None,
					)
				},
				2 | 3 => {
					// move a file to a new log number
					let fi = *rng.pick(&withrec);
					let nn = fresh_log_name(img, rng);
					let old = files[fi].0.clone();
					files[fi].0 = nn.clone();
					Damage::new("rename-file", format!("rename {} to {}", old, nn), files, None)
				},
				4 | 5 => d_delete(img, *rng.pick(&withrec)),
				6 => {
					let fi = *rng.pick(&withrec);
					let off = if rng.chance(1, 2) { 0 } else { rng.range(1, 8) as usize };
					d_trunc(img, fi, off)
				},
				_ => {
					// an additional empty / header-less file
					let nn = fresh_log_name(img, rng);
					let n = rng.below(9) as usize;
					let b: Vec<u8> = (0..n).map(|i| if i == 0 { 1 } else { rng.below(256) as u8 }).collect();
					files.push((nn.clone(), b));
					Damage::new("add-short-file", format!("add {} with {} bytes", nn, n), files, None)
				},
			};
			out.push(d);
		}
	}
	out
}

/// Exhaustive sweeps over the small log files of an image.
fn sweep_damages(img: &Image, thorough: bool) -> Vec<Damage> {
	let (tmax, bmax) = if thorough {
		(THOROUGH_TRUNC_ALL_MAX, THOROUGH_BITS_ALL_MAX)
	} else {
		(QUICK_TRUNC_ALL_MAX, QUICK_BITS_ALL_MAX)
	};
	let mut out = vec![];
	for fi in files_with_records(img) {
		let lf = &img.logs[fi];
		let len = lf.bytes.len();
		if len <= tmax {
			for off in 0..len {
				let mut d = d_trunc(img, fi, off);
				d.kind = "sweep-truncate";
				d.followup = off % 16 == 5;
				d.emit_op = len <= SWEEP_FULL_OPS_MAX ||
					off % 16 == 0 || lf.spans.iter().any(|s| off + 16 >= s.start && off <= s.start + 16);
				out.push(d);
			}
		}
		if len <= bmax {
			for byte in 0..len {
				for bit in 0..8 {
					let mut d = d_bitflip(img, fi, byte, bit);
					d.kind = "sweep-bitflip";
					d.followup = (byte * 8 + bit as usize) % 64 == 13;
					out.push(d);
				}
			}
		}
	}
	out
}

// ------------------------------------------------------------------------------ running an image

#[derive(Clone, PartialEq, Debug)]
enum Obs {
	V(Option<Vec<u8>>),
	E(String),
}

static LAST_PANIC: Mutex<String> = Mutex::new(String::new());

fn install_panic_hook() {
	std::panic::set_hook(Box::new(|info| {
		let mut s = LAST_PANIC.lock().unwrap_or_else(|e| e.into_inner());
		*s = info.to_string().replace('\n', " ");
	}));
}

fn last_panic() -> String {
	LAST_PANIC.lock().unwrap_or_else(|e| e.into_inner()).clone()
}

fn read_all(db: &Db, keys: &[Vec<Vec<u8>>]) -> Vec<Vec<Obs>> {
	keys.iter()
		.enumerate()
		.map(|(c, ks)| {
			ks.iter()
				.map(|k| match db.get(c as u8, k) {
					Ok(v) => Obs::V(v),
					Err(e) => Obs::E(err_kind(&e).to_string()),
				})
				.collect()
		})
		.collect()
}

fn state_matches(o: &Oracle, keys: &[Vec<Vec<u8>>], obs: &[Vec<Obs>]) -> bool {
	keys.iter().enumerate().all(|(c, ks)| {
		ks.iter().enumerate().all(|(i, k)| obs[c][i] == Obs::V(o.cols[c].get(k).map(|x| x.0.clone())))
	})
}

fn show_obs(keys: &[Vec<Vec<u8>>], obs: &[Vec<Obs>]) -> String {
	let mut s = String::new();
	for (c, ks) in keys.iter().enumerate() {
		for (i, _) in ks.iter().enumerate() {
			s.push_str(&match &obs[c][i] {
				Obs::V(None) => format!(" {}.{}=-", c, i),
				Obs::V(Some(v)) => format!(" {}.{}={}b:{}", c, i, v.len(), hex(&v[..std::cmp::min(4, v.len())])),
				Obs::E(e) => format!(" {}.{}=err:{}", c, i, e),
			});
		}
	}
	s
}

fn first_id(b: &[u8]) -> u64 {
	u64::from_le_bytes(b[1..9].try_into().unwrap())
}

/// First record id of the file `Log::open` sorts to the front (files shorter than 9 bytes are
/// removed); replay starts there.
fn replay_start(files: &[(String, Vec<u8>)]) -> Option<u64> {
	files.iter().filter(|(_, b)| b.len() >= 9).map(|(_, b)| first_id(b)).min()
}

/// Independent statement of "the damage lies at or before a record that was already applied":
/// walk the files in replay order (stable sort by the id in the first header, files below 9
/// bytes ignored) and match the ORIGINAL encodings of records `start ..= enacted` one after the
/// other: whole files holding consecutive records, the last one possibly followed by anything.
/// Returns the id of the first applied record that replay cannot reach intact, `None` when all
/// of them are intact (or none is due: replay starts after `enacted`).
fn first_broken_applied(img: &Image, listed: &[(String, Vec<u8>)]) -> Option<u64> {
	let mut fs: Vec<(u64, &Vec<u8>)> =
		listed.iter().filter(|(_, b)| b.len() >= 9).map(|(_, b)| (first_id(b), b)).collect();
	fs.sort_by_key(|x| x.0);
	let a = img.a as u64;
	let mut next = fs.first()?.0;
	for (_, b) in fs {
		let mut off = 0;
		loop {
			if next > a {
				return None
			}
			match img.records.get(&next) {
				Some(enc) if b.len() >= off + enc.len() && b[off..off + enc.len()] == enc[..] => {
					off += enc.len();
					next += 1;
				},
				_ => break,
			}
		}
		if off != b.len() {
			return Some(next)
		}
	}
	if next > a {
		None
	} else {
		Some(next)
	}
}

struct Outcome {
	ok: bool,
	f3b: bool,
}

/// One damaged (or undamaged) image: write it, emit the model op, open, observe, judge.
fn run_image(img: &Image, work: &Path, d: &Damage, t: &mut Trace, ctr: &mut Counters, prop: &str) -> Outcome {
	copy_tables(&img.base, work);
	for (n, b) in &d.files {
		std::fs::write(work.join(n), b).unwrap();
	}
	let listed = list_logs(work);
	let mut files_hex = String::new();
	if d.emit_op {
		for (_, b) in &listed {
			files_hex.push(' ');
			files_hex.push_str(&hex(b));
		}
	}
	// without table contents: `replaylast` (open failed / panicked, fixed corpus, too many cells)
	let emit = |t: &mut Trace, ctr: &mut Counters, observed: &str, why: &str| {
		if d.emit_op {
			t.op(&format!("c13 replaylast {} auto{}", img.cfg, files_hex), observed);
			ctr.inc("op.replaylast");
			ctr.inc(&format!("op.replaylast.{}", why));
		}
	};
	let start = replay_start(&listed);
	let a = img.a;
	// F3b: some already applied record is not reached intact by replay
	let broken = first_broken_applied(img, &listed);
	let eligible = broken.is_some();
	let touched_rule = d.touched.map_or(false, |id| id <= a as u64);
	ctr.inc(&format!("damage.{}", d.kind));
	if eligible {
		ctr.inc("f3b.eligible(applied_record_not_intact)");
	}
	let f3b_note = format!(
		"damage at or before an already applied record (first applied record not intact in replay order: {} <= enacted {}; smallest record id touched by the damage: {:?})",
		broken.unwrap_or(0),
		a,
		d.touched
	);
	let opts = img.spec.options(work);
	let opened = std::panic::catch_unwind(std::panic::AssertUnwindSafe(|| Db::open(&opts)));
	let db = match opened {
		Err(_) => {
			emit(t, ctr, "panic", "open-panicked");
			t.oracle_fail(prop, &format!("open panicked: {} | damage: {}", last_panic(), d.desc));
			ctr.inc("outcome.open_panicked");
			ctr.inc("mask.images.not_opened");
			ctr.inc("verdict.unsuppressed");
			return Outcome { ok: false, f3b: false }
		},
		Ok(Err(e)) => {
			emit(t, ctr, &format!("err:{}", err_kind(&e)), "open-failed");
			t.oracle_fail(prop, &format!("open failed: {:?} | damage: {}", e, d.desc));
			ctr.inc("outcome.open_failed");
			ctr.inc("mask.images.not_opened");
			ctr.inc("verdict.unsuppressed");
			return Outcome { ok: false, f3b: false }
		},
		Ok(Ok(db)) => db,
	};
	let last = db.verif_last_enacted();
	let cfg_after = db.verif_table_cfg();
	if d.emit_op {
		// table contents after replay against the model: `replaytab`
		// the hook dump walks every chunk of every index table (tens of ms): it is used for the
		// undamaged control; damaged images read the index files (same entries, see `dump_base`)
		let from_files = d.kind != "none";
		match std::panic::catch_unwind(std::panic::AssertUnwindSafe(|| tab_observation(img, work, &db, from_files))) {
			Ok(Ok((cells, tab, unlisted))) => {
				t.op(
					&format!("c13 replaytab {} auto{} /{}", img.cfg, files_hex, cells),
					&format!("last={} cfg={} {}", last, cfg_after, tab),
				);
				ctr.inc("op.replaytab");
				ctr.inc(if from_files { "op.replaytab.index_from_files" } else { "op.replaytab.index_from_verif_dump" });
				ctr.add("op.replaytab.cell_chars", cells.len() as u64);
				if unlisted {
					// data at or above `filled` of its table (replay behind a gap)
					ctr.inc("op.replaytab.with_written_slot_above_filled");
				}
			},
			Ok(Err(why)) => emit(t, ctr, &format!("last={} cfg={}", last, cfg_after), why),
			Err(_) => {
				t.comment(&format!("table dump after replay panicked: {} | damage: {}", last_panic(), d.desc));
				emit(t, ctr, &format!("last={} cfg={}", last, cfg_after), "dump-panicked");
			},
		}
	}
	let init = start.map(|s| s.saturating_sub(1)).unwrap_or(1);
	let accepted = last.saturating_sub(init);
	ctr.inc(&format!("accepted_records.{}", if accepted > 6 { "7+".to_string() } else { accepted.to_string() }));
	let mut ok = true;
	// ---- table configuration: what the ACCEPTED records (ids init+1 ..= last, in their original
	// encoding) do to the configuration of the image, computed here in plain Rust
	let mut rose_note = String::new();
	match (TabCfg::parse(&img.cfg), TabCfg::parse(&cfg_after)) {
		(Some(mut expected), Some(observed)) => {
			let (mut grows, mut drops) = (0, 0);
			if accepted > 0 {
				for id in init + 1..=last {
					if let Some((_, acts)) = img.records.get(&id).and_then(|b| walk_record(b)) {
						let before = expected.clone();
						expected.apply_record(&acts);
						if expected.cols.iter().zip(before.cols.iter()).any(|(x, y)| x.idx > y.idx || x.rc > y.rc) {
							grows += 1;
						}
						if acts.iter().any(|a| matches!(a, Act::Drop(_) | Act::DropRc(_))) {
							drops += 1;
						}
					}
				}
			}
			if grows > 0 {
				ctr.inc("cfg.images.accepted_record_starts_reindex");
			}
			if drops > 0 {
				ctr.inc("cfg.images.accepted_record_with_drop");
			}
			match cfg_verdict(&expected, &observed) {
				CfgVerdict::Equal => {
					ctr.inc("cfg.verdict.equal");
					if cfg_after != img.cfg {
						ctr.inc("cfg.verdict.equal.changed_by_accepted_records");
					}
				},
				CfgVerdict::Rose(rs) => {
					for r in &rs {
						let note = format!(
							"{} bits of column {} rose {} -> {} although no accepted record names table {}",
							r.what,
							r.col,
							r.from,
							r.to,
							((r.col as u32) << 8) | r.to
						);
						t.oracle_fail(
							prop,
							&format!(
								"REINDEX-BY-REJECTED-RECORD: {} (expected {} observed {} accepted records {}) | damage: {}",
								note,
								expected.render(),
								cfg_after,
								accepted,
								d.desc
							),
						);
						if rose_note.is_empty() {
							rose_note = note;
						}
					}
					ctr.inc("cfg.verdict.reindex_by_rejected_record");
					ctr.inc("outcome.cfg_changed_by_rejected_record");
					// the signature of known finding F3d: `check` does not count these as violations
					ctr.add("verdict.suppressed_by.F3d(reindex_by_rejected_record)", rs.len() as u64);
					ok = false;
				},
				CfgVerdict::Mismatch => {
					t.oracle_fail(
						prop,
						&format!(
							"TABLE-CONFIGURATION-MISMATCH: the {} accepted records (ids above {} up to {}) turn the configuration {} into {}, observed {} | damage: {}",
							accepted,
							init,
							last,
							img.cfg,
							expected.render(),
							cfg_after,
							d.desc
						),
					);
					ctr.inc("cfg.verdict.mismatch");
					ctr.inc("verdict.unsuppressed");
					ok = false;
				},
			}
		},
		_ => {
			t.oracle_fail(
				prop,
				&format!("TABLE-CONFIGURATION-MISMATCH: unreadable configuration {} / {} | damage: {}", img.cfg, cfg_after, d.desc),
			);
			ctr.inc("cfg.verdict.mismatch");
			ctr.inc("verdict.unsuppressed");
			ok = false;
		},
	}
	// records a+1 .. start-1 were never applied, yet later ones were
	let gap = start.map_or(false, |s| s > a as u64 + 1 && last >= s && s <= img.n as u64);
	let gap_note = if gap { format!(" GAP: records {}..{} skipped", a + 1, start.unwrap() - 1) } else { String::new() };
	if gap {
		ctr.inc("replay.started_after_gap");
	}
	// How much of the content oracle is switched off by the two known findings: on an image that is
	// F3b-eligible EVERY non-prefix state / panicking read is reported as known finding F3b, on an
	// image whose replay started behind a gap every such verdict carries the F3c signature ("GAP:
	// records a..b skipped").  Only on `mask.images.none` is a non-prefix outcome a violation.
	ctr.inc("mask.images.opened");
	ctr.inc(match (eligible, gap) {
		(true, true) => "mask.images.f3b_eligible_and_gap",
		(true, false) => "mask.images.f3b_eligible_only",
		(false, true) => "mask.images.gap_only",
		(false, false) => "mask.images.none(nonprefix_would_be_a_violation)",
	});
	if d.kind != "none" {
		ctr.inc(if eligible || gap { "mask.damaged_images.masked" } else { "mask.damaged_images.unmasked" });
	}
	// ---- content
	let keys = &img.keys;
	let obs = match std::panic::catch_unwind(std::panic::AssertUnwindSafe(|| read_all(&db, keys))) {
		Ok(o) => o,
		Err(_) => {
			let msg = format!(
				"read after recovery panicked: {} (records={} enacted={} replay_start={:?} last={}{}) | damage: {}",
				last_panic(),
				img.n,
				a,
				start,
				last,
				gap_note,
				d.desc
			);
			ctr.inc(if gap { "outcome.read_panicked.gap" } else { "outcome.read_panicked.other" });
			std::mem::forget(db);
			ctr.inc("verdict.nonprefix_or_read_panic");
			if eligible {
				t.known(prop, "F3b", &format!("{}: {}", f3b_note, msg));
				ctr.inc("f3b.manifest");
				ctr.inc("f3b.manifest.read_panicked");
				ctr.inc("verdict.suppressed_by.F3b");
				if gap {
					ctr.inc("verdict.suppressed_by.F3b.also_gap");
				}
				return Outcome { ok, f3b: true }
			}
			// the message carries `gap_note`: with a gap it matches the signature of F3c
			ctr.inc(if gap { "verdict.suppressed_by.F3c(gap_signature)" } else { "verdict.unsuppressed" });
			t.oracle_fail(prop, &msg);
			return Outcome { ok: false, f3b: false }
		},
	};
	// preferred witness: the prefix the replay claims to have reached
	let pref = if accepted == 0 { a } else { std::cmp::min(std::cmp::max(std::cmp::min(last, img.n as u64) as usize, a), img.n) };
	let mut found = None;
	if state_matches(&img.states[pref], keys, &obs) {
		found = Some(pref);
		ctr.inc("prefix.witness_is_max(last,enacted)");
	} else {
		for m in (a..=img.n).rev() {
			if state_matches(&img.states[m], keys, &obs) {
				found = Some(m);
				ctr.inc("prefix.witness_other");
				t.comment(&format!("witness: state equals prefix {} (last={} enacted={} records={}) damage: {}", m, last, a, img.n, d.desc));
				break
			}
		}
	}
	let mut f3b = false;
	match found {
		Some(m) => {
			ctr.inc("outcome.prefix_ok");
			if eligible || gap {
				ctr.inc("mask.masked_image_recovered_a_prefix_anyway");
			}
			ctr.inc(&format!("recovered.{}", if m == img.n { "all" } else if m == a { "enacted_only" } else { "between" }));
		},
		None => {
			let older = (0..a).rev().find(|m| state_matches(&img.states[*m], keys, &obs));
			let what = match older {
				Some(m) => format!("an OLDER prefix ({} records) than the tables held", m),
				None => "NOT a prefix of the logged records".to_string(),
			};
			let msg = format!(
				"recovered state is {} (records={} enacted={} replay_start={:?} last={}{}) | damage: {} | observed:{}",
				what,
				img.n,
				a,
				start,
				last,
				gap_note,
				d.desc,
				show_obs(keys, &obs)
			);
			ctr.inc("verdict.nonprefix_or_read_panic");
			if eligible {
				ctr.inc("verdict.suppressed_by.F3b");
				if gap {
					ctr.inc("verdict.suppressed_by.F3b.also_gap");
				}
			} else {
				ctr.inc(if gap { "verdict.suppressed_by.F3c(gap_signature)" } else { "verdict.unsuppressed" });
			}
			if eligible {
				t.known(prop, "F3b", &format!("{}: {}", f3b_note, msg));
				ctr.inc("f3b.manifest");
				ctr.inc(&format!("f3b.manifest.{}", d.kind));
				ctr.inc(if touched_rule { "f3b.manifest.damage_inside_applied_record" } else { "f3b.manifest.damage_before_applied_record(tail/added file)" });
				ctr.inc(if older.is_some() { "f3b.manifest.older_prefix" } else { "f3b.manifest.not_a_prefix" });
				f3b = true;
			} else {
				t.oracle_fail(prop, &msg);
				ctr.inc(if gap { "outcome.not_prefix.gap" } else { "outcome.not_prefix.other" });
				ctr.inc(&format!("not_prefix.{}", d.kind));
				ok = false;
			}
		},
	}
	if found.is_none() || !d.followup {
		// an inconsistent store is not driven further
		let dropped = std::panic::catch_unwind(std::panic::AssertUnwindSafe(move || drop(db)));
		if dropped.is_err() && found.is_some() {
			t.oracle_fail(prop, &format!("drop after recovery panicked: {} | damage: {}", last_panic(), d.desc));
			ctr.inc("verdict.unsuppressed");
			ok = false;
		}
		return Outcome { ok, f3b }
	}
	// ---- a further commit is accepted and survives a clean reopen
	ctr.inc("followup.runs");
	let xkey = img.extra_key.clone();
	let xval = format!("extra value for {}", d.desc).into_bytes();
	let xc = img.extra_col;
	let keys2 = keys.clone();
	let (xk, xv) = (xkey.clone(), xval.clone());
	let opts2 = opts.clone();
	let follow = std::panic::catch_unwind(std::panic::AssertUnwindSafe(move || -> Result<(Vec<Vec<Obs>>, Obs), String> {
		db.commit_changes(vec![(xc, Operation::Set(xk.clone(), xv))]).map_err(|e| format!("commit after recovery: {:?}", e))?;
		let now = db.get(xc, &xk).map_err(|e| format!("get after commit: {:?}", e))?;
		if now.is_none() {
			return Err("committed key not readable".into())
		}
		drop(db);
		let db2 = Db::open(&opts2).map_err(|e| format!("reopen after recovery + commit: {:?}", e))?;
		let o = read_all(&db2, &keys2);
		let x = match db2.get(xc, &xk) {
			Ok(v) => Obs::V(v),
			Err(e) => Obs::E(err_kind(&e).to_string()),
		};
		drop(db2);
		Ok((o, x))
	}));
	let problem = match follow {
		Err(_) => Some(format!("panicked: {}", last_panic())),
		Ok(Err(e)) => Some(e),
		Ok(Ok((o2, x))) =>
			if o2 != obs {
				Some(format!("content changed over commit + reopen: before{} after{}", show_obs(keys, &obs), show_obs(keys, &o2)))
			} else if x != Obs::V(Some(xval)) {
				Some(format!("the further commit was lost: {:?}", x))
			} else {
				None
			},
	};
	if let Some(p) = problem {
		t.oracle_fail(
			prop,
			&format!(
				"{}after recovery the database does not take a further commit and reopen cleanly: {} (table configuration before replay {} after replay {}) | damage: {}",
				if rose_note.is_empty() { String::new() } else { format!("REINDEX-BY-REJECTED-RECORD: {}; ", rose_note) },
				p,
				img.cfg,
				cfg_after,
				d.desc
			),
		);
		ctr.inc("outcome.followup_failed");
		ctr.inc(if rose_note.is_empty() { "verdict.unsuppressed" } else { "verdict.suppressed_by.F3d(followup_after_reindex_by_rejected_record)" });
		ctr.inc(&format!("followup_failed.{}", d.kind));
		ok = false;
	} else {
		ctr.inc("followup.ok");
	}
	Outcome { ok, f3b }
}

/// Undamaged control, then every damage; closes the case.
fn run_damages(
	img: &Image,
	damages: &[Damage],
	root: &Path,
	tag: &str,
	t: &mut Trace,
	ctr: &mut Counters,
	prop: &str,
	control: bool,
) -> bool {
	let work = fresh_dir(root, &format!("c13-{}-work", tag));
	let mut ok = true;
	let mut f3b = 0;
	if control {
		// undamaged control: everything is recovered
		let c = Damage::new("none", "undamaged".into(), plain_files(img), None);
		ok &= run_image(img, &work, &c, t, ctr, prop).ok;
	}
	for d in damages {
		let o = run_image(img, &work, d, t, ctr, prop);
		ok &= o.ok;
		if o.f3b {
			f3b += 1;
		}
	}
	ctr.add("images.damaged", damages.len() as u64);
	if f3b > 0 {
		ctr.inc("cases.with_f3b_manifestation");
	}
	let _ = std::fs::remove_dir_all(&work);
	let _ = std::fs::remove_dir_all(&img.base);
	ok
}

fn describe_logs(img: &Image) -> String {
	img.logs
		.iter()
		.map(|l| {
			format!(
				"{}:{}b:{}",
				l.name,
				l.bytes.len(),
				if l.spans.is_empty() { "-".to_string() } else { format!("{}..{}", l.spans[0].id, l.spans.last().unwrap().id) }
			)
		})
		.collect::<Vec<_>>()
		.join(" ")
}

// ------------------------------------------------------------------------------ generated cases

fn gen_key(rng: &mut Rng, col: usize, i: usize) -> Vec<u8> {
	let len = *rng.pick(&[1usize, 4, 8, 20, 32, 33, 60]);
	let mut k: Vec<u8> = (0..len).map(|_| rng.below(256) as u8).collect();
	// pairwise distinct
	k.push(col as u8);
	k.push(i as u8);
	k
}

fn gen_token(rng: &mut Rng, tiny: bool) -> String {
	let len = if tiny {
		rng.range(0, 12)
	} else {
		match rng.below(10) {
			0 => 0,
			1 | 2 => rng.range(1, 8),
			3 | 4 => rng.range(20, 40),
			5 | 6 => rng.range(40, 200),
			7 => rng.range(200, 700),
			8 => rng.range(1, 64),
			_ => rng.range(1000, 6000),
		}
	};
	format!("v{}_{}", len, rng.below(1 << 30))
}

/// Keys of the growth column: 32 bytes (uniform column + zero salt: the key is its own hash)
/// sharing the first two bytes, so that all of them fall into ONE chunk of the 16-bit index; the
/// 65th makes the index grow.  `cascade`: they also share the 17th bit, so moving the 64 old
/// entries into the 17-bit table overflows that chunk as well (a reindex record that names the
/// 18-bit table; two old tables queued); otherwise they alternate between the two halves.
fn growth_keys(seed: u64, chunk: [u8; 2], n: usize, cascade: bool) -> Vec<Vec<u8>> {
	(0..n)
		.map(|i| {
			let mut k = vec![0u8; 32];
			k[0] = chunk[0];
			k[1] = chunk[1];
			k[2] = if cascade { (i + 1) as u8 } else { (((i & 1) << 7) | ((i >> 1) + 1)) as u8 };
			let mut r = Rng::new(seed ^ (i as u64 * 7919 + 5));
			for b in k[3..].iter_mut() {
				*b = (r.next() & 0xff) as u8;
			}
			k[31] = i as u8;
			k
		})
		.collect()
}

/// Growth mode: column 0 is a plain hash column with identity hashing whose keys fill one index
/// chunk in order; the history contains the record that makes the index grow (it names the
/// table with one more bit) and the records `process_reindex` appends afterwards (moved entries,
/// DROP_TABLE of the old table), which are records but no transactions.  The image is taken at
/// a chosen stage of the growth.
fn build_growth_image(seed: u64, rng: &mut Rng, root: &Path, ctr: &mut Counters) -> Result<Image, String> {
	let mut cols = vec![CK::Plain];
	if rng.chance(1, 3) {
		cols.push(*rng.pick(&[CK::Plain, CK::Rc, CK::Btree]));
	}
	let ncols = cols.len();
	let mut spec = Spec::new(cols.clone(), vec![CompressionType::NoCompression; ncols], [0u8; 32]);
	spec.p1.cols[0].uniform = true;
	for c in &cols {
		ctr.inc(&format!("column.{:?}", c));
	}
	let cascade = rng.chance(1, 2);
	let chunk = [rng.below(256) as u8, rng.below(256) as u8];
	let nfill = rng.range(66, 90) as usize;
	let mut keys: Vec<Vec<Vec<u8>>> = vec![growth_keys(seed, chunk, nfill, cascade)];
	if ncols > 1 {
		keys.push((0..3).map(|i| gen_key(rng, 1, i)).collect());
	}
	let fixed_tokens: Vec<String> = (0..3).map(|_| gen_token(rng, false)).collect();
	// the stage at which the image is taken
	let stop = match rng.below(20) {
		0..=2 => 0,
		3..=5 => 1,
		6..=10 => 2,
		11..=15 => 3,
		_ => 4,
	};
	let which_drop = if cascade { rng.below(2) as usize } else { 0 };
	let stop_name = match stop {
		0 => "growth_record_logged_not_enacted",
		1 => "growth_enacted_no_reindex_record_yet",
		2 => "drop_table_logged_not_enacted",
		3 => "drop_table_enacted",
		_ => "all_keys_committed",
	};
	let mut b = Builder::create(&spec, fresh_dir(root, &format!("c13-{}-src", seed)))?;
	let mut vals = Values::default();
	let mut oracle = Oracle::new(ncols);
	let mut states = vec![oracle.clone()];
	let mut next_fill = 0usize;
	let mut bits = 16u8;
	let mut grow_ids: Vec<u64> = vec![];
	let mut drop_ids: Vec<u64> = vec![];
	let mut reindex_records = 0u64;
	let mut extra_steps = rng.below(12);
	let mut guard = 0;
	loop {
		guard += 1;
		let reached = match stop {
			0 => !grow_ids.is_empty() && (b.a as u64) < grow_ids[0],
			1 => !grow_ids.is_empty() && b.a as u64 >= grow_ids[0] && reindex_records == 0,
			2 => drop_ids.len() > which_drop && (b.a as u64) < drop_ids[which_drop],
			3 => drop_ids.len() > which_drop && b.a as u64 >= drop_ids[which_drop],
			_ =>
				if next_fill == nfill {
					if extra_steps == 0 {
						true
					} else {
						extra_steps -= 1;
						false
					}
				} else {
					false
				},
		};
		if reached || guard > 500 {
			ctr.inc(if reached { "growth.stage_reached" } else { "growth.stage_not_reached" });
			break
		}
		let r = rng.below(100);
		let mut new_record = false;
		if r < 45 {
			let mut tx: Tx = vec![];
			if next_fill < nfill && r < 38 {
				// fill the chunk in order
				let n = std::cmp::min(rng.range(5, 16) as usize, nfill - next_fill);
				for i in next_fill..next_fill + n {
					tx.push((0, Op::Set(keys[0][i].clone(), vals.canon(format!("v{}_{}", 20 + (i % 7), 7000 + i)))));
				}
				next_fill += n;
			} else {
				// rewrite / delete keys that are already there, or work on the other column
				for _ in 0..rng.range(1, 3) {
					let c = rng.below(ncols as u64) as usize;
					if c == 0 {
						let ki = rng.below(std::cmp::max(next_fill, 1) as u64) as usize;
						let k = keys[0][ki].clone();
						tx.push((0, if rng.chance(2, 3) { Op::Set(k, vals.canon(format!("v{}_{}", 18 + rng.below(10), rng.below(1 << 20)))) } else { Op::Del(k) }));
					} else {
						let ki = rng.below(3) as usize;
						let k = keys[1][ki].clone();
						let q = rng.below(100);
						tx.push((1, match cols[1] {
							CK::Rc =>
								if q < 55 {
									Op::Set(k, vals.canon(fixed_tokens[ki].clone()))
								} else if q < 85 {
									Op::Del(k)
								} else {
									Op::Ref(k)
								},
							_ =>
								if q < 70 {
									Op::Set(k, vals.canon(gen_token(rng, false)))
								} else {
									Op::Del(k)
								},
						}));
					}
				}
			}
			b.commit(p1::to_db_tx(&tx, &mut vals))?;
			oracle.apply(&spec.p1, &tx, &mut vals);
			states.push(oracle.clone());
			new_record = true;
		} else if r < 60 {
			b.flush()?;
		} else if r < 76 {
			b.enact()?;
		} else if r < 84 {
			b.clean()?;
		} else if b.reindex()? {
			// a record, but no transaction: the content stays
			states.push(oracle.clone());
			reindex_records += 1;
			new_record = true;
		}
		if new_record {
			let id = b.n as u64;
			let now = b.db().verif_index_tables(0).map_or(bits, |x| x.0);
			if now > bits {
				grow_ids.push(id);
				bits = now;
			}
			if let Some((_, acts)) = b.record_bytes(id).and_then(|x| walk_record(&x)) {
				if acts.iter().any(|a| matches!(a, Act::Drop(_))) {
					drop_ids.push(id);
				}
			}
		}
	}
	// closing moves that do not apply anything more
	if rng.chance(1, 2) {
		for _ in 0..rng.range(1, 2) {
			if rng.chance(1, 2) {
				b.flush()?;
			} else if next_fill > 0 {
				let ki = rng.below(next_fill as u64) as usize;
				let tx: Tx = vec![(0, Op::Set(keys[0][ki].clone(), vals.canon(format!("v{}_{}", 18 + rng.below(10), rng.below(1 << 20)))))];
				b.commit(p1::to_db_tx(&tx, &mut vals))?;
				oracle.apply(&spec.p1, &tx, &mut vals);
				states.push(oracle.clone());
			}
		}
	}
	if b.spans.values().all(|s| s.is_empty()) {
		// everything was reclaimed: one more record so that there is a log to damage
		let tx: Tx = vec![(0, Op::Set(keys[0][0].clone(), vals.canon(format!("v{}_{}", 18 + rng.below(10), rng.below(1 << 20)))))];
		b.commit(p1::to_db_tx(&tx, &mut vals))?;
		oracle.apply(&spec.p1, &tx, &mut vals);
		states.push(oracle.clone());
	}
	ctr.inc("cases.growth");
	ctr.inc(if cascade { "growth.keys_share_17_bits(second_growth_by_reindex)" } else { "growth.keys_split_at_17_bits" });
	ctr.inc(&format!("growth.image_stage.{}", stop_name));
	ctr.inc(&format!("growth.index_bits_at_image.{}", bits));
	ctr.add("growth.reindex_records", reindex_records);
	ctr.inc(&format!("growth.queued_old_tables_at_image.{}", b.db().verif_index_tables(0).map_or(0, |x| x.1.len())));
	take_image(b, spec, states, keys, root, &seed.to_string(), ctr)
}

fn build_image(seed: u64, rng: &mut Rng, root: &Path, tiny: bool, ctr: &mut Counters) -> Result<Image, String> {
	// growth mode: one non-tiny case in four
	if !tiny && rng.chance(1, 4) {
		return build_growth_image(seed, rng, root, ctr)
	}
	// ---- configuration
	let ncols = if tiny { 1 } else { rng.range(1, 3) as usize };
	let mut cols = vec![];
	for i in 0..ncols {
		let k = if tiny {
			CK::Plain
		} else {
			match rng.below(10) {
				0..=3 => CK::Plain,
				4..=5 => CK::Rc,
				6..=7 => CK::Btree,
				_ =>
					if i > 0 {
						CK::Multi
					} else {
						CK::Plain
					},
			}
		};
		cols.push(k);
	}
	let compression: Vec<CompressionType> = (0..ncols)
		.map(|_| *rng.pick(&[CompressionType::NoCompression, CompressionType::NoCompression, CompressionType::NoCompression, CompressionType::Lz4]))
		.collect();
	let mut salt = [0u8; 32];
	for i in 0..4 {
		salt[i * 8..i * 8 + 8].copy_from_slice(&rng.next().to_le_bytes());
	}
	let spec = Spec::new(cols.clone(), compression, salt);
	for c in &cols {
		ctr.inc(&format!("column.{:?}", c));
	}
	let active: Vec<usize> = (0..ncols).filter(|c| cols[*c] != CK::Multi).collect();
	let nkeys = if tiny { 2 } else { rng.range(2, 6) as usize };
	let keys: Vec<Vec<Vec<u8>>> = (0..ncols)
		.map(|c| if cols[c] == CK::Multi { vec![] } else { (0..nkeys).map(|i| gen_key(rng, c, i)).collect() })
		.collect();
	let fixed_tokens: Vec<Vec<String>> = (0..ncols).map(|_| (0..nkeys).map(|_| gen_token(rng, tiny)).collect()).collect();
	// ---- history
	let mut b = Builder::create(&spec, fresh_dir(root, &format!("c13-{}-src", seed)))?;
	let mut vals = Values::default();
	let mut oracle = Oracle::new(ncols);
	let mut states = vec![oracle.clone()];
	let target = if tiny { rng.range(1, 2) as usize } else { rng.range(2, 10) as usize };
	let mut guard = 0;
	while b.n < target && guard < 200 {
		guard += 1;
		let r = rng.below(100);
		if r < 50 {
			let nops = if tiny { 1 } else { rng.range(1, 3) };
			let mut tx: Tx = vec![];
			for _ in 0..nops {
				let c = *rng.pick(&active);
				let ki = rng.below(nkeys as u64) as usize;
				let k = keys[c][ki].clone();
				let q = rng.below(100);
				let op = match cols[c] {
					CK::Rc =>
						if q < 55 {
							Op::Set(k, vals.canon(fixed_tokens[c][ki].clone()))
						} else if q < 85 {
							Op::Del(k)
						} else {
							Op::Ref(k)
						},
					_ =>
						if q < 70 {
							Op::Set(k, vals.canon(gen_token(rng, tiny)))
						} else {
							Op::Del(k)
						},
				};
				tx.push((c as u8, op));
			}
			b.commit(p1::to_db_tx(&tx, &mut vals))?;
			oracle.apply(&spec.p1, &tx, &mut vals);
			states.push(oracle.clone());
		} else if r < 72 {
			b.flush()?;
		} else if r < 90 {
			b.enact()?;
		} else {
			b.clean()?;
		}
	}
	// closing moves: leave a mixture of reclaimed / applied-not-reclaimed / flushed / appending
	for _ in 0..rng.below(3) {
		match rng.below(4) {
			0 => {
				b.flush()?;
			},
			1 => {
				b.enact()?;
			},
			2 if rng.chance(1, 3) => {
				b.clean()?;
			},
			_ => {},
		}
	}
	if b.spans.values().all(|s| s.is_empty()) {
		// everything was reclaimed: one more record so that there is a log to damage
		let c = active[0];
		let tok = if cols[c] == CK::Rc { fixed_tokens[c][0].clone() } else { gen_token(rng, tiny) };
		let tx: Tx = vec![(c as u8, Op::Set(keys[c][0].clone(), vals.canon(tok)))];
		b.commit(p1::to_db_tx(&tx, &mut vals))?;
		oracle.apply(&spec.p1, &tx, &mut vals);
		states.push(oracle.clone());
	}
	take_image(b, spec, states, keys, root, &seed.to_string(), ctr)
}

/// Which kinds of records the history of a case holds: (a) a record that names an index table
/// with more bits than the 16 the column started with, (b) a record with DROP_TABLE; ever
/// logged, and still in a log file of the image.
fn record_statistics(img: &Image, ctr: &mut Counters, class: &str) {
	let in_logs: Vec<u64> = img.logs.iter().flat_map(|l| l.spans.iter().map(|s| s.id)).collect();
	let (mut higher, mut drop, mut higher_in, mut drop_in, mut not_tx) = (false, false, false, false, 0u64);
	for (id, bytes) in &img.records {
		if let Some((_, acts)) = walk_record(bytes) {
			let h = acts.iter().any(|a| matches!(a, Act::Index { table } if (table & 0xff) > 16));
			let d = acts.iter().any(|a| matches!(a, Act::Drop(_) | Act::DropRc(_)));
			higher |= h;
			drop |= d;
			higher_in |= h && in_logs.contains(id);
			drop_in |= d && in_logs.contains(id);
			if !acts.is_empty() && !acts.iter().any(|a| matches!(a, Act::Value)) {
				not_tx += 1;
			}
		}
	}
	ctr.add(&format!("{}.reindex_records(index_and_drop_actions_only)", class), not_tx);
	for (flag, name) in [
		(higher, "with_record_naming_higher_table"),
		(higher_in, "with_record_naming_higher_table.in_a_log_of_the_image"),
		(drop, "with_drop_table_record"),
		(drop_in, "with_drop_table_record.in_a_log_of_the_image"),
	] {
		if flag {
			ctr.inc(&format!("{}.{}", class, name));
		}
	}
}

fn run_generated(seed: u64, thorough: bool, root: &Path, t: &mut Trace, ctr: &mut Counters, prop: &str) -> bool {
	let mut rng = Rng::new(seed);
	// sweep cases: tiny single-column histories whose logs are swept exhaustively
	let sweep = rng.chance(1, if thorough { THOROUGH_SWEEP_ONE_IN } else { QUICK_SWEEP_ONE_IN });
	let big_sweep = thorough && !sweep && rng.chance(1, THOROUGH_BIG_SWEEP_ONE_IN);
	let img = match build_image(seed, &mut rng, root, sweep, ctr) {
		Ok(i) => i,
		Err(e) => {
			t.begin_case(&format!("seed={} build failed", seed));
			t.oracle_fail(prop, &format!("harness could not build the image: {}", e));
			t.end_case(false);
			return false
		},
	};
	t.begin_case(&format!(
		"seed={} cols={} records={} enacted={} cfg={} logs=[{}]{}",
		seed,
		img.spec.describe(),
		img.n,
		img.a,
		img.cfg,
		describe_logs(&img),
		if sweep || big_sweep { " sweep" } else { "" }
	));
	record_statistics(&img, ctr, "cases.generated");
	let mut damages = sampled_damages(&img, &mut rng, thorough);
	if sweep || big_sweep {
		damages.extend(sweep_damages(&img, thorough));
		ctr.inc("cases.sweep");
	}
	let ok = run_damages(&img, &damages, root, &seed.to_string(), t, ctr, prop, true);
	ctr.inc("cases");
	let nontrivial = !files_with_records(&img).is_empty() && img.n >= 2;
	if nontrivial {
		ctr.inc("cases.nontrivial");
	}
	t.end_case(nontrivial);
	ok
}

// ------------------------------------------------------------------------------ fixed cases

/// Fixed regression inputs: the panic triggers of the audit (now rejected with Corruption),
/// plus accepted / rejected controls.  Database: col 0 plain hash, col 1 btree, col 2 multitree
/// (ref-count table), two committed transactions, cleanly closed (no log files); the bytes
/// become its only log file `log0`.
fn corpus() -> Vec<(&'static str, Vec<u8>)> {
	let idx = |col: u16, bits: u16| (col << 8) | bits;
	let bad_crc = |mut r: Vec<u8>| {
		let l = r.len();
		r[l - 2] ^= 1;
		r
	};
	let mut v: Vec<(&'static str, Vec<u8>)> = vec![];
	// INSERT_INDEX flipped to INSERT_REF_COUNT (2 -> 6) on a column without ref-count table;
	// the checksum still belongs to the unflipped record
	let mut flipped = record(7, &act_masked(2, idx(0, 16), 3, 0b101, 8));
	flipped[9] = 6;
	v.push(("opcode-2-to-6-flip-no-refcount-table", flipped));
	v.push(("insert-refcount-no-refcount-table-valid-crc", record(7, &act_masked(6, idx(0, 16), 3, 1, 16))));
	v.push(("insert-refcount-on-btree-column", record(7, &act_masked(6, idx(1, 16), 3, 1, 16))));
	// value entry announcing 0x7fff bytes in a 32-byte table
	let mut big = vec![0xff, 0x7f];
	big.extend_from_slice(&[0xab; 40]);
	v.push(("value-length-0x7fff", record(7, &act_value(idx(0, 0), 1, &big))));
	let mut p31 = vec![31, 0];
	p31.extend_from_slice(&[0xab; 31]);
	v.push(("value-length-31-in-32-byte-table", record(7, &act_value(idx(0, 0), 1, &p31))));
	v.push(("drop-table-missing-column", record(7, &act_drop(5, idx(200, 16)))));
	v.push(("drop-refcount-table-missing-column", record(7, &act_drop(7, idx(200, 16)))));
	v.push(("drop-table-column-3-of-3", record(7, &act_drop(5, idx(3, 16)))));
	v.push(("refcount-mask-bit-32", record(7, &act_masked(6, idx(2, 16), 0, 1u64 << 32, 16))));
	v.push(("refcount-mask-all-ones", record(7, &act_masked(6, idx(2, 16), 0, u64::MAX, 16))));
	v.push(("index-chunk-65536", record(7, &act_masked(2, idx(0, 16), 65536, 1, 8))));
	v.push(("index-chunk-u64-max", record(7, &act_masked(2, idx(0, 16), u64::MAX, 1, 8))));
	v.push(("refcount-chunk-65536", record(7, &act_masked(6, idx(2, 16), 65536, 1, 16))));
	v.push(("first-record-id-0", record(0, &[])));
	v.push(("first-record-id-0-with-insert", record(0, &act_masked(2, idx(0, 16), 3, 1, 8))));
	v.push(("index-bits-64", record(7, &act_masked(2, idx(0, 64), 0, 1, 8))));
	v.push(("index-bits-200", record(7, &act_masked(2, idx(0, 200), 0, 1, 8))));
	v.push(("index-bits-50", record(7, &act_masked(2, idx(0, 50), 0, 1, 8))));
	v.push(("index-bits-15-too-old", record(7, &act_masked(2, idx(0, 15), 0, 1, 8))));
	v.push(("refcount-bits-64", record(7, &act_masked(6, idx(2, 64), 0, 1, 16))));
	v.push(("record-id-u64-max", record(u64::MAX, &[])));
	v.push(("record-id-u64-max-with-insert", record(u64::MAX, &act_masked(2, idx(0, 16), 3, 1, 8))));
	v.push(("insert-index-missing-column", record(7, &act_masked(2, idx(9, 16), 0, 1, 8))));
	v.push(("insert-value-missing-column", record(7, &act_value(idx(9, 0), 1, &[0xff, 0xff, 0, 0, 0, 0, 0, 0, 0, 0]))));
	v.push(("insert-index-on-btree-column", record(7, &act_masked(2, idx(1, 16), 0, 1, 8))));
	v.push(("begin-inside-record", {
		let mut r = vec![1u8];
		r.extend_from_slice(&7u64.to_le_bytes());
		r.push(1);
		r.extend_from_slice(&8u64.to_le_bytes());
		r.push(4);
		let c = crc32(&r);
		r.extend_from_slice(&c.to_le_bytes());
		r
	}));
	v.push(("bad-first-opcode", vec![9, 7, 0, 0, 0, 0, 0, 0, 0, 4, 0, 0, 0, 0]));
	v.push(("first-opcode-is-end", vec![4, 7, 0, 0, 0, 0, 0, 0, 0, 4, 0, 0, 0, 0]));
	v.push(("bad-crc-empty-record", bad_crc(record(7, &[]))));
	// controls: well-formed records that change nothing visible are accepted
	v.push(("control-empty-record", record(7, &[])));
	v.push(("control-two-empty-records", [record(7, &[]), record(8, &[])].concat()));
	v.push(("control-valid-then-bad-column", [record(7, &[]), record(8, &act_drop(5, idx(200, 16)))].concat()));
	v.push(("control-valid-then-gap", [record(7, &[]), record(9, &[])].concat()));
	v.push(("control-valid-then-truncated", {
		let mut r = [record(7, &[]), record(8, &[])].concat();
		r.truncate(r.len() - 2);
		r
	}));
	v.push(("control-drop-table-existing-column-no-reindex", record(7, &act_drop(5, idx(0, 16)))));
	v.push(("control-record-id-u64-max-minus-1", record(u64::MAX - 1, &[])));
	// an unreachable slot of the 32-byte table of column 0: 30-byte entry, tombstone
	let mut p30 = vec![30, 0];
	p30.extend_from_slice(&[0xcd; 30]);
	v.push(("control-value-length-30-in-32-byte-table", record(7, &act_value(idx(0, 0), 40, &p30))));
	v.push(("control-tombstone", record(7, &act_value(idx(0, 0), 41, &[0xff, 0xff, 0, 0, 0, 0, 0, 0, 0, 0]))));
	v.push(("control-multipart-marker-in-plain-table", record(7, &act_value(idx(0, 0), 42, &[0xfe, 0xff]))));
	// validation side effect: a table id with more index bits starts a reindex before the
	// checksum of the record is looked at (here the checksum is wrong: record rejected)
	v.push(("index-bits-17-bad-crc", bad_crc(record(7, &act_masked(2, idx(0, 17), 0, 1, 8)))));
	v.push(("refcount-bits-18-bad-crc", bad_crc(record(7, &act_masked(6, idx(2, 18), 0, 1, 16)))));
	v
}

/// The database of the fixed cases (see `corpus`), cleanly closed; and its leftover log files.
fn corpus_image(tag: &str, root: &Path) -> (Image, Vec<(String, Vec<u8>)>) {
	let spec = Spec::plain(vec![CK::Plain, CK::Btree, CK::Multi]);
	let dir = fresh_dir(root, &format!("c13-{}-src", tag));
	let keys: Vec<Vec<Vec<u8>>> = vec![
		vec![b"alpha".to_vec(), b"beta".to_vec(), b"gamma".to_vec()],
		vec![b"one".to_vec(), b"two".to_vec()],
		vec![],
	];
	let mut vals = Values::default();
	let mut oracle = Oracle::new(3);
	let mut states = vec![oracle.clone()];
	let txs: Vec<Tx> = vec![
		vec![(0, Op::Set(keys[0][0].clone(), "v10_1".into())), (1, Op::Set(keys[1][0].clone(), "v33_2".into()))],
		vec![
			(0, Op::Set(keys[0][1].clone(), "v100_4".into())),
			(0, Op::Del(keys[0][0].clone())),
			(1, Op::Set(keys[1][1].clone(), "v5_5".into())),
		],
	];
	{
		let db = Db::open_or_create(&spec.options(&dir)).expect("corpus create");
		for tx in &txs {
			db.commit_changes(p1::to_db_tx(tx, &mut vals)).expect("corpus commit");
			oracle.apply(&spec.p1, tx, &mut vals);
			states.push(oracle.clone());
		}
		drop(db); // processes, enacts and reclaims everything
	}
	let leftover = list_logs(&dir);
	let base = fresh_dir(root, &format!("c13-{}-base", tag));
	copy_tables(&dir, &base);
	let _ = std::fs::remove_dir_all(&dir);
	let cfg = spec.model_cfg(&base);
	let img = Image {
		spec,
		base,
		cfg,
		logs: vec![],
		states,
		keys,
		n: 2,
		a: 2,
		stale: vec![],
		extra_col: 0,
		extra_key: b"c13 extra key".to_vec(),
		records: Default::default(),
		tabs: None,
	};
	(img, leftover)
}

fn run_corpus_case(i: usize, name: &str, bytes: &[u8], root: &Path, t: &mut Trace, ctr: &mut Counters, prop: &str) -> bool {
	let (img, leftover) = corpus_image(&format!("corpus-{}", i), root);
	t.begin_case(&format!("seed={} corpus {} ({} bytes)", i, name, bytes.len()));
	if !leftover.is_empty() {
		t.comment(&format!("corpus base has leftover log files: {:?}", leftover.iter().map(|l| (&l.0, l.1.len())).collect::<Vec<_>>()));
	}
	let d = Damage::new("corpus", format!("corpus {}", name), vec![("log0".to_string(), bytes.to_vec())], None);
	let ok = run_damages(&img, &[d], root, &format!("corpus-{}", i), t, ctr, prop, false);
	ctr.inc("cases.corpus");
	t.end_case(true);
	ok
}

// ------------------------------------------------------------------------------ crafted records with a valid checksum

/// a crafted case may kill or hang its process: it runs in a child with this limit
const CRAFTED_CHILD_LIMIT: std::time::Duration = std::time::Duration::from_secs(20);
/// set for the child: run the crafted case in this process
const CHILD_ENV: &str = "PDB_C13_CHILD";

/// Hand-made records WITH a valid checksum that are well-formed for the validators and attack
/// what `Db::open` does after (or while) applying them: (name, bytes of `log0`, finding the
/// unfixed crate shows).  Same database as the corpus.  Expectation: `Db::open` does not crash.
///   * header of a multitree value table (slot 0 = last_removed, filled): the free list is
///     followed at open by `ValueTable::init_table_data`; unfixed: reads beyond the file
///     (SIGBUS), beyond the mapping / multiplication overflow (slice panic file.rs:146), or
///     walks a cycle for ever.  Fixed (fix-c13-free-list-at-open): `Err(Corruption)`.
///   * an INSERT_INDEX naming table 0:18 (queues 0:16 and the never written 0:17), then
///     DROP_TABLE of both: unfixed `drop_file` of 0:17 fails with `Io(NotFound)` after 0:16 has
///     been dropped (half-applied record, open fails).  Fixed
///     (fix-c13-drop-never-created-table): open succeeds; the record legitimately empties
///     column 0.
/// Not run (resource exhaustion, not a crash): `record(7, INSERT_VALUE table 0:0 index 2^32
/// tombstone)` is accepted and grows the value table file to 128 GiB (sparse).
fn crafted_valid() -> Vec<(&'static str, Vec<u8>, &'static str)> {
	let idx = |col: u16, bits: u16| (col << 8) | bits;
	let hdr = |last_removed: u64, filled: u64| {
		let mut h = last_removed.to_le_bytes().to_vec();
		h.extend_from_slice(&filled.to_le_bytes());
		h
	};
	let tomb = |next: u64| {
		let mut p = vec![0xff, 0xff];
		p.extend_from_slice(&next.to_le_bytes());
		p
	};
	vec![
		(
			"crafted-multitree-header-free-list-beyond-file",
			record(7, &act_value(idx(2, 0), 0, &hdr(1_000_000, 2_000_000))),
			"FREE-LIST-AT-OPEN",
		),
		(
			"crafted-multitree-header-free-list-beyond-map",
			record(7, &act_value(idx(2, 0), 0, &hdr(1u64 << 40, 1u64 << 41))),
			"FREE-LIST-AT-OPEN",
		),
		(
			"crafted-multitree-header-free-list-mul-overflow",
			record(7, &act_value(idx(2, 0), 0, &hdr(1u64 << 62, 1u64 << 63))),
			"FREE-LIST-AT-OPEN",
		),
		(
			"crafted-multitree-free-list-cycle",
			record(7, &[act_value(idx(2, 0), 0, &hdr(1, 3)), act_value(idx(2, 0), 1, &tomb(1))].concat()),
			"FREE-LIST-AT-OPEN",
		),
		(
			"crafted-drop-fileless-index",
			record(7, &[act_masked(2, idx(0, 18), 0, 0, 8), act_drop(5, idx(0, 16)), act_drop(5, idx(0, 17))].concat()),
			"DROP-OF-NEVER-CREATED-TABLE",
		),
	]
}

/// One crafted case, in this process (the child).  Verdict: no crash.  `Err(Corruption)` is a
/// fine answer (no model op then: the model does not cover what open does with the tables
/// after replay); success is reported to the model like every other replay, after which reads
/// and drop must not panic (no content / configuration oracle: the record is crafted).
fn run_crafted_case(i: usize, name: &str, bytes: &[u8], root: &Path, t: &mut Trace, ctr: &mut Counters, prop: &str) -> bool {
	let (img, _) = corpus_image(&format!("crafted-{}", i), root);
	t.begin_case(&format!("seed={} crafted {} ({} bytes)", i, name, bytes.len()));
	let work = fresh_dir(root, &format!("c13-crafted-{}-work", i));
	copy_tables(&img.base, &work);
	std::fs::write(work.join("log0"), bytes).unwrap();
	let opts = img.spec.options(&work);
	let mut ok = true;
	ctr.inc("cases.crafted");
	match std::panic::catch_unwind(std::panic::AssertUnwindSafe(|| Db::open(&opts))) {
		Err(_) => {
			t.oracle_fail(
				prop,
				&format!(
					"FREE-LIST-AT-OPEN: open panicked: {} on a crafted record with a valid checksum | damage: corpus {}",
					last_panic(),
					name
				),
			);
			ctr.inc("crafted.open_panicked");
			ok = false;
		},
		Ok(Err(parity_db::Error::Corruption(e))) => {
			t.comment(&format!("crafted {}: open refused the database: Corruption({})", name, e));
			ctr.inc("crafted.open_refused_with_corruption");
		},
		Ok(Err(parity_db::Error::Io(e))) if e.kind() == std::io::ErrorKind::NotFound && name == "crafted-drop-fileless-index" => {
			t.oracle_fail(
				prop,
				&format!(
					"DROP-OF-NEVER-CREATED-TABLE: open failed with Io({:?}) after applying part of the record (tables left: {}) | damage: corpus {}",
					e.kind(),
					img.spec.model_cfg(&work),
					name
				),
			);
			ctr.inc("crafted.open_failed_half_applied");
			ok = false;
		},
		Ok(Err(e)) => {
			t.oracle_fail(prop, &format!("open failed: {:?} | damage: corpus {}", e, name));
			ctr.inc("crafted.open_failed_other");
			ok = false;
		},
		Ok(Ok(db)) => {
			t.op(
				&format!("c13 replaylast {} auto {}", img.cfg, hex(bytes)),
				&format!("last={} cfg={}", db.verif_last_enacted(), db.verif_table_cfg()),
			);
			ctr.inc("op.replaylast");
			ctr.inc("op.replaylast.crafted");
			ctr.inc("crafted.open_ok");
			let keys = img.keys.clone();
			let r = std::panic::catch_unwind(std::panic::AssertUnwindSafe(move || {
				let o = read_all(&db, &keys);
				drop(db);
				o
			}));
			match r {
				Ok(o) => t.comment(&format!("crafted {}: content after open:{}", name, show_obs(&img.keys, &o))),
				Err(_) => {
					t.oracle_fail(
						prop,
						&format!("reads / drop after open panicked: {} on a crafted record with a valid checksum | damage: corpus {}", last_panic(), name),
					);
					ok = false;
				},
			}
		},
	}
	let _ = std::fs::remove_dir_all(&work);
	let _ = std::fs::remove_dir_all(&img.base);
	t.end_case(true);
	ok
}

/// Run crafted case `i` in a child process (`pdbverif c13 --case-seed i`, `PDB_C13_CHILD=1`) and
/// copy its trace into ours.  A child that dies from a signal, exceeds the limit or leaves no
/// complete case is the finding: the case is then written here.
fn run_crafted_in_child(i: usize, name: &str, root: &Path, t: &mut Trace, ctr: &mut Counters, prop: &str) -> bool {
	use std::os::unix::process::ExitStatusExt;
	let out = root.join(format!("c13-crafted-{}.trace", i));
	let _ = std::fs::remove_file(&out);
	let started = std::time::Instant::now();
	let spawned = std::env::current_exe().and_then(|exe| {
		std::process::Command::new(exe)
			.args(["c13", "--prop", prop, "--case-seed", &i.to_string(), "--out"])
			.arg(&out)
			.env(CHILD_ENV, "1")
			.stdin(std::process::Stdio::null())
			.stdout(std::process::Stdio::null())
			.stderr(std::process::Stdio::null())
			.spawn()
	});
	let mut child = match spawned {
		Ok(c) => c,
		Err(e) => {
			t.begin_case(&format!("seed={} crafted {} (no child)", i, name));
			t.oracle_fail(prop, &format!("harness could not start the child process: {}", e));
			t.end_case(false);
			return false
		},
	};
	let pid = child.id();
	let mut timed_out = false;
	let status = loop {
		match child.try_wait() {
			Ok(Some(s)) => break Some(s),
			Ok(None) if started.elapsed() > CRAFTED_CHILD_LIMIT => {
				timed_out = true;
				let _ = child.kill();
				break child.wait().ok()
			},
			Ok(None) => std::thread::sleep(std::time::Duration::from_millis(5)),
			Err(_) => break None,
		}
	};
	// the scratch directory of a child that did not get to remove it
	if let Some(parent) = root.parent() {
		let _ = std::fs::remove_dir_all(parent.join(format!("pdbverif.{}", pid)));
	}
	let text = std::fs::read_to_string(&out).unwrap_or_default();
	let _ = std::fs::remove_file(&out);
	let lines: Vec<&str> = text.lines().collect();
	let complete = lines.iter().any(|l| l.starts_with("#CASE ")) && lines.iter().any(|l| l.starts_with("#CASEEND"));
	let how = if timed_out {
		Some(format!("no answer within {} s, killed", CRAFTED_CHILD_LIMIT.as_secs()))
	} else {
		match status {
			Some(s) if s.signal().is_some() => Some(format!("signal {}", s.signal().unwrap())),
			Some(s) if complete && matches!(s.code(), Some(0) | Some(1)) => None,
			Some(s) => Some(format!("exit status {:?} without a complete case", s.code())),
			None => Some("child could not be waited for".to_string()),
		}
	};
	ctr.inc("cases.crafted.children");
	if let Some(how) = how {
		let crashed = timed_out || status.map_or(false, |s| s.signal().is_some());
		t.begin_case(&format!("seed={} crafted {} (child process: {})", i, name, how));
		if crashed {
			t.oracle_fail(
				prop,
				&format!(
					"FREE-LIST-AT-OPEN: Db::open crashed the process ({}) on a crafted record with a valid checksum | damage: corpus {}",
					how, name
				),
			);
			ctr.inc(if timed_out { "crafted.child_hung" } else { "crafted.child_killed_by_signal" });
		} else {
			t.oracle_fail(prop, &format!("the child process of a crafted case ended abnormally: {} | damage: corpus {}", how, name));
			ctr.inc("crafted.child_abnormal");
		}
		ctr.inc("cases.crafted");
		t.end_case(true);
		return false
	}
	let mut ok = true;
	for l in lines {
		if let Some(c) = l.strip_prefix("#CASE ") {
			t.begin_case(c);
		} else if l.starts_with("#CASEEND") {
			t.end_case(l.contains("nontrivial=1"));
		} else if let Some(kv) = l.strip_prefix("#STAT ") {
			if let Some((k, v)) = kv.split_once(' ') {
				if k != "oracle_failures" {
					ctr.add(k, v.parse().unwrap_or(0));
				}
			}
		} else if let Some(m) = l.strip_prefix("!ORACLE ") {
			let (p, msg) = m.split_once(' ').unwrap_or((prop, m));
			t.oracle_fail(p, msg);
			ok = false;
		} else if let Some(m) = l.strip_prefix("!KNOWN ") {
			let mut it = m.splitn(3, ' ');
			let (p, id, msg) = (it.next().unwrap_or(prop), it.next().unwrap_or("?"), it.next().unwrap_or(""));
			t.known(p, id, msg);
		} else if let Some(c) = l.strip_prefix("# ") {
			if !c.starts_with("FAILED-CASE") {
				t.comment(c);
			}
		} else if let Some((op, obs)) = l.split_once('\t') {
			t.op(op, obs);
		}
	}
	ok
}

#[derive(Clone)]
enum Step {
	Commit(Tx),
	Flush,
	Enact,
	Clean,
	/// `process_reindex`: must append a record (moved index entries / DROP_TABLE)
	Reindex,
}

struct Scenario {
	name: &'static str,
	/// column 0 hashes with the identity (uniform, zero salt): `growth_keys` share an index chunk
	growth: bool,
	cols: Vec<CK>,
	steps: Vec<Step>,
	damage: Box<dyn Fn(&Image) -> Damage + Send + Sync>,
}

/// Scripted histories that reproduce each finding of this property deterministically.
fn scenarios() -> Vec<Scenario> {
	let k1 = b"key one".to_vec();
	let k2 = b"key two".to_vec();
	let set = |c: u8, k: &Vec<u8>, v: &str| Step::Commit(vec![(c, Op::Set(k.clone(), v.to_string()))]);
	// the file holding record `id`
	fn file_of(img: &Image, id: u64) -> usize {
		img.logs.iter().position(|l| l.spans.iter().any(|s| s.id == id)).unwrap()
	}
	fn span_of(img: &Image, id: u64) -> Span {
		img.logs[file_of(img, id)].spans.iter().find(|s| s.id == id).unwrap().clone()
	}
	let two_pending = |k1: &Vec<u8>, k2: &Vec<u8>| vec![set(0, k1, "v20_1"), Step::Flush, set(0, k2, "v20_2")];
	// growth scenarios: keys 0..63 in four records, key 64 in the fifth
	let gk = growth_keys(77, [0x5a, 0xc3], 66, false);
	let gset = |i: usize| (0u8, Op::Set(gk[i].clone(), format!("v{}_{}", 20 + (i % 7), 7000 + i)));
	let fill_chunk = || -> Vec<Step> { (0..4).map(|r| Step::Commit((16 * r..16 * r + 16).map(|i| gset(i)).collect())).collect() };
	let grow = || Step::Commit(vec![gset(64)]);
	vec![
		Scenario {
			growth: false,
			// F3b: k1=a; k1=b; k2=c all applied, log not reclaimed, one bit of record 2 flipped:
			// replay re-applies record 1 only -> {k1=a, k2=c}
			name: "scenario-f3b-bit-flip-in-applied-record",
			cols: vec![CK::Plain],
			steps: vec![set(0, &k1, "v20_1"), set(0, &k1, "v20_2"), set(0, &k2, "v20_3"), Step::Flush, Step::Enact],
			damage: Box::new(|img| {
				let s = span_of(img, 2);
				d_bitflip(img, file_of(img, 2), s.end - 7, 0)
			}),
		},
		Scenario {
			growth: false,
			// F3b through a log of an earlier generation: record 1 (k1=a) comes back after k1=b
			name: "scenario-f3b-earlier-generation-log",
			cols: vec![CK::Plain],
			steps: vec![
				set(0, &k1, "v20_1"),
				Step::Flush,
				Step::Enact,
				Step::Clean,
				set(0, &k1, "v20_2"),
				Step::Flush,
				Step::Enact,
				Step::Clean,
				set(0, &k2, "v20_3"),
			],
			damage: Box::new(|img| {
				let st = img.stale.iter().find(|s| s.spans[0].id == 1).unwrap().clone();
				d_stale(img, &st, "log7".to_string())
			}),
		},
		Scenario {
			growth: false,
			// gap: the older of two pending logs disappears, the younger one is replayed alone
			name: "scenario-gap-oldest-pending-log-deleted",
			cols: vec![CK::Plain],
			steps: two_pending(&k1, &k2),
			damage: Box::new(|img| d_delete(img, file_of(img, 1))),
		},
		Scenario {
			growth: false,
			name: "scenario-gap-oldest-pending-log-cut-below-header",
			cols: vec![CK::Plain],
			steps: two_pending(&k1, &k2),
			damage: Box::new(|img| d_trunc(img, file_of(img, 1), 5)),
		},
		Scenario {
			growth: false,
			// one bit in the id of the first record (1 -> 5): the file sorts behind the other one
			name: "scenario-gap-bit-flip-in-first-record-id",
			cols: vec![CK::Plain],
			steps: two_pending(&k1, &k2),
			damage: Box::new(|img| d_bitflip(img, file_of(img, 1), 1, 2)),
		},
		Scenario {
			growth: false,
			// gap inside a btree column: the header of record 2 points at a node record 1 wrote
			name: "scenario-gap-btree-oldest-pending-log-deleted",
			cols: vec![CK::Btree],
			steps: two_pending(&k1, &k2),
			damage: Box::new(|img| d_delete(img, file_of(img, 1))),
		},
		Scenario {
			growth: false,
			// one bit in the table id of the INSERT_INDEX of a pending record (16 -> 24 index
			// bits): the record is rejected (checksum) after it has started a reindex
			name: "scenario-reindex-by-rejected-record-24-bits",
			cols: vec![CK::Plain],
			steps: vec![set(0, &k1, "v20_1")],
			damage: Box::new(|img| d_bitflip(img, file_of(img, 1), 10, 3)),
		},
		Scenario {
			growth: false,
			// 16 -> 48 index bits in the last column: the next commit panics (overlay slot)
			name: "scenario-reindex-by-rejected-record-48-bits-last-column",
			cols: vec![CK::Plain],
			steps: vec![set(0, &k1, "v20_1")],
			damage: Box::new(|img| d_bitflip(img, file_of(img, 1), 10, 5)),
		},
		Scenario {
			growth: false,
			// 16 -> 48 index bits in a column that is not the last: the next commit creates a
			// 2^57 byte index file, the database does not open again
			name: "scenario-reindex-by-rejected-record-48-bits-first-column",
			cols: vec![CK::Plain, CK::Plain],
			steps: vec![set(0, &k1, "v20_1")],
			damage: Box::new(|img| d_bitflip(img, file_of(img, 1), 10, 5)),
		},
		// ---- index growth (f-c13): 64 keys fill one chunk of the 16-bit index in records 1..4,
		// record 5 adds the 65th key: it names table 0:17; record 6 (where present) is the
		// reindex record: 64 entries moved into table 17 and DROP_TABLE of table 16
		Scenario {
			// the growth record is pending and loses its last 3 bytes: it is rejected, but its
			// validation has already started the reindex (F3d with a legitimate table id)
			name: "scenario-growth-pending-growth-record-truncated",
			growth: true,
			cols: vec![CK::Plain],
			steps: [fill_chunk(), vec![Step::Flush, Step::Enact, Step::Clean, grow()]].concat(),
			damage: Box::new(|img| {
				let f = file_of(img, 5);
				d_trunc(img, f, img.logs[f].bytes.len() - 3)
			}),
		},
		Scenario {
			// the growth record is pending and intact: replay accepts it, the configuration
			// changes 16 -> 17 with table 16 queued BY AN ACCEPTED RECORD (no finding)
			name: "scenario-growth-pending-growth-record-accepted",
			growth: true,
			cols: vec![CK::Plain],
			steps: [fill_chunk(), vec![Step::Flush, Step::Enact, Step::Clean, grow()]].concat(),
			damage: Box::new(|img| d_append(img, file_of(img, 5), record(6, &[]), "append-valid-empty-record")),
		},
		Scenario {
			// reindex record (moved entries + DROP_TABLE) logged, not enacted, intact: replay
			// moves the entries and drops table 16
			name: "scenario-growth-drop-table-record-pending-accepted",
			growth: true,
			cols: vec![CK::Plain],
			steps: [fill_chunk(), vec![grow(), Step::Flush, Step::Enact, Step::Clean, Step::Reindex]].concat(),
			damage: Box::new(|img| d_append(img, file_of(img, 6), record(7, &[]), "append-valid-empty-record")),
		},
		Scenario {
			// the same, one bit of the checksum of the reindex record flipped: rejected, table 16
			// stays queued, nothing is moved
			name: "scenario-growth-drop-table-record-pending-bit-flip",
			growth: true,
			cols: vec![CK::Plain],
			steps: [fill_chunk(), vec![grow(), Step::Flush, Step::Enact, Step::Clean, Step::Reindex]].concat(),
			damage: Box::new(|img| {
				let s = span_of(img, 6);
				d_bitflip(img, file_of(img, 6), s.end - 2, 4)
			}),
		},
		Scenario {
			// everything enacted (table 16 dropped), no log reclaimed, garbage behind the last
			// record: replay re-applies records 1..6 on the tables: the inserts into table 16
			// are skipped (too old), its DROP_TABLE is ignored
			name: "scenario-growth-all-enacted-logs-replayed-over-dropped-table",
			growth: true,
			cols: vec![CK::Plain],
			steps: [fill_chunk(), vec![grow(), Step::Flush, Step::Enact, Step::Reindex, Step::Flush, Step::Enact]].concat(),
			damage: Box::new(|img| d_append(img, file_of(img, 6), vec![1, 9, 0, 0, 0], "append-garbage")),
		},
		Scenario {
			// growth enacted; record 6 (a further key) and record 7 (reindex record with
			// DROP_TABLE) pending in two files, the file of record 6 is deleted: record 7 is
			// replayed behind a gap (the gap rule treats a reindex record like any other record;
			// the content is that of 5 records, which is a prefix)
			name: "scenario-growth-gap-commit-lost-drop-record-replayed",
			growth: true,
			cols: vec![CK::Plain],
			steps: [
				fill_chunk(),
				vec![grow(), Step::Flush, Step::Enact, Step::Clean, Step::Commit(vec![gset(65)]), Step::Flush, Step::Reindex],
			]
			.concat(),
			damage: Box::new(|img| d_delete(img, file_of(img, 6))),
		},
	]
}

fn run_scenario(i: usize, sc: &Scenario, root: &Path, t: &mut Trace, ctr: &mut Counters, prop: &str) -> bool {
	let mut spec = Spec::plain(sc.cols.clone());
	if sc.growth {
		spec.p1.salt = [0u8; 32];
		spec.p1.cols[0].uniform = true;
	}
	let tag = format!("scenario-{}", i);
	let mut keys: Vec<Vec<Vec<u8>>> = vec![vec![]; sc.cols.len()];
	for s in &sc.steps {
		if let Step::Commit(tx) = s {
			for (c, op) in tx {
				if !keys[*c as usize].contains(op.key()) {
					keys[*c as usize].push(op.key().clone());
				}
			}
		}
	}
	let built = (|| -> Result<Image, String> {
		let mut b = Builder::create(&spec, fresh_dir(root, &format!("c13-{}-src", tag)))?;
		let mut vals = Values::default();
		let mut oracle = Oracle::new(sc.cols.len());
		let mut states = vec![oracle.clone()];
		for s in &sc.steps {
			match s {
				Step::Commit(tx) => {
					b.commit(p1::to_db_tx(tx, &mut vals))?;
					oracle.apply(&spec.p1, tx, &mut vals);
					states.push(oracle.clone());
				},
				Step::Flush => b.flush()?,
				Step::Enact => {
					b.enact()?;
				},
				Step::Clean => {
					b.clean()?;
				},
				Step::Reindex => {
					if !b.reindex()? {
						return Err("scripted process_reindex wrote no record".into())
					}
					states.push(oracle.clone());
				},
			}
		}
		take_image(b, spec.clone(), states, keys.clone(), root, &tag, ctr)
	})();
	let img = match built {
		Ok(i) => i,
		Err(e) => {
			t.begin_case(&format!("seed={} {} build failed", i, sc.name));
			t.oracle_fail(prop, &format!("harness could not build the image: {}", e));
			t.end_case(false);
			return false
		},
	};
	t.begin_case(&format!(
		"seed={} {} cols={} records={} enacted={} cfg={} logs=[{}]",
		i,
		sc.name,
		img.spec.describe(),
		img.n,
		img.a,
		img.cfg,
		describe_logs(&img)
	));
	record_statistics(&img, ctr, "cases.scenario");
	let d = (sc.damage)(&img);
	let ok = run_damages(&img, &[d], root, &tag, t, ctr, prop, true);
	ctr.inc("cases.scenario");
	t.end_case(true);
	ok
}

// ------------------------------------------------------------------------------ entry

pub fn run(seeds: &[u64], thorough: bool, root: &Path, t: &mut Trace, ctr: &mut Counters, prop: &str) -> u64 {
	install_panic_hook();
	let mut fails = 0;
	let corp = corpus();
	let scen = scenarios();
	let crafted = crafted_valid();
	let in_child = std::env::var_os(CHILD_ENV).is_some();
	// `--case-seed <i>` with i below CORPUS_SEED_LIMIT replays one fixed case; otherwise the
	// fixed cases run first, then the generated ones
	let single_fixed = seeds.len() == 1 && seeds[0] < CORPUS_SEED_LIMIT;
	if single_fixed || seeds.len() > 1 {
		for (i, (name, bytes)) in corp.iter().enumerate() {
			if single_fixed && seeds[0] as usize != i {
				continue
			}
			if !in_case_thread(i as u64, t, ctr, prop, |t, ctr| run_corpus_case(i, name, bytes, root, t, ctr, prop)) {
				fails += 1;
				t.comment(&format!("FAILED-CASE seed={}", i));
			}
		}
		for (j, sc) in scen.iter().enumerate() {
			let i = corp.len() + j;
			if single_fixed && seeds[0] as usize != i {
				continue
			}
			if !in_case_thread(i as u64, t, ctr, prop, |t, ctr| run_scenario(i, sc, root, t, ctr, prop)) {
				fails += 1;
				t.comment(&format!("FAILED-CASE seed={}", i));
			}
		}
		// crafted records with a valid checksum: each in a child process (the unfixed crate
		// dies or hangs inside `Db::open`)
		for (j, (name, bytes, _)) in crafted.iter().enumerate() {
			let i = corp.len() + scen.len() + j;
			if single_fixed && seeds[0] as usize != i {
				continue
			}
			let ok = if in_child {
				in_case_thread(i as u64, t, ctr, prop, |t, ctr| run_crafted_case(i, name, bytes, root, t, ctr, prop))
			} else {
				run_crafted_in_child(i, name, root, t, ctr, prop)
			};
			if !ok {
				fails += 1;
				t.comment(&format!("FAILED-CASE seed={}", i));
			}
		}
	}
	if !single_fixed {
		for s in seeds.iter().copied() {
			if !in_case_thread(s, t, ctr, prop, |t, ctr| run_generated(s, thorough, root, t, ctr, prop)) {
				fails += 1;
				t.comment(&format!("FAILED-CASE seed={}", s));
			}
		}
	}
	let _ = std::panic::take_hook();
	fails
}
