/-
C07 / C14: value iteration on the BYTE-LEVEL model.

  C07 "for hash-indexed columns, value iteration reports exactly the live values with their counts"
  C14 "iterating a hash column's values enumerates each live value exactly once"

Model: Pdb/Model/ValueIter.lean (`VT.iterWhile` = `ValueTable::iter_while`, `pIterValues` =
`HashColumn::iter_values` = `Db::iter_column_while`), on C06's byte-level table `VT` and on the
physical column `PCol`.  Tie to the code: the harness lines `r5 iter` / `r5 iterd` / `r5 iterstop k`
and `c06 t iter` / `c06 t iterd` print what the REAL `iter_column_while` reports (callback order) and
the driver answers them from `pIterValues` on the model's physical state.

  C07_scan_exact        one table: under C06's `SlotInv` (+ the two chain facts of R2's `RepL`) the
                        scan has no error and reports exactly one item per live chain head, in
                        increasing index order, no tombstone, no continuation part, with the bytes
                        and the counter the keyed read returns; the reported cells are the `absVT`
                        image of the table.
  C07_scan_exact_rep    the same from R2's representation relation `RepL`: the reported cells are
                        the cells of the abstract store, in slot order.
  C07_iter_early_stop   `iter_while` with any callback = the callback run over the full enumeration
                        until it returns `false`; the items it was called with are a prefix.
  C07_iter_column_stop_is_per_table   DEVIATION of the crate: at column level a `false` ends only
                        the scan of the current table (concrete witness; reproduced on the crate).
-/
import Pdb.Proofs.C07Iter2

namespace Pdb.ValueIter
open Pdb.Gen Pdb.ValueTable Pdb.Refine

/-- C07 / C14, one value table.  `hparts` and `hheads` are the two facts about chains that C06's
`SlotInv` does not contain and R2's `RepL` does (`RepL.parts`, `RepL.heads`): a continuation part
does not carry a head marker, and the head of every live chain is readable.  `hes` holds for every
table the column code creates (`SIZES` starts at 32, `MULTIPART_ENTRY_SIZE = 4096`). -/
theorem C07_scan_exact (t : VT) (F : List Nat) (L : List (List Nat))
    (hes : PARTIAL_SIZE ≤ t.entrySize) (hinv : SlotInv t F L)
    (hparts : ∀ c ∈ L, ∀ j ∈ c.tail, t.multipart = true ∧ ¬ isMultiHead (t.slots j))
    (hheads : ∀ c ∈ L, (absVT t (c.headD 0)).isSome = true) :
    ∃ items, t.scan = .ok items ∧ ScanExact t F L items :=
  scan_exact t F L hes hinv hparts hheads

/-- the same from R2's `RepL`: the scan reports the cells of the abstract store `A`, in slot order,
one item per live chain -/
theorem C07_scan_exact_rep (t : VT) (A : AStore) (L : List (List Nat))
    (hes : PARTIAL_SIZE ≤ t.entrySize) (hr : RepL t A L) :
    ∃ items, t.scan = .ok items ∧ ScanExact t A.tier.free L items ∧
      items.map Item.cell = (List.range' 1 (t.filled - 1)).filterMap A.cell := by
  obtain ⟨items, h1, h2⟩ := scan_exact t A.tier.free L hes hr.inv hr.parts
    (fun c hc => by rw [(hr.heads c hc).1]; exact (hr.heads c hc).2.1)
  refine ⟨items, h1, h2, ?_⟩
  rw [h2.cells]
  congr 1
  funext i
  exact hr.cells i

/-- early stop: whatever the callback, `iter_while` is the callback run over the full enumeration,
stopped after the first call that returns `false`; a callback that records its calls has recorded a
prefix of the enumeration (`takeThrough`: up to and including the item it refused), everything if it
never refuses. -/
theorem C07_iter_early_stop (t : VT) (items : List Item) (hscan : t.scan = .ok items) :
    (∀ (σ : Type) (f : σ → Item → σ × Bool) (s : σ), t.iterWhile f s = .ok (runCb f s items)) ∧
    (∀ keep : Item → Bool,
      t.iterWhile (collect keep) [] = .ok (takeThrough keep items) ∧
      takeThrough keep items <+: items ∧
      ((∀ it ∈ items, keep it = true) → takeThrough keep items = items)) := by
  refine ⟨fun σ f s => iterLoop_eq t f _ _ s items hscan, fun keep => ⟨?_, takeThrough_prefix keep items,
    takeThrough_all keep items⟩⟩
  have := iterLoop_eq t (collect keep) _ _ [] items hscan
  rw [runCb_collect] at this
  exact this

/-! ### non-vacuity: a multipart table with counters: a live three-slot value with count 2, a live two-slot value,
one removed value whose two slots are tombstones on the free list -/

def exKeyA : TKey := .partialKey (List.replicate 26 0xA1)
def exKeyB : TKey := .partialKey (List.replicate 26 0xB2)
def exKeyC : TKey := .partialKey (List.replicate 26 0xC3)
def exVal (n x : Nat) : Bytes := List.replicate n x

def wr (t : VT) (k : TKey) (v : Bytes) : VT :=
  match writeChain t k v none false with
  | .ok r => r.table
  | .error _ => t

def rm (t : VT) (i : Nat) : VT :=
  match removePlan t i with
  | .ok (t', _) => t'
  | .error _ => t

/-- entry size 48, multipart, ref-counted: A (60 bytes) at slots 1,2,3; B at 4,5; C at 6,7; B removed; A
referenced once more -/
def itT : VT :=
  (changeRef (rm (wr (wr (wr (VT.empty 48 true true) exKeyA (exVal 60 1)) exKeyB (exVal 20 2)) exKeyC (exVal 20 3)) 4) 1 true).1

theorem itT_inv : SlotInv itT [5, 4] [[1, 2, 3], [6, 7]] := by decide +kernel
theorem itT_parts : ∀ c ∈ [[1, 2, 3], [6, 7]], ∀ j ∈ c.tail,
    itT.multipart = true ∧ ¬ isMultiHead (itT.slots j) := by decide +kernel
theorem itT_heads : ∀ c ∈ [[1, 2, 3], [6, 7]], (absVT itT (c.headD 0)).isSome = true := by
  decide +kernel

example := C07_scan_exact itT [5, 4] [[1, 2, 3], [6, 7]] (by decide +kernel) itT_inv itT_parts itT_heads

/-- what the scan of the example reports: slot 1 (count 2) and slot 6 (count 1), the tombstones 4, 5
and the continuation parts 2, 3, 7 are skipped -/
theorem itT_scan : itT.scan = .ok
    [⟨1, 2, List.replicate 26 0xA1, exVal 60 1, false⟩, ⟨6, 1, List.replicate 26 0xC3, exVal 20 3, false⟩] := by
  have h : itT.scan.toOption = some
      [⟨1, 2, List.replicate 26 0xA1, exVal 60 1, false⟩, ⟨6, 1, List.replicate 26 0xC3, exVal 20 3, false⟩] := by
    decide +kernel
  cases hs : itT.scan with
  | error e => rw [hs] at h; cases h
  | ok l => rw [hs] at h; simp only [Except.toOption, Option.some.injEq] at h; rw [h]

example : isTombstone (itT.slots 4) ∧ isTombstone (itT.slots 5) ∧ isMultipart (itT.slots 2) ∧
    isMultiHead (itT.slots 1) ∧ isMultiHead (itT.slots 6) ∧ itT.filled = 8 ∧ itT.lastRemoved = 5 := by
  decide +kernel

example := C07_iter_early_stop itT _ itT_scan
/- a callback that refuses the first item is not called again -/
example : (itT.iterWhile (collect (fun _ => false)) []).toOption =
    some [⟨1, 2, List.replicate 26 0xA1, exVal 60 1, false⟩] := by decide +kernel

/-! ### the column level: a `false` of the callback ends ONE table -/

/-- two tables with one value each -/
def exP2 : PCol :=
  ⟨⟨true, true, false⟩, Pdb.Index.Table.new 16, [], 0, fun tier =>
    if tier = 3 then wr (tableOfTier true 3) exKeyA [1, 2, 3]
    else if tier = 7 then wr (tableOfTier true 7) exKeyB [4, 5, 6, 7, 8, 9, 10]
    else tableOfTier true tier⟩

/-- DEVIATION (crate, `HashColumn::iter_values`): the callback of `iter_column_while` returns
`false` at its first call and is called AGAIN, with the first value of the next table. -/
theorem C07_iter_column_stop_is_per_table :
    (pIterValues some exP2 (stopCb 1) (0, [])).toOption =
      some (2, [⟨3, 1, List.replicate 26 0xA1, 1, [1, 2, 3]⟩,
               ⟨7, 1, List.replicate 26 0xB2, 1, [4, 5, 6, 7, 8, 9, 10]⟩]) := by
  decide +kernel

end Pdb.ValueIter

#print axioms Pdb.ValueIter.C07_scan_exact
#print axioms Pdb.ValueIter.C07_scan_exact_rep
#print axioms Pdb.ValueIter.C07_iter_early_stop
#print axioms Pdb.ValueIter.C07_iter_column_stop_is_per_table
#print axioms Pdb.ValueIter.itT_scan
