#!/usr/bin/env python3
# usage: tie.py <cmd> <prop> <seed> <cases> [extra args]
import sys, subprocess, os, collections
BIN="/dev/shm/f-iter/target/release/pdbverif"; DRV="/dev/shm/f-iter/lean/.lake/build/bin/pdbdriver"
cmd,prop,seed,cases=sys.argv[1:5]; extra=sys.argv[5:]
trace="/dev/shm/f-iter/trace_%s_%s.txt"%(cmd,seed)
rc=subprocess.run(["timeout","900",BIN,cmd,"--prop",prop,"--seed",seed,"--cases",cases,"--out",trace]+extra,stdout=subprocess.PIPE,stderr=subprocess.STDOUT)
print("harness rc",rc.returncode, rc.stdout.decode()[-300:])
ops=[];case=None;ncases=0;oracle=[];stats={}
for line in open(trace,errors="replace"):
    line=line.rstrip("\n")
    if line.startswith("#CASE "): case=line[6:]; ncases+=1
    elif line.startswith("#STAT "):
        _,k,v=line.split(" ",2); stats[k]=v
    elif line.startswith("!ORACLE "): oracle.append((case,line))
    elif line.startswith("#") or line.startswith("!"): continue
    elif "\t" in line:
        op,obs=line.split("\t",1); ops.append((case,op,obs))
out=subprocess.run([DRV],input=("\n".join(o for _,o,_ in ops)+"\n").encode(),stdout=subprocess.PIPE).stdout.decode().split("\n")
dis=collections.Counter(); tot=collections.Counter(); first={}; badcases=set(); items=0
for i,(c,op,obs) in enumerate(ops):
    got=out[i] if i<len(out) else "<eof>"
    w=" ".join(op.split()[:3]) if op.startswith("c06 t") else " ".join(op.split()[:2])
    tot[w]+=1
    if "iter" in w and obs.startswith("n="): items+=int(obs.split()[0][2:])
    if got.strip()!=obs.strip():
        dis[w]+=1; badcases.add(c)
        if w not in first: first[w]=(c,op,obs[:300],got[:300])
print("cases",ncases,"op lines",len(ops),"oracle fails",len(oracle))
for w in sorted(tot):
    if "iter" in w or dis[w]: print("  %-16s lines=%d disagreements=%d"%(w,tot[w],dis[w]))
print("items in iter lines (incl. iterstop):",items)
print("total disagreements",sum(dis.values()),"in",len(badcases),"cases")
for w,f in first.items(): print("FIRST",w,f)
for k in sorted(stats):
    if k.startswith("iter.") or k.startswith("finding"): print("  STAT",k,stats[k])
for o in oracle[:5]: print(o)
os.remove(trace)
