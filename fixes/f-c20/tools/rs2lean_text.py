#!/usr/bin/env python3
"""rs2lean_text: regenerate Pdb/Gen/Text.lean from the string literals, format strings and
small decision tables of /repo/src (T0 tie for the text parts of the model, property C17).

Tracked items (each located by a regular expression with an EXACT-COUNT check on the
comment-free source; literal contents are masked while matching structure and read back
from the original text afterwards):

  src/options.rs   ColumnOptions::as_string      format string (split at `{}`), argument list
                   ColumnOptions::from_string    the three split literals, per field: key,
                                                 required (`?`) or defaulted (`unwrap_or(d)`),
                                                 the compression guard, the struct literal
                   ColumnOptions::is_valid       `if C { return false }`* `true` -> Bool function
                   write_metadata_file_with_version / load_metadata_file
                                                 "version={}" "salt={}" "col{}={}" join("\\n"),
                                                 split('='), k == "version" / "salt" / starts_with("col")
                   write_metadata_with_version / load_metadata     "metadata"
  src/db.rs        DbInner::open                 "metadata", "lock"
  src/index.rs, src/table.rs, src/ref_count.rs   file_name / is_file_name format strings
  src/column.rs    Column::drop_files            the `||` chain of is_file_name tests
  src/migration.rs deplace_column                the `||` chain of is_file_name tests that selects the
                                                 files copy_column / move_column copy / rename (C20)
  src/log.rs       Log::log_path "log{id}", Log::open starts_with("log"), &name[3..]
  src/compress.rs  enum CompressionType discriminants, `impl From<u8>` table

Output: lean/Pdb/Gen/Text.lean (namespace Pdb.Gen.Text, text as `List Char`), written only when
the content changed, and lean/Pdb/Gen/text_report.json.  Anything that is not found exactly
once, or has a shape this tool does not know, is a hard error: message + exit code 2 (the
check driver counts that as a broken obligation).  Honours env PDB_REPO.

The Lean side (Pdb/Model/Meta.lean) BUILDS the codec, the metadata file and the file names
from these constants; Pdb/Proofs/C17Gen.lean discharges by `decide` the side conditions the
theorems need (separators absent from labels, keys = labels, prefixes agree ...).  A changed
literal in the Rust therefore breaks either this tool or `lake build Pdb.Props.C17`.
"""
import re, sys, os, json

REPO = os.environ.get("PDB_REPO", "/repo")
OUT = os.path.join(os.path.dirname(os.path.abspath(__file__)), "..", "lean", "Pdb", "Gen")


class TextError(Exception):
    pass


# ------------------------------------------------------------------ source scanning

def read(rel):
    with open(os.path.join(REPO, rel)) as f:
        return f.read()


LEX = re.compile(r"""
    (?P<lc>//[^\n]*)
  | (?P<bc>/\*.*?\*/)
  | (?P<str>"(?:\\.|[^"\\])*")
  | (?P<chr>'(?:\\(?:u\{[0-9a-fA-F]+\}|.)|[^\\'])')
""", re.X | re.S)


def mask(src):
    """Same-length copy of `src`: comments blanked, the CONTENTS of string and char literals
    replaced by `_` (quotes kept), so that braces / commas inside literals cannot confuse the
    structural regexes.  Literal text is read back from `src` at the same offsets."""
    out, pos = [], 0
    for m in LEX.finditer(src):
        out.append(src[pos:m.start()])
        t = m.group(0)
        if m.group("lc") or m.group("bc"):
            out.append(re.sub(r"[^\n]", " ", t))
        else:
            out.append(t[0] + "_" * (len(t) - 2) + t[-1])
        pos = m.end()
    out.append(src[pos:])
    return "".join(out)


ESC = {"n": "\n", "r": "\r", "t": "\t", "\\": "\\", "0": "\0", '"': '"', "'": "'"}


def unescape(lit):
    """Rust string / char literal (with quotes) -> Python str."""
    body, out, i = lit[1:-1], [], 0
    while i < len(body):
        c = body[i]
        if c != "\\":
            out.append(c)
            i += 1
            continue
        n = body[i + 1]
        if n in ESC:
            out.append(ESC[n])
            i += 2
        elif n == "u":
            j = body.index("}", i)
            out.append(chr(int(body[i + 3:j], 16)))
            i = j + 1
        elif n == "x":
            out.append(chr(int(body[i + 2:i + 4], 16)))
            i += 4
        else:
            raise TextError("unsupported escape in literal %s" % lit)
    return "".join(out)


class Src:
    """A file, or a region of it: `m` masked text, `o` original text (same offsets)."""

    def __init__(self, name, o, m=None):
        self.name, self.o, self.m = name, o, (mask(o) if m is None else m)

    def sub(self, name, a, b):
        return Src(name, self.o[a:b], self.m[a:b])

    def block(self, i):
        """offsets (i, j) of the brace block opening at masked position i"""
        assert self.m[i] == "{"
        depth = 0
        for j in range(i, len(self.m)):
            if self.m[j] == "{":
                depth += 1
            elif self.m[j] == "}":
                depth -= 1
                if depth == 0:
                    return i, j
        raise TextError("%s: unbalanced braces" % self.name)

    def one(self, rx, what):
        """the unique match of `rx` on the masked text"""
        ms = list(re.finditer(rx, self.m, re.S))
        if len(ms) != 1:
            raise TextError("%s: expected exactly one `%s`, found %d" % (self.name, what, len(ms)))
        return ms[0]

    def count(self, rx, n, what):
        k = len(re.findall(rx, self.m, re.S))
        if k != n:
            raise TextError("%s: expected %d x `%s`, found %d" % (self.name, n, what, k))

    def lit(self, m, group):
        """the literal (string or char) matched by group `group` of masked match `m`, unescaped"""
        return unescape(self.o[m.start(group):m.end(group)])

    def impl(self, header_rx, label):
        m = self.one(r"\bimpl\s+%s\s*\{" % header_rx, "impl " + label)
        a, b = self.block(m.end() - 1)
        return self.sub("%s: impl %s" % (self.name, label), a + 1, b)

    def fn(self, name):
        """(parameter text, body region) of the unique `fn name`"""
        m = self.one(r"\bfn\s+%s\s*\(([^)]*)\)[^{;]*\{" % re.escape(name), "fn " + name)
        a, b = self.block(m.end() - 1)
        return " ".join(m.group(1).split()), self.sub("%s::%s" % (self.name, name), a + 1, b)


STR = r'("_*")'        # a masked string literal
CHR = r"('_*')"        # a masked char literal
HOLE = re.compile(r"\{(\w*)(?::0(\d+))?\}")


def split_format(fmt, where):
    """format string -> (pieces, [(argument name or '', zero-pad width)])"""
    pieces, holes, pos = [], [], 0
    for m in HOLE.finditer(fmt):
        pieces.append(fmt[pos:m.start()])
        holes.append((m.group(1), int(m.group(2) or 0)))
        pos = m.end()
    pieces.append(fmt[pos:])
    if any("{" in p or "}" in p for p in pieces):
        raise TextError("%s: unsupported format specification in %r" % (where, fmt))
    return pieces, holes


def split_args(text):
    """top-level comma split of a (masked or original) argument list"""
    out, depth, cur = [], 0, ""
    for c in text:
        if c in "([{":
            depth += 1
        elif c in ")]}":
            depth -= 1
        if c == "," and depth == 0:
            out.append(cur)
            cur = ""
        else:
            cur += c
    if cur.strip():
        out.append(cur)
    return [" ".join(a.split()) for a in out]


def format_call(body, where, prefix=r"^\s*", suffix=r"\s*$"):
    """the unique `format!("..", args)` in `body` -> (format string, [args])"""
    m = body.one(prefix + r"format!\(\s*" + STR + r"\s*(?:,(.*?))?\s*\)" + suffix, "format!(..) in " + where)
    args = split_args(body.o[m.start(2):m.end(2)]) if m.group(2) else []
    return body.lit(m, 1), args


# ------------------------------------------------------------------ extraction

ARG_VOCAB = ["preimage", "uniform", "ref_counted", "compression as u8", "btree_index", "multitree",
             "append_only", "allow_direct_node_access"]
NAME_ARGS = ["self.col()", "self.index_bits()", "hex(&[self.size_tier()])"]


def extract_options(R):
    f = Src("src/options.rs", read("src/options.rs"))
    co = f.impl(r"ColumnOptions", "ColumnOptions")

    # --- as_string
    _, body = co.fn("as_string")
    fmt, args = format_call(body, "as_string")
    pieces, holes = split_format(fmt, "as_string")
    if any(h != ("", 0) for h in holes):
        raise TextError("as_string: only plain `{}` holes are supported: %r" % fmt)
    if len(args) != len(holes):
        raise TextError("as_string: %d holes but %d arguments" % (len(holes), len(args)))
    for a in args:
        if not a.startswith("self.") or a[5:] not in ARG_VOCAB:
            raise TextError("as_string: unknown argument expression %r" % a)
    R["asStringFormat"] = fmt
    R["asStringPieces"] = pieces
    R["asStringArgs"] = [a[5:] for a in args]

    # --- from_string
    _, body = co.fn("from_string")
    m = body.one(r"let\s+mut\s+split\s*=\s*s\.split\(" + STR + r"\)\s*;\s*let\s+vals\s*=\s*split\.next\(\)\?\s*;",
                 'let mut split = s.split(".."); let vals = split.next()?;')
    R["fromStringSizesSep"] = body.lit(m, 1)
    m = body.one(r"=\s*vals\s*\.split\(" + STR + r"\)\s*\.filter_map\(\|s\|\s*\{\s*let\s+mut\s+pair\s*=\s*s\.split\(" + STR +
                 r"\)\s*;\s*Some\(\(pair\.next\(\)\?\s*,\s*pair\.next\(\)\?\)\)\s*\}\s*\)\s*\.collect\(\)\s*;",
                 'vals.split("..").filter_map(|s| { let mut pair = s.split(".."); Some((pair.next()?, pair.next()?)) }).collect()')
    R["fromStringItemSep"], R["fromStringKvSep"] = body.lit(m, 1), body.lit(m, 2)
    body.count(r"\.split\(", 3, ".split(")
    rows = []
    req = r"let\s+(\w+)(?:\s*:\s*(\w+))?\s*=\s*vals\s*\.get\(" + STR + r"\)\s*\?\s*\.parse\(\)\s*\.ok\(\)\s*\?\s*;"
    dfl = (r"let\s+(\w+)(?:\s*:\s*(\w+))?\s*=\s*vals\s*\.get\(" + STR +
           r"\)\s*\.and_then\(\|c\|\s*c\.parse\(\)\.ok\(\)\)\s*\.unwrap_or\(\s*(\w+)\s*\)\s*;")
    for m in re.finditer(req, body.m, re.S):
        rows.append((m.start(), m.group(1), body.lit(m, 3), True, ""))
    for m in re.finditer(dfl, body.m, re.S):
        rows.append((m.start(), m.group(1), body.lit(m, 3), False, m.group(4)))
    rows.sort()
    n = len(re.findall(r"\bvals\s*\.get\(", body.m))
    if n != len(rows):
        raise TextError("from_string: %d x `vals.get(` but only %d in one of the two known shapes "
                        "`let f = vals.get(k)?.parse().ok()?;` / `let f = vals.get(k).and_then(|c| c.parse().ok()).unwrap_or(d);`"
                        % (n, len(rows)))
    fields = [r[1] for r in rows]
    m = body.one(r"Some\(\s*ColumnOptions\s*\{([^{}]*)\}\s*\)", "Some(ColumnOptions { .. })")
    inits = split_args(m.group(1))
    for it in inits:
        mm = re.fullmatch(r"(\w+)(?:\s*:\s*(\w+)(\.into\(\))?)?", it)
        if not mm or (mm.group(2) and mm.group(2) != mm.group(1)):
            raise TextError("from_string: field initialiser %r is not `f`, `f: f` or `f: f.into()`" % it)
    if sorted(re.match(r"\w+", it).group(0) for it in inits) != sorted(fields) or len(set(fields)) != len(fields):
        raise TextError("from_string: struct literal fields %r differ from the parsed locals %r" % (inits, fields))
    for _, fld, _, _, d in rows:
        if fld not in [a.split(" ")[0] for a in ARG_VOCAB]:
            raise TextError("from_string: unknown field %r" % fld)
    R["fromStringKeys"] = [[fld, key, reqd, d] for _, fld, key, reqd, d in rows]
    m = body.one(r"if\s+compression\s*>\s*CompressionType::(\w+)\s+as\s+u8\s*\{\s*return\s+None\s*;?\s*\}",
                 "if compression > CompressionType::X as u8 { return None }")
    R["fromStringMaxCompression"] = m.group(1)
    # labels of as_string: piece i = [item separator] label [key/value separator]; derived leniently here,
    # the Lean side re-checks the shape (`C17Gen.asString_shape`)
    labels = []
    for i, p in enumerate(R["asStringPieces"][:-1]):
        if i > 0 and p.startswith(R["fromStringItemSep"]):
            p = p[len(R["fromStringItemSep"]):]
        if p.endswith(R["fromStringKvSep"]):
            p = p[:len(p) - len(R["fromStringKvSep"])]
        labels.append(p)
    R["asStringLabels"] = labels

    # --- is_valid
    _, body = co.fn("is_valid")
    R["isValid"] = translate_is_valid(body)

    # --- metadata file
    op = f.impl(r"Options", "Options")
    _, body = op.fn("write_metadata_file_with_version")
    body.count(r"format!\(", 3, "format!(")
    for key, rx in (("metaVersion", r"version\.unwrap_or\(CURRENT_VERSION\)"),
                    ("metaSalt", r"hex::encode\(salt\)"),
                    ("metaCol", r"i\s*,\s*self\.columns\[i\]\.as_string\(\)")):
        m = body.one(r"format!\(\s*" + STR + r"\s*,\s*" + rx + r"\s*\)", "format!(.., %s)" % rx)
        pieces, holes = split_format(body.lit(m, 1), key)
        if any(h != ("", 0) for h in holes) or len(holes) != (2 if key == "metaCol" else 1):
            raise TextError("%s: unexpected holes in %r" % (key, body.lit(m, 1)))
        R[key + "Pieces"] = pieces
    m = body.one(r"std::fs::write\(path\s*,\s*metadata\.join\(" + STR + r"\)\)", 'std::fs::write(path, metadata.join(".."))')
    R["metaJoinSep"] = body.lit(m, 1)

    _, body = op.fn("load_metadata_file")
    m = body.one(r"for\s+l\s+in\s+file\.lines\(\)\s*\{\s*let\s+l\s*=\s*try_io!\(l\)\s*;\s*let\s+mut\s+vals\s*=\s*l\.split\(" + CHR + r"\)\s*;",
                 "for l in file.lines() { let l = try_io!(l); let mut vals = l.split('.');")
    R["metaSplitChar"] = body.lit(m, 1)
    m = body.one(r"if\s+k\s*==\s*" + STR + r"\s*\{\s*version\s*=", 'if k == ".." { version =')
    R["metaKeyVersion"] = body.lit(m, 1)
    m = body.one(r"\}\s*else\s+if\s+k\s*==\s*" + STR + r"\s*\{\s*let\s+salt_slice\s*=", '} else if k == ".." { let salt_slice =')
    R["metaKeySalt"] = body.lit(m, 1)
    m = body.one(r"\}\s*else\s+if\s+k\.starts_with\(" + STR + r"\)\s*\{\s*let\s+col\s*=\s*ColumnOptions::from_string\(v\)",
                 '} else if k.starts_with("..") { let col = ColumnOptions::from_string(v)')
    R["metaColPrefix"] = body.lit(m, 1)
    body.count(r"\bk\s*==|\bk\.starts_with\(", 3, "test on the key `k`")

    # --- the name of the metadata file
    for key, fn, tail in (("metadataNameWrite", "write_metadata_with_version", r"self\.write_metadata_file_with_version\("),
                          ("metadataNameLoad", "load_metadata", r"Self::load_metadata_file\(")):
        _, body = op.fn(fn)
        m = body.one(r"path\.push\(" + STR + r"\)\s*;\s*" + tail, 'path.push(".."); ' + tail)
        R[key] = body.lit(m, 1)


def translate_is_valid(body):
    """`if C { [log::error!(..);] return false }`* `true` -> Lean Bool expression (list of conditions)"""
    conds, pos = [], 0
    rx = re.compile(r"\s*if\s+([^{}]*?)\s*\{\s*(?:log::\w+!\([^;]*\)\s*;\s*)?return\s+false\s*;?\s*\}", re.S)
    while True:
        m = rx.match(body.m, pos)
        if not m:
            break
        conds.append((" ".join(body.o[m.start(1):m.end(1)].split()), bool_expr(body.o[m.start(1):m.end(1)])))
        pos = m.end()
    if body.m[pos:].strip() != "true" or not conds:
        raise TextError("is_valid: body is not a sequence of `if C { return false }` followed by `true`: %r"
                        % " ".join(body.o[pos:].split())[:80])
    return conds


BOOL_ATOMS = {"self.preimage": "preimage", "self.uniform": "uniform", "self.ref_counted": "ref_counted",
              "self.btree_index": "btree", "self.multitree": "multitree", "self.append_only": "append_only",
              "self.allow_direct_node_access": "direct",
              "self.compression != CompressionType::NoCompression": "(!compressionNone)",
              "self.compression == CompressionType::NoCompression": "compressionNone"}
BOOL_TOK = re.compile(r"\s*(&&|\|\||!(?!=)|\(|\)|self\.compression\s*[!=]=\s*CompressionType::NoCompression|self\.\w+)")


def bool_expr(text):
    """tiny boolean grammar: or := and ('||' and)* ; and := not ('&&' not)* ; not := '!' not | '(' or ')' | atom"""
    toks, pos = [], 0
    text = text.strip()
    while pos < len(text):
        m = BOOL_TOK.match(text, pos)
        if not m:
            raise TextError("is_valid: cannot translate condition %r (at %r)" % (text, text[pos:pos + 30]))
        toks.append(" ".join(m.group(1).split()))
        pos = m.end()
    i = [0]

    def peek():
        return toks[i[0]] if i[0] < len(toks) else None

    def eat():
        i[0] += 1
        return toks[i[0] - 1]

    def p_or():
        e = p_and()
        while peek() == "||":
            eat()
            e = "(%s || %s)" % (e, p_and())
        return e

    def p_and():
        e = p_not()
        while peek() == "&&":
            eat()
            e = "(%s && %s)" % (e, p_not())
        return e

    def p_not():
        t = peek()
        if t == "!":
            eat()
            return "(!%s)" % p_not()
        if t == "(":
            eat()
            e = p_or()
            if eat() != ")":
                raise TextError("is_valid: unbalanced parentheses in %r" % text)
            return e
        t = re.sub(r"\s*([!=]=)\s*", r" \1 ", eat() or "")
        if t not in BOOL_ATOMS:
            raise TextError("is_valid: unknown atom %r in %r" % (t, text))
        return BOOL_ATOMS[t]
    e = p_or()
    if peek() is not None:
        raise TextError("is_valid: trailing tokens in %r" % text)
    return e


def extract_db(R):
    f = Src("src/db.rs", read("src/db.rs"))
    _, body = f.impl(r"DbInner", "DbInner").fn("open")
    m = body.one(r"!options\.path\.is_dir\(\)\s*\|\|\s*!options\.path\.join\(" + STR + r"\)\.exists\(\)",
                 '!options.path.is_dir() || !options.path.join("..").exists()')
    R["metadataNameOpen"] = body.lit(m, 1)
    m = body.one(r"lock_path\.push\(" + STR + r"\)\s*;", 'lock_path.push("..")')
    R["lockName"] = body.lit(m, 1)


def extract_file_names(R):
    for key, rel, impl in (("index", "src/index.rs", "TableId"), ("table", "src/table.rs", "TableId"),
                           ("refcount", "src/ref_count.rs", "RefCountTableId")):
        ib = Src(rel, read(rel)).impl(impl, impl)
        _, body = ib.fn("file_name")
        fmt, args = format_call(body, rel + " file_name")
        pieces, holes = split_format(fmt, rel + " file_name")
        if len(args) != len(holes) or any(h[0] for h in holes):
            raise TextError("%s file_name: holes of %r do not match the arguments %r" % (rel, fmt, args))
        for a, h in zip(args, holes):
            if a not in NAME_ARGS or (h[1] and a.startswith("hex")):
                raise TextError("%s file_name: unknown argument %r / width %d" % (rel, a, h[1]))
        R[key + "FileName"] = [pieces, [h[1] for h in holes]]
        R[key + "FileNameArgs"] = args
        params, body = ib.fn("is_file_name")
        if params != "col: ColId, name: &str":
            raise TextError("%s is_file_name: unexpected parameters %r" % (rel, params))
        fmt, args = format_call(body, rel + " is_file_name", prefix=r"^\s*name\.starts_with\(\s*&", suffix=r"\)\s*$")
        pieces, holes = split_format(fmt, rel + " is_file_name")
        if args or [h[0] for h in holes] != ["col"]:
            raise TextError("%s is_file_name: expected exactly one hole `{col..}` in %r" % (rel, fmt))
        R[key + "IsFileName"] = [pieces, [h[1] for h in holes]]


DROP_MODULES = {"index": "TableId", "table": "TableId", "ref_count": "RefCountTableId"}


def extract_drop_files(R):
    """src/column.rs Column::drop_files: the disjunction of `is_file_name` tests that selects the files to delete"""
    _, body = Src("src/column.rs", read("src/column.rs")).fn("drop_files")
    one = r"crate::(\w+)::(\w+)::is_file_name\(\s*column\s*,\s*file\s*\)"
    m = body.one(r"if\s+((?:" + one.replace("(\\w+)", "\\w+") + r"\s*(?:\|\|\s*)?)+)\{\s*to_delete\.push\(",
                 "if <mod>::<Ty>::is_file_name(column, file) || .. { to_delete.push(")
    cond = " ".join(m.group(1).split())
    tests = re.findall(one, cond)
    if " || ".join("crate::%s::%s::is_file_name(column, file)" % t for t in tests) != cond:
        raise TextError("drop_files: condition %r is not a plain `||` chain of is_file_name tests" % cond)
    for mod, ty in tests:
        if DROP_MODULES.get(mod) != ty:
            raise TextError("drop_files: unknown table id type %s::%s" % (mod, ty))
    body.count(r"is_file_name\(", len(tests), "is_file_name( inside the deletion test")
    R["dropFilesTests"] = [mod for mod, _ in tests]


def extract_deplace_column(R):
    """src/migration.rs deplace_column (copy_column / move_column): the disjunction of `is_file_name` tests that
    selects the files of a column to copy / rename (property C20: must be the chain of Column::drop_files)"""
    params, body = Src("src/migration.rs", read("src/migration.rs")).fn("deplace_column")
    if params != "c: ColId, from: &Path, to: &Path, copy: bool":
        raise TextError("deplace_column: unexpected parameters %r" % params)
    one = r"crate::(\w+)::(\w+)::is_file_name\(\s*c\s*,\s*file\s*\)"
    m = body.one(r"if\s+((?:" + one.replace("(\\w+)", "\\w+") + r"\s*(?:\|\|\s*)?)+)\{\s*let\s+mut\s+from\s*=",
                 "if <mod>::<Ty>::is_file_name(c, file) || .. { let mut from =")
    cond = " ".join(m.group(1).split())
    tests = re.findall(one, cond)
    if " || ".join("crate::%s::%s::is_file_name(c, file)" % t for t in tests) != cond:
        raise TextError("deplace_column: condition %r is not a plain `||` chain of is_file_name tests" % cond)
    for mod, ty in tests:
        if DROP_MODULES.get(mod) != ty:
            raise TextError("deplace_column: unknown table id type %s::%s" % (mod, ty))
    body.count(r"is_file_name\(", len(tests), "is_file_name( inside the selection test")
    # both branches act on the same pair of paths: `std::fs::copy(from, to)` when `copy`, else `std::fs::rename(from, to)`
    body.one(r"if\s+copy\s*\{\s*try_io!\(std::fs::copy\(from\s*,\s*to\)\)\s*;\s*\}\s*else\s*\{\s*try_io!\(std::fs::rename\(from\s*,\s*to\)\)\s*;\s*\}",
             "if copy { try_io!(std::fs::copy(from, to)); } else { try_io!(std::fs::rename(from, to)); }")
    R["deplaceColumnTests"] = [mod for mod, _ in tests]
    # the two wrappers
    f = Src("src/migration.rs", read("src/migration.rs"))
    for name, flag in (("move_column", "false"), ("copy_column", "true")):
        _, b = f.fn(name)
        b.one(r"^\s*deplace_column\(c\s*,\s*from\s*,\s*to\s*,\s*%s\)\s*$" % flag, "deplace_column(c, from, to, %s)" % flag)


def extract_log(R):
    lg = Src("src/log.rs", read("src/log.rs")).impl("Log", "Log")
    params, body = lg.fn("log_path")
    m = body.one(r"path\.push\(\s*format!\(\s*" + STR + r"\s*\)\s*\)\s*;", 'path.push(format!(".."))')
    pieces, holes = split_format(body.lit(m, 1), "log_path")
    if holes != [("id", 0)] or not re.search(r"\bid\s*:\s*u32\b", params):
        raise TextError("log_path: expected one hole `{id}` (id: u32) in %r" % body.lit(m, 1))
    R["logNamePieces"] = pieces
    _, body = lg.fn("open")
    m = body.one(r"\.is_file\(\)\s*&&\s*name\.starts_with\(" + STR + r"\)\s*\{\s*if\s+let\s+Ok\(nlog\)\s*=\s*"
                 r"std::str::FromStr::from_str\(\s*&name\[(\d+)\.\.\]\s*\)",
                 'is_file() && name.starts_with("..") { if let Ok(nlog) = FromStr::from_str(&name[N..])')
    R["logOpenPrefix"] = body.lit(m, 1)
    R["logOpenSkip"] = int(m.group(2))


def extract_compress(R):
    f = Src("src/compress.rs", read("src/compress.rs"))
    m = f.one(r"#\[repr\(u8\)\]\s*pub\s+enum\s+CompressionType\s*\{", "#[repr(u8)] pub enum CompressionType {")
    a, b = f.block(m.end() - 1)
    variants = []
    for it in split_args(f.m[a + 1:b]):
        mm = re.fullmatch(r"(\w+)\s*=\s*(\d+)", it)
        if not mm:
            raise TextError("CompressionType: variant %r has no explicit integer discriminant" % it)
        variants.append([mm.group(1), int(mm.group(2))])
    m = f.one(r"\bimpl\s+From<u8>\s+for\s+CompressionType\s*\{", "impl From<u8> for CompressionType")
    a, b = f.block(m.end() - 1)
    _, body = f.sub("impl From<u8> for CompressionType", a + 1, b).fn("from")
    m = body.one(r"^\s*match\s+comp_type\s*\{(.*)\}\s*$", "match comp_type { .. }")
    arms = split_args(m.group(1))
    table = []
    for arm in arms[:-1]:
        mm = re.fullmatch(r"a if a == CompressionType::(\w+) as u8 => CompressionType::(\w+)", arm)
        if not mm or mm.group(1) != mm.group(2):
            raise TextError("From<u8> for CompressionType: unexpected arm %r" % arm)
        table.append(mm.group(1))
    if not re.fullmatch(r"_ => panic!\(.*\)", arms[-1]) or table != [v[0] for v in variants]:
        raise TextError("From<u8> for CompressionType: arms %r do not cover the variants %r + `_ => panic!`"
                        % (arms, [v[0] for v in variants]))
    R["compressionCodes"] = variants


# ------------------------------------------------------------------ Lean output

def lchar(c):
    if c == "\n":
        return "'\\n'"
    if c == "\r":
        return "'\\r'"
    if c == "\t":
        return "'\\t'"
    if c == "\\":
        return "'\\\\'"
    if c == "'":
        return "'\\''"
    if 32 <= ord(c) < 127:
        return "'%s'" % c
    return "'\\u{%x}'" % ord(c)


def ltext(s):
    return "[" + ", ".join(lchar(c) for c in s) + "]"


def ltexts(ss):
    return "[" + ",\n   ".join(ltext(s) for s in ss) + "]"


def lnats(ns):
    return "[" + ", ".join(str(n) for n in ns) + "]"


def show(x):
    return json.dumps(x, ensure_ascii=True)


def emit(R):
    o = []

    def d(doc, name, ty, val):
        o.append("/-- %s -/\ndef %s : %s :=\n  %s" % (doc.replace("-/", "- /"), name, ty, val))
    T, TS = "List Char", "List (List Char)"
    d("src/options.rs `ColumnOptions::as_string`: the format string %s split at its `{}` holes"
      % show(R["asStringFormat"]), "asStringPieces", TS, ltexts(R["asStringPieces"]))
    d("... and the arguments passed to it, in order (`self.` dropped): %s" % show(R["asStringArgs"]),
      "asStringArgs", TS, ltexts(R["asStringArgs"]))
    d("... and the labels: piece i without the leading item separator and the trailing key/value separator of `from_string`",
      "asStringLabels", TS, ltexts(R["asStringLabels"]))
    d("src/options.rs `ColumnOptions::from_string`: `s.split(%s)`" % show(R["fromStringSizesSep"]),
      "fromStringSizesSep", T, ltext(R["fromStringSizesSep"]))
    d("`vals.split(%s)`" % show(R["fromStringItemSep"]), "fromStringItemSep", T, ltext(R["fromStringItemSep"]))
    d("`s.split(%s)` inside the `filter_map`" % show(R["fromStringKvSep"]), "fromStringKvSep", T, ltext(R["fromStringKvSep"]))
    rows = ["(%s, %s, %s, %s)" % (ltext(f), ltext(k), "true" if r else "false", ltext(dv)) for f, k, r, dv in R["fromStringKeys"]]
    d("per `let <field> = vals.get(<key>)..`: (field, key, required (`?`) or defaulted, text of the `unwrap_or` default): %s"
      % show(R["fromStringKeys"]), "fromStringKeys", "List (List Char × List Char × Bool × List Char)",
      "[" + ",\n   ".join(rows) + "]")
    d("`if compression > CompressionType::%s as u8 { return None }`" % R["fromStringMaxCompression"],
      "fromStringMaxCompression", T, ltext(R["fromStringMaxCompression"]))
    for key, what in (("metaVersion", "version"), ("metaSalt", "salt"), ("metaCol", "col")):
        d("src/options.rs `write_metadata_file_with_version`: the `%s` line format %s split at `{}`"
          % (what, show("{}".join(R[key + "Pieces"]))), key + "Pieces", TS, ltexts(R[key + "Pieces"]))
    d("`metadata.join(%s)`" % show(R["metaJoinSep"]), "metaJoinSep", T, ltext(R["metaJoinSep"]))
    d("src/options.rs `load_metadata_file`: `l.split(%s)`" % lchar(R["metaSplitChar"]), "metaSplitChar", "Char",
      lchar(R["metaSplitChar"]))
    d("`if k == %s`" % show(R["metaKeyVersion"]), "metaKeyVersion", T, ltext(R["metaKeyVersion"]))
    d("`else if k == %s`" % show(R["metaKeySalt"]), "metaKeySalt", T, ltext(R["metaKeySalt"]))
    d("`else if k.starts_with(%s)`" % show(R["metaColPrefix"]), "metaColPrefix", T, ltext(R["metaColPrefix"]))
    d("src/options.rs `write_metadata_with_version`: `path.push(%s)`" % show(R["metadataNameWrite"]),
      "metadataNameWrite", T, ltext(R["metadataNameWrite"]))
    d("src/options.rs `load_metadata`: `path.push(%s)`" % show(R["metadataNameLoad"]), "metadataNameLoad", T,
      ltext(R["metadataNameLoad"]))
    d("src/db.rs `DbInner::open`: `options.path.join(%s).exists()`" % show(R["metadataNameOpen"]), "metadataNameOpen", T,
      ltext(R["metadataNameOpen"]))
    d("src/db.rs `DbInner::open`: `lock_path.push(%s)`" % show(R["lockName"]), "lockName", T, ltext(R["lockName"]))
    for key, rel in (("index", "src/index.rs"), ("table", "src/table.rs"), ("refcount", "src/ref_count.rs")):
        p, w = R[key + "FileName"]
        d("%s `file_name`: format string split at its holes, and the zero-pad width of every hole (0 = `{}`)" % rel,
          key + "FileName", "List (List Char) × List Nat", "(" + ltexts(p) + ",\n   " + lnats(w) + ")")
        d("... and its arguments: %s" % show(R[key + "FileNameArgs"]), key + "FileNameArgs", TS, ltexts(R[key + "FileNameArgs"]))
        p, w = R[key + "IsFileName"]
        d("%s `is_file_name`: `name.starts_with(&format!(..))`, one hole `{col..}`" % rel,
          key + "IsFileName", "List (List Char) × List Nat", "(" + ltexts(p) + ",\n   " + lnats(w) + ")")
    d("src/column.rs `Column::drop_files`: a file is deleted when `<module>::..::is_file_name(column, file)` holds for one of "
      "these modules (`||` chain, in order): %s" % show(R["dropFilesTests"]), "dropFilesTests", TS, ltexts(R["dropFilesTests"]))
    d("src/migration.rs `deplace_column` (`copy_column` = copy, `move_column` = rename): a file of the source directory is copied / "
      "renamed when `<module>::..::is_file_name(c, file)` holds for one of these modules (`||` chain, in order): %s"
      % show(R["deplaceColumnTests"]), "deplaceColumnTests", TS, ltexts(R["deplaceColumnTests"]))
    d("src/log.rs `Log::log_path`: `format!(%s)` split at `{id}`" % show("{id}".join(R["logNamePieces"])),
      "logNamePieces", TS, ltexts(R["logNamePieces"]))
    d("src/log.rs `Log::open`: `name.starts_with(%s)`" % show(R["logOpenPrefix"]), "logOpenPrefix", T, ltext(R["logOpenPrefix"]))
    d("src/log.rs `Log::open`: `&name[%d..]`" % R["logOpenSkip"], "logOpenSkip", "Nat", str(R["logOpenSkip"]))
    conds = R["isValid"]
    body = "".join("if %s then false else\n  " % lean for _, lean in conds) + "true"
    d("src/options.rs `ColumnOptions::is_valid`: rejected when " + "; or ".join("`%s`" % c for c, _ in conds),
      "isValid (preimage uniform ref_counted btree multitree append_only direct : Bool) (compressionNone : Bool)", "Bool", body)
    d("src/compress.rs `#[repr(u8)] enum CompressionType` (= the `From<u8>` table)", "compressionCodes",
      "List (List Char × Nat)", "[" + ", ".join("(%s, %d)" % (ltext(n), c) for n, c in R["compressionCodes"]) + "]")
    return ("-- GENERATED by tools/rs2lean_text.py from /repo/src on every check run. Do not edit.\n"
            "set_option linter.unusedVariables false\nnamespace Pdb.Gen.Text\n\n" + "\n\n".join(o) + "\n\nend Pdb.Gen.Text\n")


def write_if_changed(path, text):
    try:
        if open(path).read() == text:
            return
    except FileNotFoundError:
        pass
    with open(path, "w") as f:
        f.write(text)


def main():
    R = {}
    extract_options(R)
    extract_db(R)
    extract_file_names(R)
    extract_drop_files(R)
    extract_deplace_column(R)
    extract_log(R)
    extract_compress(R)
    os.makedirs(OUT, exist_ok=True)
    write_if_changed(os.path.join(OUT, "Text.lean"), emit(R))
    rep = dict(R)
    rep["isValid"] = [{"rust": c, "lean": l} for c, l in R["isValid"]]
    write_if_changed(os.path.join(OUT, "text_report.json"), json.dumps(rep, indent=1, sort_keys=True) + "\n")
    print("rs2lean_text: %d items" % len(R))


if __name__ == "__main__":
    try:
        main()
    except TextError as e:
        print("rs2lean_text: TRANSLATE-ERROR: %s" % e)
        sys.exit(2)
    except (OSError, ValueError, IndexError, KeyError, AttributeError) as e:   # missing file, malformed literal ...
        print("rs2lean_text: TRANSLATE-ERROR: %s: %s" % (type(e).__name__, e))
        sys.exit(2)
