/-
C20  "Migration copies every key, value and reference count"      (src/migration.rs)

  "Migrating hash columns to a configuration that differs in compression, preimage or
   reference-counting flags produces a destination database in which every key of the source
   returns the same value with the same reference count and no other key exists, columns not
   selected for migration are copied unchanged, and the source is unchanged unless in-place
   overwrite was requested."

Model: Pdb/Model/Migrate.lean.  Quantification:
  * bit level: every 32-byte hashed key, every value address that fits the entry, every index
    size 16 ≤ ib ≤ 49.  The bound is sharp: an entry shows ib + (64 - address_bits) = 50 key
    bits, 50 ≥ 48 = the six bytes not stored with the value; at ib = 50 `address_bits` = 64
    and the u64 shifts are out of range (example below).  The shift expressions are
    regenerated from src/index.rs on every run.
  * logical level: every source column state (any key and value types, any contents, counts
    1 ≤ n < u32::MAX, any split of the entries over the newest and the queued older index
    tables), every destination kind (plain / preimage / rc) - i.e. every pair of options, since
    compression is invisible at this level (A-compress) and the hashing scheme is kept: the
    theorem is stated on hashed keys and `C20_dest_eq_source_user` transports it to user
    keys for any hash function as soon as the `uniform` flags agree (the salt is copied).
  * database level: every column list, forced / automatic selection, overwrite on / off.

  * directory level (`C20_unselected_files_copied`): every directory content, every effect of
    the database handles that respects the frame conditions `DbEffects.Frame`, every selection,
    overwrite on / off; "file of column c" is the test of `Column::drop_files` (generated),
    the files `copy_column` / `move_column` act on are given by the generated `||` chain of
    `deplace_column`; `C20_deplace_chain_eq_drop_files` (T0) says the two chains agree.
  * physical walk (`C20_walk_complete`): every list of index tables (oldest first), every
    slot map, under the explicit hypotheses `PhysCol.Inv`.

Audit notes (follow-up f-c20):
  * `C20_unselected_copied` below is true by construction (`migrateCols` leaves an unselected
    column as it is): it states the INTENDED database-level result.  That the code achieves it
    file by file is `C20_unselected_files_copied`; it was FALSE for the code before
    fix-c20-refcount-files.diff (`C20_old_chain_loses_refcount`: `refcount_CC_BB` of an
    unselected multitree column was neither copied nor moved).
  * `C20_iter_complete` is about the abstract walk `iterIndexAll` (dedup by key).  The walk the
    code performs (dedup by partial key + address against the older tables) is `walkPhys`;
    `C20_walk_complete` needs hypotheses C09 does not provide (`PhysCol.Inv.live`, `.nodup`), and
    `live` fails in reachable states (`C20_walk_stale_witness`, harness scenario `stale`).

Status against the code: `migrateCol` is the code AFTER fixes F6 (fix-c20-rc-value.diff) and F10
(fix-c20-older-index.diff).  `migrateColBuggy` is the code before them; for it the property is
FALSE: `C20_F6_counterexample`, `C20_F10_counterexample` are the negation witnesses (both
reproduced on the real crate by the harness), `C20_buggy_exact` says exactly which cells differ.
-/
import Pdb.Proofs.C20Bits
import Pdb.Proofs.C20Db
import Pdb.Proofs.C20Files
import Pdb.Proofs.C20Walk

namespace Pdb.Migrate
open Pdb Pdb.Gen

/-! ## (a) key recovery -/

/-- The key `iter_index_internal` reports for an index entry is the hashed key the entry was
built from: `recover_key_prefix` on (page number, entry) gives the first 8 bytes with the low
14 bits cleared, bytes 6.. are overwritten by the 26-byte tail stored with the value. -/
theorem C20_recover_key_roundtrip (k : List Nat) (ib addr : Nat) (hlen : k.length = KEY_SIZE)
    (hb : ∀ b ∈ k, b < 256) (h16 : MIN_INDEX_BITS ≤ ib) (h49 : ib ≤ 49)
    (ha : addr < 2 ^ Entry.address_bits ib) :
    recoverKey ib (chunk_index ib (keyPrefix k))
      (Entry.new addr (Entry.extract_key (keyPrefix k) ib) ib) (k.drop TAIL_START) = k := by
  rw [Pdb.IndexPage.address_bits_eq ib h49] at ha
  match k, hlen with
  | b0 :: b1 :: b2 :: b3 :: b4 :: b5 :: b6 :: b7 :: rest, _ =>
    exact recoverKey_roundtrip_cons b0 b1 b2 b3 b4 b5 b6 b7 rest ib addr hb h16 h49 ha

/- non-vacuity: a concrete key at the smallest and the largest index size; the tail really is
needed (bytes 6, 7 of the prefix are not recoverable: low 14 bits cleared). -/
def kA : List Nat := [0xde, 0xad, 0xbe, 0xef, 0x12, 0x34, 0x56, 0x78] ++ (List.range 24).map (· + 100)
example : kA.length = KEY_SIZE ∧ (∀ b ∈ kA, b < 256) ∧
    recoverKey 16 (chunk_index 16 (keyPrefix kA)) (Entry.new 12345 (Entry.extract_key (keyPrefix kA) 16) 16)
      (kA.drop TAIL_START) = kA ∧
    recoverKey 49 (chunk_index 49 (keyPrefix kA)) (Entry.new (2 ^ 63 - 1) (Entry.extract_key (keyPrefix kA) 49) 49)
      (kA.drop TAIL_START) = kA ∧
    (recoverKeyPrefix 16 (chunk_index 16 (keyPrefix kA)) (Entry.new 12345 (Entry.extract_key (keyPrefix kA) 16) 16)).take 8
      = [0xde, 0xad, 0xbe, 0xef, 0x12, 0x34, 0x40, 0x00] := by decide
example := C20_recover_key_roundtrip kA 16 12345 (by decide) (by decide) (by decide) (by decide) (by decide)
/- the bound 49 is sharp: at ib = 50 the round trip fails (wrapping shifts; a debug build panics) -/
example : recoverKey 50 (chunk_index 50 (keyPrefix kA)) (Entry.new 5 (Entry.extract_key (keyPrefix kA) 50) 50)
    (kA.drop TAIL_START) ≠ kA := by decide

/-- An entry shows 50 key bits (page number + partial key) for every index size: enough for
the 48 bits (6 bytes) that are not stored with the value. -/
theorem C20_visible_bits (ib chunk entry : Nat) (h49 : ib ≤ 49) :
    ib + recover_k ib chunk entry = 50 ∧ 8 * TAIL_START ≤ 50 ∧ TAIL_START + PARTIAL_SIZE = KEY_SIZE := by
  refine ⟨?_, by decide, rfl⟩
  simp only [recover_k, Pdb.IndexPage.address_bits_eq ib h49, wsub]
  omega

example := C20_visible_bits 16 0 0 (by decide)

/-! ## (b) one column -/

section
variable {K V : Type} [DecidableEq K]

/-- Destination = source, on hashed keys, for every source state and every destination kind:
the same value; the same count on a reference-counted destination, count 1 otherwise (the
only count a column without reference counting can show); absent keys stay absent. -/
theorem C20_dest_eq_source (dstKind : Kind) (s : SrcCol K V) (hwf : s.WF) (k : K) :
    migrateCol dstKind s k = expectCell dstKind (s.content k) :=
  migrateCol_eq s hwf dstKind k

/-- On user keys, for every pair of options keeping the hashing scheme. -/
theorem C20_dest_eq_source_user {UK S : Type} (hash : Bool → S → UK → K) (salt : S)
    (o₁ o₂ : ColOpts) (h : SameHashing o₁ o₂) (s : SrcCol K V) (hwf : s.WF) (u : UK) :
    migrateCol o₂.kind s (hash o₂.uniform salt u) =
      expectCell o₂.kind (s.content (hash o₁.uniform salt u)) := by
  rw [h]; exact migrateCol_eq s hwf o₂.kind _

/-- Reference-counted destination: contents with counts are EQUAL. -/
theorem C20_dest_eq_source_rc (s : SrcCol K V) (hwf : s.WF) : migrateCol .rc s = s.content := by
  funext k
  rw [migrateCol_eq s hwf]
  cases s.content k with
  | none => rfl
  | some c => rfl

/-- Source without reference counting (all counts 1): contents with counts are EQUAL for every
destination kind. -/
theorem C20_dest_eq_source_counts_one (dstKind : Kind) (s : SrcCol K V) (hwf : s.WF)
    (h1 : ∀ k v n, s.cell k = some (v, n) → n = 1) : migrateCol dstKind s = s.content := by
  funext k
  rw [migrateCol_eq s hwf]
  by_cases hi : s.indexed k = true
  · simp only [SrcCol.content, hi, if_true]
    cases hc : s.cell k with
    | none => rfl
    | some c =>
      obtain ⟨v, n⟩ := c
      have := h1 k v n hc
      subst this
      cases dstKind <;> rfl
  · simp [SrcCol.content, hi, expectCell]

/-- No other key exists, none is lost. -/
theorem C20_same_keys (dstKind : Kind) (s : SrcCol K V) (hwf : s.WF) (k : K) :
    (migrateCol dstKind s k).isSome = (s.content k).isSome := by
  rw [migrateCol_eq s hwf]
  cases s.content k with
  | none => rfl
  | some c => rfl

/-- Values are never changed. -/
theorem C20_same_value (dstKind : Kind) (s : SrcCol K V) (hwf : s.WF) (k : K) :
    (migrateCol dstKind s k).map (·.1) = (s.content k).map (·.1) := by
  rw [migrateCol_eq s hwf]
  cases s.content k with
  | none => rfl
  | some c => rfl

/-- The batching into raw commits: every commit but the last holds exactly COMMIT_SIZE
operations and their concatenation is the operation list (so batching cannot matter). -/
theorem C20_commit_batches (ops : List (Op K V)) :
    (commitsOf ops).flatten = ops ∧ ∀ c ∈ (commitsOf ops).dropLast, c.length = COMMIT_SIZE :=
  ⟨commitsOf_flatten ops, batch_sizes COMMIT_SIZE ops [] 0 rfl (by decide)⟩

/-- The association-list evaluation used by the driver command `c20 migrate` is the model. -/
theorem C20_driver_exec_eq (dstKind : Kind) (s : SrcCol K V) (empty : V) :
    alGet (migrateExec (iterIndexAll s) setsOf dstKind) = migrateCol dstKind s ∧
    alGet (migrateExec (iterIndex s) (setsOfBuggy empty) dstKind) = migrateColBuggy empty dstKind s :=
  ⟨migrateExec_get _ _ _, migrateExec_get _ _ _⟩

/-! ### the walk (F10) -/

/-- The walk after fix F10 reports exactly the live keys with their counts and values, each
once. -/
theorem C20_iter_complete (s : SrcCol K V) :
    (∀ k v n, (k, n, v) ∈ iterIndexAll s ↔ s.content k = some (v, n)) ∧
    ((iterIndexAll s).map (·.1)).Nodup :=
  ⟨fun k v n => mem_iterIndexAll s k v n, iterIndexAll_keys_nodup s⟩

/-- The walk of the newest index table only (the code before fix F10) is complete IF no
older index table is queued. -/
theorem C20_iter_complete_partial (s : SrcCol K V) (hq : s.older = []) (k : K) (v : V) (n : Nat) :
    (k, n, v) ∈ iterIndex s ↔ s.content k = some (v, n) := by
  rw [mem_iterIndex]
  simp only [SrcCol.content, SrcCol.indexed, hq, List.flatten_nil, List.not_mem_nil, decide_false,
    Bool.or_false, decide_eq_true_eq]
  by_cases hk : k ∈ s.top <;> simp [hk]

/-- Hence without a queued older table the F6-fixed migration over that walk is right too. -/
theorem C20_dest_eq_source_partial (dstKind : Kind) (s : SrcCol K V) (hwf : s.WF)
    (hn : s.top.Nodup) (hq : s.older = []) (k : K) :
    migrateColTopOnly dstKind s k = expectCell dstKind (s.content k) := by
  rw [migrateColTopOnly_eq s hwf hn]
  simp only [SrcCol.content, SrcCol.indexed, hq, List.flatten_nil, List.not_mem_nil, decide_false,
    Bool.or_false, decide_eq_true_eq]
  by_cases hk : k ∈ s.top <;> simp [hk, expectCell]

/-- The code before the fixes, cell by cell: a key of the newest table with count ≥ 2 gets the
EMPTY value in a plain destination (F6), a key held only by a queued older table is lost
(F10), everything else is right. -/
theorem C20_buggy_exact (empty : V) (dstKind : Kind) (s : SrcCol K V) (hwf : s.WF)
    (hn : s.top.Nodup) (k : K) :
    migrateColBuggy empty dstKind s k =
      if k ∈ s.top then
        (match s.cell k with
         | some c => if dstKind = .plain ∧ 2 ≤ c.2 then some (empty, 1) else expectCell dstKind (some c)
         | none => none)
      else none :=
  migrateColBuggy_eq empty s hwf hn dstKind k

end

/-! ### negation witnesses for the code before the fixes -/

/-- Source: one key (7) with value "v" and count 2 in a reference-counted column. -/
def srcF6 : SrcCol Nat String :=
  { top := [7], older := [], cell := fun k => if k = 7 then some ("v", 2) else none }

theorem srcF6_wf : srcF6.WF :=
  ⟨by intro k h; simp [SrcCol.indexed, srcF6] at h; simp [srcF6, h],
   by intro k v n h; simp only [srcF6] at h; split at h <;> simp at h; obtain ⟨_, rfl⟩ := h; decide⟩

/-- F6: count 2 into a plain (non-preimage, non-rc) destination yields the empty value. -/
theorem C20_F6_counterexample :
    srcF6.WF ∧ srcF6.older = [] ∧ srcF6.content 7 = some ("v", 2) ∧
    migrateColBuggy "" .plain srcF6 7 = some ("", 1) ∧
    migrateColBuggy "" .plain srcF6 7 ≠ expectCell .plain (srcF6.content 7) ∧
    migrateCol .plain srcF6 7 = some ("v", 1) := by
  refine ⟨srcF6_wf, rfl, by decide, ?_, ?_, ?_⟩
  · rw [migrateColBuggy_eq "" srcF6 srcF6_wf (by decide)]; decide
  · rw [migrateColBuggy_eq "" srcF6 srcF6_wf (by decide)]; decide
  · rw [migrateCol_eq srcF6 srcF6_wf]; decide

/-- Source closed while an index growth was pending: key 7 still sits in the queued older
table, key 9 already in the newest one. -/
def srcF10 : SrcCol Nat String :=
  { top := [9], older := [[7]],
    cell := fun k => if k = 7 then some ("a", 1) else if k = 9 then some ("b", 1) else none }

theorem srcF10_wf : srcF10.WF :=
  ⟨by
    intro k h
    simp only [SrcCol.indexed, srcF10, List.flatten_cons, List.flatten_nil, List.append_nil,
      List.mem_singleton, Bool.or_eq_true, decide_eq_true_eq] at h
    rcases h with rfl | rfl <;> simp [srcF10],
   by
    intro k v n h
    simp only [srcF10] at h
    split at h
    · simp at h; obtain ⟨_, rfl⟩ := h; decide
    · split at h
      · simp at h; obtain ⟨_, rfl⟩ := h; decide
      · simp at h⟩

/-- F10: the walk of the newest table misses the live key 7, the migrated column lacks it;
the walk over the queued tables has it. -/
theorem C20_F10_counterexample :
    srcF10.WF ∧ srcF10.content 7 = some ("a", 1) ∧
    (∀ n v, (7, n, v) ∉ iterIndex srcF10) ∧
    migrateColTopOnly .plain srcF10 7 = none ∧ migrateColBuggy "" .plain srcF10 7 = none ∧
    (7, 1, "a") ∈ iterIndexAll srcF10 ∧ migrateCol .plain srcF10 7 = some ("a", 1) := by
  refine ⟨srcF10_wf, by decide, ?_, ?_, ?_, ?_, ?_⟩
  · intro n v h
    have := (mem_iterIndex srcF10 7 v n).mp h
    exact absurd this.1 (by decide)
  · rw [migrateColTopOnly_eq srcF10 srcF10_wf (by decide)]; decide
  · rw [migrateColBuggy_eq "" srcF10 srcF10_wf (by decide)]; decide
  · exact (mem_iterIndexAll srcF10 7 "a" 1).mpr (by decide)
  · rw [migrateCol_eq srcF10 srcF10_wf]; decide

/-- The full-strength statements for the code before the fixes; both are false. -/
def C20_dest_eq_source_buggy : Prop :=
  ∀ (dstKind : Kind) (s : SrcCol Nat String), s.WF → s.top.Nodup → ∀ k,
    migrateColBuggy "" dstKind s k = expectCell dstKind (s.content k)

theorem C20_dest_eq_source_buggy_false : ¬ C20_dest_eq_source_buggy := by
  intro h
  exact C20_F6_counterexample.2.2.2.2.1 (h .plain srcF6 srcF6_wf (by decide) 7)

def C20_iter_complete_top_only : Prop :=
  ∀ (s : SrcCol Nat String), s.WF → ∀ k v n, s.content k = some (v, n) → (k, n, v) ∈ iterIndex s

theorem C20_iter_complete_top_only_false : ¬ C20_iter_complete_top_only := by
  intro h
  exact C20_F10_counterexample.2.2.1 1 "a" (h srcF10 srcF10_wf 7 "a" 1 (by decide))

/- non-vacuity of the positive theorems: a source with counts 1, 3, 5, entries spread over a
queued older table and the newest table (key 2 in both: reindex half done). -/
def srcB : SrcCol Nat String :=
  { top := [2, 3], older := [[1, 2]],
    cell := fun k => if k = 1 then some ("x", 3) else if k = 2 then some ("y", 5)
                     else if k = 3 then some ("z", 1) else none }

theorem srcB_wf : srcB.WF :=
  ⟨by
    intro k h
    simp only [SrcCol.indexed, srcB, List.flatten_cons, List.flatten_nil, List.append_nil,
      List.mem_cons, List.not_mem_nil, or_false, Bool.or_eq_true, decide_eq_true_eq] at h
    rcases h with (rfl | rfl) | (rfl | rfl) <;> simp [srcB],
   by
    intro k v n h
    simp only [srcB] at h
    repeat' split at h
    all_goals (first | (simp at h; obtain ⟨_, rfl⟩ := h; decide) | simp at h)⟩

example : migrateCol .rc srcB 1 = some ("x", 3) ∧ migrateCol .rc srcB 2 = some ("y", 5) ∧
    migrateCol .plain srcB 2 = some ("y", 1) ∧ migrateCol .preimage srcB 4 = none := by
  refine ⟨?_, ?_, ?_, ?_⟩ <;> rw [C20_dest_eq_source _ srcB srcB_wf] <;> decide
example : (iterIndexAll srcB).map (·.1) = [1, 2, 3] ∧ (iterIndex srcB).map (·.1) = [2, 3] := by decide
example := C20_dest_eq_source_rc srcB srcB_wf
example := C20_iter_complete srcB
example := C20_iter_complete_partial srcF6 rfl 7 "v" 2
example := C20_dest_eq_source_partial .rc srcF6 srcF6_wf (by decide) rfl 7
example : alGet (migrateExec (iterIndexAll srcB) setsOf .rc) 2 = some ("y", 5) := by decide
example := C20_dest_eq_source_user (fun (_ : Bool) (salt : Nat) (u : Nat) => u + salt) 0
  ⟨true, false, true, 1, false, false, false⟩ ⟨false, false, false, 2, false, false, false⟩ rfl srcB srcB_wf 2

/-! ## (b') the physical walk -/

section
variable {P A T V : Type} [DecidableEq P] [DecidableEq A] [DecidableEq T]

/-- The walk the code performs (tables oldest first; an entry of a newer table is skipped iff
an older table holds the same partial key with the same address) does not fail, and reports
exactly the live keys - the keys `get` finds - with their counts and values, each once. -/
theorem C20_walk_complete (p : PhysCol P A T V) (h : p.Inv) :
    walkPhys p = some (walkItems p) ∧
    (∀ k v n, (k, n, v) ∈ walkItems p ↔ p.content k = some (v, n)) ∧
    ((walkItems p).map (·.1)).Nodup := by
  refine ⟨by simp [walkPhys, walkOk_of_live p h.live], ?_, walkItems_keys_nodup p h⟩
  intro k v n
  rw [mem_walkItems, content_eq_some_iff p h.inj]

/-- Destination = source for the walk the code performs. -/
theorem C20_walk_dest_eq_source (p : PhysCol P A T V) (h : p.Inv) (dstKind : Kind)
    (items : List (Item (P × T) V)) (hw : walkPhys p = some items) (k : P × T) :
    migrateWith items setsOf dstKind k = expectCell dstKind (p.content k) := by
  have : items = walkItems p := by
    have h1 := (C20_walk_complete p h).1
    rw [h1] at hw
    exact (Option.some.inj hw).symm
  rw [this]
  exact walk_dest_eq p h dstKind k

/-- Every entry shows the key bits of the key that was written into the slot it addresses
(`owner`: ghost state, the slot itself stores only the tail). -/
def PhysCol.NoStale (p : PhysCol P A T V) (owner : A → Option P) : Prop :=
  ∀ t ∈ p.tables, ∀ e ∈ t, owner e.2 = some e.1

/-- Without stale entries every reported key is the key written into a live slot. -/
theorem C20_walk_only_written_keys (p : PhysCol P A T V) (owner : A → Option P)
    (hs : p.NoStale owner) (k : P × T) (v : V) (n : Nat) (hk : (k, n, v) ∈ walkItems p) :
    ∃ a, owner a = some k.1 ∧ p.slot a = some (k.2, v, n) := by
  obtain ⟨e, he, hk1, hslot⟩ := (mem_walkItems p k v n).mp hk
  obtain ⟨t, ht, het⟩ := List.mem_flatten.mp he
  exact ⟨e.2, hk1 ▸ hs t ht e het, hslot⟩

end

/-- A column closed while a reindex was pending.  The entry `(1, 10)` of key `(1, "a")` was
copied by a reindex batch into the newest table; then the key was removed (from the newest
table, where the lookup finds it first) and its slot 10 was taken by the new key `(2, "b")`.
The queued older table still holds `(1, 10)`. -/
def physStale : PhysCol Nat Nat String String :=
  { tables := [[(1, 10)], [(2, 10)]], slot := fun a => if a = 10 then some ("b", "v", 1) else none }

/-- The same with the slot still free. -/
def physStaleDead : PhysCol Nat Nat String String :=
  { tables := [[(1, 10)], [(2, 11)]], slot := fun a => if a = 11 then some ("b", "v", 1) else none }

/-- Stale entries in a queued older table (reachable: harness scenario `stale`): the walk
reports a key that was never written (bits of the removed key, tail of the new owner of the
slot), the migrated column holds it; with the slot still free the walk fails although every
live key reads correctly. -/
theorem C20_walk_stale_witness :
    walkPhys physStale = some [((1, "b"), 1, "v"), ((2, "b"), 1, "v")] ∧
    ¬ physStale.NoStale (fun a => if a = 10 then some 2 else none) ∧
    migrateWith (walkItems physStale) setsOf .plain (1, "b") = some ("v", 1) ∧
    walkPhys physStaleDead = none ∧ physStaleDead.content (2, "b") = some ("v", 1) ∧
    ¬ (∀ t ∈ physStaleDead.tables, ∀ e ∈ t, (physStaleDead.slot e.2).isSome = true) := by
  refine ⟨by decide, ?_, ?_, by decide, by decide, ?_⟩
  · intro h
    have := h [(1, 10)] (by simp [physStale]) (1, 10) (by simp)
    simp at this
  · rw [← migrateExec_get]; decide
  · intro h
    have := h [(1, 10)] (by simp [physStaleDead]) (1, 10) (by simp)
    simp [physStaleDead] at this

/- non-vacuity: two queued older tables and the newest one; entry (5, 20) was copied from the
oldest table into the newest (reindex half done), (6, 21) lives in the middle table only. -/
def physB : PhysCol Nat Nat String String :=
  { tables := [[(5, 20), (7, 22)], [(6, 21)], [(5, 20), (8, 23)]],
    slot := fun a => if a = 20 then some ("p", "x", 3) else if a = 21 then some ("q", "y", 1)
      else if a = 22 then some ("r", "z", 2) else if a = 23 then some ("s", "w", 1) else none }

theorem physB_inv : physB.Inv := by
  refine ⟨?_, by decide, by decide, ?_⟩
  · intro a1 a2 s1 s2 h1 h2 h
    simp only [physB] at h1 h2
    repeat' split at h1
    all_goals repeat' split at h2
    all_goals simp_all
    all_goals (first | omega | (obtain ⟨rfl, _⟩ := h1; obtain ⟨rfl, _⟩ := h2; simp at h) | skip)
    all_goals (subst h1; subst h2; simp at h)
  · intro a s h
    simp only [physB] at h
    repeat' split at h
    all_goals (first | (simp at h; subst h; decide) | simp at h)

example : (walkItems physB).map (·.1) = [(5, "p"), (7, "r"), (6, "q"), (8, "s")] := by decide
example := C20_walk_complete physB physB_inv
example := C20_walk_dest_eq_source physB physB_inv .rc _ (C20_walk_complete physB physB_inv).1 (5, "p")
example : migrateWith (walkItems physB) setsOf .rc (5, "p") = some ("x", 3) := by
  rw [← migrateExec_get]; decide
example := C20_walk_only_written_keys physB
  (fun a => if a = 20 then some 5 else if a = 21 then some 6 else if a = 22 then some 7 else some 8)
  (by unfold PhysCol.NoStale; decide) (5, "p") "x" 3 (by decide)

/-! ## (c) the database -/

section
variable {K V : Type} [DecidableEq K]

/-- Column selection: exactly the forced columns and those whose options differ; a plan is
accepted only if no selected column is btree-indexed or multitree on either side and the
column counts agree.  (The multitree clause was added with fix-c20-multitree-selected.diff:
before it `migrate` accepted such a plan and re-committed only the root values, see
`C20_selection_multitree_refused` and finding MT-SELECTED of the harness.) -/
theorem C20_selection (src dst : List ColOpts) (force sel : List Nat)
    (h : plan src dst force = .ok sel) :
    src.length = dst.length ∧
    (∀ c, c ∈ sel ↔ c < src.length ∧ (c ∈ force ∨ src[c]? ≠ dst[c]?)) ∧
    (∀ c ∈ sel, (src[c]?.map (·.btree)).getD false = false ∧
                (dst[c]?.map (·.btree)).getD false = false) ∧
    (∀ c ∈ sel, (src[c]?.map (·.multitree)).getD false = false ∧
                (dst[c]?.map (·.multitree)).getD false = false) := by
  obtain ⟨h1, _, h3, h4⟩ := plan_ok_iff src dst force sel h
  have split : ∀ o : Option ColOpts, (o.map (·.notMigratable)).getD false = false →
      (o.map (·.btree)).getD false = false ∧ (o.map (·.multitree)).getD false = false := by
    intro o ho
    cases o with
    | none => exact ⟨rfl, rfl⟩
    | some x => simpa [ColOpts.notMigratable] using ho
  exact ⟨h1, h3, fun c hc => ⟨(split _ (h4 c hc).1).1, (split _ (h4 c hc).2).1⟩,
    fun c hc => ⟨(split _ (h4 c hc).1).2, (split _ (h4 c hc).2).2⟩⟩

/-- A plan that selects a multitree column (forced, or its options differ) is refused. -/
theorem C20_selection_multitree_refused (src dst : List ColOpts) (force : List Nat) (c : Nat)
    (hlen : src.length = dst.length) (hforce : ∀ f ∈ force, f < src.length) (hc : c < src.length)
    (hsel : c ∈ force ∨ src[c]? ≠ dst[c]?)
    (hmt : (src[c]?.map (·.multitree)).getD false = true ∨ (dst[c]?.map (·.multitree)).getD false = true) :
    plan src dst force = .errMigration := by
  cases hp : plan src dst force with
  | errMigration => rfl
  | panic =>
    exfalso
    unfold plan at hp
    rw [if_neg (by simpa using hlen)] at hp
    split at hp
    · rename_i h
      simp only [List.any_eq_true, decide_eq_true_eq] at h
      obtain ⟨f, hf, hle⟩ := h
      exact absurd (hforce f hf) (by omega)
    · dsimp only at hp
      split at hp <;> cases hp
  | ok sel =>
    exfalso
    obtain ⟨_, h3, _, h5⟩ := C20_selection src dst force sel hp
    have hm := h5 c ((h3 c).mpr ⟨hc, hsel⟩)
    rcases hmt with h | h
    · rw [hm.1] at h; cases h
    · rw [hm.2] at h; cases h

/-- Columns not selected for migration are copied unchanged (whole physical state: every
index table, every value table), without overwrite into the destination, with overwrite
they stay in place. -/
theorem C20_unselected_copied (src : DbSt K V) (dst : List ColOpts) (overwrite : Bool)
    (force sel : List Nat) (dest source : DbSt K V)
    (hp : plan (src.map (·.1)) dst force = .ok sel)
    (hm : migrateDb src dst overwrite force = .ok dest source) (c : Nat) (hc : c < src.length)
    (hsel : c ∉ sel) :
    ((Outcome.ok dest source).result overwrite).bind (·[c]?) = src[c]? := by
  have hlen : src.length = dst.length := by simpa using (plan_ok_iff _ _ _ _ hp).1
  simp only [migrateDb, hp] at hm
  have key : (migrateCols sel 0 src dst)[c]? = src[c]? := by
    rw [getElem?_migrateCols]
    have h1 : src[c]? = some src[c] := List.getElem?_eq_getElem hc
    have h2 : dst[c]? = some (dst[c]'(hlen ▸ hc)) := List.getElem?_eq_getElem (hlen ▸ hc)
    simp [h1, h2, hsel]
  cases overwrite with
  | false =>
    simp only [Bool.false_eq_true, if_false] at hm
    injection hm with h1 h2
    subst h1
    simpa [Outcome.result] using key
  | true =>
    simp only [if_true] at hm
    injection hm with h1 h2
    subst h2
    simpa [Outcome.result] using key

/-- The source is unchanged unless in-place overwrite was requested. -/
theorem C20_source_unchanged (src : DbSt K V) (dst : List ColOpts) (force : List Nat)
    (dest source : DbSt K V) (hm : migrateDb src dst false force = .ok dest source) :
    source = src := by
  unfold migrateDb at hm
  split at hm
  · cases hm
  · cases hm
  · simp only [Bool.false_eq_true, if_false] at hm
    injection hm with h1 h2
    exact h2.symm

/-- A refused plan changes nothing: there is no destination and no new source state. -/
theorem C20_refused_no_effect (src : DbSt K V) (dst : List ColOpts) (overwrite : Bool)
    (force : List Nat) (h : plan (src.map (·.1)) dst force = .errMigration) :
    migrateDb src dst overwrite force = .errMigration := by
  simp [migrateDb, h]

/-- A selected column of the result database carries the destination options and, key by
key, the source content (counts as in `C20_dest_eq_source`). -/
theorem C20_selected_content (src : DbSt K V) (dst : List ColOpts) (overwrite : Bool)
    (force sel : List Nat) (dest source : DbSt K V)
    (hp : plan (src.map (·.1)) dst force = .ok sel)
    (hm : migrateDb src dst overwrite force = .ok dest source) (c : Nat) (hsel : c ∈ sel)
    (o₁ o₂ : ColOpts) (s : SrcCol K V) (hs : src[c]? = some (o₁, s)) (hd : dst[c]? = some o₂)
    (hwf : s.WF) :
    ∃ s', ((Outcome.ok dest source).result overwrite).bind (·[c]?) = some (o₂, s') ∧
      ∀ k, s'.content k = expectCell o₂.kind (s.content k) := by
  refine ⟨populated o₂ s, ?_, fun k => populated_content o₂ s hwf k⟩
  simp only [migrateDb, hp] at hm
  have key : (migrateCols sel 0 src dst)[c]? = some (o₂, populated o₂ s) := by
    rw [getElem?_migrateCols]; simp [hs, hd, hsel]
  cases overwrite with
  | false =>
    simp only [Bool.false_eq_true, if_false] at hm
    injection hm with h1 h2
    subst h1
    simpa [Outcome.result] using key
  | true =>
    simp only [if_true] at hm
    injection hm with h1 h2
    subst h2
    simpa [Outcome.result] using key

end

/- non-vacuity: two hash columns and a btree column; column 0 changes rc -> plain+lz4 (selected
automatically), column 1 is forced, the btree column 2 is copied; forcing the btree column
or a column id that does not exist is refused / panics. -/
def optsRc : ColOpts := ⟨true, false, true, 0, false, false, false⟩
def optsPlainLz4 : ColOpts := ⟨false, false, false, 1, false, false, false⟩
def optsBtree : ColOpts := ⟨false, false, false, 0, true, false, false⟩
def optsMultitree : ColOpts := ⟨false, false, false, 0, false, true, false⟩
example : plan [optsRc, optsRc, optsBtree] [optsPlainLz4, optsRc, optsBtree] [1] = .ok [0, 1] ∧
    plan [optsRc, optsRc, optsBtree] [optsPlainLz4, optsRc, optsBtree] [] = .ok [0] ∧
    plan [optsRc, optsBtree] [optsRc, optsBtree] [1] = .errMigration ∧
    plan [optsRc] [optsBtree] [] = .errMigration ∧
    plan [optsRc] [optsRc, optsRc] [] = .errMigration ∧
    plan [optsRc] [optsRc] [3] = .panic ∧
    plan [optsRc, optsMultitree] [optsPlainLz4, optsMultitree] [] = .ok [0] ∧
    plan [optsRc, optsMultitree] [optsRc, optsMultitree] [1] = .errMigration ∧
    plan [optsRc, optsMultitree] [optsRc, optsRc] [] = .errMigration := by decide
example := C20_selection_multitree_refused [optsRc, optsMultitree] [optsRc, optsMultitree] [1] 1 rfl
  (by decide) (by decide) (Or.inl (by decide)) (Or.inl (by decide))

def dbA : DbSt Nat String := [(optsRc, srcB), (optsRc, srcF6), (optsBtree, emptyCol)]
def dstA : List ColOpts := [optsPlainLz4, optsRc, optsBtree]
theorem dbA_plan : plan (dbA.map (·.1)) dstA [1] = .ok [0, 1] := by decide
theorem dbA_migrate (ow : Bool) : migrateDb dbA dstA ow [1] =
    .ok (if ow then dstA.map (fun o => (o, emptyCol)) else migrateCols [0, 1] 0 dbA dstA)
        (if ow then migrateCols [0, 1] 0 dbA dstA else dbA) := by
  cases ow <;> simp [migrateDb, dbA_plan]
example := C20_source_unchanged dbA dstA [1] _ _ (dbA_migrate false)
example := C20_unselected_copied dbA dstA false [1] [0, 1] _ _ dbA_plan (dbA_migrate false) 2 (by decide) (by decide)
example := C20_unselected_copied dbA dstA true [1] [0, 1] _ _ dbA_plan (dbA_migrate true) 2 (by decide) (by decide)
example := C20_selected_content dbA dstA true [1] [0, 1] _ _ dbA_plan (dbA_migrate true) 0 (by decide)
  optsRc optsPlainLz4 srcB rfl rfl srcB_wf
example := C20_selection _ _ _ _ dbA_plan

/-! ## (d) the directories: `copy_column` / `move_column` -/

section
open Pdb.C17
variable {β : Type}

/-- T0 obligation, stated as a property theorem: the `||` chain of `is_file_name` tests in
`deplace_column` (src/migration.rs, regenerated on every run) is the chain of
`Column::drop_files` (src/column.rs): `copy_column` / `move_column` act on exactly the files that
belong to the column.  Fails to build on the code before fix-c20-refcount-files.diff. -/
theorem C20_deplace_chain_eq_drop_files :
    Gen.Text.deplaceColumnTests = Gen.Text.dropFilesTests ∧
    ∀ c n, isDeplacedFile c n = isColumnFile c n :=
  ⟨deplace_chain_eq_drop_files, isDeplacedFile_eq⟩

/-- `copy_column(c, from, to)`: every file of column `c` in `from` is in `to` afterwards with
the same content, `from` is untouched, no other name of `to` changes; `move_column`: the same
for `to`, and `from` no longer holds any file of column `c` (and loses nothing else). -/
theorem C20_copy_move_column (c : Nat) (frm to : Dir β) (n : FileName) :
    copyColumn c frm to n = (if isColumnFile c n then (frm n).or (to n) else to n) ∧
    (moveColumn c frm to).2 n = (if isColumnFile c n then (frm n).or (to n) else to n) ∧
    (moveColumn c frm to).1 n = (if isColumnFile c n then none else frm n) := by
  have h := isDeplacedFile_eq c n
  unfold isDeplacedFile at h
  simp [copyColumn, moveColumn, deplaceWith, h]

/-- "Columns not selected for migration are copied unchanged", file by file: for a column `c`
that is not selected, every file that belongs to `c` by the test `Column::drop_files` (and
`Column::open`'s file names) uses, the directory that holds the result has under that name
exactly what the source directory had (the same files with the same contents, and no other
file of column `c`, the destination being fresh); the source directory keeps them too - with
overwrite that IS the result: the files stay in place. -/
theorem C20_unselected_files_copied (fx : DbEffects β) (hfx : fx.Frame) (overwrite : Bool)
    (sel : List Nat) (ncols : Nat) (srcDir dstDir : Dir β)
    (hfresh : ∀ c n, isColumnFile c n = true → dstDir n = none)
    (c : Nat) (hc : c < ncols) (hsel : c ∉ sel) (n : FileName) (hn : isColumnFile c n = true) :
    resultDir overwrite (migrateFs fx overwrite sel ncols srcDir dstDir) n = srcDir n ∧
    (migrateFs fx overwrite sel ncols srcDir dstDir).1 n = srcDir n := by
  obtain ⟨h1, h2⟩ := migrateFsWith_unselected Gen.Text.deplaceColumnTests
    (fun c n => isDeplacedFile_eq c n) fx hfx overwrite sel ncols srcDir dstDir c hc hsel n hn
  refine ⟨?_, h1⟩
  cases overwrite with
  | true => exact h1
  | false =>
    simp only [resultDir, Bool.false_eq_true, if_false] at h2 ⊢
    rw [show migrateFs fx false sel ncols srcDir dstDir =
      migrateFsWith Gen.Text.deplaceColumnTests fx false sel ncols srcDir dstDir from rfl, h2,
      hfresh c n hn, Option.or_none]

end

/-- The handles that do nothing respect the frame conditions. -/
theorem DbEffects.id_frame {β : Type} : (DbEffects.id : DbEffects β).Frame :=
  ⟨fun _ _ _ _ => rfl, fun _ _ _ _ _ _ => rfl, fun _ _ _ _ => rfl, fun _ _ _ _ _ => rfl⟩

section
open Pdb.C17

/-- The chain `deplace_column` had before fix-c20-refcount-files.diff. -/
def oldDeplaceChain : List Text := [t!"index", t!"table"]

/-- A source directory: column 0 (plain), column 1 multitree with a reference-count table. -/
def dirA : Dir Unit :=
  Dir.ofList [(fileName .index 0 16, .data ()), (fileName .table 0 3, .data ()),
    (fileName .index 1 16, .data ()), (fileName .table 1 0, .data ()),
    (fileName .refcount 1 16, .data ()), (metadataName, .text [])]

/-- Negation witness for the code before the fix: column 1 is not selected, its file
`refcount_01_16` belongs to it (`Column::drop_files` would delete it, `Column::open` opens it),
the source has it, the destination does not - while index and value tables are copied. -/
theorem C20_old_chain_loses_refcount :
    isColumnFile 1 (fileName .refcount 1 16) = true ∧
    dirA (fileName .refcount 1 16) = some (.data ()) ∧
    (migrateFsWith oldDeplaceChain DbEffects.id false [0] 2 dirA Dir.empty).2
      (fileName .refcount 1 16) = none ∧
    (migrateFsWith oldDeplaceChain DbEffects.id false [0] 2 dirA Dir.empty).2
      (fileName .index 1 16) = some (.data ()) ∧
    (migrateFsWith oldDeplaceChain DbEffects.id false [0] 2 dirA Dir.empty).2
      (fileName .table 1 0) = some (.data ()) := by decide

/- non-vacuity: with the generated chain the same directory is copied completely; with
overwrite the files stay; `metadata` is not a column file. -/
example : (migrateFs DbEffects.id false [0] 2 dirA Dir.empty).2 (fileName .refcount 1 16) = some (.data ()) ∧
    (migrateFs DbEffects.id true [0] 2 dirA Dir.empty).1 (fileName .refcount 1 16) = some (.data ()) ∧
    (migrateFs DbEffects.id false [0] 2 dirA Dir.empty).2 metadataName = none := by decide
example := C20_unselected_files_copied DbEffects.id DbEffects.id_frame false [0] 2 dirA Dir.empty
  (fun _ _ _ => rfl) 1 (by decide) (by decide) (fileName .refcount 1 16) (by decide)
example := C20_unselected_files_copied DbEffects.id DbEffects.id_frame true [0] 2 dirA Dir.empty
  (fun _ _ _ => rfl) 1 (by decide) (by decide) (fileName .refcount 1 16) (by decide)
example := C20_copy_move_column 1 dirA (Dir.empty : Dir Unit) (fileName .refcount 1 16)

end

end Pdb.Migrate

#print axioms Pdb.Migrate.C20_recover_key_roundtrip
#print axioms Pdb.Migrate.C20_visible_bits
#print axioms Pdb.Migrate.C20_dest_eq_source
#print axioms Pdb.Migrate.C20_dest_eq_source_user
#print axioms Pdb.Migrate.C20_dest_eq_source_rc
#print axioms Pdb.Migrate.C20_dest_eq_source_counts_one
#print axioms Pdb.Migrate.C20_same_keys
#print axioms Pdb.Migrate.C20_same_value
#print axioms Pdb.Migrate.C20_commit_batches
#print axioms Pdb.Migrate.C20_driver_exec_eq
#print axioms Pdb.Migrate.C20_iter_complete
#print axioms Pdb.Migrate.C20_iter_complete_partial
#print axioms Pdb.Migrate.C20_dest_eq_source_partial
#print axioms Pdb.Migrate.C20_buggy_exact
#print axioms Pdb.Migrate.C20_F6_counterexample
#print axioms Pdb.Migrate.C20_F10_counterexample
#print axioms Pdb.Migrate.C20_dest_eq_source_buggy_false
#print axioms Pdb.Migrate.C20_iter_complete_top_only_false
#print axioms Pdb.Migrate.C20_selection
#print axioms Pdb.Migrate.C20_unselected_copied
#print axioms Pdb.Migrate.C20_source_unchanged
#print axioms Pdb.Migrate.C20_refused_no_effect
#print axioms Pdb.Migrate.C20_selected_content
#print axioms Pdb.Migrate.C20_selection_multitree_refused
#print axioms Pdb.Migrate.C20_walk_complete
#print axioms Pdb.Migrate.C20_walk_dest_eq_source
#print axioms Pdb.Migrate.C20_walk_only_written_keys
#print axioms Pdb.Migrate.C20_walk_stale_witness
#print axioms Pdb.Migrate.C20_deplace_chain_eq_drop_files
#print axioms Pdb.Migrate.C20_copy_move_column
#print axioms Pdb.Migrate.C20_unselected_files_copied
#print axioms Pdb.Migrate.C20_old_chain_loses_refcount
