/-
C20, database level: column selection, copied columns, the source.
-/
import Pdb.Proofs.C20

namespace Pdb.Migrate
open Pdb Pdb.Gen

set_option linter.unusedSectionVars false

variable {K V : Type} [DecidableEq K]

theorem getElem?_migrateCols (sel : List Nat) (src : DbSt K V) (dst : List ColOpts) (c i : Nat) :
    (migrateCols sel c src dst)[i]? =
      (src[i]?).bind (fun so => (dst[i]?).map (fun o =>
        if c + i ∈ sel then (o, populated o so.2) else so)) := by
  induction src generalizing dst c i with
  | nil => simp [migrateCols]
  | cons so src ih =>
    cases dst with
    | nil => cases i <;> simp [migrateCols]
    | cons o dst =>
      cases i with
      | zero => simp [migrateCols]
      | succ i =>
        simp only [migrateCols, List.getElem?_cons_succ]
        rw [ih dst (c + 1) i]
        have : c + 1 + i = c + (i + 1) := by omega
        rw [this]

theorem length_migrateCols (sel : List Nat) (src : DbSt K V) (dst : List ColOpts) (c : Nat)
    (h : src.length = dst.length) : (migrateCols sel c src dst).length = src.length := by
  induction src generalizing dst c with
  | nil => simp [migrateCols]
  | cons so src ih =>
    cases dst with
    | nil => simp at h
    | cons o dst => simp [migrateCols, ih dst (c + 1) (by simpa using h)]

theorem plan_ok_iff (src dst : List ColOpts) (force sel : List Nat) (h : plan src dst force = .ok sel) :
    src.length = dst.length ∧ (∀ c ∈ force, c < src.length) ∧
    (∀ c, c ∈ sel ↔ c < src.length ∧ (c ∈ force ∨ src[c]? ≠ dst[c]?)) ∧
    (∀ c ∈ sel, (src[c]?.map (·.notMigratable)).getD false = false ∧
                (dst[c]?.map (·.notMigratable)).getD false = false) := by
  unfold plan at h
  split at h
  · cases h
  · rename_i hlen
    split at h
    · cases h
    · rename_i hforce
      dsimp only at h
      split at h
      · cases h
      · rename_i hbt
        injection h with h
        subst h
        refine ⟨by simpa using hlen, ?_, ?_, ?_⟩
        · intro c hc
          simp only [List.any_eq_true, decide_eq_true_eq, not_exists, not_and] at hforce
          exact Nat.lt_of_not_le (hforce c hc)
        · intro c
          simp [List.mem_filter, List.mem_range]
        · intro c hc
          simp only [List.any_eq_true, Bool.or_eq_true, not_exists, not_and, not_or] at hbt
          have := hbt c hc
          exact ⟨by simpa using this.1, by simpa using this.2⟩

/-- The populated column reads as the migrated table. -/
theorem populated_content (o : ColOpts) (s : SrcCol K V) (hwf : s.WF) (k : K) :
    (populated o s).content k = expectCell o.kind (s.content k) := by
  have hm := migrateCol_eq s hwf o.kind k
  by_cases hk : k ∈ (iterIndexAll s).map (·.1)
  · rw [← hm]; simp [SrcCol.content, SrcCol.indexed, populated, hk]
  · have hnone : s.content k = none := by
      cases hc : s.content k with
      | none => rfl
      | some c =>
        exfalso
        apply hk
        have := (mem_iterIndexAll s k c.1 c.2).mpr (by simpa using hc)
        exact List.mem_map.mpr ⟨_, this, rfl⟩
    rw [hnone]
    simp [SrcCol.content, SrcCol.indexed, populated, hk, expectCell]

end Pdb.Migrate
