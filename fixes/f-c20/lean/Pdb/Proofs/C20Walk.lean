/-
C20, the physical walk (`HashColumn::iter_index_tables` / `iter_index_table`, src/column.rs):
tables oldest first, an entry is skipped iff an older table holds the same (partial key,
address) pair.  Under `PhysCol.Inv` the walk reports every live key exactly once.
-/
import Pdb.Proofs.C20

namespace Pdb.Migrate
open Pdb Pdb.Gen

set_option linter.unusedSectionVars false

section
variable {P A T V : Type} [DecidableEq P] [DecidableEq A] [DecidableEq T]

theorem reportedBy_iff (older : List (List (PEntry P A))) (e : PEntry P A) :
    reportedBy older e = true ↔ e ∈ older.flatten := by
  simp only [reportedBy, List.any_eq_true, decide_eq_true_eq, List.mem_flatten]
  constructor
  · rintro ⟨t, ht, x, hx, rfl⟩; exact ⟨t, ht, hx⟩
  · rintro ⟨t, ht, hx⟩; exact ⟨t, ht, e, hx, rfl⟩

theorem mem_reportedOf (older : List (List (PEntry P A))) (t : List (PEntry P A)) (e : PEntry P A) :
    e ∈ reportedOf older t ↔ e ∈ t ∧ e ∉ older.flatten := by
  simp only [reportedOf, List.mem_filter, Bool.not_eq_true', ← reportedBy_iff]
  cases reportedBy older e <;> simp

/-- An entry is reported iff some table of the walk holds it and no table walked before does:
every (partial key, address) pair is reported from the oldest table that holds it. -/
theorem mem_walkEntries (older ts : List (List (PEntry P A))) (e : PEntry P A) :
    e ∈ walkEntries older ts ↔ e ∉ older.flatten ∧ e ∈ ts.flatten := by
  induction ts generalizing older with
  | nil => simp [walkEntries]
  | cons t ts ih =>
    simp only [walkEntries, List.mem_append, mem_reportedOf, ih, List.flatten_append,
      List.flatten_cons, List.flatten_nil, List.append_nil]
    constructor
    · rintro (⟨h1, h2⟩ | ⟨h1, h2⟩)
      · exact ⟨h2, Or.inl h1⟩
      · exact ⟨fun h => h1 (Or.inl h), Or.inr h2⟩
    · rintro ⟨h1, h2 | h2⟩
      · exact Or.inl ⟨h2, h1⟩
      · by_cases ht : e ∈ t
        · exact Or.inl ⟨ht, h1⟩
        · exact Or.inr ⟨fun h => h.elim h1 ht, h2⟩

theorem nodup_walkEntries (older ts : List (List (PEntry P A))) (hn : ∀ t ∈ ts, t.Nodup) :
    (walkEntries older ts).Nodup := by
  induction ts generalizing older with
  | nil => simp [walkEntries]
  | cons t ts ih =>
    simp only [walkEntries]
    rw [List.nodup_append]
    refine ⟨(hn t List.mem_cons_self).filter _, ih _ (fun t' ht' => hn t' (List.mem_cons_of_mem _ ht')), ?_⟩
    intro a ha b hb hab
    subst hab
    have h1 := ((mem_reportedOf older t a).mp ha).1
    have h2 := ((mem_walkEntries (older ++ [t]) ts a).mp hb).1
    apply h2
    simp only [List.flatten_append, List.flatten_cons, List.flatten_nil, List.append_nil, List.mem_append]
    exact Or.inr h1

theorem mem_searchOrder (p : PhysCol P A T V) (e : PEntry P A) :
    e ∈ p.searchOrder ↔ e ∈ p.tables.flatten := by
  unfold PhysCol.searchOrder
  cases h : p.tables.getLast? with
  | none =>
    have : p.tables = [] := List.getLast?_eq_none_iff.mp h
    simp [this]
  | some cur =>
    obtain ⟨ys, hys⟩ := List.getLast?_eq_some_iff.mp h
    rw [hys]
    simp only [Option.getD_some, List.mem_append, List.flatten_append, List.flatten_cons,
      List.flatten_nil, List.append_nil, List.dropLast_concat]
    exact Or.comm

/-- Under `inj`, what `get` finds for a key does not depend on the search order. -/
theorem content_eq_some_iff (p : PhysCol P A T V)
    (inj : ∀ a1 a2 s1 s2, p.slot a1 = some s1 → p.slot a2 = some s2 → s1.1 = s2.1 → a1 = a2)
    (k : P × T) (v : V) (n : Nat) :
    p.content k = some (v, n) ↔
      ∃ e ∈ p.tables.flatten, e.1 = k.1 ∧ p.slot e.2 = some (k.2, v, n) := by
  unfold PhysCol.content
  constructor
  · intro h
    cases hf : p.searchOrder.find? (p.hit k) with
    | none => simp [hf] at h
    | some e =>
      have hmem := (mem_searchOrder p e).mp (List.mem_of_find?_eq_some hf)
      have hhit : p.hit k e = true := List.find?_some hf
      simp only [hf, Option.bind_some] at h
      cases hs : p.slot e.2 with
      | none => simp [hs] at h
      | some s =>
        simp only [hs, Option.map_some, Option.some.injEq, Prod.mk.injEq] at h
        simp only [PhysCol.hit, hs, Option.map_some, Option.getD_some, Bool.and_eq_true,
          decide_eq_true_eq] at hhit
        obtain ⟨t, v', n'⟩ := s
        simp only at h hhit
        refine ⟨e, hmem, hhit.1, ?_⟩
        rw [hs, ← h.1, ← h.2, hhit.2]
  · rintro ⟨e, hmem, hk, hs⟩
    have hhit : p.hit k e = true := by simp [PhysCol.hit, hs, hk]
    cases hf : p.searchOrder.find? (p.hit k) with
    | none =>
      have := List.find?_eq_none.mp hf e ((mem_searchOrder p e).mpr hmem)
      exact absurd hhit this
    | some e' =>
      have hhit' : p.hit k e' = true := List.find?_some hf
      cases hs' : p.slot e'.2 with
      | none => simp [PhysCol.hit, hs'] at hhit'
      | some s' =>
        simp only [PhysCol.hit, hs', Option.map_some, Option.getD_some, Bool.and_eq_true,
          decide_eq_true_eq] at hhit'
        have ha : e'.2 = e.2 := inj _ _ _ _ hs' hs hhit'.2
        rw [ha, hs] at hs'
        simp only [Option.bind_some, ha, hs, Option.map_some]

theorem mem_walkItems (p : PhysCol P A T V) (k : P × T) (v : V) (n : Nat) :
    (k, n, v) ∈ walkItems p ↔
      ∃ e ∈ p.tables.flatten, e.1 = k.1 ∧ p.slot e.2 = some (k.2, v, n) := by
  simp only [walkItems, List.mem_filterMap, mem_walkEntries, List.flatten_nil, List.not_mem_nil,
    not_false_eq_true, true_and, PhysCol.itemAt]
  constructor
  · rintro ⟨e, he, h⟩
    cases hs : p.slot e.2 with
    | none => simp [hs] at h
    | some s =>
      obtain ⟨t, v', n'⟩ := s
      simp only [hs, Option.map_some, Option.some.injEq, Prod.mk.injEq] at h
      obtain ⟨rfl, rfl, rfl⟩ := h
      exact ⟨e, he, rfl, hs⟩
  · rintro ⟨e, he, hk, hs⟩
    refine ⟨e, he, ?_⟩
    simp only [hs, Option.map_some, Option.some.injEq, Prod.mk.injEq, and_true]
    exact Prod.ext hk rfl

theorem walkOk_of_live (p : PhysCol P A T V)
    (live : ∀ t ∈ p.tables, ∀ e ∈ t, (p.slot e.2).isSome = true) : walkOk p = true := by
  simp only [walkOk, List.all_eq_true, mem_walkEntries, List.mem_flatten]
  rintro e ⟨_, t, ht, he⟩
  exact live t ht e he

theorem nodup_filterMap_map {α β γ : Type} (f : α → Option β) (g : β → γ) (l : List α)
    (hl : l.Nodup)
    (hinj : ∀ a ∈ l, ∀ b ∈ l, ∀ x y, f a = some x → f b = some y → g x = g y → a = b) :
    ((l.filterMap f).map g).Nodup := by
  induction l with
  | nil => simp
  | cons a l ih =>
    have ha : a ∉ l := (List.nodup_cons.mp hl).1
    have ih' := ih (List.nodup_cons.mp hl).2
      (fun a' ha' b' hb' => hinj a' (List.mem_cons_of_mem _ ha') b' (List.mem_cons_of_mem _ hb'))
    cases hfa : f a with
    | none => rw [List.filterMap_cons_none hfa]; exact ih'
    | some x =>
      rw [List.filterMap_cons_some hfa, List.map_cons, List.nodup_cons]
      refine ⟨?_, ih'⟩
      intro hmem
      obtain ⟨y, hy, hgy⟩ := List.mem_map.mp hmem
      obtain ⟨b, hb, hfb⟩ := List.mem_filterMap.mp hy
      have := hinj a List.mem_cons_self b (List.mem_cons_of_mem _ hb) x y hfa hfb hgy.symm
      exact ha (this ▸ hb)

theorem walkItems_keys_nodup (p : PhysCol P A T V) (h : p.Inv) :
    ((walkItems p).map (·.1)).Nodup := by
  unfold walkItems
  apply nodup_filterMap_map
  · exact nodup_walkEntries [] p.tables h.nodup
  · intro a _ b _ x y hx hy hxy
    simp only [PhysCol.itemAt] at hx hy
    cases hsa : p.slot a.2 with
    | none => simp [hsa] at hx
    | some sa =>
      cases hsb : p.slot b.2 with
      | none => simp [hsb] at hy
      | some sb =>
        simp only [hsa, hsb, Option.map_some, Option.some.injEq] at hx hy
        subst hx; subst hy
        simp only [Prod.mk.injEq] at hxy
        exact Prod.ext hxy.1 (h.inj _ _ _ _ hsa hsb hxy.2)

/-- `items = keys.filterMap (itemOf s)` for the abstract column whose cells are `content`. -/
theorem items_eq_filterMap (cell : (P × T) → Cell V) (items : List (Item (P × T) V))
    (h : ∀ e ∈ items, cell e.1 = some (e.2.2, e.2.1)) :
    items = (items.map (·.1)).filterMap
      (itemOf ({ top := [], older := [], cell := cell } : SrcCol (P × T) V)) := by
  induction items with
  | nil => rfl
  | cons e es ih =>
    have he : itemOf ({ top := [], older := [], cell := cell } : SrcCol (P × T) V) e.1 = some e := by
      simp [itemOf, h e List.mem_cons_self]
    rw [List.map_cons, List.filterMap_cons_some he, ← ih (fun e' he' => h e' (List.mem_cons_of_mem _ he'))]

/-- Destination = source for the physical walk. -/
theorem walk_dest_eq (p : PhysCol P A T V) (h : p.Inv) (kd : Kind) (k : P × T) :
    migrateWith (walkItems p) setsOf kd k = expectCell kd (p.content k) := by
  have hcell : ∀ e ∈ walkItems p, p.content e.1 = some (e.2.2, e.2.1) := by
    intro e he
    obtain ⟨k', n', v'⟩ := e
    exact (content_eq_some_iff p h.inj k' v' n').mpr ((mem_walkItems p k' v' n').mp he)
  rw [items_eq_filterMap p.content (walkItems p) hcell,
    migrateWith_keys _ setsOf keyLocal_setsOf kd _ (walkItems_keys_nodup p h)]
  by_cases hk : k ∈ (walkItems p).map (·.1)
  · simp only [hk, if_true]
    cases hc : p.content k with
    | none => simp [expectCell]
    | some c =>
      obtain ⟨v, n⟩ := c
      obtain ⟨e, _, _, hs⟩ := (content_eq_some_iff p h.inj k v n).mp hc
      have := h.count_ok _ _ hs
      simpa using cellFold_setsOf kd k v n this.1 this.2
  · simp only [hk, if_false]
    cases hc : p.content k with
    | none => simp [expectCell]
    | some c =>
      exfalso
      obtain ⟨v, n⟩ := c
      have hm := (mem_walkItems p k v n).mpr ((content_eq_some_iff p h.inj k v n).mp hc)
      exact hk (List.mem_map.mpr ⟨_, hm, rfl⟩)

end

end Pdb.Migrate
