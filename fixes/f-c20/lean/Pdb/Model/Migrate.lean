/-
C20  "Migration copies every key, value and reference count"     (src/migration.rs)

Two layers.

(a) Bit level: how `HashColumn::iter_index_internal` (src/column.rs) rebuilds the 32-byte
    hashed key of an index entry:
        let mut key = source.recover_key_prefix(c, *entry);   // src/index.rs
        key[6..].copy_from_slice(&pk);                         // pk = 26-byte tail stored with the value
    `recoverKey ib chunk entry tail`.  The shift expressions are the GENERATED
    `Pdb.Gen.recover_partial_key / recover_k / recover_index_key / chunk_index / Entry.*`.

(b) Logical level: `migrate` (src/migration.rs) walks the index of every selected source
    column (`iter_column_index_while` -> `HashColumn::iter_index`), and for every reported
    `(key, rc, value)` pushes `rc` times `Operation::Set(key, value)` into raw commits of
    `COMMIT_SIZE` operations (`Db::commit_raw`) of the destination, whose semantics is the
    logical pipeline `Pdb.applyCell kind` / `Pdb.spec` (Model/Pipeline.lean, tied to the code by
    C01 / C07).  Keys are HASHED keys: `migrate` copies the salt and the theorem requires equal
    `uniform` flags, so source and destination hash user keys identically.
      migrateCol        : the walk visits the queued older index tables too (fix F10) and every
                          Set carries the value (fix F6)
      migrateColBuggy   : the code before the fixes: only the newest index table is walked
                          (F10) and `std::mem::take(&mut value)` inside `for _ in 0..rc` leaves the
                          EMPTY value in every Set after the first (F6)
    The source column's physical index state is (keys of the newest table `tables.index`,
    keys of the queued older tables `reindex.queue`, value-table cells).

Driver command `c20` (stateless, `driverLine`):
  c20 recover <ib> <chunk> <entry_u64> <hex tail26>   -> hex of the 32-byte key
  c20 prefix  <ib> <chunk> <entry_u64>                -> hex of `recover_key_prefix` (32 bytes)
  c20 migrate <srckind> <dstkind> <n> (<hexkey> <valtoken> <rc>)*n [older <m> (<hexkey> <valtoken> <rc>)*m]
        -> destination content, sorted by key: `key=val*count ...` ("-" if empty);
           the first n triples are the entries of the newest index table, the optional m
           triples those of queued older tables (fixed code: `migrateCol`)
  c20 migratebuggy ... same syntax               -> the same for `migrateColBuggy` (empty value = v0_0)
  c20 plan <overwrite 0|1> <n> <col>*n <m> <col>*m <force: c1,c2,..|->
        -> ok | err:Migration | panic        (col = <kind>:u<0|1>:c<0..2>:b<0|1>[:m<0|1>:a<0|1>],
           m = multitree, a = append_only)
  c20 walk <srckind> <dstkind> <t> (<ib> <n> (<chunk> <entry_u64> <hex tail26|-> <valtoken|-> <rc>)*n)*t
        -> as `c20 migrate`, through the refined walk `walkPhys` (section (b')): the raw index
           tables oldest first (queued older tables, then the newest); every entry comes with the
           content of the value slot it addresses (`- - 0`: no live value there);
           `err:Corruption` when a reported entry addresses no live value
  c20 files <overwrite 0|1> <ncols> <selected: c1,c2,..|-> <file names of the source directory: a,b,..|->
        -> (no overwrite) the files `copy_column` puts into the destination directory for the
           unselected columns / (overwrite) the files of unselected columns still in the source
           directory, in the order given (`migrateFs`, section (d)); "-" if none

(b') The physical walk `HashColumn::iter_index_tables` / `iter_index_table` (src/column.rs):
    tables oldest first, an entry of a table is skipped iff an OLDER table holds an entry with the
    same partial key and the same address (`contains_partial_key_with_address`), the key of a
    reported entry is rebuilt from the entry and the tail stored in the addressed slot.

(d) Directory level: `deplace_column` / `copy_column` / `move_column` (src/migration.rs) on the
    directory model of Pdb/Model/Meta.lean (C17).  The `||` chain of `is_file_name` tests is the
    GENERATED `Gen.Text.deplaceColumnTests`; "belongs to column c" is `C17.isColumnFile`, the test
    of `Column::drop_files` (generated chain `Gen.Text.dropFilesTests`).  What the database
    handles do to the directories in between is abstract (`DbEffects`) up to frame conditions.
-/
import Pdb.Gen.Consts
import Pdb.Gen.Bits
import Pdb.Gen.Text
import Pdb.Model.Pipeline
import Pdb.Model.Meta

namespace Pdb.Migrate
open Pdb Pdb.Gen

/-! ## (a) key recovery -/

-- TODO-GEN src/column.rs `iter_index_internal`: `key[6..].copy_from_slice(&pk)`, and
-- src/table.rs `key::partial_key`: `&hash[6..]` (the literal 6)
def TAIL_START : Nat := 6

/-- `copy_from_slice` needs equal lengths: `KEY_SIZE - 6 = PARTIAL_SIZE` (else the Rust panics). -/
theorem tail_fits : TAIL_START + PARTIAL_SIZE = KEY_SIZE := rfl

/-- `u64::to_be_bytes`. -/
def beBytes8 (x : Nat) : List Nat :=
  [(x >>> 56) % 256, (x >>> 48) % 256, (x >>> 40) % 256, (x >>> 32) % 256,
   (x >>> 24) % 256, (x >>> 16) % 256, (x >>> 8) % 256, x % 256]

/-- `TableKey::index_from_partial`: `u64::from_be_bytes(key[0..8])`. -/
def keyPrefix (k : List Nat) : Nat := (k.take 8).foldl (fun a b => a * 256 + b) 0

/-- `IndexTable::recover_key_prefix`: a zeroed key whose first 8 bytes are `index_key` big-endian. -/
def recoverKeyPrefix (ib chunk entry : Nat) : List Nat :=
  beBytes8 (recover_index_key ib chunk entry) ++ List.replicate (KEY_SIZE - 8) 0

/-- The key reported by `iter_index_internal`: bytes `6..` overwritten by the stored tail. -/
def recoverKey (ib chunk entry : Nat) (tail : List Nat) : List Nat :=
  (recoverKeyPrefix ib chunk entry).take TAIL_START ++ tail

/-! ## (b) migration of one column -/

section
variable {K V : Type} [DecidableEq K]

/-- Physical index state of a source hash column. -/
structure SrcCol (K V : Type) where
  /-- keys with an entry in the newest index table `tables.index`, in walk order -/
  top : List K
  /-- keys with an entry in the older index tables still queued in `reindex.queue`, oldest first -/
  older : List (List K)
  /-- the value-table cell an entry of that key addresses: value and reference count -/
  cell : K → Cell V

/-- Some index table holds an entry for `k`. -/
def SrcCol.indexed (s : SrcCol K V) (k : K) : Bool := decide (k ∈ s.top) || decide (k ∈ s.older.flatten)

/-- What `HashColumn::get` returns: the newest table is searched first, then the queue. -/
def SrcCol.content (s : SrcCol K V) : Tbl K V := fun k => if s.indexed k then s.cell k else none

/-- Well-formed column: no duplicate entries in the newest table; every index entry addresses a
live value (otherwise `iter_index` fails with `Corruption`); counts are positive and not the
saturated / locked value `u32::MAX`. -/
structure SrcCol.WF (s : SrcCol K V) : Prop where
  cell_some : ∀ k, s.indexed k = true → (s.cell k).isSome = true
  count_ok : ∀ k v n, s.cell k = some (v, n) → 1 ≤ n ∧ n < LOCKED

/-- One reported index entry: `IterState { key, rc, value }`. -/
abbrev Item (K V : Type) := K × Nat × V

def itemOf (s : SrcCol K V) (k : K) : Option (Item K V) := (s.cell k).map (fun c => (k, c.2, c.1))

/-- The walk of the code before fix F10: only `tables.index`, chunk by chunk. -/
def iterIndex (s : SrcCol K V) : List (Item K V) := s.top.filterMap (itemOf s)

/-- First occurrences, in order. -/
def dedup : List K → List K
  | [] => []
  | k :: ks => k :: (dedup ks).filter (fun x => decide (x ≠ k))

/-- The walk after fix F10: queued older tables oldest first, then the newest table; an entry
is reported from the oldest table that holds it. -/
def iterIndexAll (s : SrcCol K V) : List (Item K V) :=
  (dedup (s.older.flatten ++ s.top)).filterMap (itemOf s)

/-- Fixed loop body: `rc` times `Set(key, value)`. -/
def setsOf (e : Item K V) : List (Op K V) := List.replicate e.2.1 (.set e.1 e.2.2)

/-- Loop body before fix F6: `std::mem::take(&mut value)` inside the loop, so the first Set
carries the value and every later one the empty value. -/
def setsOfBuggy (empty : V) (e : Item K V) : List (Op K V) :=
  match e.2.1 with
  | 0 => []
  | n + 1 => .set e.1 e.2.2 :: List.replicate n (.set e.1 empty)

/-- `nb_commit += 1; if nb_commit == COMMIT_SIZE { commit_raw(take(commit)); nb_commit = 0 }`,
and the final `dest.commit_raw(commit)` (possibly empty). -/
def batch {α : Type} (size : Nat) : List α → List α → Nat → List (List α)
  | [], cur, _ => [cur]
  | x :: xs, cur, nb =>
    if nb + 1 = size then (cur ++ [x]) :: batch size xs [] 0
    else batch size xs (cur ++ [x]) (nb + 1)

def commitsOf (ops : List (Op K V)) : List (List (Op K V)) := batch COMMIT_SIZE ops [] 0

/-- Destination column after migrating with a given walk and loop body into a fresh column of
kind `dstKind`: the specification of the committed transactions (C01 / C07). -/
def migrateWith (walk : List (Item K V)) (sets : Item K V → List (Op K V)) (dstKind : Kind) :
    Tbl K V :=
  spec (fun _ => dstKind) (commitsOf (walk.flatMap sets))

/-- After fixes F6 and F10. -/
def migrateCol (dstKind : Kind) (s : SrcCol K V) : Tbl K V :=
  migrateWith (iterIndexAll s) setsOf dstKind

/-- After fix F6 only (walk of the newest table). -/
def migrateColTopOnly (dstKind : Kind) (s : SrcCol K V) : Tbl K V :=
  migrateWith (iterIndex s) setsOf dstKind

/-- The code before the fixes. -/
def migrateColBuggy (empty : V) (dstKind : Kind) (s : SrcCol K V) : Tbl K V :=
  migrateWith (iterIndex s) (setsOfBuggy empty) dstKind

/-! Executable form (association list, newest binding first).  `Pdb.applyOp` stacks closures
whose lookups re-evaluate the older table twice per layer (exponential when compiled); the
driver runs this form instead, `migrateExec_get` (Proofs/C20.lean) proves it equal. -/

def alGet (al : List (K × Cell V)) (k : K) : Cell V :=
  match al.find? (fun p => decide (p.1 = k)) with
  | some p => p.2
  | none => none

def alApplyOp (kd : Kind) (al : List (K × Cell V)) (op : Op K V) : List (K × Cell V) :=
  (op.key, applyCell kd op (alGet al op.key)) :: al

def migrateExec (walk : List (Item K V)) (sets : Item K V → List (Op K V)) (dstKind : Kind) :
    List (K × Cell V) :=
  (commitsOf (walk.flatMap sets)).flatten.foldl (alApplyOp dstKind) []

/-- What the destination is expected to hold for a source cell: the same value; the same count
on a reference-counted destination, count 1 otherwise. -/
def expectCell (dstKind : Kind) : Cell V → Cell V
  | none => none
  | some (v, n) => some (v, if dstKind = .rc then n else 1)

end

/-! ## column options, column selection, the whole database -/

/-- `ColumnOptions` (the fields that matter here). -/
structure ColOpts where
  preimage : Bool
  uniform : Bool
  refCounted : Bool
  compression : Nat
  btree : Bool
  multitree : Bool
  appendOnly : Bool
deriving DecidableEq, Repr

/-- `ColumnOptions::is_valid`: reference counting needs `preimage`. -/
def ColOpts.valid (o : ColOpts) : Bool := !o.refCounted || o.preimage

def ColOpts.kind (o : ColOpts) : Kind :=
  if o.refCounted then .rc else if o.preimage then .preimage else .plain

/-- Source and destination hash user keys alike: `migrate` copies the salt
(`to.salt = Some(source_meta.salt)`), so only the `uniform` flag can differ. -/
def SameHashing (o₁ o₂ : ColOpts) : Prop := o₁.uniform = o₂.uniform

inductive Plan where
  | ok (selected : List Nat)
  | errMigration
  | panic          -- `source_options.columns[c]` with a forced column id out of range
deriving DecidableEq, Repr

/-- `btree_index || multitree` of a column: what `migrate` cannot re-populate (only the indexed
values of a hash column are re-committed; the nodes of a multitree column and their reference
counts are not reachable through the index walk). -/
def ColOpts.notMigratable (o : ColOpts) : Bool := o.btree || o.multitree

/-- Column selection of `migrate`: forced columns, plus every column whose options differ;
refusal when the column counts differ or a selected column is btree-indexed or multitree on
either side (the multitree refusal is fix-c20-multitree-selected.diff; before it such a column
was "migrated" by re-committing its root values only). -/
def plan (src dst : List ColOpts) (force : List Nat) : Plan :=
  if src.length ≠ dst.length then .errMigration
  else if force.any (fun c => decide (src.length ≤ c)) then .panic
  else
    let sel := (List.range src.length).filter
      (fun c => decide (c ∈ force) || decide (src[c]? ≠ dst[c]?))
    if sel.any (fun c => ((src[c]?.map (·.notMigratable)).getD false) ||
        ((dst[c]?.map (·.notMigratable)).getD false))
    then .errMigration else .ok sel

section
variable {K V : Type} [DecidableEq K]

/-- A database: options and physical state per column (for a btree column the state is opaque
to `migrate`). -/
abbrev DbSt (K V : Type) := List (ColOpts × SrcCol K V)

/-- The freshly populated destination column: every entry sits in the newest index table. -/
def populated (o : ColOpts) (s : SrcCol K V) : SrcCol K V :=
  { top := (iterIndexAll s).map (·.1), older := [], cell := migrateCol o.kind s }

def emptyCol : SrcCol K V := { top := [], older := [], cell := fun _ => none }

/-- Column by column, starting at column id `c`: re-populated if selected, else as it was. -/
def migrateCols (sel : List Nat) : Nat → DbSt K V → List ColOpts → DbSt K V
  | _, [], _ => []
  | _, _, [] => []
  | c, so :: src, o :: dst =>
    (if c ∈ sel then (o, populated o so.2) else so) :: migrateCols sel (c + 1) src dst

inductive Outcome (K V : Type) where
  | ok (dest : DbSt K V) (source : DbSt K V)
  | errMigration
  | panic

/-- `migrate(from, to, overwrite, force)`.  Without overwrite the destination directory gets
the selected columns re-populated and every other column as a file copy (`copy_column`);
with overwrite each re-populated column is moved over the source column (`move_column`) and
the source metadata is rewritten, the directory named in `to` keeps empty columns. -/
def migrateDb (src : DbSt K V) (dst : List ColOpts) (overwrite : Bool) (force : List Nat) :
    Outcome K V :=
  match plan (src.map (·.1)) dst force with
  | .errMigration => .errMigration
  | .panic => .panic
  | .ok sel =>
    let migrated : DbSt K V := migrateCols sel 0 src dst
    if overwrite then
      .ok (dst.map (fun o => (o, emptyCol))) migrated
    else
      .ok migrated src

/-- The database that holds the result. -/
def Outcome.result : Outcome K V → Bool → Option (DbSt K V)
  | .ok dest source, overwrite => some (if overwrite then source else dest)
  | _, _ => none

end

/-! ## (b') the physical walk: `iter_index_tables` / `iter_index_table` -/

section
variable {P A T V : Type} [DecidableEq P] [DecidableEq A] [DecidableEq T]

/-- An index entry as the walk sees it: the key bits it shows (`recover_key_prefix`: page number
and partial key, 50 bits for every index size, `C20_visible_bits`) and the value address. -/
abbrev PEntry (P A : Type) := P × A

/-- Physical state of a hash column. -/
structure PhysCol (P A T V : Type) where
  /-- the index tables, OLDEST first: `reindex.queue` front to back, then `tables.index`;
  each with its non-empty entries in walk order (chunk by chunk, slot by slot) -/
  tables : List (List (PEntry P A))
  /-- the value slot at an address: stored key tail, value, reference count; `none` = no live
  value there (`get_with_meta` returns `Ok(None)`) -/
  slot : A → Option (T × V × Nat)

/-- `for table in older { if contains_partial_key_with_address(&key_prefix, address, table) { reported = true; break } }` -/
def reportedBy (older : List (List (PEntry P A))) (e : PEntry P A) : Bool :=
  older.any (fun t => t.any (fun x => decide (x = e)))

/-- The entries of table `t` that `iter_index_table(tables, t, older, ..)` reports. -/
def reportedOf (older : List (List (PEntry P A))) (t : List (PEntry P A)) : List (PEntry P A) :=
  t.filter (fun e => !reportedBy older e)

/-- `for (n, source) in sources.iter().enumerate() { iter_index_table(.., source, &sources[..n], ..) }`:
first argument = the tables already walked (`&sources[..n]`). -/
def walkEntries : List (List (PEntry P A)) → List (List (PEntry P A)) → List (PEntry P A)
  | _, [] => []
  | older, t :: ts => reportedOf older t ++ walkEntries (older ++ [t]) ts

/-- `IterState { key, rc, value }` of a reported entry: `key = recover_key_prefix(..)` with
bytes 6.. overwritten by the tail stored in the addressed slot. -/
def PhysCol.itemAt (p : PhysCol P A T V) (e : PEntry P A) : Option (Item (P × T) V) :=
  (p.slot e.2).map (fun s => ((e.1, s.1), s.2.2, s.2.1))

/-- No reported entry hits `IterStateOrCorrupted::Corrupted` (`iter_index` turns that into
`Err(Corruption("Missing indexed value"))`). -/
def walkOk (p : PhysCol P A T V) : Bool :=
  (walkEntries [] p.tables).all (fun e => (p.slot e.2).isSome)

def walkItems (p : PhysCol P A T V) : List (Item (P × T) V) :=
  (walkEntries [] p.tables).filterMap p.itemAt

/-- `HashColumn::iter_index`: `none` = `Err(Corruption)`. -/
def walkPhys (p : PhysCol P A T V) : Option (List (Item (P × T) V)) :=
  if walkOk p then some (walkItems p) else none

/-- Search order of `search_all_indexes`: the newest table, then the queue front to back. -/
def PhysCol.searchOrder (p : PhysCol P A T V) : List (PEntry P A) :=
  (p.tables.getLast?.getD []) ++ p.tables.dropLast.flatten

/-- `search_index`: the entry shows the key's bits and `has_key_at(address, key)` holds (the
stored tail is the key's tail). -/
def PhysCol.hit (p : PhysCol P A T V) (k : P × T) (e : PEntry P A) : Bool :=
  decide (e.1 = k.1) && ((p.slot e.2).map (fun s => decide (s.1 = k.2))).getD false

/-- What `HashColumn::get` returns for a hashed key `(shown bits, tail)`. -/
def PhysCol.content (p : PhysCol P A T V) : Tbl (P × T) V := fun k =>
  ((p.searchOrder.find? (p.hit k)).bind (fun e => p.slot e.2)).map (fun s => (s.2.1, s.2.2))

/-- The hypotheses under which the walk is exact.
  * `inj`: one live slot per key tail = `IdxInv.inj` of C09 (Proofs/C09Inv.lean; preserved by
    every operation: `C09_index_inv_preserved`; it rests on assumption A-tail).
  * `nodup`, `live`: NOT part of C09's `IdxInv` (which only says that every live slot is
    reachable from some table and admits stale entries).  `live` is in fact FALSE in reachable
    states of the crate: an entry that a reindex batch copied into the newest table stays in
    the queued older table, and when the key is removed afterwards (or its value moves) the
    older table keeps an entry that addresses a freed or re-used slot (harness scenario
    `stale`, `C20_walk_stale_witness`).
  * `count_ok`: stored counts are positive and not the saturated value (as `SrcCol.WF`). -/
structure PhysCol.Inv (p : PhysCol P A T V) : Prop where
  inj : ∀ a1 a2 s1 s2, p.slot a1 = some s1 → p.slot a2 = some s2 → s1.1 = s2.1 → a1 = a2
  nodup : ∀ t ∈ p.tables, t.Nodup
  live : ∀ t ∈ p.tables, ∀ e ∈ t, (p.slot e.2).isSome = true
  count_ok : ∀ a s, p.slot a = some s → 1 ≤ s.2.2 ∧ s.2.2 < LOCKED

end

/-! ## (d) directory level: `copy_column` / `move_column` / `deplace_column` -/

section
open Pdb.C17

/-- `<m₁>::..::is_file_name(col, name) || <m₂>::..::is_file_name(col, name) || ..` for a chain
of module names (`C17.isColumnFile` is this for the chain of `Column::drop_files`). -/
def isFileOf (tests : List Text) (col : Nat) (name : FileName) : Bool :=
  tests.any fun module =>
    match FileKind.ofModule module with
    | some k => (filePrefix k col).isPrefixOf name
    | none => false

/-- The test in `deplace_column` (generated chain). -/
def isDeplacedFile (col : Nat) (name : FileName) : Bool :=
  isFileOf Gen.Text.deplaceColumnTests col name

variable {β : Type}

/-- `deplace_column(c, from, to, copy)` for a given chain of tests: every matching file of
`from` is copied (`std::fs::copy`) or renamed (`std::fs::rename`) into `to` under the same
name.  Returns `(from', to')`. -/
def deplaceWith (tests : List Text) (c : Nat) (copy : Bool) (frm to : Dir β) : Dir β × Dir β :=
  (fun n => if isFileOf tests c n && !copy then none else frm n,
   fun n => if isFileOf tests c n then (frm n).or (to n) else to n)

/-- `copy_column(c, from, to)`: the destination directory afterwards. -/
def copyColumn (c : Nat) (frm to : Dir β) : Dir β :=
  (deplaceWith Gen.Text.deplaceColumnTests c true frm to).2

/-- `move_column(c, from, to)`: `(from', to')`. -/
def moveColumn (c : Nat) (frm to : Dir β) : Dir β × Dir β :=
  deplaceWith Gen.Text.deplaceColumnTests c false frm to

/-- What the database handles opened by `migrate` do to the two directories, abstract. -/
structure DbEffects (β : Type) where
  /-- `Db::open_or_create(&to)` .. `drop(dest)` with nothing committed (creates the directory,
  `metadata`, `lock`; replays nothing) -/
  openDest : Dir β → Dir β
  /-- the destination handle while column `c` is re-populated: `commit_raw`*, `drop(dest)` -/
  populate : Nat → Dir β → Dir β
  /-- `Db::open(&source_options)` .. `drop(source)` on the source directory -/
  openSource : Dir β → Dir β
  /-- `source_options.write_metadata(from, ..)` after column `c` was moved (overwrite) -/
  writeMeta : Nat → Dir β → Dir β

/-- Frame conditions: a handle that commits nothing creates, deletes and changes no column
file; re-populating column `c'` touches no file of another column; `write_metadata` writes
`metadata` only.  ("file of column c" = the test of `Column::drop_files`.)  Assumptions of the
directory-level theorems: the source was closed cleanly with no reindex pending (an open
source handle continues a pending reindex in the background). -/
structure DbEffects.Frame (fx : DbEffects β) : Prop where
  openDest_col : ∀ d c n, isColumnFile c n = true → fx.openDest d n = d n
  populate_other : ∀ c' d c n, isColumnFile c n = true → c ≠ c' → fx.populate c' d n = d n
  openSource_col : ∀ d c n, isColumnFile c n = true → fx.openSource d n = d n
  writeMeta_col : ∀ c' d c n, isColumnFile c n = true → fx.writeMeta c' d n = d n

/-- The handles that do nothing (used by the driver and in examples). -/
def DbEffects.id : DbEffects β := ⟨fun d => d, fun _ d => d, fun d => d, fun _ d => d⟩

/-- One round of the column loop of `migrate` on `(source directory, destination directory)`:
  * unselected, no overwrite: `drop(dest); copy_column(c, from, &to.path); dest = open_or_create(&to)`
  * unselected, overwrite: `continue`
  * selected: the column is re-populated in the destination directory; with overwrite then
    `move_column(c, from, tmp); move_column(c, &to.path, from); write_metadata; remove tmp;`
    both handles are reopened. -/
def stepCol (tests : List Text) (fx : DbEffects β) (overwrite : Bool) (sel : List Nat) (c : Nat)
    (st : Dir β × Dir β) : Dir β × Dir β :=
  if c ∈ sel then
    let dst1 := fx.populate c st.2
    if overwrite then
      let src1 := (deplaceWith tests c false st.1 Dir.empty).1
      let mv := deplaceWith tests c false dst1 src1
      (fx.openSource (fx.writeMeta c mv.2), fx.openDest mv.1)
    else (st.1, dst1)
  else if overwrite then st
  else (st.1, fx.openDest (deplaceWith tests c true st.1 st.2).2)

/-- The file-level skeleton of `migrate` for a plan that was accepted with selection `sel`:
both handles are opened, then the column loop runs.  Returns `(source, destination)`. -/
def migrateFsWith (tests : List Text) (fx : DbEffects β) (overwrite : Bool) (sel : List Nat)
    (ncols : Nat) (src dst : Dir β) : Dir β × Dir β :=
  (List.range ncols).foldl (fun st c => stepCol tests fx overwrite sel c st)
    (fx.openSource src, fx.openDest dst)

/-- ... with the chain of tests `deplace_column` really uses. -/
def migrateFs (fx : DbEffects β) (overwrite : Bool) (sel : List Nat) (ncols : Nat)
    (src dst : Dir β) : Dir β × Dir β :=
  migrateFsWith Gen.Text.deplaceColumnTests fx overwrite sel ncols src dst

/-- The directory that holds the result. -/
def resultDir (overwrite : Bool) (r : Dir β × Dir β) : Dir β := if overwrite then r.1 else r.2

end

/-! ## driver -/

def hexDigit (d : Nat) : Char :=
  if d < 10 then Char.ofNat (48 + d) else Char.ofNat (87 + d)

def hexOf (bs : List Nat) : String :=
  if bs.isEmpty then "-" else String.ofList (bs.flatMap (fun b => [hexDigit (b / 16 % 16), hexDigit (b % 16)]))

def hexVal (c : Char) : Option Nat :=
  if '0' ≤ c ∧ c ≤ '9' then some (c.toNat - 48)
  else if 'a' ≤ c ∧ c ≤ 'f' then some (c.toNat - 87)
  else none

def unhexChars : List Char → Option (List Nat)
  | [] => some []
  | [_] => none
  | a :: b :: rest =>
    match hexVal a, hexVal b, unhexChars rest with
    | some x, some y, some r => some ((x * 16 + y) :: r)
    | _, _, _ => none

def unhex (s : String) : Option (List Nat) := if s = "-" then some [] else unhexChars s.toList

def parseKind : String → Option Kind
  | "plain" => some .plain
  | "preimage" => some .preimage
  | "rc" => some .rc
  | _ => none

def mkCol (k u c b : String) (mt ao : Bool) : Option ColOpts :=
  match parseKind k, (c.drop 1).toString.toNat? with
  | some kd, some cn =>
    some { preimage := kd ≠ .plain, refCounted := kd = .rc, uniform := u = "u1",
           compression := cn, btree := b = "b1", multitree := mt, appendOnly := ao }
  | _, _ => none

/-- `<kind>:u<0|1>:c<n>:b<0|1>[:m<0|1>:a<0|1>]` -/
def parseCol (w : String) : Option ColOpts :=
  match w.splitOn ":" with
  | [k, u, c, b] => mkCol k u c b false false
  | [k, u, c, b, m, a] => mkCol k u c b (m = "m1") (a = "a1")
  | _ => none

def parseTriples : Nat → List String → Option (List (String × String × Nat) × List String)
  | 0, rest => some ([], rest)
  | n + 1, k :: v :: rc :: rest =>
    match rc.toNat?, parseTriples n rest with
    | some r, some (ts, rest') => some ((k, v, r) :: ts, rest')
    | _, _ => none
  | _ + 1, _ => none

def lookupTriple (ts : List (String × String × Nat)) (k : String) : Cell String :=
  match ts.find? (fun t => t.1 = k) with
  | some t => some (t.2.1, t.2.2)
  | none => none

def insertSorted (k : String) : List String → List String
  | [] => [k]
  | x :: xs => if k < x then k :: x :: xs else if k = x then x :: xs else x :: insertSorted k xs

def renderTbl (keys : List String) (t : String → Cell String) : String :=
  let sorted := keys.foldl (fun acc k => insertSorted k acc) []
  let parts := sorted.filterMap (fun k => (t k).map (fun c => k ++ "=" ++ c.1 ++ "*" ++ toString c.2))
  if parts.isEmpty then "-" else " ".intercalate parts

def migrateLine (buggy : Bool) (args : List String) : String :=
  match args with
  | sk :: dk :: n :: rest =>
    match parseKind sk, parseKind dk, n.toNat? with
    | some _, some dkind, some n =>
      match parseTriples n rest with
      | some (tops, rest') =>
        let olders : Option (List (String × String × Nat)) :=
          match rest' with
          | [] => some []
          | "older" :: m :: more =>
            match m.toNat? with
            | some m =>
              match parseTriples m more with
              | some (os, []) => some os
              | _ => none
            | none => none
          | _ => none
        match olders with
        | some os =>
          let all := tops ++ os
          let s : SrcCol String String :=
            { top := tops.map (·.1), older := if os.isEmpty then [] else [os.map (·.1)],
              cell := lookupTriple all }
          -- = migrateColBuggy "v0_0" dkind s / migrateCol dkind s  (migrateExec_get)
          let al := if buggy then migrateExec (iterIndex s) (setsOfBuggy "v0_0") dkind
                    else migrateExec (iterIndexAll s) setsOf dkind
          renderTbl (all.map (·.1)) (alGet al)
        | none => "bad-op"
      | none => "bad-op"
    | _, _, _ => "bad-op"
  | _ => "bad-op"

def parseCols : Nat → List String → Option (List ColOpts × List String)
  | 0, rest => some ([], rest)
  | n + 1, w :: rest =>
    match parseCol w, parseCols n rest with
    | some c, some (cs, rest') => some (c :: cs, rest')
    | _, _ => none
  | _ + 1, [] => none

def planLine (args : List String) : String :=
  match args with
  | _ow :: n :: rest =>
    match n.toNat? with
    | some n =>
      match parseCols n rest with
      | some (src, m :: rest') =>
        match m.toNat? with
        | some m =>
          match parseCols m rest' with
          | some (dst, [f]) =>
            let force := if f = "-" then some [] else (f.splitOn ",").mapM (·.toNat?)
            match force with
            | some force =>
              match plan src dst force with
              | .ok _ => "ok"
              | .errMigration => "err:Migration"
              | .panic => "panic"
            | none => "bad-op"
          | _ => "bad-op"
        | none => "bad-op"
      | _ => "bad-op"
    | none => "bad-op"
  | _ => "bad-op"

/-! `c20 walk`: the refined walk on raw index tables. -/

/-- One raw entry with the content of the slot it addresses. -/
abbrev RawEntry := Nat × Nat × Option (String × String × Nat)

def parseRawEntries : Nat → List String → Option (List RawEntry × List String)
  | 0, rest => some ([], rest)
  | n + 1, chunk :: entry :: tail :: val :: rc :: rest =>
    match chunk.toNat?, entry.toNat?, rc.toNat?, parseRawEntries n rest with
    | some c, some e, some r, some (es, rest') =>
      some ((c, e, if tail = "-" then none else some (tail, val, r)) :: es, rest')
    | _, _, _, _ => none
  | _ + 1, _ => none

def parseRawTables : Nat → List String → Option (List (Nat × List RawEntry) × List String)
  | 0, rest => some ([], rest)
  | t + 1, ib :: n :: rest =>
    match ib.toNat?, n.toNat? with
    | some ib, some n =>
      match parseRawEntries n rest with
      | some (es, rest') =>
        match parseRawTables t rest' with
        | some (ts, rest'') => some ((ib, es) :: ts, rest'')
        | none => none
      | none => none
    | _, _ => none
  | _ + 1, _ => none

/-- The physical column of a dump: an entry shows `recover_index_key` (the 50 key bits of
`recover_key_prefix`, as a u64) and `Entry::address`; the slots are what the entries address. -/
def physOfRaw (ts : List (Nat × List RawEntry)) : PhysCol Nat Nat String String :=
  let slots : List (Nat × (String × String × Nat)) :=
    ts.flatMap fun t => t.2.filterMap fun e => e.2.2.map fun s => (Entry.address e.2.1 t.1, s)
  { tables := ts.map fun t => t.2.map fun e => (recover_index_key t.1 e.1 e.2.1, Entry.address e.2.1 t.1),
    slot := fun a => (slots.find? (fun x => x.1 == a)).map (·.2) }

/-- Hex of the key `iter_index_table` reports: 6 bytes of the recovered prefix, then the tail. -/
def physKeyStr (k : Nat × String) : String :=
  hexOf ((beBytes8 k.1).take TAIL_START) ++ k.2

def walkLine (args : List String) : String :=
  match args with
  | sk :: dk :: t :: rest =>
    match parseKind sk, parseKind dk, t.toNat? with
    | some _, some dkind, some t =>
      match parseRawTables t rest with
      | some (ts, []) =>
        match walkPhys (physOfRaw ts) with
        | none => "err:Corruption"
        | some items =>
          let sitems : List (Item String String) := items.map fun e => (physKeyStr e.1, e.2.1, e.2.2)
          renderTbl (sitems.map (·.1)) (alGet (migrateExec sitems setsOf dkind))
      | _ => "bad-op"
    | _, _, _ => "bad-op"
  | _ => "bad-op"

/-! `c20 files`: the directory-level skeleton on the file names of a source directory. -/

def filesLine (args : List String) : String :=
  match args with
  | [ow, n, sel, names] =>
    let selL := if sel = "-" then some [] else (sel.splitOn ",").mapM (·.toNat?)
    match n.toNat?, selL with
    | some ncols, some selL =>
      let overwrite := ow = "1"
      let ns : List String := if names = "-" then [] else names.splitOn ","
      let src : C17.Dir Unit := C17.Dir.ofList (ns.map fun x => (x.toList, C17.Content.data ()))
      let res := resultDir overwrite (migrateFs DbEffects.id overwrite selL ncols src C17.Dir.empty)
      let out := ns.filter fun x => (res x.toList).isSome &&
        (List.range ncols).any fun c => !(selL.contains c) && C17.isColumnFile c x.toList
      if out.isEmpty then "-" else ",".intercalate out
    | _, _ => "bad-op"
  | _ => "bad-op"

def driverLine (args : List String) : String :=
  match args with
  | ["recover", ib, chunk, entry, tail] =>
    match ib.toNat?, chunk.toNat?, entry.toNat?, unhex tail with
    | some ib, some chunk, some entry, some tail =>
      if tail.length = PARTIAL_SIZE then hexOf (recoverKey ib chunk entry tail) else "panic"
    | _, _, _, _ => "bad-op"
  | ["prefix", ib, chunk, entry] =>
    match ib.toNat?, chunk.toNat?, entry.toNat? with
    | some ib, some chunk, some entry => hexOf (recoverKeyPrefix ib chunk entry)
    | _, _, _ => "bad-op"
  | "migrate" :: rest => migrateLine false rest
  | "migratebuggy" :: rest => migrateLine true rest
  | "plan" :: rest => planLine rest
  | "walk" :: rest => walkLine rest
  | "files" :: rest => filesLine rest
  | _ => "bad-op"

end Pdb.Migrate
