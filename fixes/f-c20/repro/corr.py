#!/usr/bin/env python3
"""Replays a pdbverif run through pdbdriver exactly as /verif/check's `correspondence` does."""
import sys, os, subprocess, time
BIN = os.environ.get("PDBVERIF", "/dev/shm/f-c20/target/release/pdbverif")
DRIVER = "/dev/shm/f-c20/lean/.lake/build/bin/pdbdriver"


def parse_trace(path):
    cases, stats = [], {}
    cur = {"desc": "preamble", "ops": [], "oracle": [], "known": [], "nontrivial": False}
    for line in open(path, errors="replace"):
        line = line.rstrip("\n")
        if line.startswith("#CASE "):
            if cur["ops"] or cur["oracle"] or cur["known"] or cur["desc"] != "preamble":
                cases.append(cur)
            cur = {"desc": line[6:], "ops": [], "oracle": [], "known": [], "nontrivial": False}
        elif line.startswith("#CASEEND"):
            cur["nontrivial"] = "nontrivial=1" in line
        elif line.startswith("#STAT "):
            _, k, v = line.split(" ", 2)
            stats[k] = v
        elif line.startswith("!ORACLE "):
            cur["oracle"].append(line[8:])
        elif line.startswith("!KNOWN "):
            cur["known"].append(line[7:])
        elif line.startswith("#"):
            continue
        elif "\t" in line:
            op, obs = line.split("\t", 1)
            cur["ops"].append((op, obs))
    if cur["ops"] or cur["oracle"] or cur["known"] or cur["desc"] != "preamble":
        cases.append(cur)
    return cases, stats


def main():
    args = sys.argv[1:]
    show_stats = "--stats" in args
    args = [a for a in args if a != "--stats"]
    trace = "/dev/shm/f-c20/trace_%d.txt" % os.getpid()
    cmd = [BIN] + args + ["--out", trace]
    t0 = time.time()
    p = subprocess.run(cmd, stdout=subprocess.PIPE, stderr=subprocess.STDOUT, timeout=900)
    dt = time.time() - t0
    print("harness rc=%d %.1fs" % (p.returncode, dt))
    if p.returncode not in (0, 1):
        print(p.stdout.decode()[-1500:])
    cases, stats = parse_trace(trace)
    os.remove(trace)
    ops = [o for c in cases for o, _ in c["ops"]]
    t0 = time.time()
    d = subprocess.run([DRIVER], input=("\n".join(ops) + "\n").encode(), stdout=subprocess.PIPE, stderr=subprocess.PIPE, timeout=900)
    outs = d.stdout.decode("utf-8", "replace").split("\n")
    print("driver %.1fs, %d ops" % (time.time() - t0, len(ops)))
    i, dis, orc, nontriv = 0, 0, 0, 0
    for c in cases:
        first = None
        for op, obs in c["ops"]:
            got = outs[i] if i < len(outs) else "<driver-eof>"
            i += 1
            if got.strip() != obs.strip() and first is None:
                first = (op, obs, got)
        if first:
            dis += 1
            print("DISAGREE", c["desc"][:200], "\n   op:", first[0][:300], "\n   impl:", first[1][:300], "\n   model:", first[2][:300])
        for o in c["oracle"]:
            orc += 1
            print("ORACLE", c["desc"][:200], "\n   ", o[:600])
        nontriv += c["nontrivial"]
    print("cases=%d nontrivial=%d disagreements=%d oracle_failures=%d" % (len(cases), nontriv, dis, orc))
    if show_stats:
        for k in sorted(stats):
            print("  ", k, stats[k])


main()
