use parity_db::{ColumnOptions, CompressionType, Db, NewNode, NodeRef, Operation, Options};
use std::path::Path;

fn opts(path: &Path, comp0: CompressionType, mt_append: bool, mt_rc: bool) -> Options {
	let mut o = Options::with_columns(path, 2);
	o.columns[0].compression = comp0;
	o.columns[1] = ColumnOptions {
		preimage: mt_rc,
		uniform: false,
		ref_counted: mt_rc,
		compression: CompressionType::NoCompression,
		btree_index: false,
		multitree: true,
		append_only: mt_append,
		allow_direct_node_access: true,
	};
	o.with_background_thread = false;
	o.always_flush = true;
	o.stats = false;
	o
}

fn drain(db: &Db) {
	for _ in 0..3 {
		db.process_commits().unwrap();
	}
	db.flush_logs().unwrap();
	db.enact_logs().unwrap();
	db.clean_logs().unwrap();
}

fn files(p: &Path) -> Vec<String> {
	let mut v: Vec<String> = std::fs::read_dir(p).unwrap().map(|e| e.unwrap().file_name().to_string_lossy().to_string()).collect();
	v.sort();
	v
}

fn copy_dir(a: &Path, b: &Path) {
	std::fs::create_dir_all(b).unwrap();
	for e in std::fs::read_dir(a).unwrap() {
		let e = e.unwrap();
		std::fs::copy(e.path(), b.join(e.file_name())).unwrap();
	}
}

fn main() {
	let args: Vec<String> = std::env::args().collect();
	let force: Vec<u8> = if args.len() > 1 && args[1] != "-" { args[1].split(',').map(|x| x.parse().unwrap()).collect() } else { vec![] };
	let overwrite = args.len() > 2 && args[2] == "ow";
	let root = Path::new("/dev/shm/f-c20/probe-db");
	let _ = std::fs::remove_dir_all(root);
	let src = root.join("src");
	let dst = root.join("dst");
	let cp = root.join("cp");
	let so = opts(&src, CompressionType::NoCompression, false, false);
	let x_addr;
	{
		let db = Db::open_or_create(&so).unwrap();
		db.commit_changes(vec![(0u8, Operation::Set(b"k".to_vec(), b"v".to_vec()))]).unwrap();
		let a = NewNode { data: b"rootA".to_vec(), children: vec![NodeRef::New(NewNode { data: b"X".to_vec(), children: vec![] })] };
		db.commit_changes(vec![(1u8, Operation::InsertTree(b"A".to_vec(), a))]).unwrap();
		drain(&db);
		let (_, ch) = db.get_root(1, b"A").unwrap().unwrap();
		x_addr = ch[0];
		let b = NewNode { data: b"rootB".to_vec(), children: vec![NodeRef::Existing(x_addr)] };
		db.commit_changes(vec![(1u8, Operation::InsertTree(b"B".to_vec(), b))]).unwrap();
		drain(&db);
		println!("source entries col1 = {:?}", db.get_num_column_value_entries(1));
		println!("dump: {:?}", db.verif_multitree_dump(1).unwrap().map(|d| (d.roots.len(), d.nodes.len(), d.ref_count_tables)));
	}
	println!("src files {:?}", files(&src));
	copy_dir(&src, &cp);
	let to = opts(&dst, CompressionType::Lz4, false, false);
	let r = std::panic::catch_unwind(|| parity_db::migrate(&src, to, overwrite, &force));
	println!("migrate -> {:?}", r);
	println!("src files {:?}", files(&src));
	if dst.exists() { println!("dst files {:?}", files(&dst)); }
	let res = if overwrite { src.clone() } else { dst.clone() };
	for (name, dir) in [("result", res), ("plain copy", cp)] {
		let mut o = opts(&dir, if name == "result" { CompressionType::Lz4 } else { CompressionType::NoCompression }, false, false);
		o.path = dir.clone();
		let db = match Db::open(&o) { Ok(d) => d, Err(e) => { println!("{}: open {:?}", name, e); continue } };
		println!("{}: col0 k = {:?}", name, db.get(0, b"k"));
		println!("{}: root A = {:?} root B = {:?} X = {:?}", name, db.get_root(1, b"A"), db.get_root(1, b"B"), db.get_node(1, x_addr));
		println!("{}: entries = {:?}", name, db.get_num_column_value_entries(1));
		println!("{}: dump {:?}", name, db.verif_multitree_dump(1).map(|d| d.map(|d| (d.roots.len(), d.nodes.len(), d.ref_count_tables))));
		let r = db.commit_changes(vec![(1u8, Operation::DereferenceTree(b"A".to_vec()))]);
		println!("{}: deref A -> {:?}", name, r);
		drain(&db);
		drop(db);
		let db = Db::open(&o).unwrap();
		println!("{}: after deref A + reopen: root B = {:?} X = {:?} entries = {:?}", name, db.get_root(1, b"B"), db.get_node(1, x_addr), db.get_num_column_value_entries(1));
	}
}
