/-
Pins of the storage-layer skeletons: the COMPLETE generated term (`<fn>_conds`, `<fn>_ctx`, `<fn>_stmts`, `<fn>_body`) of
every function listed in tools/rs2lean_storage.py, as printed by `python3 tools/rs2lean_storage.py --pins` for the pinned
source tree.  Any change of a pinned header, of the nesting of a marker, or of a pinned statement breaks the `decide` of
the theorem named after the function (`OrdS.ctx_<fn>` ..); after an INTENDED change of the Rust, review the new output of
`--pins <fn>` and paste it here.  The obligations with a meaning of their own are in Pdb/Proofs/OrderStorage.lean; this
file is the safety net below them (kept apart so that the two files build in parallel).
-/
import Pdb.Gen.Storage

namespace Pdb.OrdS
open Pdb.Gen.Storage Marker

set_option maxRecDepth 16384

theorem conds_colGet :
    colGet_conds =
      [(ifHit, [["let Some((tier,rc,value))=self.get_in_index(key,&tables.index,values,log)?"]]),
       (forQueue, [["entry in&reindex.queue"]]),
       (ifQueuedIndex, [["let ReindexEntry::Index(r)=entry"]]),
       (ifHit, [["let Some((tier,rc,value))=self.get_in_index(key,r,values,log)?"]])] := by decide
theorem ctx_colGet :
    colGet_ctx =
      [([returnHit],
        ["if let Some((tier,rc,value))=self.get_in_index(key,&tables.index,values,log)?"]),
       ([ifQueuedIndex],
        ["for entry in&reindex.queue"]),
       ([ifHit, getInIndexQueued],
        ["for entry in&reindex.queue",
         "if let ReindexEntry::Index(r)=entry"]),
       ([returnHit],
        ["for entry in&reindex.queue",
         "if let ReindexEntry::Index(r)=entry",
         "if let Some((tier,rc,value))=self.get_in_index(key,r,values,log)?"])] := by decide
theorem exits_colGet :
    colGet_exits =
      [("return Ok(Some((value,rc)))",
        ["if let Some((tier,rc,value))=self.get_in_index(key,&tables.index,values,log)?"]),
       ("return Ok(Some((value,rc)))",
        ["for entry in&reindex.queue",
         "if let ReindexEntry::Index(r)=entry",
         "if let Some((tier,rc,value))=self.get_in_index(key,r,values,log)?"])] := by decide
theorem stmts_colGet :
    colGet_stmts =
      [(returnHit, "return Ok(Some((value,rc)))"),
       (returnHit, "return Ok(Some((value,rc)))"),
       (returnNone, "Ok(None)")] := by decide
theorem conds_getInIndex :
    getInIndex_conds =
      [(whileEntry, [["!entry.is_empty()"]])] := by decide
theorem ctx_getInIndex :
    getInIndex_ctx =
      [([entryAddress, getValueCheckKey, matchValue],
        ["while!entry.is_empty()"]),
       ([returnFound],
        ["while!entry.is_empty()",
         "match value"]),
       ([indexGetNext, assignEntry, assignSub],
        ["while!entry.is_empty()",
         "match value",
         "None=>"])] := by decide
theorem exits_getInIndex :
    getInIndex_exits =
      [("return Ok(Some(result))",
        ["while!entry.is_empty()",
         "match value",
         "Some(result)=>"])] := by decide
theorem stmts_getInIndex :
    getInIndex_stmts =
      [(indexGetFirst, "let(mut entry,mut sub_index)=index.get(key,0,log)?"),
       (entryAddress, "let address=entry.address(index.id.index_bits())"),
       (indexGetNext, "let(next_entry,next_index)=index.get(key,sub_index+1,log)?")] := by decide
theorem conds_searchIndex :
    searchIndex_conds =
      [(whileEntry, [["!existing_entry.is_empty()"]]),
       (ifHasKey, [["tables.value[existing_tier as usize].has_key_at(existing_address.offset(),&table_key,log)?"]])] := by decide
theorem ctx_searchIndex :
    searchIndex_ctx =
      [([entryAddress, existingTier, tableKeyPartial, ifHasKey],
        ["while!existing_entry.is_empty()"]),
       ([returnFoundAt],
        ["while!existing_entry.is_empty()",
         "if tables.value[existing_tier as usize].has_key_at(existing_address.offset(),&table_key,log)?"]),
       ([indexGetNext, assignExistingEntry, assignSub],
        ["while!existing_entry.is_empty()"])] := by decide
theorem exits_searchIndex :
    searchIndex_exits =
      [("return Ok(Some((index,sub_index,existing_address)))",
        ["while!existing_entry.is_empty()",
         "if tables.value[existing_tier as usize].has_key_at(existing_address.offset(),&table_key,log)?"])] := by decide
theorem stmts_searchIndex :
    searchIndex_stmts =
      [(indexGetFirst, "let(mut existing_entry,mut sub_index)=index.get(key,0,log)?"),
       (entryAddress, "let existing_address=existing_entry.address(index.id.index_bits())"),
       (indexGetNext, "let(next_entry,next_index)=index.get(key,sub_index+1,log)?")] := by decide
theorem conds_searchAll :
    searchAll_conds =
      [(ifFoundCurrent, [["let Some(r)=Self::search_index(key,&tables.index,tables,log)?"]]),
       (forQueue, [["entry in&reindex.queue"]]),
       (ifQueuedIndex, [["let ReindexEntry::Index(index)=entry"]]),
       (ifFoundQueued, [["let Some(r)=Self::search_index(key,index,tables,log)?"]])] := by decide
theorem ctx_searchAll :
    searchAll_ctx =
      [([returnR],
        ["if let Some(r)=Self::search_index(key,&tables.index,tables,log)?"]),
       ([ifQueuedIndex],
        ["for entry in&reindex.queue"]),
       ([ifFoundQueued],
        ["for entry in&reindex.queue",
         "if let ReindexEntry::Index(index)=entry"]),
       ([returnR],
        ["for entry in&reindex.queue",
         "if let ReindexEntry::Index(index)=entry",
         "if let Some(r)=Self::search_index(key,index,tables,log)?"])] := by decide
theorem exits_searchAll :
    searchAll_exits =
      [("return Ok(Some(r))",
        ["if let Some(r)=Self::search_index(key,&tables.index,tables,log)?"]),
       ("return Ok(Some(r))",
        ["for entry in&reindex.queue",
         "if let ReindexEntry::Index(index)=entry",
         "if let Some(r)=Self::search_index(key,index,tables,log)?"])] := by decide
theorem conds_purgeQueued :
    purgeQueued_conds =
      [(forQueue, [["entry in&reindex.queue"]]),
       (ifQueuedIndex, [["let ReindexEntry::Index(index)=entry"]]),
       (whileEntry, [["!existing_entry.is_empty()"]]),
       (ifAddrEq, [["existing_entry.address(index.id.index_bits())==address"]])] := by decide
theorem ctx_purgeQueued :
    purgeQueued_ctx =
      [([ifQueuedIndex],
        ["for entry in&reindex.queue"]),
       ([indexGetFirst, whileEntry],
        ["for entry in&reindex.queue",
         "if let ReindexEntry::Index(index)=entry"]),
       ([ifAddrEq],
        ["for entry in&reindex.queue",
         "if let ReindexEntry::Index(index)=entry",
         "while!existing_entry.is_empty()"]),
       ([queuedRemovePlan],
        ["for entry in&reindex.queue",
         "if let ReindexEntry::Index(index)=entry",
         "while!existing_entry.is_empty()",
         "if existing_entry.address(index.id.index_bits())==address"]),
       ([advanceEntry],
        ["for entry in&reindex.queue",
         "if let ReindexEntry::Index(index)=entry",
         "while!existing_entry.is_empty()"])] := by decide
theorem exits_purgeQueued :
    purgeQueued_exits =
      [] := by decide
theorem stmts_purgeQueued :
    purgeQueued_stmts =
      [(indexGetFirst, "let(mut existing_entry,mut sub_index)=index.get(key,0,log)?")] := by decide
theorem conds_colWritePlan :
    colWritePlan_conds =
      [(ifExisting, [["let Some((table,sub_index,existing_address))=existing"]]),
       (ifPending, [["let Some(value_address)=pending"]]),
       (ifInserted, [["!matches!(tables.index.write_insert_plan(key,value_address,None,log)?,PlanOutcome::NeedReindex)"]])] := by decide
theorem ctx_colWritePlan :
    colWritePlan_ctx =
      [([callExisting, ifPending],
        ["if let Some((table,sub_index,existing_address))=existing"]),
       ([growLoop],
        ["if let Some((table,sub_index,existing_address))=existing",
         "if let Some(value_address)=pending"]),
       ([triggerReindex, ifInserted, insertPending],
        ["if let Some((table,sub_index,existing_address))=existing",
         "if let Some(value_address)=pending",
         "loop"]),
       ([breakLoop],
        ["if let Some((table,sub_index,existing_address))=existing",
         "if let Some(value_address)=pending",
         "loop",
         "if!matches!(tables.index.write_insert_plan(key,value_address,None,log)?,PlanOutcome::NeedReindex)"]),
       ([returnOutcome],
        ["if let Some((table,sub_index,existing_address))=existing"]),
       ([matchChange],
        ["if let Some((table,sub_index,existing_address))=existing{}else"]),
       ([callNew, returnNew],
        ["if let Some((table,sub_index,existing_address))=existing{}else",
         "match change",
         "Operation::Set(key,value)=>"]),
       ([returnSkipped],
        ["if let Some((table,sub_index,existing_address))=existing{}else",
         "match change",
         "Operation::Dereference(key)=>"]),
       ([returnSkipped],
        ["if let Some((table,sub_index,existing_address))=existing{}else",
         "match change",
         "Operation::Reference(key)=>"]),
       ([unsupportedOp],
        ["if let Some((table,sub_index,existing_address))=existing{}else",
         "match change",
         "Operation::InsertTree(..)|Operation::ReferenceTree(..)|Operation::DereferenceTree(..)=>"])] := by decide
theorem exits_colWritePlan :
    colWritePlan_exits =
      [("break",
        ["if let Some((table,sub_index,existing_address))=existing",
         "if let Some(value_address)=pending",
         "loop",
         "if!matches!(tables.index.write_insert_plan(key,value_address,None,log)?,PlanOutcome::NeedReindex)"])] := by decide
theorem stmts_colWritePlan :
    colWritePlan_stmts =
      [(searchAllCall, "let existing=Self::search_all_indexes(change.key(),&tables,&reindex,log)?"),
       (callExisting, "let(outcome,pending)=self.write_plan_existing(&tables,&reindex,change,log,table,sub_index,existing_address)?"),
       (callNew, "let(r,_,_)=self.write_plan_new(tables,reindex,key,value.as_ref(),log)?")] := by decide
theorem conds_writeExisting :
    writeExisting_conds =
      [(ifNotReplaced, [["replace.is_none()"], ["matches!(outcome,PlanOutcome::NeedReindex)"]])] := by decide
theorem ctx_writeExisting :
    writeExisting_ctx =
      [([armDone],
        ["match Column::write_existing_value_plan(&table_key,self.as_ref(&tables.value),existing_address,change,log,stats,self.ref_counted)?"]),
       ([replaceInPlace, insertMoved, ifNotReplaced],
        ["match Column::write_existing_value_plan(&table_key,self.as_ref(&tables.value),existing_address,change,log,stats,self.ref_counted)?",
         "(None,Some(value_address))=>"]),
       ([foundRemovePlan],
        ["match Column::write_existing_value_plan(&table_key,self.as_ref(&tables.value),existing_address,change,log,stats,self.ref_counted)?",
         "(None,Some(value_address))=>",
         "if replace.is_none()||matches!(outcome,PlanOutcome::NeedReindex)"]),
       ([purgeCall, returnMoved],
        ["match Column::write_existing_value_plan(&table_key,self.as_ref(&tables.value),existing_address,change,log,stats,self.ref_counted)?",
         "(None,Some(value_address))=>"]),
       ([armNeedReindex, armOther],
        ["match Column::write_existing_value_plan(&table_key,self.as_ref(&tables.value),existing_address,change,log,stats,self.ref_counted)?",
         "(None,Some(value_address))=>",
         "match outcome"]),
       ([foundRemovePlan, purgeCall, returnRemoved],
        ["match Column::write_existing_value_plan(&table_key,self.as_ref(&tables.value),existing_address,change,log,stats,self.ref_counted)?",
         "(None,None)=>"])] := by decide
theorem exits_writeExisting :
    writeExisting_exits =
      [] := by decide
theorem stmts_writeExisting :
    writeExisting_stmts =
      [(replaceInPlace, "let replace=if index.id==tables.index.id{Some(sub_index)}else{None}"),
       (insertMoved, "let outcome=tables.index.write_insert_plan(key,value_address,replace,log)?"),
       (foundRemovePlan, "index.write_remove_plan(key,sub_index,log)?"),
       (purgeCall, "Self::remove_from_queued_indexes(key,existing_address,reindex,log)?"),
       (foundRemovePlan, "index.write_remove_plan(key,sub_index,log)?"),
       (purgeCall, "Self::remove_from_queued_indexes(key,existing_address,reindex,log)?")] := by decide
theorem conds_writeNew :
    writeNew_conds =
      [(whileNeedReindex, [["let PlanOutcome::NeedReindex=tables.index.write_insert_plan(key,address,None,log)?"]])] := by decide
theorem ctx_writeNew :
    writeNew_ctx =
      [([triggerReindex, setNeedReindex],
        ["while let PlanOutcome::NeedReindex=tables.index.write_insert_plan(key,address,None,log)?"])] := by decide
theorem exits_writeNew :
    writeNew_exits =
      [] := by decide
theorem stmts_writeNew :
    writeNew_stmts =
      [(newValuePlan, "let address=Column::write_new_value_plan(&table_key,self.as_ref(&tables.value),value,log,stats)?")] := by decide
theorem conds_writeReindexLocked :
    writeReindexLocked_conds =
      [(ifContains, [["Self::contains_partial_key_with_address(key,address,&tables.index,log)?"]]),
       (whileNeedReindex, [["let PlanOutcome::NeedReindex=tables.index.write_insert_plan(key,address,None,log)?"]])] := by decide
theorem ctx_writeReindexLocked :
    writeReindexLocked_ctx =
      [([returnSkippedEarly],
        ["if Self::contains_partial_key_with_address(key,address,&tables.index,log)?"]),
       ([triggerReindex, setNeedReindex],
        ["while let PlanOutcome::NeedReindex=tables.index.write_insert_plan(key,address,None,log)?"])] := by decide
theorem exits_writeReindexLocked :
    writeReindexLocked_exits =
      [("return Ok(PlanOutcome::Skipped)",
        ["if Self::contains_partial_key_with_address(key,address,&tables.index,log)?"])] := by decide
theorem conds_triggerReindexFn :
    triggerReindexFn_conds =
      [] := by decide
theorem ctx_triggerReindexFn :
    triggerReindexFn_ctx =
      [] := by decide
theorem exits_triggerReindexFn :
    triggerReindexFn_exits =
      [] := by decide
theorem stmts_triggerReindexFn :
    triggerReindexFn_stmts =
      [(newIndexId, "let new_index_id=IndexTableId::new(tables.index.id.col(),tables.index.id.index_bits()+1)"),
       (replaceCurrent, "let old_table=std::mem::replace(&mut tables.index,new_table)"),
       (queuePush, "reindex.queue.push_back(ReindexEntry::Index(old_table))")] := by decide
theorem conds_valuePlanExisting :
    valuePlanExisting_conds =
      [(ifRefCounted, [["ref_counted"]]),
       (ifRefCounted, [["ref_counted"]]),
       (ifPreimage, [["tables.preimage"]]),
       (ifSameTier, [["tier==target_tier"]]),
       (ifRefCounted, [["ref_counted"]]),
       (ifRemove, [["remove"]])] := by decide
theorem ctx_valuePlanExisting :
    valuePlanExisting_ctx =
      [([ifRefCounted],
        ["match change",
         "Operation::Reference(_)=>"]),
       ([incRef, retWritten],
        ["match change",
         "Operation::Reference(_)=>",
         "if ref_counted"]),
       ([retSkipped],
        ["match change",
         "Operation::Reference(_)=>",
         "if ref_counted{}else"]),
       ([ifRefCounted],
        ["match change",
         "Operation::Set(_,val)=>"]),
       ([incRef, retWritten],
        ["match change",
         "Operation::Set(_,val)=>",
         "if ref_counted"]),
       ([ifPreimage],
        ["match change",
         "Operation::Set(_,val)=>"]),
       ([retSkipped],
        ["match change",
         "Operation::Set(_,val)=>",
         "if tables.preimage"]),
       ([compressVal, ifSameTier],
        ["match change",
         "Operation::Set(_,val)=>"]),
       ([replacePlan, retWritten],
        ["match change",
         "Operation::Set(_,val)=>",
         "if tier==target_tier"]),
       ([removeOld, insertNewTier, newAddress, retMoved],
        ["match change",
         "Operation::Set(_,val)=>",
         "if tier==target_tier{}else"]),
       ([letRemove, ifRefCounted],
        ["match change",
         "Operation::Dereference(_)=>"]),
       ([decRef, tailRemoved],
        ["match change",
         "Operation::Dereference(_)=>",
         "if ref_counted"]),
       ([removeOld, tailTrue],
        ["match change",
         "Operation::Dereference(_)=>",
         "if ref_counted{}else"]),
       ([ifRemove],
        ["match change",
         "Operation::Dereference(_)=>"]),
       ([retFreed],
        ["match change",
         "Operation::Dereference(_)=>",
         "if remove"]),
       ([retWritten],
        ["match change",
         "Operation::Dereference(_)=>",
         "if remove{}else"]),
       ([invalidOp],
        ["match change",
         "Operation::InsertTree(..)|Operation::ReferenceTree(..)|Operation::DereferenceTree(..)=>"])] := by decide
theorem exits_valuePlanExisting :
    valuePlanExisting_exits =
      [("return Ok((Some(PlanOutcome::Written),None))",
        ["match change",
         "Operation::Set(_,val)=>",
         "if ref_counted"]),
       ("return Ok((Some(PlanOutcome::Skipped),None))",
        ["match change",
         "Operation::Set(_,val)=>",
         "if tables.preimage"])] := by decide
theorem stmts_valuePlanExisting :
    valuePlanExisting_stmts =
      [(replacePlan, "tables.tables[target_tier].write_replace_plan(address.offset(),key,cval,log,compressed)?"),
       (insertNewTier, "let new_offset=tables.tables[target_tier].write_insert_plan(key,cval,log,compressed)?"),
       (newAddress, "let new_address=Address::new(new_offset,target_tier as u8)"),
       (decRef, "let removed=!tables.tables[tier].write_dec_ref(address.offset(),log)?")] := by decide
theorem conds_valuePlanNew :
    valuePlanNew_conds =
      [] := by decide
theorem ctx_valuePlanNew :
    valuePlanNew_ctx =
      [] := by decide
theorem exits_valuePlanNew :
    valuePlanNew_exits =
      [] := by decide
theorem stmts_valuePlanNew :
    valuePlanNew_stmts =
      [(insertNewTier, "let offset=tables.tables[target_tier].write_insert_plan(key,cval,log,compressed)?"),
       (newAddress, "let address=Address::new(offset,target_tier as u8)")] := by decide
theorem conds_reindexFn :
    reindexFn_conds =
      [(ifFront, [["let Some(source)=reindex.queue.front()"]]),
       (ifNotDone, [["progress!=source.id.total_chunks()"]]),
       (whileBatch, [["source_index<source.id.total_chunks()", "plan.len()<MAX_REINDEX_BATCH"]]),
       (ifEmptyEntry, [["entry.is_empty()"]]),
       (ifFinished, [["source_index==source.id.total_chunks()"]]),
       (ifNotDone, [["progress!=source.id.total_chunks()"]]),
       (whileBatch, [["source_index<source.id.total_chunks()", "ref_count_plan.len()<MAX_REINDEX_BATCH"]]),
       (ifEmptyEntry, [["entry.is_empty()"]]),
       (ifFinished, [["source_index==source.id.total_chunks()"]])] := by decide
theorem ctx_reindexFn :
    reindexFn_ctx =
      [([loadProgress],
        ["if let Some(source)=reindex.queue.front()"]),
       ([ifNotDone],
        ["if let Some(source)=reindex.queue.front()",
         "match source",
         "ReindexEntry::Index(source)=>"]),
       ([startAtProgress, whileBatch],
        ["if let Some(source)=reindex.queue.front()",
         "match source",
         "ReindexEntry::Index(source)=>",
         "if progress!=source.id.total_chunks()"]),
       ([sourceEntries],
        ["if let Some(source)=reindex.queue.front()",
         "match source",
         "ReindexEntry::Index(source)=>",
         "if progress!=source.id.total_chunks()",
         "while source_index<source.id.total_chunks()&&plan.len()<MAX_REINDEX_BATCH"]),
       ([ifEmptyEntry],
        ["if let Some(source)=reindex.queue.front()",
         "match source",
         "ReindexEntry::Index(source)=>",
         "if progress!=source.id.total_chunks()",
         "while source_index<source.id.total_chunks()&&plan.len()<MAX_REINDEX_BATCH",
         "for entry in entries.iter()"]),
       ([continueEmpty],
        ["if let Some(source)=reindex.queue.front()",
         "match source",
         "ReindexEntry::Index(source)=>",
         "if progress!=source.id.total_chunks()",
         "while source_index<source.id.total_chunks()&&plan.len()<MAX_REINDEX_BATCH",
         "for entry in entries.iter()",
         "if entry.is_empty()"]),
       ([recoverKey, pushPlan],
        ["if let Some(source)=reindex.queue.front()",
         "match source",
         "ReindexEntry::Index(source)=>",
         "if progress!=source.id.total_chunks()",
         "while source_index<source.id.total_chunks()&&plan.len()<MAX_REINDEX_BATCH",
         "for entry in entries.iter()"]),
       ([incSource],
        ["if let Some(source)=reindex.queue.front()",
         "match source",
         "ReindexEntry::Index(source)=>",
         "if progress!=source.id.total_chunks()",
         "while source_index<source.id.total_chunks()&&plan.len()<MAX_REINDEX_BATCH"]),
       ([storeProgress, ifFinished],
        ["if let Some(source)=reindex.queue.front()",
         "match source",
         "ReindexEntry::Index(source)=>",
         "if progress!=source.id.total_chunks()"]),
       ([setDropIndex],
        ["if let Some(source)=reindex.queue.front()",
         "match source",
         "ReindexEntry::Index(source)=>",
         "if progress!=source.id.total_chunks()",
         "if source_index==source.id.total_chunks()"]),
       ([ifNotDone],
        ["if let Some(source)=reindex.queue.front()",
         "match source",
         "ReindexEntry::RefCount(source)=>"]),
       ([startAtProgress, whileBatch],
        ["if let Some(source)=reindex.queue.front()",
         "match source",
         "ReindexEntry::RefCount(source)=>",
         "if progress!=source.id.total_chunks()"]),
       ([sourceEntries],
        ["if let Some(source)=reindex.queue.front()",
         "match source",
         "ReindexEntry::RefCount(source)=>",
         "if progress!=source.id.total_chunks()",
         "while source_index<source.id.total_chunks()&&ref_count_plan.len()<MAX_REINDEX_BATCH"]),
       ([ifEmptyEntry],
        ["if let Some(source)=reindex.queue.front()",
         "match source",
         "ReindexEntry::RefCount(source)=>",
         "if progress!=source.id.total_chunks()",
         "while source_index<source.id.total_chunks()&&ref_count_plan.len()<MAX_REINDEX_BATCH",
         "for entry in entries.iter()"]),
       ([continueEmpty],
        ["if let Some(source)=reindex.queue.front()",
         "match source",
         "ReindexEntry::RefCount(source)=>",
         "if progress!=source.id.total_chunks()",
         "while source_index<source.id.total_chunks()&&ref_count_plan.len()<MAX_REINDEX_BATCH",
         "for entry in entries.iter()",
         "if entry.is_empty()"]),
       ([pushRcPlan],
        ["if let Some(source)=reindex.queue.front()",
         "match source",
         "ReindexEntry::RefCount(source)=>",
         "if progress!=source.id.total_chunks()",
         "while source_index<source.id.total_chunks()&&ref_count_plan.len()<MAX_REINDEX_BATCH",
         "for entry in entries.iter()"]),
       ([incSource],
        ["if let Some(source)=reindex.queue.front()",
         "match source",
         "ReindexEntry::RefCount(source)=>",
         "if progress!=source.id.total_chunks()",
         "while source_index<source.id.total_chunks()&&ref_count_plan.len()<MAX_REINDEX_BATCH"]),
       ([storeProgress, ifFinished],
        ["if let Some(source)=reindex.queue.front()",
         "match source",
         "ReindexEntry::RefCount(source)=>",
         "if progress!=source.id.total_chunks()"]),
       ([setDropRc],
        ["if let Some(source)=reindex.queue.front()",
         "match source",
         "ReindexEntry::RefCount(source)=>",
         "if progress!=source.id.total_chunks()",
         "if source_index==source.id.total_chunks()"])] := by decide
theorem exits_reindexFn :
    reindexFn_exits =
      [("continue",
        ["if let Some(source)=reindex.queue.front()",
         "match source",
         "ReindexEntry::Index(source)=>",
         "if progress!=source.id.total_chunks()",
         "while source_index<source.id.total_chunks()&&plan.len()<MAX_REINDEX_BATCH",
         "for entry in entries.iter()",
         "if entry.is_empty()"]),
       ("continue",
        ["if let Some(source)=reindex.queue.front()",
         "match source",
         "ReindexEntry::RefCount(source)=>",
         "if progress!=source.id.total_chunks()",
         "while source_index<source.id.total_chunks()&&ref_count_plan.len()<MAX_REINDEX_BATCH",
         "for entry in entries.iter()",
         "if entry.is_empty()"])] := by decide
theorem stmts_reindexFn :
    reindexFn_stmts =
      [(sourceEntries, "let entries=source.entries(source_index,log.overlays())?"),
       (pushPlan, "plan.push((key,entry.address(source.id.index_bits())))"),
       (incSource, "source_index+=1"),
       (storeProgress, "reindex.progress.store(source_index,Ordering::Relaxed)"),
       (sourceEntries, "let entries=source.entries(source_index,log.overlays())?"),
       (incSource, "source_index+=1"),
       (storeProgress, "reindex.progress.store(source_index,Ordering::Relaxed)"),
       (returnBatch, "Ok(ReindexBatch{drop_index,batch:plan,drop_ref_count,ref_count_batch:ref_count_plan,ref_count_batch_source:ref_count_source})")] := by decide
theorem conds_dropIndexFn :
    dropIndexFn_conds =
      [(ifFrontMatches, [["reindex.queue.front_mut().map_or(false,|e|{if let ReindexEntry::Index(t)=e{t.id==id}else{false}})"]])] := by decide
theorem ctx_dropIndexFn :
    dropIndexFn_ctx =
      [([frontIdEq],
        ["|e|",
         "if let ReindexEntry::Index(t)=e"]),
       ([resetProgress, popFront, dropFile],
        ["if reindex.queue.front_mut().map_or(false,|e|{if let ReindexEntry::Index(t)=e{t.id==id}else{false}})"]),
       ([returnOkUnit],
        ["if reindex.queue.front_mut().map_or(false,|e|{if let ReindexEntry::Index(t)=e{t.id==id}else{false}}){}else"])] := by decide
theorem exits_dropIndexFn :
    dropIndexFn_exits =
      [("return Err(Error::Corruption(format!(\"\")))",
        ["if reindex.queue.front_mut().map_or(false,|e|{if let ReindexEntry::Index(t)=e{t.id==id}else{false}})",
         "if let ReindexEntry::Index(table)=table{}else"]),
       ("return Ok(())",
        ["if reindex.queue.front_mut().map_or(false,|e|{if let ReindexEntry::Index(t)=e{t.id==id}else{false}}){}else"])] := by decide
theorem stmts_dropIndexFn :
    dropIndexFn_stmts =
      [(resetProgress, "reindex.progress.store(0,Ordering::Relaxed)"),
       (popFront, "let table=reindex.queue.pop_front().unwrap()")] := by decide
theorem conds_colFlush :
    colFlush_conds =
      [(forValueTables, [["t in tables.value.iter()"]]),
       (ifHasRefCount, [["tables.ref_count.is_some()"]]),
       (forQueuedFlush, [["entry in self.reindex.read().queue.iter()"]])] := by decide
theorem ctx_colFlush :
    colFlush_ctx =
      [([flushValueTable],
        ["for t in tables.value.iter()"]),
       ([flushRefCount],
        ["if tables.ref_count.is_some()"]),
       ([flushQueuedIndex, flushQueuedRc],
        ["for entry in self.reindex.read().queue.iter()",
         "match entry"])] := by decide
theorem exits_colFlush :
    colFlush_exits =
      [] := by decide
theorem stmts_colFlush :
    colFlush_stmts =
      [(flushIndex, "tables.index.flush()?"),
       (flushQueuedIndex, "ReindexEntry::Index(t)=>t.flush()?,ReindexEntry::RefCount(t)=>t.flush()?,")] := by decide
theorem conds_iterIndexTable :
    iterIndexTable_conds =
      [(forChunks, [["c in start_chunk..total_chunks"]]),
       (forEntries, [["(sub_index,entry)in entries.iter().enumerate()"]]),
       (ifEmptyEntry, [["entry.is_empty()"]]),
       (ifOlder, [["!older.is_empty()"]]),
       (forOlder, [["table in older"]]),
       (ifReportedByOlder, [["Self::contains_partial_key_with_address(&key_prefix,address,table,log.overlays())?"]]),
       (ifReported, [["reported"]]),
       (ifStopped, [["!f(IterStateOrCorrupted::Corrupted(CorruptedIndexEntryInfo{chunk_index:c,sub_index:sub_index as u32,value_entry,entry:*entry,error:None}))?"]]),
       (ifStopped, [["!f(IterStateOrCorrupted::Corrupted(CorruptedIndexEntryInfo{chunk_index:c,sub_index:sub_index as u32,value_entry,entry:*entry,error:Some(e)}))?"]]),
       (ifStopped, [["!f(state)?"]])] := by decide
theorem ctx_iterIndexTable :
    iterIndexTable_ctx =
      [([chunkEntries, forEntries],
        ["for c in start_chunk..total_chunks"]),
       ([ifEmptyEntry],
        ["for c in start_chunk..total_chunks",
         "for(sub_index,entry)in entries.iter().enumerate()"]),
       ([continueEmpty],
        ["for c in start_chunk..total_chunks",
         "for(sub_index,entry)in entries.iter().enumerate()",
         "if entry.is_empty()"]),
       ([ifOlder],
        ["for c in start_chunk..total_chunks",
         "for(sub_index,entry)in entries.iter().enumerate()"]),
       ([forOlder],
        ["for c in start_chunk..total_chunks",
         "for(sub_index,entry)in entries.iter().enumerate()",
         "if!older.is_empty()"]),
       ([ifReportedByOlder],
        ["for c in start_chunk..total_chunks",
         "for(sub_index,entry)in entries.iter().enumerate()",
         "if!older.is_empty()",
         "for table in older"]),
       ([setReported, breakLoop],
        ["for c in start_chunk..total_chunks",
         "for(sub_index,entry)in entries.iter().enumerate()",
         "if!older.is_empty()",
         "for table in older",
         "if Self::contains_partial_key_with_address(&key_prefix,address,table,log.overlays())?"]),
       ([ifReported],
        ["for c in start_chunk..total_chunks",
         "for(sub_index,entry)in entries.iter().enumerate()",
         "if!older.is_empty()"]),
       ([continueEmpty],
        ["for c in start_chunk..total_chunks",
         "for(sub_index,entry)in entries.iter().enumerate()",
         "if!older.is_empty()",
         "if reported"]),
       ([getWithMeta],
        ["for c in start_chunk..total_chunks",
         "for(sub_index,entry)in entries.iter().enumerate()"]),
       ([ifStopped],
        ["for c in start_chunk..total_chunks",
         "for(sub_index,entry)in entries.iter().enumerate()",
         "match value",
         "Ok(None)=>"]),
       ([returnFalse],
        ["for c in start_chunk..total_chunks",
         "for(sub_index,entry)in entries.iter().enumerate()",
         "match value",
         "Ok(None)=>",
         "if!f(IterStateOrCorrupted::Corrupted(CorruptedIndexEntryInfo{chunk_index:c,sub_index:sub_index as u32,value_entry,entry:*entry,error:None}))?"]),
       ([continueEmpty],
        ["for c in start_chunk..total_chunks",
         "for(sub_index,entry)in entries.iter().enumerate()",
         "match value",
         "Ok(None)=>"]),
       ([ifStopped],
        ["for c in start_chunk..total_chunks",
         "for(sub_index,entry)in entries.iter().enumerate()",
         "match value",
         "Err(e)=>"]),
       ([returnFalse],
        ["for c in start_chunk..total_chunks",
         "for(sub_index,entry)in entries.iter().enumerate()",
         "match value",
         "Err(e)=>",
         "if!f(IterStateOrCorrupted::Corrupted(CorruptedIndexEntryInfo{chunk_index:c,sub_index:sub_index as u32,value_entry,entry:*entry,error:Some(e)}))?"]),
       ([continueEmpty],
        ["for c in start_chunk..total_chunks",
         "for(sub_index,entry)in entries.iter().enumerate()",
         "match value",
         "Err(e)=>"]),
       ([copyKeyTail, ifStopped],
        ["for c in start_chunk..total_chunks",
         "for(sub_index,entry)in entries.iter().enumerate()"]),
       ([returnFalse],
        ["for c in start_chunk..total_chunks",
         "for(sub_index,entry)in entries.iter().enumerate()",
         "if!f(state)?"])] := by decide
theorem exits_iterIndexTable :
    iterIndexTable_exits =
      [("continue",
        ["for c in start_chunk..total_chunks",
         "for(sub_index,entry)in entries.iter().enumerate()",
         "if entry.is_empty()"]),
       ("break",
        ["for c in start_chunk..total_chunks",
         "for(sub_index,entry)in entries.iter().enumerate()",
         "if!older.is_empty()",
         "for table in older",
         "if Self::contains_partial_key_with_address(&key_prefix,address,table,log.overlays())?"]),
       ("continue",
        ["for c in start_chunk..total_chunks",
         "for(sub_index,entry)in entries.iter().enumerate()",
         "if!older.is_empty()",
         "if reported"]),
       ("return Ok(false)",
        ["for c in start_chunk..total_chunks",
         "for(sub_index,entry)in entries.iter().enumerate()",
         "match value",
         "Ok(None)=>",
         "if!f(IterStateOrCorrupted::Corrupted(CorruptedIndexEntryInfo{chunk_index:c,sub_index:sub_index as u32,value_entry,entry:*entry,error:None}))?"]),
       ("continue",
        ["for c in start_chunk..total_chunks",
         "for(sub_index,entry)in entries.iter().enumerate()",
         "match value",
         "Ok(None)=>"]),
       ("return Ok(false)",
        ["for c in start_chunk..total_chunks",
         "for(sub_index,entry)in entries.iter().enumerate()",
         "match value",
         "Err(e)=>",
         "if!f(IterStateOrCorrupted::Corrupted(CorruptedIndexEntryInfo{chunk_index:c,sub_index:sub_index as u32,value_entry,entry:*entry,error:Some(e)}))?"]),
       ("continue",
        ["for c in start_chunk..total_chunks",
         "for(sub_index,entry)in entries.iter().enumerate()",
         "match value",
         "Err(e)=>"]),
       ("return Ok(false)",
        ["for c in start_chunk..total_chunks",
         "for(sub_index,entry)in entries.iter().enumerate()",
         "if!f(state)?"])] := by decide
theorem conds_nextFree :
    nextFree_conds =
      [(ifHaveRemoved, [["last_removed!=0"]]),
       (ifStack, [["let Some(mut free_entries)=free_entries_guard"]])] := by decide
theorem ctx_nextFree :
    nextFree_ctx =
      [([lockFree],
        ["if let Some(free_entries)=&self.free_entries"]),
       ([readNextFree, storeLastRemoved, ifStack],
        ["if last_removed!=0"]),
       ([popStack],
        ["if last_removed!=0",
         "if let Some(mut free_entries)=free_entries_guard"]),
       ([tailLastRemoved],
        ["if last_removed!=0"]),
       ([storeFilled, tailFilled],
        ["if last_removed!=0{}else"])] := by decide
theorem exits_nextFree :
    nextFree_exits =
      [] := by decide
theorem stmts_nextFree :
    nextFree_stmts =
      [(readNextFree, "let next_removed=self.read_next_free(last_removed,log)?"),
       (storeLastRemoved, "self.last_removed.store(next_removed,Ordering::Relaxed)"),
       (storeFilled, "self.filled.store(filled+1,Ordering::Relaxed)")] := by decide
theorem conds_readNextFreeFn :
    readNextFreeFn_conds =
      [(ifBadNext, [["next>=filled"]])] := by decide
theorem ctx_readNextFreeFn :
    readNextFreeFn_ctx =
      [([readFile],
        ["if!log.value(self.id,index,buf.as_mut())"]),
       ([returnCorruption],
        ["if next>=filled"])] := by decide
theorem exits_readNextFreeFn :
    readNextFreeFn_exits =
      [("return Err(crate::error::Error::Corruption(format!(\"\",next,filled)))",
        ["if next>=filled"])] := by decide
theorem stmts_readNextFreeFn :
    readNextFreeFn_stmts =
      [(readNext, "let next=buf.read_next()")] := by decide
theorem conds_clearSlot :
    clearSlot_conds =
      [(ifStack, [["let Some(mut free_entries)=free_entries_guard"]])] := by decide
theorem ctx_clearSlot :
    clearSlot_ctx =
      [([lockFree],
        ["if let Some(free_entries)=&self.free_entries"]),
       ([pushStack],
        ["if let Some(mut free_entries)=free_entries_guard"])] := by decide
theorem exits_clearSlot :
    clearSlot_exits =
      [] := by decide
theorem stmts_clearSlot :
    clearSlot_stmts =
      [(writeNext, "buf.write_next(last_removed)"),
       (insertValue, "log.insert_value(self.id,index,buf[0..buf.offset()].to_vec())"),
       (storeLastRemoved, "self.last_removed.store(index,Ordering::Relaxed)")] := by decide
theorem conds_removePlanFn :
    removePlanFn_conds =
      [] := by decide
theorem ctx_removePlanFn :
    removePlanFn_ctx =
      [([callClearChain],
        ["if self.multipart"]),
       ([callClearSlot],
        ["if self.multipart{}else"])] := by decide
theorem exits_removePlanFn :
    removePlanFn_exits =
      [] := by decide
theorem conds_tableCompletePlan :
    tableCompletePlan_conds =
      [(ifDirty, [["let Ok(true)=self.dirty_header.compare_exchange(true,false,Ordering::Relaxed,Ordering::Relaxed)"]])] := by decide
theorem ctx_tableCompletePlan :
    tableCompletePlan_ctx =
      [([lockFreeRead],
        ["if let Some(free_entries)=&self.free_entries"]),
       ([loadLastRemoved, loadFilled, setHdrLastRemoved, setHdrFilled, insertValue],
        ["if let Ok(true)=self.dirty_header.compare_exchange(true,false,Ordering::Relaxed,Ordering::Relaxed)"])] := by decide
theorem exits_tableCompletePlan :
    tableCompletePlan_exits =
      [] := by decide
theorem stmts_tableCompletePlan :
    tableCompletePlan_stmts =
      [(insertValue, "log.insert_value(self.id,0,buf.0.to_vec())")] := by decide
theorem conds_tableOpen :
    tableOpen_conds =
      [(ifHasMap, [["file.map.read().is_some()"]]),
       (ifFilledZero, [["filled==0"]]),
       (ifBadRemoved, [["last_removed>=filled"]])] := by decide
theorem ctx_tableOpen :
    tableOpen_ctx =
      [([readHeader, hdrLastRemoved, hdrFilled, ifFilledZero],
        ["if file.map.read().is_some()"]),
       ([setFilledOne],
        ["if file.map.read().is_some()",
         "if filled==0"]),
       ([ifBadRemoved],
        ["if file.map.read().is_some()"]),
       ([returnCorruption],
        ["if file.map.read().is_some()",
         "if last_removed>=filled"])] := by decide
theorem exits_tableOpen :
    tableOpen_exits =
      [("return Err(crate::error::Error::Corruption(format!(\"\",last_removed,filled)))",
        ["if file.map.read().is_some()",
         "if last_removed>=filled"])] := by decide
theorem stmts_tableOpen :
    tableOpen_stmts =
      [(fieldFilled, "AtomicU64::new(filled)"),
       (fieldWritten, "AtomicU64::new(filled)"),
       (fieldLastRemoved, "AtomicU64::new(last_removed)"),
       (fieldDirty, "AtomicBool::new(false)"),
       (fieldFreeEntries, "None")] := by decide
theorem conds_tableRefresh :
    tableRefresh_conds =
      [(ifNoMap, [["self.file.map.read().is_none()"]]),
       (ifFilledZero, [["filled==0"]])] := by decide
theorem ctx_tableRefresh :
    tableRefresh_ctx =
      [([returnOkUnit],
        ["if self.file.map.read().is_none()"]),
       ([lockFree],
        ["if let Some(free_entries)=&self.free_entries"]),
       ([setFilledOne],
        ["if filled==0"])] := by decide
theorem exits_tableRefresh :
    tableRefresh_exits =
      [("return Ok(())",
        ["if self.file.map.read().is_none()"])] := by decide
theorem stmts_tableRefresh :
    tableRefresh_stmts =
      [(storeLastRemoved, "self.last_removed.store(last_removed,Ordering::Relaxed)"),
       (storeFilled, "self.filled.store(filled,Ordering::Relaxed)"),
       (storeWritten, "self.written.store(filled,Ordering::Relaxed)")] := by decide
theorem conds_initTableData :
    initTableData_conds =
      [(ifNeedsFree, [["self.needs_free_entries"]]),
       (whileNext, [["next!=0"]]),
       (ifBadLink, [["next>=filled"], ["next>=capacity"], ["stack.len()as u64>=capacity"]])] := by decide
theorem ctx_initTableData :
    initTableData_ctx =
      [([loadFilled, loadLastRemoved, startAtHead, whileNext],
        ["if self.needs_free_entries"]),
       ([ifBadLink],
        ["if self.needs_free_entries",
         "while next!=0"]),
       ([returnCorruption],
        ["if self.needs_free_entries",
         "while next!=0",
         "if next>=filled||next>=capacity||stack.len()as u64>=capacity"]),
       ([stackPush, readLinkFile, skipSize, nextFromLink],
        ["if self.needs_free_entries",
         "while next!=0"]),
       ([stackReverse],
        ["if self.needs_free_entries"])] := by decide
theorem exits_initTableData :
    initTableData_exits =
      [("return Err(crate::error::Error::Corruption(format!(\"\",next,filled)))",
        ["if self.needs_free_entries",
         "while next!=0",
         "if next>=filled||next>=capacity||stack.len()as u64>=capacity"])] := by decide
theorem conds_changeRef :
    changeRef_conds =
      [(ifTombstone, [["buf.is_tombstone()"]]),
       (ifMultiEntry, [["self.multipart", "buf.is_multi(self.db_version)"]]),
       (ifIncrement, [["delta>0"]]),
       (ifSaturate, [["counter>=LOCKED_REF-delta as u32"]]),
       (ifNotLocked, [["counter!=LOCKED_REF"]]),
       (ifCounterZero, [["counter==0"]])] := by decide
theorem ctx_changeRef :
    changeRef_ctx =
      [([readSlotFile],
        ["if log.value(self.id,index,buf.as_mut()){}else"]),
       ([returnFalse],
        ["if buf.is_tombstone()"]),
       ([skipSize, skipNext, tailEntrySize],
        ["if self.multipart&&buf.is_multi(self.db_version)"]),
       ([readSize, tailOffsetPlusSize],
        ["if self.multipart&&buf.is_multi(self.db_version){}else"]),
       ([ifSaturate],
        ["if delta>0"]),
       ([lockCounter],
        ["if delta>0",
         "if counter>=LOCKED_REF-delta as u32"]),
       ([addCounter],
        ["if delta>0",
         "if counter>=LOCKED_REF-delta as u32{}else"]),
       ([ifNotLocked],
        ["if delta>0{}else"]),
       ([subCounter, ifCounterZero],
        ["if delta>0{}else",
         "if counter!=LOCKED_REF"]),
       ([returnFalse],
        ["if delta>0{}else",
         "if counter!=LOCKED_REF",
         "if counter==0"])] := by decide
theorem exits_changeRef :
    changeRef_exits =
      [("return Ok(false)",
        ["if buf.is_tombstone()"]),
       ("return Ok(false)",
        ["if delta>0{}else",
         "if counter!=LOCKED_REF",
         "if counter==0"])] := by decide
theorem stmts_changeRef :
    changeRef_stmts =
      [(writeRc, "buf.write_rc(counter)"),
       (insertValue, "log.insert_value(self.id,index,buf[0..size].to_vec())")] := by decide
theorem conds_decRefFn :
    decRefFn_conds =
      [(ifChangeRefDec, [["self.change_ref(index,-1,log)?"]])] := by decide
theorem ctx_decRefFn :
    decRefFn_ctx =
      [([returnTrueEarly],
        ["if self.change_ref(index,-1,log)?"])] := by decide
theorem exits_decRefFn :
    decRefFn_exits =
      [("return Ok(true)",
        ["if self.change_ref(index,-1,log)?"])] := by decide
theorem conds_incRefFn :
    incRefFn_conds =
      [] := by decide
theorem ctx_incRefFn :
    incRefFn_ctx =
      [] := by decide
theorem exits_incRefFn :
    incRefFn_exits =
      [] := by decide
theorem conds_clearChainFn :
    clearChainFn_conds =
      [] := by decide
theorem ctx_clearChainFn :
    clearChainFn_ctx =
      [([readNextPart],
        ["loop"]),
       ([callClearSlot, assignIndexNext],
        ["loop",
         "match self.read_next_part(index,log)?",
         "Some(next)=>"]),
       ([callClearSlot, returnOkUnit],
        ["loop",
         "match self.read_next_part(index,log)?",
         "None=>"])] := by decide
theorem exits_clearChainFn :
    clearChainFn_exits =
      [("return Ok(())",
        ["loop",
         "match self.read_next_part(index,log)?",
         "None=>"])] := by decide
theorem conds_claimEntries :
    claimEntries_conds =
      [(forClaim, [["_i in 0..num"]]),
       (ifHaveRemoved, [["last_removed!=0"]])] := by decide
theorem ctx_claimEntries :
    claimEntries_ctx =
      [([lockFree, forClaim],
        ["match&self.free_entries",
         "Some(free_entries)=>"]),
       ([loadFilled, loadLastRemoved, ifHaveRemoved],
        ["match&self.free_entries",
         "Some(free_entries)=>",
         "for _i in 0..num"]),
       ([popStack, peekStack, storeLastRemoved, tailLastRemoved],
        ["match&self.free_entries",
         "Some(free_entries)=>",
         "for _i in 0..num",
         "if last_removed!=0"]),
       ([storeFilled, tailFilled],
        ["match&self.free_entries",
         "Some(free_entries)=>",
         "for _i in 0..num",
         "if last_removed!=0{}else"]),
       ([pushEntry],
        ["match&self.free_entries",
         "Some(free_entries)=>",
         "for _i in 0..num"]),
       ([setDirtyHeader, returnEntries],
        ["match&self.free_entries",
         "Some(free_entries)=>"])] := by decide
theorem exits_claimEntries :
    claimEntries_exits =
      [("return Err(crate::error::Error::InvalidConfiguration(format!(\"\")))",
        ["match&self.free_entries",
         "None=>"])] := by decide
theorem stmts_claimEntries :
    claimEntries_stmts =
      [(storeLastRemoved, "self.last_removed.store(next_removed,Ordering::Relaxed)"),
       (storeFilled, "self.filled.store(filled+1,Ordering::Relaxed)")] := by decide
theorem conds_overwriteChain :
    overwriteChain_conds =
      [(ifFollow, [["follow"]]),
       (ifOverflow, [["remainder>free_space"]]),
       (ifNotFollow, [["!follow"]]),
       (ifFirstPart, [["start==0"]]),
       (ifCompressed, [["compressed"]]),
       (ifFirstOffset, [["offset==0"]]),
       (ifTableRc, [["self.ref_counted"]]),
       (ifFirstPart, [["start==0"]]),
       (ifDone, [["remainder==0"]]),
       (ifTail, [["index!=0"]])] := by decide
theorem ctx_overwriteChain :
    overwriteChain_ctx =
      [([armAtSome, armAtNone],
        ["match at"]),
       ([ifFollow],
        ["loop"]),
       ([readNextPart],
        ["loop",
         "if follow"]),
       ([ifOverflow],
        ["loop"]),
       ([ifNotFollow],
        ["loop",
         "if remainder>free_space"]),
       ([allocNext],
        ["loop",
         "if remainder>free_space",
         "if!follow"]),
       ([ifFirstPart],
        ["loop",
         "if remainder>free_space"]),
       ([ifCompressed],
        ["loop",
         "if remainder>free_space",
         "if start==0"]),
       ([writeMultiheadCompressed],
        ["loop",
         "if remainder>free_space",
         "if start==0",
         "if compressed"]),
       ([writeMultihead],
        ["loop",
         "if remainder>free_space",
         "if start==0",
         "if compressed{}else"]),
       ([writeMultipart],
        ["loop",
         "if remainder>free_space",
         "if start==0{}else"]),
       ([writeNext],
        ["loop",
         "if remainder>free_space"]),
       ([writeSize],
        ["loop",
         "if remainder>free_space{}else"]),
       ([ifFirstOffset],
        ["loop"]),
       ([ifTableRc],
        ["loop",
         "if offset==0"]),
       ([writeRc],
        ["loop",
         "if offset==0",
         "if self.ref_counted"]),
       ([writeKey],
        ["loop",
         "if offset==0"]),
       ([writeSlice, insertValue, subRemainder, ifFirstPart],
        ["loop"]),
       ([setStart],
        ["loop",
         "if start==0"]),
       ([advanceIndex, ifDone],
        ["loop"]),
       ([ifTail],
        ["loop",
         "if remainder==0"]),
       ([clearTail],
        ["loop",
         "if remainder==0",
         "if index!=0"]),
       ([breakLoop],
        ["loop",
         "if remainder==0"])] := by decide
theorem exits_overwriteChain :
    overwriteChain_exits =
      [("break",
        ["loop",
         "if remainder==0"])] := by decide
theorem stmts_overwriteChain :
    overwriteChain_stmts =
      [(writeNext, "buf.write_next(next_index)"),
       (writeSize, "buf.write_size(remainder as u16,compressed)"),
       (writeRc, "buf.write_rc(1u32)"),
       (writeSlice, "buf.write_slice(&value[offset..offset+value_len-written])"),
       (insertValue, "log.insert_value(self.id,index,buf[0..buf.offset()].to_vec())")] := by decide
theorem conds_indexInsertPlan :
    indexInsertPlan_conds =
      [(ifOverlayChunk, [["let Some(chunk)=log.with_index(self.id,chunk_index,|chunk|chunk.clone())"]]),
       (ifMapped, [["let Some(map)=&*self.map.read()"]])] := by decide
theorem ctx_indexInsertPlan :
    indexInsertPlan_ctx =
      [([planInsertCall],
        ["if let Some(chunk)=log.with_index(self.id,chunk_index,|chunk|chunk.clone())"]),
       ([chunkAt, planInsertCall],
        ["if let Some(map)=&*self.map.read()"])] := by decide
theorem exits_indexInsertPlan :
    indexInsertPlan_exits =
      [("return self.plan_insert_chunk(key_prefix,address,chunk,sub_index,log)",
        ["if let Some(chunk)=log.with_index(self.id,chunk_index,|chunk|chunk.clone())"]),
       ("return self.plan_insert_chunk(key_prefix,address,chunk,sub_index,log)",
        ["if let Some(map)=&*self.map.read()"])] := by decide
theorem stmts_indexInsertPlan :
    indexInsertPlan_stmts =
      [(planInsertCall, "return self.plan_insert_chunk(key_prefix,address,chunk,sub_index,log)"),
       (planInsertCall, "return self.plan_insert_chunk(key_prefix,address,chunk,sub_index,log)"),
       (planInsertCall, "self.plan_insert_chunk(key_prefix,address,chunk,sub_index,log)")] := by decide
theorem conds_indexRemovePlan :
    indexRemovePlan_conds =
      [(ifOverlayChunk, [["let Some(chunk)=log.with_index(self.id,chunk_index,|chunk|chunk.clone())"]]),
       (ifMapped, [["let Some(map)=&*self.map.read()"]])] := by decide
theorem ctx_indexRemovePlan :
    indexRemovePlan_ctx =
      [([planRemoveCall],
        ["if let Some(chunk)=log.with_index(self.id,chunk_index,|chunk|chunk.clone())"]),
       ([chunkAt, planRemoveCall],
        ["if let Some(map)=&*self.map.read()"])] := by decide
theorem exits_indexRemovePlan :
    indexRemovePlan_exits =
      [("return self.plan_remove_chunk(key_prefix,chunk,sub_index,log)",
        ["if let Some(chunk)=log.with_index(self.id,chunk_index,|chunk|chunk.clone())"]),
       ("return self.plan_remove_chunk(key_prefix,chunk,sub_index,log)",
        ["if let Some(map)=&*self.map.read()"])] := by decide
theorem stmts_indexRemovePlan :
    indexRemovePlan_stmts =
      [(planRemoveCall, "return self.plan_remove_chunk(key_prefix,chunk,sub_index,log)"),
       (planRemoveCall, "return self.plan_remove_chunk(key_prefix,chunk,sub_index,log)")] := by decide
theorem conds_indexGet :
    indexGet_conds =
      [(ifOverlayChunk, [["let Some(entry)=log.with_index(self.id,chunk_index,|chunk|{log::trace!(target:\"\",\"\",self.id,chunk_index);self.find_entry(key,sub_index,chunk)})"]]),
       (ifMapped, [["let Some(map)=&*self.map.read()"]])] := by decide
theorem ctx_indexGet :
    indexGet_ctx =
      [([findEntryCall],
        ["|chunk|"]),
       ([chunkAt, findEntryCall],
        ["if let Some(map)=&*self.map.read()"])] := by decide
theorem exits_indexGet :
    indexGet_exits =
      [("return Ok(entry)",
        ["if let Some(entry)=log.with_index(self.id,chunk_index,|chunk|{log::trace!(target:\"\",\"\",self.id,chunk_index);self.find_entry(key,sub_index,chunk)})"]),
       ("return Ok(self.find_entry(key,sub_index,chunk))",
        ["if let Some(map)=&*self.map.read()"])] := by decide
theorem stmts_indexGet :
    indexGet_stmts =
      [(findEntryCall, "self.find_entry(key,sub_index,chunk)"),
       (findEntryCall, "return Ok(self.find_entry(key,sub_index,chunk))")] := by decide
theorem conds_findEntryBase :
    findEntryBase_conds =
      [(forScan, [["i in sub_index..CHUNK_ENTRIES"]]),
       (ifMatch, [["entry.partial_key(self.id.index_bits())==partial_key", "!entry.is_empty()"]])] := by decide
theorem ctx_findEntryBase :
    findEntryBase_ctx =
      [([readEntry, ifMatch],
        ["for i in sub_index..CHUNK_ENTRIES"]),
       ([returnEntry],
        ["for i in sub_index..CHUNK_ENTRIES",
         "if entry.partial_key(self.id.index_bits())==partial_key&&!entry.is_empty()"])] := by decide
theorem exits_findEntryBase :
    findEntryBase_exits =
      [("return(entry,i)",
        ["for i in sub_index..CHUNK_ENTRIES",
         "if entry.partial_key(self.id.index_bits())==partial_key&&!entry.is_empty()"])] := by decide
theorem conds_planInsertChunk :
    planInsertChunk_conds =
      [(ifOverflowAddr, [["address.as_u64()>Entry::last_address(self.id.index_bits())"]]),
       (ifSubIndex, [["let Some(i)=sub_index"]]),
       (forScan, [["i in 0..CHUNK_ENTRIES"]]),
       (ifEmptySlot, [["entry.is_empty()"]])] := by decide
theorem ctx_planInsertChunk :
    planInsertChunk_ctx =
      [([returnNeedReindex],
        ["if address.as_u64()>Entry::last_address(self.id.index_bits())"]),
       ([readEntry, assertSameKey, writeEntry, insertIndex, returnWrittenEarly],
        ["if let Some(i)=sub_index"]),
       ([readEntry, ifEmptySlot],
        ["for i in 0..CHUNK_ENTRIES"]),
       ([writeEntry, insertIndex, returnWrittenEarly],
        ["for i in 0..CHUNK_ENTRIES",
         "if entry.is_empty()"])] := by decide
theorem exits_planInsertChunk :
    planInsertChunk_exits =
      [("return Ok(PlanOutcome::NeedReindex)",
        ["if address.as_u64()>Entry::last_address(self.id.index_bits())"]),
       ("return Ok(PlanOutcome::Written)",
        ["if let Some(i)=sub_index"]),
       ("return Ok(PlanOutcome::Written)",
        ["for i in 0..CHUNK_ENTRIES",
         "if entry.is_empty()"])] := by decide
theorem conds_planRemoveChunk :
    planRemoveChunk_conds =
      [(ifOccupiedSame, [["!entry.is_empty()", "entry.partial_key(self.id.index_bits())==partial_key"]])] := by decide
theorem ctx_planRemoveChunk :
    planRemoveChunk_ctx =
      [([emptyEntry, writeEntry, insertIndex, returnWrittenEarly],
        ["if!entry.is_empty()&&entry.partial_key(self.id.index_bits())==partial_key"])] := by decide
theorem exits_planRemoveChunk :
    planRemoveChunk_exits =
      [("return Ok(PlanOutcome::Written)",
        ["if!entry.is_empty()&&entry.partial_key(self.id.index_bits())==partial_key"])] := by decide
theorem body_tableRemovePlan :
    tableRemovePlan_body =
      "if self.multipart{self.clear_chain(index,log)?;}else{self.clear_slot(index,log)?;}Ok(())" := by decide
theorem body_tableClearChain :
    tableClearChain_body =
      "loop{match self.read_next_part(index,log)?{Some(next)=>{self.clear_slot(index,log)?;index=next;},None=>{self.clear_slot(index,log)?;return Ok(())}}}" := by decide
theorem body_tableInsertPlan :
    tableInsertPlan_body =
      "self.overwrite_chain(key,value,log,None,false,compressed)" := by decide
theorem body_tableReplacePlan :
    tableReplacePlan_body =
      "self.overwrite_chain(key,value,log,Some(index),false,compressed)?;Ok(())" := by decide
theorem body_tableClaimedPlan :
    tableClaimedPlan_body =
      "self.overwrite_chain(key,value,log,Some(index),true,compressed)?;Ok(())" := by decide
theorem body_tableIncRef :
    tableIncRef_body =
      "self.change_ref(index,1,log)?;Ok(())" := by decide
theorem body_tableDecRef :
    tableDecRef_body =
      "if self.change_ref(index,-1,log)?{return Ok(true)}self.write_remove_plan(index,log)?;Ok(false)" := by decide
theorem body_tableReadNextPart :
    tableReadNextPart_body =
      "let mut buf=PartialEntry::new_uninit();if!log.value(self.id,index,buf.as_mut()){self.file.read_at(buf.as_mut(),index*self.entry_size as u64)?;}if self.multipart&&buf.is_multi(self.db_version){buf.skip_size();let next=buf.read_next();return Ok(Some(next))}Ok(None)" := by decide
theorem body_colGetSize :
    colGetSize_body =
      "Ok(self.get(key,log)?.map(|(v,_rc)|v.len()as u32))" := by decide
theorem body_colWriteReindexPlan :
    colWriteReindexPlan_body =
      "let tables=self.tables.upgradable_read();let reindex=self.reindex.upgradable_read();self.write_reindex_plan_locked(tables,reindex,key,address,log)" := by decide

end Pdb.OrdS
