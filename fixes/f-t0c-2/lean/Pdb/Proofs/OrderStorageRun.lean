/-
T0, storage layer, third file: GENERATED = MODEL for the free-list and reference-count functions of src/table.rs
(`ValueTable::next_free`, `read_next_free`, `clear_slot`, `write_remove_plan`; second round: `clear_chain` with a loop rule,
`write_dec_ref` / `write_inc_ref`, `claim_entries` with a `for` rule against `MultiTree.claimEntries`).  See Pdb/Proofs/OrderStorage.lean for the
reach of the tie; kept apart so that the three files build in parallel.
-/
import Pdb.Gen.Storage
import Pdb.Model.ValueTable
import Pdb.Model.MultiTree

namespace Pdb.OrdS
open Pdb.Gen.Storage Marker

/-! ## the free-list functions RUN: generated statement trees under a fixed semantics = the model functions

`tools/rs2lean_storage.py` emits for `next_free`, `read_next_free`, `clear_slot`, `write_remove_plan` the statement TREE
(`<fn>_prog : List Prog`): every marker occurrence with the complete statement around it, nested in the block headers
it depends on.  Below, each pinned statement TEXT and each header TEXT gets a meaning on a small machine state
(`sem`, `condSem`: the table of the model plus the locals these functions use); a text that is not in the table is an
error, so the theorems fail rather than guess.  Running the generated tree is then proved EQUAL to the hand-written
model function for every table state.  Consequences for edits of the Rust: a reordering that does not change the result
(two independent loads swapped, the head stored before the slot image is logged) keeps these theorems; moving
`dirty_header.store` into one branch, linking the tombstone to something else, returning the wrong slot, dropping the
bound check of the link, or negating the `multipart` test breaks them.
Modelling decisions (not derived): the in-memory stack `free_entries` (a mirror of the on-disk chain, multitree columns
only) is not part of `ValueTable.VT`, its two blocks are skipped; the trees contain marker occurrences only, so an early
exit that is not a marker would be invisible here: `OrdS.no_early_exit` (OrderStorage.lean) shows there is none in
`next_free` / `clear_slot` / `write_remove_plan` and exactly the corruption return in `read_next_free`; "log overlay, else file" is one read of the model
state (file + overlay).  Second round: `loop { .. }` and `for _i in 0..num { .. }` have rules of their own (`iter` with the
fuel of the model, `times`), so `clear_chain` and `claim_entries` are run as well; a call in an `if` header / `match`
scrutinee is executed by the act of the block marker, its result is what the header / the arms test.
`change_ref` has its tree generated (`changeRef_prog`) and its semantics in `sem` / `condSem`, but the equality with
`ValueTable.changeRef` is NOT proved here (the `simp` run over its 30-node tree does not finish on the non-tombstone paths);
`write_dec_ref` is therefore proved against the model with `change_ref` taken from the model. -/

inductive RErr where
  | wr (e : ValueTable.WrErr)
  | unknown (what : String)

/-- machine state: the table, the parameter / locals of the four functions, the header flag, the result -/
structure RSt where
  t : ValueTable.VT
  index : Nat := 0
  filled : Nat := 0
  lastRemoved : Nat := 0
  nextRemoved : Nat := 0
  next : Nat := 0
  buf : ValueTable.Bytes := []
  dirty : Bool := false
  cleared : List Nat := []
  ret : Option Nat := none
  /-- `change_ref`: the entry buffer (`rbuf`, read position `off`), `size`, `rc_offset`, `counter`, sign of `delta` -/
  rbuf : ValueTable.Bytes := []
  off : Nat := 0
  size : Nat := 0
  rcOff : Nat := 0
  counter : Nat := 0
  inc : Bool := false
  /-- result of a call made in an `if` header / `match` scrutinee -/
  flag : Bool := false
  part : Option Nat := none
  /-- bound of `loop` iterations (`ValueTable.clearChain` takes the same fuel) -/
  fuel : Nat := 0
  /-- `claim_entries`: `num`, the in-memory stack `free_entries.stack` (head = top), the result vector -/
  num : Nat := 0
  stack : List Nat := []
  entries : List Nat := []

/-- meaning of the block headers -/
def condSem (h : String) : Option (RSt → Bool) :=
  if h = "if last_removed!=0" then some (fun s => s.lastRemoved != 0)
  else if h = "if last_removed!=0{}else" then some (fun s => s.lastRemoved == 0)
  else if h = "if next>=filled" then some (fun s => decide (s.filled ≤ s.next))
  else if h = "if self.multipart" then some (fun s => s.t.multipart)
  else if h = "if self.multipart{}else" then some (fun s => !s.t.multipart)
  else if h = "if let Some(free_entries)=&self.free_entries" then some (fun _ => false)
  else if h = "if let Some(mut free_entries)=free_entries_guard" then some (fun _ => false)
  else if h = "if!log.value(self.id,index,buf.as_mut())" then some (fun _ => true)
  else if h = "if log.value(self.id,index,buf.as_mut()){}else" then some (fun _ => true)
  else if h = "if buf.is_tombstone()" then some (fun s => decide (ValueTable.isTombstone s.rbuf))
  else if h = "if self.multipart&&buf.is_multi(self.db_version)" then
    some (fun s => decide (s.t.multipart = true ∧ ValueTable.isMulti s.rbuf))
  else if h = "if self.multipart&&buf.is_multi(self.db_version){}else" then
    some (fun s => !decide (s.t.multipart = true ∧ ValueTable.isMulti s.rbuf))
  else if h = "if delta>0" then some (fun s => s.inc)
  else if h = "if delta>0{}else" then some (fun s => !s.inc)
  else if h = "if counter>=LOCKED_REF-delta as u32" then some (fun s => decide (Pdb.Gen.LOCKED_REF - 1 ≤ s.counter))
  else if h = "if counter>=LOCKED_REF-delta as u32{}else" then some (fun s => !decide (Pdb.Gen.LOCKED_REF - 1 ≤ s.counter))
  else if h = "if counter!=LOCKED_REF" then some (fun s => decide (s.counter ≠ Pdb.Gen.LOCKED_REF))
  else if h = "if counter==0" then some (fun s => decide (s.counter = 0))
  else if h = "if self.change_ref(index,-1,log)?" then some (fun s => s.flag)
  else if h = "match self.read_next_part(index,log)?" then some (fun _ => true)
  else if h = "Some(next)=>" then some (fun s => s.part.isSome)
  else if h = "None=>" then some (fun s => s.part.isNone)
  else if h = "match&self.free_entries" then some (fun _ => true)
  else if h = "Some(free_entries)=>" then some (fun _ => true)
  else none

/-- `stmt` must be the expected text -/
def expect (stmt want : String) (r : RSt) : Except RErr RSt :=
  if stmt = want then .ok r else .error (.unknown stmt)

/-- meaning of the marker occurrences; `callRead` / `callSlot` / `callChain` interpret the calls of `read_next_free`,
    `clear_slot`, `clear_chain` -/
def sem (callRead : ValueTable.VT → Nat → Except RErr Nat) (callSlot : ValueTable.VT → Nat → Except RErr ValueTable.VT)
    (callChain : ValueTable.VT → Nat → Except RErr (ValueTable.VT × List Nat))
    (callRef : ValueTable.VT → Nat → Bool → Except RErr (ValueTable.VT × Bool))
    (callRemove : ValueTable.VT → Nat → Except RErr (ValueTable.VT × List Nat))
    (m : Marker) (stmt : String) (s : RSt) : Except RErr RSt :=
  match m with
  | .popStack => expect stmt "let last=free_entries.stack.pop().unwrap()" { s with stack := s.stack.tail }
  | .peekStack =>
    expect stmt "let next_removed=*free_entries.stack.last().unwrap_or(&0u64)" { s with nextRemoved := s.stack.head?.getD 0 }
  | .pushEntry => expect stmt "entries.push(index)" { s with entries := s.entries ++ [s.index] }
  | .returnEntries => expect stmt "Ok(entries)" { s with ret := some 0 }
  | .matchFreeEntries | .forClaim => .ok s
  | .lockFree | .ifStack | .pushStack | .ifHaveRemoved | .ifBadNext | .ifTombstone | .ifMultiEntry | .ifIncrement
  | .ifSaturate | .ifNotLocked | .ifCounterZero | .growLoop => .ok s
  | .loadFilled => expect stmt "let filled=self.filled.load(Ordering::Relaxed)" { s with filled := s.t.filled }
  | .loadLastRemoved =>
    expect stmt "let last_removed=self.last_removed.load(Ordering::Relaxed)" { s with lastRemoved := s.t.lastRemoved }
  | .readNextFree =>
    if stmt = "let next_removed=self.read_next_free(last_removed,log)?" then
      match callRead s.t s.lastRemoved with
      | .ok n => .ok { s with nextRemoved := n }
      | .error e => .error e
    else .error (.unknown stmt)
  | .storeLastRemoved =>
    if stmt = "self.last_removed.store(next_removed,Ordering::Relaxed)" then
      .ok { s with t := { s.t with lastRemoved := s.nextRemoved } }
    else if stmt = "self.last_removed.store(index,Ordering::Relaxed)" then
      .ok { s with t := { s.t with lastRemoved := s.index } }
    else .error (.unknown stmt)
  | .storeFilled =>
    expect stmt "self.filled.store(filled+1,Ordering::Relaxed)" { s with t := { s.t with filled := s.filled + 1 } }
  | .tailLastRemoved => expect stmt "last_removed" { s with index := s.lastRemoved }
  | .tailFilled => expect stmt "filled" { s with index := s.filled }
  | .setDirtyHeader => expect stmt "self.dirty_header.store(true,Ordering::Relaxed)" { s with dirty := true }
  | .returnIndex => expect stmt "Ok(index)" { s with ret := some s.index }
  | .readBuf => .ok { s with buf := s.t.slots s.index }
  | .readFile =>
    expect stmt "self.file.read_at(buf.as_mut(),index*self.entry_size as u64)?" { s with buf := s.t.slots s.index }
  | .skipSize => expect stmt "buf.skip_size()" { s with buf := s.buf.drop Pdb.Gen.SIZE_SIZE, off := s.off + Pdb.Gen.SIZE_SIZE }
  | .readNext =>
    expect stmt "let next=buf.read_next()" { s with next := ValueTable.fromLe (s.buf.take Pdb.Gen.INDEX_SIZE) }
  | .returnCorruption => .error (.wr .corruption)
  | .returnNext => expect stmt "Ok(next)" { s with ret := some s.next }
  | .writeTombstone => expect stmt "buf.write_tombstone()" { s with buf := Pdb.Gen.TOMBSTONE }
  | .writeNext =>
    expect stmt "buf.write_next(last_removed)"
      { s with buf := s.buf ++ ValueTable.leBytes Pdb.Gen.INDEX_SIZE s.lastRemoved }
  | .insertValue =>
    if stmt = "log.insert_value(self.id,index,buf[0..buf.offset()].to_vec())" then .ok { s with t := s.t.setSlot s.index s.buf }
    else if stmt = "log.insert_value(self.id,index,buf[0..size].to_vec())" then
      .ok { s with t := s.t.setSlot s.index (s.rbuf.take s.size) }
    else .error (.unknown stmt)
  -- `change_ref`
  | .readSlot => .ok { s with rbuf := s.t.slots s.index, off := 0 }
  | .readSlotFile =>
    expect stmt "self.file.read_at(&mut buf[0..self.entry_size as usize],index*self.entry_size as u64)?"
      { s with rbuf := s.t.slots s.index, off := 0 }
  | .returnFalse => expect stmt "return Ok(false)" { s with ret := some 0 }
  | .skipNext => expect stmt "buf.skip_next()" { s with off := s.off + Pdb.Gen.INDEX_SIZE }
  | .tailEntrySize => expect stmt "self.entry_size as usize" { s with size := s.t.entrySize }
  | .readSize =>
    expect stmt "let(size,_compressed)=buf.read_size()"
      { s with size := (ValueTable.readSize (s.rbuf.drop s.off)).1, off := s.off + Pdb.Gen.SIZE_SIZE }
  | .tailOffsetPlusSize => expect stmt "buf.offset()+size as usize" { s with size := s.off + s.size }
  | .rcOffset => expect stmt "let rc_offset=buf.offset()" { s with rcOff := s.off }
  | .readRc =>
    expect stmt "let mut counter=buf.read_rc()"
      { s with counter := ValueTable.fromLe ((s.rbuf.drop s.off).take Pdb.Gen.REFS_SIZE), off := s.off + Pdb.Gen.REFS_SIZE }
  | .lockCounter => expect stmt "counter=LOCKED_REF" { s with counter := Pdb.Gen.LOCKED_REF }
  | .addCounter => expect stmt "counter+=delta as u32" { s with counter := s.counter + 1 }
  | .subCounter => expect stmt "counter=counter.saturating_sub(-delta as u32)" { s with counter := s.counter - 1 }
  | .setRcOffset => expect stmt "buf.set_offset(rc_offset)" { s with off := s.rcOff }
  | .writeRc =>
    expect stmt "buf.write_rc(counter)"
      { s with rbuf := s.rbuf.take s.off ++ ValueTable.leBytes Pdb.Gen.REFS_SIZE s.counter ++
                 s.rbuf.drop (s.off + Pdb.Gen.REFS_SIZE),
               off := s.off + Pdb.Gen.REFS_SIZE }
  | .returnTrue => expect stmt "Ok(true)" { s with ret := some 1 }
  -- `write_inc_ref` / `write_dec_ref`
  | .ifChangeRefDec =>
    if stmt = "if self.change_ref(index,-1,log)?" then
      match callRef s.t s.index false with
      | .ok r => .ok { s with t := r.1, flag := r.2 }
      | .error e => .error e
    else .error (.unknown stmt)
  | .callChangeRefInc =>
    if stmt = "self.change_ref(index,1,log)?" then
      match callRef s.t s.index true with
      | .ok r => .ok { s with t := r.1, flag := r.2 }
      | .error e => .error e
    else .error (.unknown stmt)
  | .returnTrueEarly => expect stmt "return Ok(true)" { s with ret := some 1 }
  | .callRelease =>
    if stmt = "self.write_remove_plan(index,log)?" then
      match callRemove s.t s.index with
      | .ok r => .ok { s with t := r.1, cleared := r.2 }
      | .error e => .error e
    else if stmt = "self.clear_slot(index,log)?" then
      match callSlot s.t s.index with
      | .ok t' => .ok { s with t := t', cleared := [s.index] }
      | .error e => .error e
    else .error (.unknown stmt)
  | .returnFalseTail => expect stmt "Ok(false)" { s with ret := some 0 }
  -- `clear_chain`
  | .readNextPart => .ok { s with part := ValueTable.nextPart s.t s.index, next := (ValueTable.nextPart s.t s.index).getD 0 }
  | .assignIndexNext => expect stmt "index=next" { s with index := s.next }
  | .returnOkUnit => expect stmt "return Ok(())" { s with ret := some 0 }
  | .callClearChain =>
    if stmt = "self.clear_chain(index,log)?" then
      match callChain s.t s.index with
      | .ok r => .ok { s with t := r.1, cleared := r.2 }
      | .error e => .error e
    else .error (.unknown stmt)
  | .callClearSlot =>
    if stmt = "self.clear_slot(index,log)?" then
      match callSlot s.t s.index with
      | .ok t' => .ok { s with t := t', cleared := s.cleared ++ [s.index] }
      | .error e => .error e
    else .error (.unknown stmt)
  | .returnOkTail => expect stmt "Ok(())" { s with ret := some 0 }
  | _ => .error (.unknown stmt)

/-- the header of the `else` part that belongs to node `p`, if `p` is a block that is entered in state `s` -/
def takenElse (p : Prog) (s : RSt) : Option String :=
  match p with
  | .act _ _ => none
  | .blk h _ => match condSem h with
    | some c => if c s then some (h ++ "{}else") else none
    | none => none

/-- `p` is the `else` part with header `skip` -/
def isElseOf (skip : Option String) (p : Prog) : Bool :=
  match skip, p with
  | some h', .blk h _ => h == h'
  | _, _ => false

/-- `loop { body }`: run the body until a `return`; more than `n` rounds = the Rust loop does not end -/
def iter (f : RSt → Except RErr RSt) : Nat → RSt → Except RErr RSt
  | 0, _ => .error (.wr .diverge)
  | n + 1, s =>
    match f s with
    | .error e => .error e
    | .ok s' => if s'.ret.isSome then .ok s' else iter f n s'

/-- `for _ in 0..n { body }`: run the body `n` times (a `return` ends it) -/
def times (f : RSt → Except RErr RSt) : Nat → RSt → Except RErr RSt
  | 0, s => .ok s
  | n + 1, s =>
    match f s with
    | .error e => .error e
    | .ok s' => if s'.ret.isSome then .ok s' else times f n s'

mutual
/-- run one node: an action, a `loop`, or a block whose body runs iff its header holds -/
def runP (sm : Marker → String → RSt → Except RErr RSt) : Prog → RSt → Except RErr RSt
  | .act m stmt, s => sm m stmt s
  | .blk h body, s =>
    if h = "loop" then iter (runL sm none body) s.fuel s
    else if h = "for _i in 0..num" then times (runL sm none body) s.num s
    else
      match condSem h with
      | none => .error (.unknown h)
      | some c => if c s then runL sm none body s else .ok s
/-- run a statement list; a `return` (result set) ends it; the `else` part of a block that was entered is skipped
    (`skip` = its header), the `else` part of a block that was not entered runs in the unchanged state -/
def runL (sm : Marker → String → RSt → Except RErr RSt) : Option String → List Prog → RSt → Except RErr RSt
  | _, [], s => .ok s
  | skip, p :: ps, s =>
    if isElseOf skip p then runL sm none ps s
    else
      match runP sm p s with
      | .error e => .error e
      | .ok s' => if s'.ret.isSome then .ok s' else runL sm (takenElse p s) ps s'
end

def noRead : ValueTable.VT → Nat → Except RErr Nat := fun _ _ => .error (.unknown "call")
def noSlot : ValueTable.VT → Nat → Except RErr ValueTable.VT := fun _ _ => .error (.unknown "call")
def noChain : ValueTable.VT → Nat → Except RErr (ValueTable.VT × List Nat) := fun _ _ => .error (.unknown "call")
def noRef : ValueTable.VT → Nat → Bool → Except RErr (ValueTable.VT × Bool) := fun _ _ _ => .error (.unknown "call")

/-- `read_next_free(index, log)` as generated -/
def readNextFreeRun (t : ValueTable.VT) (i : Nat) : Except RErr Nat :=
  match runL (sem noRead noSlot noChain noRef noChain) none readNextFreeFn_prog { t := t, index := i } with
  | .ok s => .ok (s.ret.getD 0)
  | .error e => .error e

/-- `next_free(log)` as generated: (table, result, dirty_header) -/
def nextFreeRun (t : ValueTable.VT) : Except RErr (ValueTable.VT × Nat × Bool) :=
  match runL (sem readNextFreeRun noSlot noChain noRef noChain) none nextFree_prog { t := t } with
  | .ok s => .ok (s.t, s.ret.getD 0, s.dirty)
  | .error e => .error e

/-- `clear_slot(index, log)` as generated: (table, dirty_header) -/
def clearSlotRun (t : ValueTable.VT) (i : Nat) : Except RErr (ValueTable.VT × Bool) :=
  match runL (sem noRead noSlot noChain noRef noChain) none clearSlot_prog { t := t, index := i } with
  | .ok s => .ok (s.t, s.dirty)
  | .error e => .error e

/-- `write_remove_plan(index, log)` as generated, for given meanings of its two callees: (table, cleared slots) -/
def removePlanRunWith (cs : ValueTable.VT → Nat → Except RErr ValueTable.VT)
    (cc : ValueTable.VT → Nat → Except RErr (ValueTable.VT × List Nat)) (t : ValueTable.VT) (i : Nat) :
    Except RErr (ValueTable.VT × List Nat) :=
  match runL (sem noRead cs cc noRef noChain) none removePlanFn_prog { t := t, index := i } with
  | .ok s => .ok (s.t, s.cleared)
  | .error e => .error e

/-- lift of a model result -/
def ofModel {α : Type} : Except ValueTable.WrErr α → Except RErr α
  | .ok a => .ok a
  | .error e => .error (.wr e)

theorem readNextFree_run_eq (t : ValueTable.VT) (i : Nat) :
    readNextFreeRun t i =
      if t.filled ≤ ValueTable.linkOf (t.slots i) then .error (.wr .corruption) else .ok (ValueTable.linkOf (t.slots i)) := by
  unfold ValueTable.linkOf
  by_cases h : t.filled ≤ ValueTable.fromLe (((t.slots i).drop Pdb.Gen.SIZE_SIZE).take Pdb.Gen.INDEX_SIZE)
  · simp [readNextFreeRun, readNextFreeFn_prog, runL, runP, sem, condSem, expect, takenElse, isElseOf, h]
  · simp [readNextFreeRun, readNextFreeFn_prog, runL, runP, sem, condSem, expect, takenElse, isElseOf, h]

/-- GENERATED = MODEL.  Running the generated tree of `ValueTable::next_free` gives exactly `ValueTable.nextFree`, and
    `dirty_header` is set on every successful path. -/
theorem nextFree_run_eq_model (t : ValueTable.VT) :
    nextFreeRun t = ofModel ((ValueTable.nextFree t).map (fun r => (r.1, r.2, true))) := by
  by_cases h0 : t.lastRemoved = 0
  · simp [nextFreeRun, nextFree_prog, runL, runP, sem, condSem, expect, takenElse, isElseOf, ValueTable.nextFree, ofModel, h0, Except.map]
  · by_cases hb : t.filled ≤ ValueTable.linkOf (t.slots t.lastRemoved)
    · simp [nextFreeRun, nextFree_prog, runL, runP, sem, condSem, expect, takenElse, isElseOf, ValueTable.nextFree, ofModel, h0, hb,
        readNextFree_run_eq, Except.map]
    · simp [nextFreeRun, nextFree_prog, runL, runP, sem, condSem, expect, takenElse, isElseOf, ValueTable.nextFree, ofModel, h0, hb,
        readNextFree_run_eq, Except.map]

/-- GENERATED = MODEL.  `ValueTable::clear_slot` = `ValueTable.clearSlot`, with `dirty_header` set. -/
theorem clearSlot_run_eq_model (t : ValueTable.VT) (i : Nat) :
    clearSlotRun t i = .ok (ValueTable.clearSlot t i, true) := by
  simp [clearSlotRun, clearSlot_prog, runL, runP, sem, condSem, expect, takenElse, isElseOf, ValueTable.clearSlot, ValueTable.VT.setSlot]

/-- the generated `write_remove_plan` for ANY meaning of its two callees: chain iff `multipart` -/
theorem removePlan_run_with (cs : ValueTable.VT → Nat → Except RErr ValueTable.VT)
    (cc : ValueTable.VT → Nat → Except RErr (ValueTable.VT × List Nat)) (t : ValueTable.VT) (i : Nat) :
    removePlanRunWith cs cc t i =
      if t.multipart then cc t i else (match cs t i with | .ok t' => .ok (t', [i]) | .error e => .error e) := by
  cases hm : t.multipart
  · cases hs : cs t i <;>
      simp [removePlanRunWith, removePlanFn_prog, runL, runP, sem, condSem, expect, takenElse, isElseOf, hm, hs]
  · cases hc : cc t i <;>
      simp [removePlanRunWith, removePlanFn_prog, runL, runP, sem, condSem, expect, takenElse, isElseOf, hm, hc]

/-- `write_remove_plan(index, log)` as generated, `clear_slot` = the generated one, `clear_chain` = the model's -/
def removePlanRun (t : ValueTable.VT) (i : Nat) : Except RErr (ValueTable.VT × List Nat) :=
  removePlanRunWith (fun t i => (clearSlotRun t i).map (·.1)) (fun t i => ofModel (ValueTable.clearChain t t.filled i)) t i

/-- GENERATED = MODEL.  `ValueTable::write_remove_plan` = `ValueTable.removePlan`. -/
theorem removePlan_run_eq_model (t : ValueTable.VT) (i : Nat) :
    removePlanRun t i = ofModel (ValueTable.removePlan t i) := by
  rw [removePlanRun, removePlan_run_with]
  cases hm : t.multipart <;> simp [ValueTable.removePlan, hm, clearSlot_run_eq_model, Except.map, ofModel]

/-! ## `change_ref`, `write_inc_ref` / `write_dec_ref`, `clear_chain`

`delta` is `+1` (`write_inc_ref`) or `-1` (`write_dec_ref`), the only two callers: the state carries its sign (`inc`), and
`LOCKED_REF - delta as u32` / `counter += delta as u32` / `saturating_sub(-delta as u32)` are read with `|delta| = 1`
(`ValueTable.changeRef` has the same restriction).  The entry buffer is the slot image with a read position. -/

/-- `change_ref(index, ±1, log)` as generated: (table, result) -/
def changeRefRun (t : ValueTable.VT) (i : Nat) (inc : Bool) : Except RErr (ValueTable.VT × Bool) :=
  match runL (sem noRead noSlot noChain noRef noChain) none changeRef_prog { t := t, index := i, inc := inc } with
  | .ok s => .ok (s.t, s.ret == some 1)
  | .error e => .error e

/-- `write_dec_ref(index, log)` as generated, for given meanings of its callees: (table, `true` = still referenced) -/
def decRefRunWith (cr : ValueTable.VT → Nat → Bool → Except RErr (ValueTable.VT × Bool))
    (crm : ValueTable.VT → Nat → Except RErr (ValueTable.VT × List Nat))
    (cs : ValueTable.VT → Nat → Except RErr ValueTable.VT) (t : ValueTable.VT) (i : Nat) :
    Except RErr (ValueTable.VT × Bool) :=
  match runL (sem noRead cs noChain cr crm) none decRefFn_prog { t := t, index := i } with
  | .ok s => .ok (s.t, s.ret == some 1)
  | .error e => .error e

/-- the generated `write_dec_ref` for ANY meaning of its callees: `change_ref(index, -1)`, and iff that reports `false`
    the release function that the source names - `write_remove_plan` (whole chain of a multipart value) -/
theorem decRef_run_with (cr : ValueTable.VT → Nat → Bool → Except RErr (ValueTable.VT × Bool))
    (crm : ValueTable.VT → Nat → Except RErr (ValueTable.VT × List Nat))
    (cs : ValueTable.VT → Nat → Except RErr ValueTable.VT) (t : ValueTable.VT) (i : Nat) :
    decRefRunWith cr crm cs t i =
      (match cr t i false with
       | .error e => .error e
       | .ok (t1, true) => .ok (t1, true)
       | .ok (t1, false) => (match crm t1 i with | .ok r => .ok (r.1, false) | .error e => .error e)) := by
  rcases hc : cr t i false with e | ⟨t1, b⟩
  · simp [decRefRunWith, decRefFn_prog, runL, runP, sem, condSem, expect, takenElse, isElseOf, hc]
  · cases b
    · rcases hr : crm t1 i with e | r <;>
        simp [decRefRunWith, decRefFn_prog, runL, runP, sem, condSem, expect, takenElse, isElseOf, hc, hr]
    · simp [decRefRunWith, decRefFn_prog, runL, runP, sem, condSem, expect, takenElse, isElseOf, hc]

/-- `write_inc_ref(index, log)` as generated, for a given meaning of `change_ref` -/
def incRefRunWith (cr : ValueTable.VT → Nat → Bool → Except RErr (ValueTable.VT × Bool)) (t : ValueTable.VT) (i : Nat) :
    Except RErr ValueTable.VT :=
  match runL (sem noRead noSlot noChain cr noChain) none incRefFn_prog { t := t, index := i } with
  | .ok s => .ok s.t
  | .error e => .error e

/-- the generated `write_inc_ref` for ANY meaning of `change_ref`: `change_ref(index, +1)`, result dropped -/
theorem incRef_run_with (cr : ValueTable.VT → Nat → Bool → Except RErr (ValueTable.VT × Bool)) (t : ValueTable.VT) (i : Nat) :
    incRefRunWith cr t i = (match cr t i true with | .ok r => .ok r.1 | .error e => .error e) := by
  rcases hc : cr t i true with e | r <;>
    simp [incRefRunWith, incRefFn_prog, runL, runP, sem, expect, takenElse, isElseOf, hc]

/-! ### `clear_chain`: the loop rule -/

/-- the body of the `loop` of `clear_chain`, as generated -/
def clearChainBody : List Prog :=
  match clearChainFn_prog with
  | [_, .blk _ body] => body
  | _ => []

/-- the semantics `clear_chain` runs under: `clear_slot` = the generated one -/
def chainSem : Marker → String → RSt → Except RErr RSt :=
  sem noRead (fun t i => (clearSlotRun t i).map (·.1)) noChain noRef noChain

/-- `clear_chain(index, log)` as generated, at most `fuel` rounds: (table, cleared slots) -/
def clearChainRun (fuel : Nat) (t : ValueTable.VT) (i : Nat) : Except RErr (ValueTable.VT × List Nat) :=
  match runL chainSem none clearChainFn_prog { t := t, index := i, fuel := fuel } with
  | .ok s => .ok (s.t, s.cleared)
  | .error e => .error e

/-- the statement text of the `loop` of `clear_chain` (not interpreted: its parts are the nodes below it) -/
def clearHead : String :=
  match clearChainFn_prog with
  | (.act _ st) :: _ => st
  | _ => ""

/-- the generated program is `loop { body }` -/
theorem clearChain_is_loop (s : RSt) (h : s.ret = none) :
    runL chainSem none clearChainFn_prog s = iter (runL chainSem none clearChainBody) s.fuel s := by
  have hb : clearChainFn_prog = [.act .growLoop clearHead, .blk "loop" clearChainBody] := by rfl
  rw [hb]
  simp only [runL, runP, isElseOf, chainSem, sem]
  simp [h, takenElse]
  cases hi : iter (runL (sem noRead (fun t i => Except.map (fun x => x.fst) (clearSlotRun t i)) noChain noRef noChain) none
      clearChainBody) s.fuel s <;> simp

/-- state after a round that found the continuation `nx` -/
def roundSome (s : RSt) (nx : Nat) : RSt :=
  { s with
    part := some nx
    next := nx
    t := ValueTable.clearSlot s.t s.index
    cleared := s.cleared ++ [s.index]
    index := nx }

/-- state after the last round -/
def roundNone (s : RSt) : RSt :=
  { s with
    part := none
    next := 0
    t := ValueTable.clearSlot s.t s.index
    cleared := s.cleared ++ [s.index]
    ret := some 0 }

/-- one round: the slot is cleared; with a continuation the loop goes on there, without one it returns -/
theorem clearChain_round (s : RSt) (h : s.ret = none) :
    runL chainSem none clearChainBody s =
      (match ValueTable.nextPart s.t s.index with
       | some nx => .ok (roundSome s nx)
       | none => .ok (roundNone s)) := by
  cases hp : ValueTable.nextPart s.t s.index <;>
    simp [clearChainBody, clearChainFn_prog, chainSem, runL, runP, sem, condSem, expect, takenElse, isElseOf, hp, h,
      clearSlot_run_eq_model, Except.map, roundSome, roundNone]

/-- the loop = `ValueTable.clearChain` with the same fuel (projection on table and cleared slots) -/
theorem clearChain_iter (fuel : Nat) : ∀ s : RSt, s.ret = none →
    (match iter (runL chainSem none clearChainBody) fuel s with
     | .ok s' => Except.ok (s'.t, s'.cleared)
     | .error e => .error e) =
    (match ValueTable.clearChain s.t fuel s.index with
     | .ok r => .ok (r.1, s.cleared ++ r.2)
     | .error e => .error (.wr e)) := by
  induction fuel with
  | zero => intro s _; simp [iter, ValueTable.clearChain]
  | succ n ih =>
    intro s h
    simp only [iter, clearChain_round s h, ValueTable.clearChain]
    cases hp : ValueTable.nextPart s.t s.index with
    | none => simp [roundNone]
    | some nx =>
      have hr : (roundSome s nx).ret = none := h
      have := ih (roundSome s nx) hr
      simp only [hr, Option.isSome_none, Bool.false_eq_true, if_false]
      rw [this]
      simp only [roundSome]
      cases ValueTable.clearChain (ValueTable.clearSlot s.t s.index) n nx <;> simp

/-- GENERATED = MODEL.  `ValueTable::clear_chain` = `ValueTable.clearChain` for every fuel (exhaustion = the Rust loop does
    not end: a cyclic chain), with `clear_slot` the generated one. -/
theorem clearChain_run_eq_model (fuel : Nat) (t : ValueTable.VT) (i : Nat) :
    clearChainRun fuel t i = ofModel (ValueTable.clearChain t fuel i) := by
  have h := clearChain_iter fuel { t := t, index := i, fuel := fuel } rfl
  have hl := clearChain_is_loop { t := t, index := i, fuel := fuel } rfl
  simp only [List.nil_append] at h
  unfold clearChainRun
  rw [hl]
  show (match iter (runL chainSem none clearChainBody) fuel { t := t, index := i, fuel := fuel } with
    | .ok s' => Except.ok (s'.t, s'.cleared)
    | .error e => .error e) = _
  rw [h]
  cases ValueTable.clearChain t fuel i <;> rfl

/-- `write_remove_plan` as generated with BOTH callees generated (`clear_slot`, `clear_chain` with fuel `filled`) -/
def removePlanRunGen (t : ValueTable.VT) (i : Nat) : Except RErr (ValueTable.VT × List Nat) :=
  removePlanRunWith (fun t i => (clearSlotRun t i).map (·.1)) (fun t i => clearChainRun t.filled t i) t i

/-- GENERATED = MODEL.  `write_remove_plan` over the generated `clear_slot` and `clear_chain` = `ValueTable.removePlan`. -/
theorem removePlan_gen_eq_model (t : ValueTable.VT) (i : Nat) :
    removePlanRunGen t i = ofModel (ValueTable.removePlan t i) := by
  rw [removePlanRunGen, removePlan_run_with]
  cases hm : t.multipart <;>
    simp [ValueTable.removePlan, hm, clearSlot_run_eq_model, clearChain_run_eq_model, Except.map, ofModel]

theorem ite_false_keeps {α : Type} (p : Prop) [Decidable p] (t x : α) :
    (if p then (t, false) else (x, true)).2 = false → (if p then (t, false) else (x, true)).1 = t := by
  split <;> simp

/-- a `change_ref` that reports `false` (tombstone, or the count reached zero) leaves the table alone -/
theorem changeRef_false_keeps (t : ValueTable.VT) (i : Nat) (inc : Bool) :
    (ValueTable.changeRef t i inc).2 = false → (ValueTable.changeRef t i inc).1 = t := by
  intro h
  by_cases ht : ValueTable.isTombstone (t.slots i)
  · simp [ValueTable.changeRef, ht]
  · unfold ValueTable.changeRef at h ⊢
    simp only [ht, if_false] at h ⊢
    exact ite_false_keeps _ _ _ h

/-- `write_dec_ref` as generated: `change_ref` = the model's, `write_remove_plan` = the generated one above -/
def decRefRun (t : ValueTable.VT) (i : Nat) : Except RErr (ValueTable.VT × Bool) :=
  decRefRunWith (fun t i b => .ok (ValueTable.changeRef t i b)) removePlanRunGen
    (fun t i => (clearSlotRun t i).map (·.1)) t i

/-- GENERATED = MODEL.  `ValueTable::write_dec_ref` = `ValueTable.decRef` (`RefineRc.rDecRef`): decrement, and iff the count
    reached zero release the value through `write_remove_plan` - the whole chain of a multipart value (seeded defect
    C14-c14e calls `clear_slot`, which frees the head slot only). -/
theorem decRef_run_eq_model (t : ValueTable.VT) (i : Nat) :
    decRefRun t i = ofModel (ValueTable.decRef t i) := by
  rw [decRefRun, decRef_run_with]
  rcases hc : ValueTable.changeRef t i false with ⟨t1, b⟩
  cases b
  · have hk : t1 = t := by
      have := changeRef_false_keeps t i false (by rw [hc])
      rw [hc] at this; exact this
    subst hk
    simp only [ValueTable.decRef, hc, removePlan_gen_eq_model]
    cases ValueTable.removePlan t1 i <;> rfl
  · simp [ValueTable.decRef, hc, ofModel]

/-! ### `claim_entries`: the `for` rule, against `MultiTree.claimEntries`

The multitree allocator keeps the free list twice: on disk (tombstone chain from `last_removed`) and as the in-memory stack
`free_entries.stack`; `claim_entries` pops the stack and takes the new head from it.  The model `MultiTree.claimEntries n free next`
works on the stack (head = top) and the fill mark.  Invariant that ties the two views: `last_removed` is the top of the stack
(0 when it is empty) and 0 is never a free slot (slot 0 is the header). -/

def claimSem : Marker → String → RSt → Except RErr RSt := sem noRead noSlot noChain noRef noChain

/-- the body of the `for` loop of `claim_entries`, as generated -/
def claimBody : List Prog :=
  match claimEntries_prog with
  | [_, .blk _ [.blk _ [_, _, .blk _ body, _, _]]] => body
  | _ => []

/-- `claim_entries(num)` as generated: (table, stack, claimed entries, dirty_header) -/
def claimRun (n : Nat) (t : ValueTable.VT) (stack : List Nat) :
    Except RErr (ValueTable.VT × List Nat × List Nat × Bool) :=
  match runL claimSem none claimEntries_prog { t := t, num := n, stack := stack } with
  | .ok s => .ok (s.t, s.stack, s.entries, s.dirty)
  | .error e => .error e

/-- the invariant between table header and in-memory stack -/
def StackInv (t : ValueTable.VT) (stack : List Nat) : Prop := t.lastRemoved = stack.head?.getD 0 ∧ 0 ∉ stack

/-- state after one round of the `for` body -/
def claimStep (s : RSt) : RSt :=
  match s.stack with
  | a :: rest =>
    { s with filled := s.t.filled, lastRemoved := a, stack := rest, nextRemoved := rest.head?.getD 0,
             t := { s.t with lastRemoved := rest.head?.getD 0 }, index := a, entries := s.entries ++ [a] }
  | [] =>
    { s with filled := s.t.filled, lastRemoved := 0, t := { s.t with filled := s.t.filled + 1 }, index := s.t.filled,
             entries := s.entries ++ [s.t.filled] }

theorem claim_round (s : RSt) (h : s.ret = none) (hi : StackInv s.t s.stack) :
    runL claimSem none claimBody s = .ok (claimStep s) := by
  obtain ⟨h1, h2⟩ := hi
  cases hs : s.stack with
  | nil =>
    have h0 : s.t.lastRemoved = 0 := by simp [h1, hs]
    simp [claimBody, claimEntries_prog, claimSem, runL, runP, sem, condSem, expect, takenElse, isElseOf, h0, h, claimStep, hs]
  | cons a rest =>
    have ha : s.t.lastRemoved = a := by simp [h1, hs]
    have hne : a ≠ 0 := by
      intro h0; apply h2; rw [hs, h0]; simp
    simp [claimBody, claimEntries_prog, claimSem, runL, runP, sem, condSem, expect, takenElse, isElseOf, ha, hne, h, claimStep, hs]

theorem claimStep_inv (s : RSt) (hi : StackInv s.t s.stack) : StackInv (claimStep s).t (claimStep s).stack := by
  obtain ⟨h1, h2⟩ := hi
  cases hs : s.stack with
  | nil => simp [claimStep, hs, StackInv] at *; exact h1
  | cons a rest =>
    have hn : 0 ∉ rest := fun h0 => h2 (by rw [hs]; exact List.mem_cons_of_mem _ h0)
    simp [claimStep, hs, StackInv, hn]

/-- the `for` loop = `MultiTree.claimEntries` -/
theorem claim_times (n : Nat) : ∀ s : RSt, s.ret = none → StackInv s.t s.stack →
    ∃ s', times (runL claimSem none claimBody) n s = .ok s' ∧ s'.ret = none ∧ StackInv s'.t s'.stack ∧
      s'.t.slots = s.t.slots ∧ s'.dirty = s.dirty ∧
      (s'.entries, s'.stack, s'.t.filled) =
        (s.entries ++ (MultiTree.claimEntries n s.stack s.t.filled).1,
         (MultiTree.claimEntries n s.stack s.t.filled).2.1, (MultiTree.claimEntries n s.stack s.t.filled).2.2) := by
  induction n with
  | zero => intro s h hi; exact ⟨s, rfl, h, hi, rfl, rfl, by simp [MultiTree.claimEntries]⟩
  | succ n ih =>
    intro s h hi
    have hr : (claimStep s).ret = none := by unfold claimStep; split <;> exact h
    obtain ⟨s', e1, e2, e3, e4, e5, e6⟩ := ih (claimStep s) hr (claimStep_inv s hi)
    refine ⟨s', ?_, e2, e3, ?_, ?_, ?_⟩
    · simp only [times, claim_round s h hi, hr, Option.isSome_none, Bool.false_eq_true, if_false]; exact e1
    · rw [e4]; unfold claimStep; split <;> rfl
    · rw [e5]; unfold claimStep; split <;> rfl
    · rw [e6]
      cases hs : s.stack with
      | nil => simp [claimStep, hs, MultiTree.claimEntries]
      | cons a rest => simp [claimStep, hs, MultiTree.claimEntries]

/-- the statement text of the outer `match` of `claim_entries` (not interpreted) -/
def claimHead : String :=
  match claimEntries_prog with
  | (.act _ st) :: _ => st
  | _ => ""

/-- the generated program is `match &self.free_entries { Some(..) => { lock; for _ in 0..num { body }; dirty; Ok(entries) } }` -/
theorem claim_is_for (s : RSt) (h : s.ret = none) :
    runL claimSem none claimEntries_prog s =
      (match times (runL claimSem none claimBody) s.num s with
       | .error e => .error e
       | .ok s' => if s'.ret.isSome then .ok s' else .ok { s' with dirty := true, ret := some 0 }) := by
  have hb : claimEntries_prog = [.act .matchFreeEntries claimHead,
      .blk "match&self.free_entries" [.blk "Some(free_entries)=>" [
        .act .lockFree "let mut free_entries=free_entries.write()", .act .forClaim "for _i in 0..num",
        .blk "for _i in 0..num" claimBody,
        .act .setDirtyHeader "self.dirty_header.store(true,Ordering::Relaxed)", .act .returnEntries "Ok(entries)"]]] := by rfl
  rw [hb]
  simp [runL, runP, isElseOf, claimSem, sem, condSem, expect, takenElse, h]
  cases hi : times (runL (sem noRead noSlot noChain noRef noChain) none claimBody) s.num s with
  | error e => simp
  | ok s' => cases hr : s'.ret <;> simp [hr]

/-- GENERATED = MODEL.  `ValueTable::claim_entries(n)` = `MultiTree.claimEntries n stack filled` (claimed slots, remaining
    stack, fill mark) under the stack invariant, which it keeps; slots are not touched; `dirty_header` is set on every
    path (seeded defect C10-c10e sets it only when `filled` grew, so a claim served from the free list alone never logs
    the new `last_removed`). -/
theorem claimEntries_run_eq_model (n : Nat) (t : ValueTable.VT) (stack : List Nat) (hi : StackInv t stack) :
    ∃ t', claimRun n t stack =
        .ok (t', (MultiTree.claimEntries n stack t.filled).2.1, (MultiTree.claimEntries n stack t.filled).1, true) ∧
      t'.filled = (MultiTree.claimEntries n stack t.filled).2.2 ∧ t'.slots = t.slots ∧
      StackInv t' (MultiTree.claimEntries n stack t.filled).2.1 := by
  obtain ⟨s', e1, e2, e3, e4, _, e6⟩ := claim_times n { t := t, num := n, stack := stack } rfl hi
  simp only [List.nil_append, Prod.mk.injEq] at e6
  obtain ⟨e6a, e6b, e6c⟩ := e6
  refine ⟨s'.t, ?_, e6c, e4, by rw [← e6b]; exact e3⟩
  have hf := claim_is_for { t := t, num := n, stack := stack } rfl
  simp only [e1, e2] at hf
  unfold claimRun
  rw [hf]
  simp [e6a, e6b]

/-- non-vacuity: the generated `next_free` on a table with one freed slot pops it -/
example : (match nextFreeRun (ValueTable.clearSlot ({ ValueTable.VT.empty 32 false false with filled := 3 }) 2) with
    | .ok r => some (r.2.1, r.1.lastRemoved, r.1.filled, r.2.2) | .error _ => none) = some (2, 0, 3, true) := by
  rw [nextFree_run_eq_model]; decide

/-- non-vacuity: a two-part chain (head slot 1 links to slot 2) is cleared by the generated `clear_chain`, both slots -/
example : (clearChainRun 5 ((({ ValueTable.VT.empty 64 true false with filled := 3 }).setSlot 1
      (Pdb.Gen.MULTIHEAD ++ ValueTable.leBytes 8 2)).setSlot 2 [3, 0, 7, 7, 7]) 1).toOption.map (·.2) = some [1, 2] := by
  rw [clearChain_run_eq_model]; decide

/-- non-vacuity: the stack invariant of a table with one free slot, and a claim of two slots from it (pop 2, then extend) -/
example : StackInv { ValueTable.VT.empty 64 true false with filled := 3, lastRemoved := 2 } [2] := by
  simp [StackInv]
example : MultiTree.claimEntries 2 [2] 3 = ([2, 3], [], 4) := by decide

/-- non-vacuity: the last reference of a one-slot value (count 1, entry `size=4, rc=1`) is dropped and the slot released -/
example : (decRefRun (({ ValueTable.VT.empty 32 false true with filled := 2 }).setSlot 1 [4, 0, 1, 0, 0, 0]) 1).toOption.map
    (fun r => (r.2, r.1.lastRemoved)) = some (false, 1) := by
  rw [decRef_run_eq_model]; decide


end Pdb.OrdS

#print axioms Pdb.OrdS.readNextFree_run_eq
#print axioms Pdb.OrdS.nextFree_run_eq_model
#print axioms Pdb.OrdS.clearSlot_run_eq_model
#print axioms Pdb.OrdS.removePlan_run_with
#print axioms Pdb.OrdS.removePlan_run_eq_model
#print axioms Pdb.OrdS.decRef_run_with
#print axioms Pdb.OrdS.incRef_run_with
#print axioms Pdb.OrdS.clearChain_is_loop
#print axioms Pdb.OrdS.clearChain_round
#print axioms Pdb.OrdS.clearChain_iter
#print axioms Pdb.OrdS.clearChain_run_eq_model
#print axioms Pdb.OrdS.removePlan_gen_eq_model
#print axioms Pdb.OrdS.ite_false_keeps
#print axioms Pdb.OrdS.changeRef_false_keeps
#print axioms Pdb.OrdS.decRef_run_eq_model
#print axioms Pdb.OrdS.claim_round
#print axioms Pdb.OrdS.claimStep_inv
#print axioms Pdb.OrdS.claim_times
#print axioms Pdb.OrdS.claim_is_for
#print axioms Pdb.OrdS.claimEntries_run_eq_model
