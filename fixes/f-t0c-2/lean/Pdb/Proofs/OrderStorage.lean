/-
T0 obligations of the STORAGE layer (tie T0 widened from src/db.rs / src/log.rs to src/column.rs, src/table.rs,
src/index.rs and the split constants of src/btree/node.rs).

Everything here is stated on `Pdb.Gen.Storage`, which tools/rs2lean_storage.py regenerates from the Rust source on
every check run (same token-level extraction as tools/skeleton.py: markers of a fixed vocabulary in source order,
the complete headers of the pinned blocks, for every marker the chain of enclosing block headers, the complete
statement around selected markers, the complete body of one-line functions, the byte ranges of the table header).

Three kinds of theorems (`OrdS.*`):
  * CODE facts (`by decide` on the generated terms): order, enclosing conditions, statements.  A change of the
    Rust that moves a pinned call under another condition, swaps two of them, drops one, or changes a token of a
    pinned header / statement makes the `decide` fail (O2 of the check breaks and names the theorem).
  * MODEL facts (`∀`-statements about the hand-written definitions of Pdb/Model/ValueTable.lean,
    Pdb/Model/Index.lean, Pdb/Model/BTree.lean, proved by unfolding): the case structure the model assumes.  A
    change of the model that leaves that case structure breaks them.
  * `*_matches_model`: the conjunction of the two for one Rust function, so that the correspondence is one
    statement: code branch <-> model case, with the condition text and the effect statements on the code side and
    the equations on the model side.
Pdb/Proofs/OrderStorageRun.lean goes one step further for the free-list functions of src/table.rs: the generated statement
TREES are run under a fixed semantics of the pinned texts and proved EQUAL to the model functions.
Pdb/Proofs/OrderStoragePins.lean (`conds_<fn>`, `ctx_<fn>`, `stmts_<fn>`, `body_<fn>`) fixes the COMPLETE generated term of
every listed function; it is re-generated for review by `python3 tools/rs2lean_storage.py --pins [<fn> ..]`.

NOT covered: the arithmetic inside expressions that are not part of a pinned header or statement, callees that
are not listed (src/file.rs, src/compress.rs ..), early exits by `?`, name resolution (markers match callee TEXT),
and the semantics of the Rust constructs themselves: the `*_matches_model` theorems relate TEXT to model
equations by juxtaposition, the reading of the text as the model case is the reviewer's (documented per theorem).
The dynamic ties (T1 correspondence, T2 oracles of C06 / C09 / C14 / C20) remain the evidence for semantics.
-/
import Pdb.Gen.Storage
import Pdb.Model.ValueTable
import Pdb.Model.Index
import Pdb.Model.BTree

namespace Pdb.OrdS
open Pdb.Gen.Storage Marker

-- `decide` on the long canonical strings (whole statements / bodies) needs a deeper elaborator stack than the default
set_option maxRecDepth 16384

/-! ### combinators (as `Pdb.Ord.*` of Pdb/Model/Conc.lean, over the storage vocabulary) -/

/-- `a` occurs, and its first occurrence is strictly before the first occurrence of `b` (which occurs) -/
def before (a b : Marker) (l : List Marker) : Bool := decide (l.idxOf a < l.idxOf b) && l.contains b
/-- every occurrence of `a` lies before the first `b`, and both occur -/
def allBefore (a b : Marker) (l : List Marker) : Bool :=
  l.contains a && l.contains b && !((l.drop (l.idxOf b)).contains a)
def count (m : Marker) (l : List Marker) : Nat := l.count m
def lastIs (m : Marker) (l : List Marker) : Bool := l.getLast? == some m
/-- scan for `held`: `d` = number of scopes `a .. r` that are open -/
def heldGo (a r m : Marker) : Nat → List Marker → Bool
  | _, [] => true
  | d, x :: xs =>
    if x == a then heldGo a r m (d + 1) xs
    else if x == r then heldGo a r m (d - 1) xs
    else if x == m then decide (0 < d) && heldGo a r m d xs
    else heldGo a r m d xs
/-- every occurrence of `m` lies inside a scope `a .. r`, and `m` occurs -/
def held (a r m : Marker) (l : List Marker) : Bool := l.contains m && heldGo a r m 0 l
/-- the chains of enclosing block headers recorded for the occurrences of marker `m` -/
def ctxOf (m : Marker) (c : List (List Marker × List String)) : List (List String) :=
  (c.filter (fun g => g.1.contains m)).map (·.2)
/-- the complete statements recorded for marker `m` -/
def stmtOf (m : Marker) (s : List (Marker × String)) : List String := (s.filter (fun p => p.1 == m)).map (·.2)
/-- the headers recorded for the occurrences of block marker `m` -/
def condsOf (m : Marker) (c : List (Marker × List (List String))) : List (List (List String)) :=
  (c.filter (fun p => p.1 == m)).map (·.2)
/-- the markers of `l` that belong to `keep`, in order -/
def proj (keep : List Marker) (l : List Marker) : List Marker := l.filter (fun m => keep.contains m)

/-! ## (a) `HashColumn::write_plan` / `write_plan_existing` / `write_plan_new` vs. `Index.write` / `writeExisting` -/

/-- CODE.  `write_plan` searches all index tables first; a hit goes to `write_plan_existing` (and, if that reports
    a pending address, to the growth loop `trigger_reindex` + insert until the entry fits); a miss is dispatched
    on the operation: `Set` -> `write_plan_new`, `Dereference` / `Reference` -> `Skipped` without any write, the
    tree operations -> error. -/
theorem writePlan_dispatch :
    proj [searchAllCall, callExisting, triggerReindex, insertPending, callNew] colWritePlan =
      [searchAllCall, callExisting, triggerReindex, insertPending, callNew] ∧
    stmtOf searchAllCall colWritePlan_stmts = ["let existing=Self::search_all_indexes(change.key(),&tables,&reindex,log)?"] ∧
    ctxOf searchAllCall colWritePlan_ctx = [] ∧
    ctxOf callExisting colWritePlan_ctx = [["if let Some((table,sub_index,existing_address))=existing"]] ∧
    stmtOf callExisting colWritePlan_stmts =
      ["let(outcome,pending)=self.write_plan_existing(&tables,&reindex,change,log,table,sub_index,existing_address)?"] ∧
    ctxOf triggerReindex colWritePlan_ctx =
      [["if let Some((table,sub_index,existing_address))=existing", "if let Some(value_address)=pending", "loop"]] ∧
    ctxOf breakLoop colWritePlan_ctx =
      [["if let Some((table,sub_index,existing_address))=existing", "if let Some(value_address)=pending", "loop",
        "if!matches!(tables.index.write_insert_plan(key,value_address,None,log)?,PlanOutcome::NeedReindex)"]] ∧
    before triggerReindex insertPending colWritePlan = true ∧
    ctxOf callNew colWritePlan_ctx =
      [["if let Some((table,sub_index,existing_address))=existing{}else", "match change", "Operation::Set(key,value)=>"]] ∧
    stmtOf callNew colWritePlan_stmts = ["let(r,_,_)=self.write_plan_new(tables,reindex,key,value.as_ref(),log)?"] ∧
    ctxOf returnSkipped colWritePlan_ctx =
      [["if let Some((table,sub_index,existing_address))=existing{}else", "match change", "Operation::Dereference(key)=>"],
       ["if let Some((table,sub_index,existing_address))=existing{}else", "match change", "Operation::Reference(key)=>"]] := by
  decide

/-- MODEL.  `Index.write`: found -> `writeExisting` at the found (table, sub_index, address); not found: a `Set`
    is `writeNew`, a `Dereference` leaves the state alone. -/
theorem write_model (s : Index.Col) (k : Index.Key) (op : Option (Nat × Nat × Index.Val)) :
    (∀ j sub a, Index.searchAll s k = some (j, sub, a) → Index.write s k op = Index.writeExisting s k op j sub a) ∧
    (Index.searchAll s k = none → ∀ tier ext v, op = some (tier, ext, v) → Index.write s k op = Index.writeNew s k tier ext v) ∧
    (Index.searchAll s k = none → op = none → Index.write s k op = .ok s) := by
  refine ⟨?_, ?_, ?_⟩
  · intro j sub a h; simp [Index.write, h]
  · intro h tier ext v ho; subst ho; simp [Index.write, h]
  · intro h ho; subst ho; simp [Index.write, h]

/-- CODE (fix 515aeb7, finding F26 / C09 stale entries).  `write_plan_existing` has three arms on the result of
    `Column::write_existing_value_plan`: `(Some(outcome), _)` = the slot keeps its value: nothing else happens;
    `(None, Some(value_address))` = the value MOVED to another tier; `(None, None)` = the value was REMOVED.  In both
    arms that free the old slot `remove_from_queued_indexes(key, existing_address, reindex, log)` is called,
    unconditionally within the arm, after the entry the key was found through has been replaced / removed in the
    table it was found in (`index.write_remove_plan`, NOT `tables.index`: seeded defect C09-c09a); the moved value
    is inserted into the CURRENT table, in place (`Some(sub_index)`) only if it was found there. -/
theorem writeExisting_purges_on_every_freeing_path :
    count purgeCall writeExisting = 2 ∧ count foundRemovePlan writeExisting = 2 ∧
    ctxOf purgeCall writeExisting_ctx =
      [["match Column::write_existing_value_plan(&table_key,self.as_ref(&tables.value),existing_address,change,log,stats,self.ref_counted)?",
        "(None,Some(value_address))=>"],
       ["match Column::write_existing_value_plan(&table_key,self.as_ref(&tables.value),existing_address,change,log,stats,self.ref_counted)?",
        "(None,None)=>"]] ∧
    stmtOf purgeCall writeExisting_stmts =
      ["Self::remove_from_queued_indexes(key,existing_address,reindex,log)?",
       "Self::remove_from_queued_indexes(key,existing_address,reindex,log)?"] ∧
    stmtOf foundRemovePlan writeExisting_stmts =
      ["index.write_remove_plan(key,sub_index,log)?", "index.write_remove_plan(key,sub_index,log)?"] ∧
    ctxOf foundRemovePlan writeExisting_ctx =
      [["match Column::write_existing_value_plan(&table_key,self.as_ref(&tables.value),existing_address,change,log,stats,self.ref_counted)?",
        "(None,Some(value_address))=>", "if replace.is_none()||matches!(outcome,PlanOutcome::NeedReindex)"],
       ["match Column::write_existing_value_plan(&table_key,self.as_ref(&tables.value),existing_address,change,log,stats,self.ref_counted)?",
        "(None,None)=>"]] ∧
    stmtOf replaceInPlace writeExisting_stmts = ["let replace=if index.id==tables.index.id{Some(sub_index)}else{None}"] ∧
    stmtOf insertMoved writeExisting_stmts = ["let outcome=tables.index.write_insert_plan(key,value_address,replace,log)?"] ∧
    proj [insertMoved, foundRemovePlan, purgeCall, returnMoved, returnRemoved] writeExisting =
      [insertMoved, foundRemovePlan, purgeCall, returnMoved, foundRemovePlan, purgeCall, returnRemoved] ∧
    ctxOf armDone writeExisting_ctx =
      [["match Column::write_existing_value_plan(&table_key,self.as_ref(&tables.value),existing_address,change,log,stats,self.ref_counted)?"]] := by
  decide

/-- CODE.  `Column::write_existing_value_plan` returns `(None, _)` (= "the slot at `address` is free now") exactly
    on the two paths that call `write_remove_plan` / a `write_dec_ref` that reported the removal: a `Set` whose
    stored form belongs to another size tier (old slot removed BEFORE the new one is allocated, so the allocation
    may reuse it only in another tier), and a `Dereference` under `if remove`.  Ref-counted columns turn `Set` into
    an increment, preimage columns skip it. -/
theorem valuePlan_frees_exactly_where_it_says :
    ctxOf retMoved valuePlanExisting_ctx = [["match change", "Operation::Set(_,val)=>", "if tier==target_tier{}else"]] ∧
    ctxOf retFreed valuePlanExisting_ctx = [["match change", "Operation::Dereference(_)=>", "if remove"]] ∧
    ctxOf removeOld valuePlanExisting_ctx =
      [["match change", "Operation::Set(_,val)=>", "if tier==target_tier{}else"],
       ["match change", "Operation::Dereference(_)=>", "if ref_counted{}else"]] ∧
    ctxOf decRef valuePlanExisting_ctx = [["match change", "Operation::Dereference(_)=>", "if ref_counted"]] ∧
    ctxOf tailRemoved valuePlanExisting_ctx = [["match change", "Operation::Dereference(_)=>", "if ref_counted"]] ∧
    ctxOf tailTrue valuePlanExisting_ctx = [["match change", "Operation::Dereference(_)=>", "if ref_counted{}else"]] ∧
    proj [letRemove, decRef, tailRemoved, removeOld, tailTrue, ifRemove, retFreed]
        (valuePlanExisting.drop (valuePlanExisting.idxOf letRemove)) =
      [letRemove, decRef, tailRemoved, removeOld, tailTrue, ifRemove, retFreed] ∧
    stmtOf decRef valuePlanExisting_stmts = ["let removed=!tables.tables[tier].write_dec_ref(address.offset(),log)?"] ∧
    ctxOf replacePlan valuePlanExisting_ctx = [["match change", "Operation::Set(_,val)=>", "if tier==target_tier"]] ∧
    stmtOf replacePlan valuePlanExisting_stmts =
      ["tables.tables[target_tier].write_replace_plan(address.offset(),key,cval,log,compressed)?"] ∧
    stmtOf insertNewTier valuePlanExisting_stmts =
      ["let new_offset=tables.tables[target_tier].write_insert_plan(key,cval,log,compressed)?"] ∧
    stmtOf newAddress valuePlanExisting_stmts = ["let new_address=Address::new(new_offset,target_tier as u8)"] ∧
    before removeOld insertNewTier valuePlanExisting = true ∧
    ctxOf incRef valuePlanExisting_ctx =
      [["match change", "Operation::Reference(_)=>", "if ref_counted"], ["match change", "Operation::Set(_,val)=>", "if ref_counted"]] ∧
    ctxOf ifPreimage valuePlanExisting_ctx = [["match change", "Operation::Set(_,val)=>"]] ∧
    before ifPreimage compressVal valuePlanExisting = true ∧
    condsOf ifRefCounted valuePlanExisting_conds = [[["ref_counted"]], [["ref_counted"]], [["ref_counted"]]] ∧
    condsOf ifSameTier valuePlanExisting_conds = [[["tier==target_tier"]]] := by
  decide

/-- MODEL.  `Index.frees`: the operation frees the slot iff it is a `Dereference` (`none`) or a `Set` into another
    tier; `Index.writeExisting` purges the queued tables exactly then; the entry of a moved value replaces the found
    one in place only if the key was found in the current table (`j = 0`). -/
theorem writeExisting_model (s : Index.Col) (k : Index.Key) (op : Option (Nat × Nat × Index.Val)) (j sub a : Nat) :
    (Index.frees none a = true) ∧
    (∀ t' e v, Index.frees (some (t', e, v)) a = (Pdb.Gen.Address.size_tier a != t')) ∧
    (Index.frees op a = true →
      Index.writeExisting s k op j sub a = (Index.writeExisting0 s k op j sub a).map (fun s' => Index.purgeOlder s' k.pre a)) ∧
    (Index.frees op a = false → Index.writeExisting s k op j sub a = Index.writeExisting0 s k op j sub a) := by
  refine ⟨rfl, fun _ _ _ => rfl, ?_, ?_⟩
  · intro h; simp [Index.writeExisting, h]
  · intro h; simp [Index.writeExisting, h]

/-- CODE.  `write_plan_new`: the value is written first, then the entry is inserted into the current table, growing
    the index (`trigger_reindex`) as long as the insert reports `NeedReindex`. -/
theorem writeNew_loop :
    writeNew = [tableKeyPartial, newValuePlan, initWritten, whileNeedReindex, triggerReindex, setNeedReindex,
                endWhileNeedReindex, returnTriple] ∧
    condsOf whileNeedReindex writeNew_conds =
      [[["let PlanOutcome::NeedReindex=tables.index.write_insert_plan(key,address,None,log)?"]]] ∧
    stmtOf newValuePlan writeNew_stmts =
      ["let address=Column::write_new_value_plan(&table_key,self.as_ref(&tables.value),value,log,stats)?"] := by decide

/-- CODE + MODEL.  `trigger_reindex`: the new current table has one more index bit, the old current table goes to
    the BACK of the reindex queue (`Index.triggerReindex`: `older ++ [current]`). -/
theorem triggerReindex_matches_model :
    (∀ s : Index.Col, (Index.triggerReindex s).older = s.older ++ [s.current] ∧
      (Index.triggerReindex s).current = Index.Table.new (s.current.bits + 1)) ∧
    stmtOf newIndexId triggerReindexFn_stmts =
      ["let new_index_id=IndexTableId::new(tables.index.id.col(),tables.index.id.index_bits()+1)"] ∧
    stmtOf replaceCurrent triggerReindexFn_stmts = ["let old_table=std::mem::replace(&mut tables.index,new_table)"] ∧
    stmtOf queuePush triggerReindexFn_stmts = ["reindex.queue.push_back(ReindexEntry::Index(old_table))"] ∧
    triggerReindexFn = [upgradeTables, upgradeReindex, newIndexId, createNewTable, replaceCurrent, queuePush] ∧
    triggerReindexFn_ctx = [] :=
  ⟨fun _ => ⟨rfl, rfl⟩, by decide, by decide, by decide, by decide, by decide⟩

/-! ## (b) lookups: `HashColumn::get` / `get_in_index` / `search_index` / `search_all_indexes` vs. `Index.searchAll` -/

/-- CODE.  `get` looks into the current table first, then into the queued tables in queue order (front = oldest
    first: `for entry in &reindex.queue`, no `.rev()` / `.skip()`), returns at the first hit with the value AND the
    reference count found there, `Ok(None)` only after all of them; both the `tables` and the `reindex` read locks
    are held across ALL lookups (fix 49b959b / C05: edit E7 of tools/t0_mutate.py escaped T0 before). -/
theorem get_lookup_order :
    colGet = [lockTablesRead, lockReindexRead, ifHit, getInIndexCurrent, returnHit, endIfHit, forQueue, ifQueuedIndex,
              ifHit, getInIndexQueued, returnHit, endIfHit, endIfQueuedIndex, endForQueue, returnNone,
              unlockReindexRead, unlockTablesRead] ∧
    held lockReindexRead unlockReindexRead getInIndexCurrent colGet = true ∧
    held lockReindexRead unlockReindexRead getInIndexQueued colGet = true ∧
    held lockTablesRead unlockTablesRead getInIndexQueued colGet = true ∧
    condsOf forQueue colGet_conds = [[["entry in&reindex.queue"]]] ∧
    condsOf ifHit colGet_conds =
      [[["let Some((tier,rc,value))=self.get_in_index(key,&tables.index,values,log)?"]],
       [["let Some((tier,rc,value))=self.get_in_index(key,r,values,log)?"]]] ∧
    condsOf ifQueuedIndex colGet_conds = [[["let ReindexEntry::Index(r)=entry"]]] ∧
    stmtOf returnHit colGet_stmts = ["return Ok(Some((value,rc)))", "return Ok(Some((value,rc)))"] ∧
    ctxOf returnHit colGet_ctx =
      [["if let Some((tier,rc,value))=self.get_in_index(key,&tables.index,values,log)?"],
       ["for entry in&reindex.queue", "if let ReindexEntry::Index(r)=entry",
        "if let Some((tier,rc,value))=self.get_in_index(key,r,values,log)?"]] ∧
    ctxOf returnNone colGet_ctx = [] ∧
    colGetSize_body = "Ok(self.get(key,log)?.map(|(v,_rc)|v.len()as u32))" := by decide

/-- CODE.  `get_in_index` / `search_index`: candidates of one table are visited from sub-index 0 upwards
    (`index.get(key, 0, log)`, continuation `index.get(key, sub_index + 1, log)`), each candidate's address is
    decoded with the table's OWN index bits, the candidate is accepted only if the value slot holds the key's tail
    (`TableKeyQuery::Check(&TableKey::Partial(*key))`, resp. `has_key_at(.., &TableKey::Partial(*key), ..)`), and
    the loop ends at the first empty entry. -/
theorem table_scan_continues_after_a_mismatch :
    getInIndex = [indexGetFirst, whileEntry, entryAddress, getValueCheckKey, matchValue, returnFound, indexGetNext,
                  assignEntry, assignSub, endWhileEntry, returnNone] ∧
    getInIndex_stmts = [(indexGetFirst, "let(mut entry,mut sub_index)=index.get(key,0,log)?"),
                        (entryAddress, "let address=entry.address(index.id.index_bits())"),
                        (indexGetNext, "let(next_entry,next_index)=index.get(key,sub_index+1,log)?")] ∧
    getInIndex_conds = [(whileEntry, [["!entry.is_empty()"]])] ∧
    ctxOf indexGetNext getInIndex_ctx = [["while!entry.is_empty()", "match value", "None=>"]] ∧
    searchIndex = [indexGetFirst, whileEntry, entryAddress, existingTier, tableKeyPartial, ifHasKey, returnFoundAt,
                   endIfHasKey, indexGetNext, assignExistingEntry, assignSub, endWhileEntry, returnNone] ∧
    searchIndex_stmts = [(indexGetFirst, "let(mut existing_entry,mut sub_index)=index.get(key,0,log)?"),
                         (entryAddress, "let existing_address=existing_entry.address(index.id.index_bits())"),
                         (indexGetNext, "let(next_entry,next_index)=index.get(key,sub_index+1,log)?")] ∧
    searchIndex_conds =
      [(whileEntry, [["!existing_entry.is_empty()"]]),
       (ifHasKey, [["tables.value[existing_tier as usize].has_key_at(existing_address.offset(),&table_key,log)?"]])] ∧
    ctxOf indexGetNext searchIndex_ctx = [["while!existing_entry.is_empty()"]] := by decide

/-- CODE.  `search_all_indexes` (the write path's lookup) uses the same order as `get`. -/
theorem searchAll_order :
    searchAll = [ifFoundCurrent, returnR, endIfFoundCurrent, forQueue, ifQueuedIndex, ifFoundQueued, returnR,
                 endIfFoundQueued, endIfQueuedIndex, endForQueue, returnNone] ∧
    searchAll_conds =
      [(ifFoundCurrent, [["let Some(r)=Self::search_index(key,&tables.index,tables,log)?"]]),
       (forQueue, [["entry in&reindex.queue"]]),
       (ifQueuedIndex, [["let ReindexEntry::Index(index)=entry"]]),
       (ifFoundQueued, [["let Some(r)=Self::search_index(key,index,tables,log)?"]])] ∧
    ctxOf returnNone searchAll_ctx = [] := by decide

/-- MODEL.  `Index.searchAll` walks `current :: older` (queue front first) and stops at the first table with an
    accepted candidate; `Index.lookup` returns the value stored at that address. -/
theorem searchAll_model (s : Index.Col) (k : Index.Key) :
    Index.searchAll s k = Index.searchOlder s k (s.current :: s.older) 0 ∧
    (∀ t ts j i a, Index.searchTable s t k = some (i, a) → Index.searchOlder s k (t :: ts) j = some (j, i, a)) ∧
    (∀ t ts j, Index.searchTable s t k = none → Index.searchOlder s k (t :: ts) j = Index.searchOlder s k ts (j + 1)) ∧
    Index.searchOlder s k [] 0 = none := by
  refine ⟨rfl, ?_, ?_, rfl⟩
  · intro t ts j i a h; simp [Index.searchOlder, h]
  · intro t ts j h; simp [Index.searchOlder, h]

/-- CODE (fix 515aeb7).  `remove_from_queued_indexes` visits EVERY queued index table and every candidate of the
    key's partial key in it, removes those whose address is the freed one, and goes on after a removal (entries
    with another address belong to other keys and stay: `Index.purgeTable`). -/
theorem purge_visits_every_queued_candidate :
    purgeQueued = [forQueue, ifQueuedIndex, indexGetFirst, whileEntry, ifAddrEq, queuedRemovePlan, endIfAddrEq,
                   advanceEntry, endWhileEntry, endIfQueuedIndex, endForQueue] ∧
    purgeQueued_conds =
      [(forQueue, [["entry in&reindex.queue"]]), (ifQueuedIndex, [["let ReindexEntry::Index(index)=entry"]]),
       (whileEntry, [["!existing_entry.is_empty()"]]),
       (ifAddrEq, [["existing_entry.address(index.id.index_bits())==address"]])] ∧
    ctxOf advanceEntry purgeQueued_ctx =
      [["for entry in&reindex.queue", "if let ReindexEntry::Index(index)=entry", "while!existing_entry.is_empty()"]] ∧
    purgeQueued_stmts = [(indexGetFirst, "let(mut existing_entry,mut sub_index)=index.get(key,0,log)?")] := by decide

/-- CODE.  Early exits.  The marker skeletons are linear; `<fn>_exits` lists EVERY `break` / `continue` / `return` of a
    function with the block headers it sits under (all of them are pinned in OrderStoragePins.lean, `exits_<fn>`).  These
    functions have none at all: every loop runs to its end and every statement after a pinned call is reached unless
    a `?` propagates an error.  In particular `remove_from_queued_indexes` cannot stop at the first candidate with
    another address, and `HashColumn::flush` cannot return before the last table. -/
theorem no_early_exit :
    purgeQueued_exits = [] ∧ writeExisting_exits = [] ∧ writeNew_exits = [] ∧ triggerReindexFn_exits = [] ∧
    valuePlanNew_exits = [] ∧ colFlush_exits = [] ∧ nextFree_exits = [] ∧ clearSlot_exits = [] ∧
    removePlanFn_exits = [] ∧ tableCompletePlan_exits = [] ∧
    readNextFreeFn_exits =
      [("return Err(crate::error::Error::Corruption(format!(\"\",next,filled)))", ["if next>=filled"])] ∧
    getInIndex_exits = [("return Ok(Some(result))", ["while!entry.is_empty()", "match value", "Some(result)=>"])] ∧
    colWritePlan_exits =
      [("break", ["if let Some((table,sub_index,existing_address))=existing", "if let Some(value_address)=pending", "loop",
                  "if!matches!(tables.index.write_insert_plan(key,value_address,None,log)?,PlanOutcome::NeedReindex)"])] := by
  decide

/-! ## (c) src/table.rs: free list and header vs. `ValueTable.nextFree` / `clearSlot` / `removePlan` -/

/-- CODE.  `next_free`: pop the free list iff `last_removed != 0` (new head = the link read from the popped slot,
    result = the popped slot), else extend (`filled + 1`, result = old `filled`); `dirty_header` is set AFTER the
    `if`, on both paths (seeded defect C06-c06a moves it into the `else`); `read_next_free` refuses a link that
    is not below `filled`. -/
theorem nextFree_code :
    nextFree = [lockFree, loadFilled, loadLastRemoved, ifHaveRemoved, readNextFree, storeLastRemoved, ifStack,
                popStack, endIfStack, tailLastRemoved, endIfHaveRemoved, storeFilled, tailFilled, setDirtyHeader,
                returnIndex] ∧
    nextFree_conds = [(ifHaveRemoved, [["last_removed!=0"]]), (ifStack, [["let Some(mut free_entries)=free_entries_guard"]])] ∧
    nextFree_stmts = [(readNextFree, "let next_removed=self.read_next_free(last_removed,log)?"),
                      (storeLastRemoved, "self.last_removed.store(next_removed,Ordering::Relaxed)"),
                      (storeFilled, "self.filled.store(filled+1,Ordering::Relaxed)")] ∧
    ctxOf storeLastRemoved nextFree_ctx = [["if last_removed!=0"]] ∧
    ctxOf tailLastRemoved nextFree_ctx = [["if last_removed!=0"]] ∧
    ctxOf storeFilled nextFree_ctx = [["if last_removed!=0{}else"]] ∧
    ctxOf tailFilled nextFree_ctx = [["if last_removed!=0{}else"]] ∧
    ctxOf setDirtyHeader nextFree_ctx = [] ∧ count setDirtyHeader nextFree = 1 ∧
    readNextFreeFn = [loadFilled, readBuf, readFile, skipSize, readNext, ifBadNext, returnCorruption, endIfBadNext, returnNext] ∧
    readNextFreeFn_conds = [(ifBadNext, [["next>=filled"]])] ∧
    readNextFreeFn_stmts = [(readNext, "let next=buf.read_next()")] ∧
    ctxOf returnCorruption readNextFreeFn_ctx = [["if next>=filled"]] := by decide

/-- MODEL.  `ValueTable.nextFree` has exactly these three cases. -/
theorem nextFree_model (t : ValueTable.VT) :
    (t.lastRemoved = 0 → ValueTable.nextFree t = .ok ({ t with filled := t.filled + 1 }, t.filled)) ∧
    (t.lastRemoved ≠ 0 → ValueTable.linkOf (t.slots t.lastRemoved) < t.filled →
      ValueTable.nextFree t =
        .ok ({ t with lastRemoved := ValueTable.linkOf (t.slots t.lastRemoved) }, t.lastRemoved)) ∧
    (t.lastRemoved ≠ 0 → t.filled ≤ ValueTable.linkOf (t.slots t.lastRemoved) →
      ValueTable.nextFree t = .error .corruption) := by
  refine ⟨?_, ?_, ?_⟩
  · intro h; simp [ValueTable.nextFree, h]
  · intro h hb; simp [ValueTable.nextFree, h, Nat.not_le.mpr hb]
  · intro h hb; simp [ValueTable.nextFree, h, hb]

/-- CODE.  `clear_slot` (free-list push): the tombstone links to the OLD head (`last_removed` loaded before), the
    slot image is logged, only then the head moves to the freed slot; `dirty_header` is set unconditionally (seeded
    defect C14-c14a moves it under `if let Some(free_entries)`), so `complete_plan` logs the header. -/
theorem clearSlot_code :
    clearSlot = [lockFree, loadLastRemoved, writeTombstone, writeNext, insertValue, storeLastRemoved, setDirtyHeader,
                 ifStack, pushStack, endIfStack] ∧
    clearSlot_stmts = [(writeNext, "buf.write_next(last_removed)"),
                       (insertValue, "log.insert_value(self.id,index,buf[0..buf.offset()].to_vec())"),
                       (storeLastRemoved, "self.last_removed.store(index,Ordering::Relaxed)")] ∧
    ctxOf setDirtyHeader clearSlot_ctx = [] ∧ ctxOf storeLastRemoved clearSlot_ctx = [] ∧
    ctxOf insertValue clearSlot_ctx = [] ∧
    ctxOf pushStack clearSlot_ctx = [["if let Some(mut free_entries)=free_entries_guard"]] := by decide

/-- MODEL.  `ValueTable.clearSlot`: tombstone ++ link to the old head, the slot becomes the head, `filled` stays. -/
theorem clearSlot_model (t : ValueTable.VT) (i : Nat) :
    (ValueTable.clearSlot t i).lastRemoved = i ∧ (ValueTable.clearSlot t i).filled = t.filled ∧
    (ValueTable.clearSlot t i).slots i =
      Pdb.Gen.TOMBSTONE ++ ValueTable.leBytes Pdb.Gen.INDEX_SIZE t.lastRemoved ∧
    (∀ j, j ≠ i → (ValueTable.clearSlot t i).slots j = t.slots j) := by
  refine ⟨rfl, rfl, ?_, ?_⟩
  · simp [ValueTable.clearSlot, ValueTable.VT.setSlot]
  · intro j h; simp [ValueTable.clearSlot, ValueTable.VT.setSlot, h]

/-- LIFO: a slot freed by `clearSlot` is the next one `nextFree` hands out, and the head goes back to the old head
    (model side of "write the link, then move the head"; needs the old head below `filled`). -/
theorem free_then_alloc_model (t : ValueTable.VT) (i : Nat) (hi : i ≠ 0) (hl : t.lastRemoved < t.filled)
    (h64 : t.lastRemoved < 2 ^ 64) :
    (ValueTable.nextFree (ValueTable.clearSlot t i)).toOption.map (fun r => (r.2, r.1.lastRemoved, r.1.filled)) =
      some (i, t.lastRemoved, t.filled) := by
  have hlink : ValueTable.linkOf ((ValueTable.clearSlot t i).slots i) = t.lastRemoved := by
    have : (ValueTable.clearSlot t i).slots i =
        Pdb.Gen.TOMBSTONE ++ ValueTable.leBytes Pdb.Gen.INDEX_SIZE t.lastRemoved := (clearSlot_model t i).2.2.1
    rw [this]
    simp only [ValueTable.linkOf, Pdb.Gen.TOMBSTONE, Pdb.Gen.SIZE_SIZE, Pdb.Gen.INDEX_SIZE]
    simp only [List.cons_append, List.nil_append, List.drop_succ_cons, List.drop_zero]
    simp only [ValueTable.leBytes, List.take_succ_cons, List.take_zero, ValueTable.fromLe]
    omega
  have h1 : (ValueTable.clearSlot t i).lastRemoved = i := rfl
  have h2 : (ValueTable.clearSlot t i).filled = t.filled := rfl
  have := ((nextFree_model (ValueTable.clearSlot t i)).2.1) (by rw [h1]; exact hi) (by rw [h1, hlink, h2]; exact hl)
  rw [this, h1, hlink]; rfl

/-- CODE + MODEL.  `write_remove_plan`: a multipart table clears the whole chain, a fixed-size table the one slot
    (seeded defect C06-c06b negates the test); `clear_chain` clears every part, following the link read BEFORE the
    slot is overwritten; `write_dec_ref` removes the value exactly when `change_ref` reports that no reference is
    left; the three `write_*_plan` wrappers pass `at` / `claimed` / `compressed` in this order (seeded C06-c06c). -/
theorem removePlan_matches_model :
    (∀ (t : ValueTable.VT) (i : Nat), ValueTable.removePlan t i =
      if t.multipart then ValueTable.clearChain t t.filled i else .ok (ValueTable.clearSlot t i, [i])) ∧
    (∀ (t : ValueTable.VT) (f i : Nat), ValueTable.nextPart t i = none →
      ValueTable.clearChain t (f + 1) i = .ok (ValueTable.clearSlot t i, [i])) ∧
    tableRemovePlan_body = "if self.multipart{self.clear_chain(index,log)?;}else{self.clear_slot(index,log)?;}Ok(())" ∧
    tableClearChain_body =
      "loop{match self.read_next_part(index,log)?{Some(next)=>{self.clear_slot(index,log)?;index=next;},None=>{self.clear_slot(index,log)?;return Ok(())}}}" ∧
    tableDecRef_body = "if self.change_ref(index,-1,log)?{return Ok(true)}self.write_remove_plan(index,log)?;Ok(false)" ∧
    tableIncRef_body = "self.change_ref(index,1,log)?;Ok(())" ∧
    tableInsertPlan_body = "self.overwrite_chain(key,value,log,None,false,compressed)" ∧
    tableReplacePlan_body = "self.overwrite_chain(key,value,log,Some(index),false,compressed)?;Ok(())" ∧
    tableClaimedPlan_body = "self.overwrite_chain(key,value,log,Some(index),true,compressed)?;Ok(())" ∧
    tableReadNextPart_body =
      "let mut buf=PartialEntry::new_uninit();if!log.value(self.id,index,buf.as_mut()){self.file.read_at(buf.as_mut(),index*self.entry_size as u64)?;}if self.multipart&&buf.is_multi(self.db_version){buf.skip_size();let next=buf.read_next();return Ok(Some(next))}Ok(None)" :=
  ⟨fun _ _ => rfl, fun t f i h => by simp [ValueTable.clearChain, h], by decide, by decide, by decide, by decide,
   by decide, by decide, by decide, by decide⟩

/-- MODEL.  `ValueTable.nextPart` is `self.multipart && buf.is_multi(..)` -> the link after the size field. -/
theorem nextPart_model (t : ValueTable.VT) (i : Nat) :
    ValueTable.nextPart t i =
      if t.multipart = true ∧ ValueTable.isMulti (t.slots i) then some (ValueTable.linkOf (t.slots i)) else none := rfl

/-- CODE.  The table header: `last_removed` in bytes `0 .. INDEX_SIZE`, `filled` in `INDEX_SIZE .. 2 * INDEX_SIZE` of a
    16-byte array; getter and setter of each field use the same range; `complete_plan` logs both fields (slot 0)
    exactly when `dirty_header` was set, `open` / `refresh_metadata` read them back with `filled == 0 -> 1`, and
    `open` refuses `last_removed >= filled`. -/
theorem header_layout :
    hdrGetLastRemoved_range = (0, 8) ∧ hdrSetLastRemoved_range = hdrGetLastRemoved_range ∧
    hdrGetFilled_range = (8, 16) ∧ hdrSetFilled_range = hdrGetFilled_range ∧
    hdrGetLastRemoved_range.2 = hdrGetFilled_range.1 ∧
    tableHeaderStruct = "struct Header([u8;16])" ∧
    hdrGetLastRemoved_body = "u64::from_le_bytes(self.0[0..INDEX_SIZE].try_into().unwrap())" ∧
    hdrGetFilled_body = "u64::from_le_bytes(self.0[INDEX_SIZE..INDEX_SIZE*2].try_into().unwrap())" ∧
    hdrSetLastRemoved_body = "self.0[0..INDEX_SIZE].copy_from_slice(&last_removed.to_le_bytes());" ∧
    hdrSetFilled_body = "self.0[INDEX_SIZE..INDEX_SIZE*2].copy_from_slice(&filled.to_le_bytes());" := by decide

theorem header_written_and_read_back :
    tableCompletePlan = [lockFreeRead, ifDirty, loadLastRemoved, loadFilled, setHdrLastRemoved, setHdrFilled, insertValue,
                         endIfDirty] ∧
    tableCompletePlan_stmts = [(insertValue, "log.insert_value(self.id,0,buf.0.to_vec())")] ∧
    tableCompletePlan_conds =
      [(ifDirty, [["let Ok(true)=self.dirty_header.compare_exchange(true,false,Ordering::Relaxed,Ordering::Relaxed)"]])] ∧
    tableOpen = [initFilled, initLastRemoved, ifHasMap, readHeader, hdrLastRemoved, hdrFilled, ifFilledZero, setFilledOne,
                 endIfFilledZero, ifBadRemoved, returnCorruption, endIfBadRemoved, endIfHasMap, fieldFilled, fieldWritten,
                 fieldLastRemoved, fieldDirty, fieldFreeEntries] ∧
    tableOpen_conds = [(ifHasMap, [["file.map.read().is_some()"]]), (ifFilledZero, [["filled==0"]]),
                       (ifBadRemoved, [["last_removed>=filled"]])] ∧
    tableOpen_stmts = [(fieldFilled, "AtomicU64::new(filled)"), (fieldWritten, "AtomicU64::new(filled)"),
                       (fieldLastRemoved, "AtomicU64::new(last_removed)"), (fieldDirty, "AtomicBool::new(false)"),
                       (fieldFreeEntries, "None")] ∧
    tableRefresh = [ifNoMap, returnOkUnit, endIfNoMap, lockFree, readHeader, hdrLastRemoved, hdrFilled, ifFilledZero,
                    setFilledOne, endIfFilledZero, storeLastRemoved, storeFilled, storeWritten] ∧
    tableRefresh_stmts = [(storeLastRemoved, "self.last_removed.store(last_removed,Ordering::Relaxed)"),
                          (storeFilled, "self.filled.store(filled,Ordering::Relaxed)"),
                          (storeWritten, "self.written.store(filled,Ordering::Relaxed)")] ∧
    ctxOf storeFilled tableRefresh_ctx = [] ∧ ctxOf storeLastRemoved tableRefresh_ctx = [] := by decide

/-- CODE.  `init_table_data` rebuilds the in-memory stack of free entries by walking the on-disk chain from
    `last_removed`, refusing links outside the file, and REVERSES it (most recently removed entry on top: the
    `debug_assert_eq!(last, last_removed)` of `next_free` and the LIFO order the multitree allocator relies on;
    seeded defect C10-c10b drops the reversal). -/
theorem initTableData_code :
    initTableData = [ifNeedsFree, loadFilled, loadLastRemoved, startAtHead, whileNext, ifBadLink, returnCorruption,
                     endIfBadLink, stackPush, readLinkFile, skipSize, nextFromLink, endWhileNext, stackReverse,
                     endIfNeedsFree, setFreeEntries] ∧
    initTableData_conds = [(ifNeedsFree, [["self.needs_free_entries"]]), (whileNext, [["next!=0"]]),
                           (ifBadLink, [["next>=filled"], ["next>=capacity"], ["stack.len()as u64>=capacity"]])] ∧
    ctxOf stackReverse initTableData_ctx = [["if self.needs_free_entries"]] := by decide

/-- MODEL.  `VT.empty` is `open` on a file without a map: `filled = 1`, `last_removed = 0`. -/
theorem open_model (e : Nat) (m r : Bool) :
    (ValueTable.VT.empty e m r).filled = 1 ∧ (ValueTable.VT.empty e m r).lastRemoved = 0 := ⟨rfl, rfl⟩

/-- CODE.  `overwrite_chain`: `at = Some(index)` rewrites in place following the old chain unless claimed,
    `at = None` allocates the head; a part that does not fit gets a link (existing one while following, else a
    fresh slot), head marker on the first part only (compressed variant iff `compressed`), ref count 1 and key in
    part 0 only, the unused tail of the old chain is cleared at the end. -/
theorem overwriteChain_code :
    proj [armAtSome, armAtNone, readNextPart, allocNext, writeMultiheadCompressed, writeMultihead, writeMultipart,
          writeNext, writeSize, writeRc, writeKey, writeSlice, insertValue, clearTail, returnStart] overwriteChain =
      [armAtSome, armAtNone, readNextPart, allocNext, writeMultiheadCompressed, writeMultihead, writeMultipart,
       writeNext, writeSize, writeRc, writeKey, writeSlice, insertValue, clearTail, returnStart] ∧
    overwriteChain_stmts = [(writeNext, "buf.write_next(next_index)"), (writeSize, "buf.write_size(remainder as u16,compressed)"),
                            (writeRc, "buf.write_rc(1u32)"), (writeSlice, "buf.write_slice(&value[offset..offset+value_len-written])"),
                            (insertValue, "log.insert_value(self.id,index,buf[0..buf.offset()].to_vec())")] ∧
    ctxOf allocNext overwriteChain_ctx = [["loop", "if remainder>free_space", "if!follow"]] ∧
    ctxOf writeMultiheadCompressed overwriteChain_ctx = [["loop", "if remainder>free_space", "if start==0", "if compressed"]] ∧
    ctxOf writeMultihead overwriteChain_ctx = [["loop", "if remainder>free_space", "if start==0", "if compressed{}else"]] ∧
    ctxOf writeMultipart overwriteChain_ctx = [["loop", "if remainder>free_space", "if start==0{}else"]] ∧
    ctxOf writeNext overwriteChain_ctx = [["loop", "if remainder>free_space"]] ∧
    ctxOf writeSize overwriteChain_ctx = [["loop", "if remainder>free_space{}else"]] ∧
    ctxOf writeRc overwriteChain_ctx = [["loop", "if offset==0", "if self.ref_counted"]] ∧
    ctxOf writeKey overwriteChain_ctx = [["loop", "if offset==0"]] ∧
    ctxOf clearTail overwriteChain_ctx = [["loop", "if remainder==0", "if index!=0"]] ∧
    ctxOf breakLoop overwriteChain_ctx = [["loop", "if remainder==0"]] := by decide

/-- MODEL.  the model's part capacities are the code's `free_space` / `free_space - INDEX_SIZE`. -/
theorem partCap_model (t : ValueTable.VT) :
    ValueTable.freeSpace t = t.entrySize - Pdb.Gen.SIZE_SIZE ∧
    ValueTable.partCap t = t.entrySize - Pdb.Gen.SIZE_SIZE - Pdb.Gen.INDEX_SIZE := ⟨rfl, rfl⟩

/-- CODE.  `change_ref`: a tombstone is never counted (`false`); the counter sits after the size field (after size +
    link for a multipart head); an increment saturates at `LOCKED_REF` (`counter >= LOCKED_REF - delta`: seeded defect
    C07-c07e tests `==`, so that a locked counter wraps), a locked counter is never decremented, and a counter that
    reaches 0 reports `false` WITHOUT writing (the caller removes the value). -/
theorem changeRef_code :
    changeRef = [readSlot, readSlotFile, ifTombstone, returnFalse, endIfTombstone, ifMultiEntry, skipSize, skipNext,
                 tailEntrySize, endIfMultiEntry, readSize, tailOffsetPlusSize, rcOffset, readRc, ifIncrement, ifSaturate, lockCounter, endIfSaturate,
                 addCounter, endIfIncrement, ifNotLocked, subCounter, ifCounterZero, returnFalse, endIfCounterZero,
                 endIfNotLocked, setRcOffset, writeRc, insertValue, returnTrue] ∧
    changeRef_conds = [(ifTombstone, [["buf.is_tombstone()"]]),
                       (ifMultiEntry, [["self.multipart", "buf.is_multi(self.db_version)"]]),
                       (ifIncrement, [["delta>0"]]), (ifSaturate, [["counter>=LOCKED_REF-delta as u32"]]),
                       (ifNotLocked, [["counter!=LOCKED_REF"]]), (ifCounterZero, [["counter==0"]])] ∧
    ctxOf lockCounter changeRef_ctx = [["if delta>0", "if counter>=LOCKED_REF-delta as u32"]] ∧
    ctxOf addCounter changeRef_ctx = [["if delta>0", "if counter>=LOCKED_REF-delta as u32{}else"]] ∧
    ctxOf subCounter changeRef_ctx = [["if delta>0{}else", "if counter!=LOCKED_REF"]] ∧
    ctxOf returnFalse changeRef_ctx =
      [["if buf.is_tombstone()"], ["if delta>0{}else", "if counter!=LOCKED_REF", "if counter==0"]] ∧
    ctxOf writeRc changeRef_ctx = [] ∧
    changeRef_stmts = [(writeRc, "buf.write_rc(counter)"), (insertValue, "log.insert_value(self.id,index,buf[0..size].to_vec())")] := by
  decide

/-- MODEL.  `ValueTable.changeRef`: same cases (tombstone, saturation at `LOCKED_REF - 1`, locked counters stay,
    zero reports `false` and leaves the table alone); `ValueTable.decRef` removes exactly when it reports `false`. -/
theorem changeRef_model (t : ValueTable.VT) (i : Nat) :
    (ValueTable.isTombstone (t.slots i) → ∀ inc, ValueTable.changeRef t i inc = (t, false)) ∧
    (∀ t', ValueTable.changeRef t i false = (t', true) → ValueTable.decRef t i = .ok (t', true)) ∧
    (∀ t', ValueTable.changeRef t i false = (t', false) →
      ValueTable.decRef t i = (match ValueTable.removePlan t i with | .ok r => .ok (r.1, false) | .error e => .error e)) := by
  refine ⟨?_, ?_, ?_⟩
  · intro h inc; simp [ValueTable.changeRef, h]
  · intro t' h; simp [ValueTable.decRef, h]
  · intro t' h; simp only [ValueTable.decRef, h]; cases ValueTable.removePlan t i <;> rfl

/-- CODE.  `claim_entries` (multitree allocation of `num` slots): the same pop-or-extend step as `next_free`, per slot,
    the new head taken from the in-memory stack; `dirty_header` is set after the loop, on every path (seeded defect
    C10-c10e sets it only when `filled` grew). -/
theorem claimEntries_code :
    claimEntries = [matchFreeEntries, lockFree, forClaim, loadFilled, loadLastRemoved, ifHaveRemoved, popStack, peekStack,
                    storeLastRemoved, tailLastRemoved, endIfHaveRemoved, storeFilled, tailFilled, pushEntry, endForClaim,
                    setDirtyHeader, returnEntries] ∧
    claimEntries_conds = [(forClaim, [["_i in 0..num"]]), (ifHaveRemoved, [["last_removed!=0"]])] ∧
    ctxOf setDirtyHeader claimEntries_ctx = [["match&self.free_entries", "Some(free_entries)=>"]] ∧
    ctxOf returnEntries claimEntries_ctx = [["match&self.free_entries", "Some(free_entries)=>"]] ∧
    ctxOf storeFilled claimEntries_ctx =
      [["match&self.free_entries", "Some(free_entries)=>", "for _i in 0..num", "if last_removed!=0{}else"]] ∧
    ctxOf storeLastRemoved claimEntries_ctx =
      [["match&self.free_entries", "Some(free_entries)=>", "for _i in 0..num", "if last_removed!=0"]] ∧
    claimEntries_stmts = [(storeLastRemoved, "self.last_removed.store(next_removed,Ordering::Relaxed)"),
                          (storeFilled, "self.filled.store(filled+1,Ordering::Relaxed)")] := by decide

/-- CODE (C12, fix flush-reindex-tables).  `HashColumn::flush` flushes the current index, EVERY value table, the
    reference-count table if there is one, and every queued index / ref-count table, unconditionally: no early
    return (seeded defect C12-c12b returns before the value tables when the index has no file yet). -/
theorem colFlush_code :
    colFlush = [lockTablesRead, flushIndex, forValueTables, flushValueTable, endForValueTables, ifHasRefCount,
                flushRefCount, endIfHasRefCount, forQueuedFlush, flushQueuedIndex, flushQueuedRc, endForQueuedFlush,
                returnOkTail, unlockTablesRead] ∧
    count returnOkUnit colFlush = 0 ∧
    colFlush_conds = [(forValueTables, [["t in tables.value.iter()"]]), (ifHasRefCount, [["tables.ref_count.is_some()"]]),
                      (forQueuedFlush, [["entry in self.reindex.read().queue.iter()"]])] ∧
    ctxOf flushIndex colFlush_ctx = [] ∧ stmtOf flushIndex colFlush_stmts = ["tables.index.flush()?"] ∧
    ctxOf flushValueTable colFlush_ctx = [["for t in tables.value.iter()"]] ∧
    ctxOf flushQueuedIndex colFlush_ctx = [["for entry in self.reindex.read().queue.iter()", "match entry"]] := by decide

/-- CODE (C20).  The index walk of `iter_index_table` (migration / `iter_index`): every chunk from `start_chunk`, every
    entry of a chunk; an EMPTY entry is skipped (`continue`: seeded defect C20-c20b breaks out of the chunk); an entry
    that an OLDER queued table also holds for the same address is reported once (`reported = true; break` inside the
    loop over the older tables, then `continue`: seeded defect C20-c20c lets the last table decide); the stored key
    tail is copied behind the recovered prefix (`key[6..]`). -/
theorem iterIndexTable_code :
    iterIndexTable = [forChunks, chunkEntries, forEntries, ifEmptyEntry, continueEmpty, endIfEmptyEntry, ifOlder, forOlder,
                      ifReportedByOlder, setReported, breakLoop, endIfReportedByOlder, endForOlder, ifReported, continueEmpty,
                      endIfReported, endIfOlder, getWithMeta, ifStopped, returnFalse, endIfStopped, continueEmpty, ifStopped,
                      returnFalse, endIfStopped, continueEmpty, copyKeyTail, ifStopped, returnFalse, endIfStopped,
                      endForEntries, endForChunks, returnOkTrueTail] ∧
    condsOf forChunks iterIndexTable_conds = [[["c in start_chunk..total_chunks"]]] ∧
    condsOf forEntries iterIndexTable_conds = [[["(sub_index,entry)in entries.iter().enumerate()"]]] ∧
    condsOf ifEmptyEntry iterIndexTable_conds = [[["entry.is_empty()"]]] ∧
    condsOf forOlder iterIndexTable_conds = [[["table in older"]]] ∧
    condsOf ifReported iterIndexTable_conds = [[["reported"]]] ∧
    ctxOf breakLoop iterIndexTable_ctx =
      [["for c in start_chunk..total_chunks", "for(sub_index,entry)in entries.iter().enumerate()", "if!older.is_empty()",
        "for table in older", "if Self::contains_partial_key_with_address(&key_prefix,address,table,log.overlays())?"]] ∧
    ctxOf setReported iterIndexTable_ctx = ctxOf breakLoop iterIndexTable_ctx ∧
    count breakLoop iterIndexTable = 1 ∧ count continueEmpty iterIndexTable = 4 := by decide

/-! ## (d) reindex: `HashColumn::reindex` / `drop_index`, src/index.rs chunk plans vs. `Index.collectPlan` / `enactDrop` -/

/-- CODE.  One reindex batch: the source is the queue FRONT, the batch starts at the stored progress, takes whole
    chunks while `source_index < total_chunks && plan.len() < MAX_REINDEX_BATCH`, skips EMPTY entries only (`continue`,
    not `break`), stores the progress AFTER the loop, and asks for the table to be dropped exactly when the progress
    reached `total_chunks`; nothing happens when `progress == total_chunks` already. -/
theorem reindex_batch_code :
    condsOf whileBatch reindexFn_conds =
      [[["source_index<source.id.total_chunks()", "plan.len()<MAX_REINDEX_BATCH"]],
       [["source_index<source.id.total_chunks()", "ref_count_plan.len()<MAX_REINDEX_BATCH"]]] ∧
    condsOf ifFront reindexFn_conds = [[["let Some(source)=reindex.queue.front()"]]] ∧
    condsOf ifNotDone reindexFn_conds = [[["progress!=source.id.total_chunks()"]], [["progress!=source.id.total_chunks()"]]] ∧
    condsOf ifFinished reindexFn_conds =
      [[["source_index==source.id.total_chunks()"]], [["source_index==source.id.total_chunks()"]]] ∧
    condsOf ifEmptyEntry reindexFn_conds = [[["entry.is_empty()"]], [["entry.is_empty()"]]] ∧
    count continueEmpty reindexFn = 2 ∧
    stmtOf incSource reindexFn_stmts = ["source_index+=1", "source_index+=1"] ∧
    stmtOf storeProgress reindexFn_stmts =
      ["reindex.progress.store(source_index,Ordering::Relaxed)", "reindex.progress.store(source_index,Ordering::Relaxed)"] ∧
    stmtOf pushPlan reindexFn_stmts = ["plan.push((key,entry.address(source.id.index_bits())))"] ∧
    stmtOf returnBatch reindexFn_stmts =
      ["Ok(ReindexBatch{drop_index,batch:plan,drop_ref_count,ref_count_batch:ref_count_plan,ref_count_batch_source:ref_count_source})"] ∧
    proj [loadProgress, startAtProgress, whileBatch, sourceEntries, recoverKey, pushPlan, incSource, endWhileBatch,
          storeProgress, ifFinished, setDropIndex] (reindexFn.take (reindexFn.idxOf setDropIndex + 1)) =
      [loadProgress, startAtProgress, whileBatch, sourceEntries, recoverKey, pushPlan, incSource, endWhileBatch,
       storeProgress, ifFinished, setDropIndex] ∧
    ctxOf setDropIndex reindexFn_ctx =
      [["if let Some(source)=reindex.queue.front()", "match source", "ReindexEntry::Index(source)=>",
        "if progress!=source.id.total_chunks()", "if source_index==source.id.total_chunks()"]] ∧
    ctxOf storeProgress reindexFn_ctx =
      [["if let Some(source)=reindex.queue.front()", "match source", "ReindexEntry::Index(source)=>",
        "if progress!=source.id.total_chunks()"],
       ["if let Some(source)=reindex.queue.front()", "match source", "ReindexEntry::RefCount(source)=>",
        "if progress!=source.id.total_chunks()"]] := by decide

/-- MODEL.  `Index.collectPlan` has the same loop condition, `Index.reindexBatch` does nothing at
    `progress = total_chunks`, `Index.dropPending` is `progress == total_chunks` of the queue front. -/
theorem reindex_model (t : Index.Table) (f c n : Nat) (acc : List (Nat × Nat)) :
    Index.collectPlan t (f + 1) c acc n =
      (if c < Pdb.Gen.total_chunks t.bits ∧ n < Pdb.Gen.MAX_REINDEX_BATCH then
        Index.collectPlan t f (c + 1) ((Index.collectChunk t.bits c (t.page c)).reverse ++ acc)
          (n + (Index.collectChunk t.bits c (t.page c)).length)
      else (acc, c)) ∧
    (∀ s : Index.Col, ∀ t0 ts, s.older = t0 :: ts → s.progress = Pdb.Gen.total_chunks t0.bits → Index.reindexBatch s = .ok s) ∧
    (∀ s : Index.Col, s.older = [] → Index.reindexBatch s = .ok s) ∧
    (∀ s : Index.Col, ∀ t0 ts, s.older = t0 :: ts → Index.dropPending s = (s.progress == Pdb.Gen.total_chunks t0.bits)) := by
  refine ⟨rfl, ?_, ?_, ?_⟩
  · intro s t0 ts h hp; simp [Index.reindexBatch, h, hp]
  · intro s h; simp [Index.reindexBatch, h]
  · intro s t0 ts h; simp [Index.dropPending, h]

/-- the model skips empty entries only -/
theorem collectChunk_model (bits chunk : Nat) (page : List Nat) :
    Index.collectChunk bits chunk page =
      page.filterMap (fun e => if e = 0 then none
        else some (Pdb.Gen.recover_index_key bits chunk e, Pdb.Gen.Entry.address e bits)) := rfl

/-- CODE + MODEL.  `drop_index`: under the reindex WRITE lock, if the queue front is the table to drop, the progress
    is reset to 0 UNCONDITIONALLY (seeded defect C01-c01b resets it only when the queue becomes empty: the next
    queued table would be reindexed from the old table's final progress) and the front is popped;
    `Index.enactDrop`: `older.tail`, `progress := 0`. -/
theorem dropIndex_matches_model :
    (∀ s : Index.Col, Index.dropPending s = true →
      (Index.enactDrop s).older = s.older.tail ∧ (Index.enactDrop s).progress = 0) ∧
    (∀ s : Index.Col, Index.dropPending s = false → Index.enactDrop s = s) ∧
    dropIndexFn = [lockReindexWrite, ifFrontMatches, frontIdEq, resetProgress, popFront, dropFile, endIfFrontMatches,
                   returnOkUnit, unlockReindexWrite] ∧
    held lockReindexWrite unlockReindexWrite resetProgress dropIndexFn = true ∧
    held lockReindexWrite unlockReindexWrite popFront dropIndexFn = true ∧
    dropIndexFn_stmts = [(resetProgress, "reindex.progress.store(0,Ordering::Relaxed)"),
                         (popFront, "let table=reindex.queue.pop_front().unwrap()")] ∧
    ctxOf resetProgress dropIndexFn_ctx = ctxOf popFront dropIndexFn_ctx ∧
    ctxOf resetProgress dropIndexFn_ctx =
      [["if reindex.queue.front_mut().map_or(false,|e|{if let ReindexEntry::Index(t)=e{t.id==id}else{false}})"]] :=
  ⟨fun s h => by simp [Index.enactDrop, h], fun s h => by simp [Index.enactDrop, h], by decide, by decide, by decide,
   by decide, by decide, by decide⟩

/-- CODE.  `write_reindex_plan_locked`: an entry that the current table already holds for this address is skipped,
    otherwise inserted with the same growth loop as `write_plan_new` (`Index.writeReindex`). -/
theorem writeReindex_code :
    writeReindexLocked = [ifContains, returnSkippedEarly, endIfContains, initWritten, whileNeedReindex, triggerReindex,
                          setNeedReindex, endWhileNeedReindex, returnOutcome] ∧
    writeReindexLocked_conds =
      [(ifContains, [["Self::contains_partial_key_with_address(key,address,&tables.index,log)?"]]),
       (whileNeedReindex, [["let PlanOutcome::NeedReindex=tables.index.write_insert_plan(key,address,None,log)?"]])] := by
  decide

theorem writeReindex_model (s : Index.Col) (kp addr : Nat) :
    Index.writeReindex s kp addr =
      if Index.containsAddr s kp addr then .ok s else Index.insertLoop s kp addr Index.LOOP_FUEL := rfl

/-- CODE.  src/index.rs chunk plans: the scalar search runs over `sub_index..CHUNK_ENTRIES` and accepts a non-empty
    entry with the same partial key; an insert refuses an address above `last_address` BEFORE touching the chunk,
    replaces at `sub_index` when given one, else takes the FIRST empty entry of `0..CHUNK_ENTRIES`, else asks for a
    reindex; a removal empties the entry at `sub_index` only if it is occupied by the same partial key. -/
theorem index_chunk_plans_code :
    findEntryBase = [extractKey, forScan, readEntry, ifMatch, returnEntry, endIfMatch, endForScan, returnEmpty] ∧
    findEntryBase_conds = [(forScan, [["i in sub_index..CHUNK_ENTRIES"]]),
                           (ifMatch, [["entry.partial_key(self.id.index_bits())==partial_key", "!entry.is_empty()"]])] ∧
    planInsertChunk = [ifOverflowAddr, returnNeedReindex, endIfOverflowAddr, extractKey, newEntry, ifSubIndex, readEntry,
                       assertSameKey, writeEntry, insertIndex, returnWrittenEarly, endIfSubIndex, forScan, readEntry,
                       ifEmptySlot, writeEntry, insertIndex, returnWrittenEarly, endIfEmptySlot, endForScan, tailNeedReindex] ∧
    planInsertChunk_conds = [(ifOverflowAddr, [["address.as_u64()>Entry::last_address(self.id.index_bits())"]]),
                             (ifSubIndex, [["let Some(i)=sub_index"]]), (forScan, [["i in 0..CHUNK_ENTRIES"]]),
                             (ifEmptySlot, [["entry.is_empty()"]])] ∧
    planRemoveChunk = [extractKey, letSub, readEntry, ifOccupiedSame, emptyEntry, writeEntry, insertIndex,
                       returnWrittenEarly, endIfOccupiedSame, returnSkipped] ∧
    planRemoveChunk_conds =
      [(ifOccupiedSame, [["!entry.is_empty()", "entry.partial_key(self.id.index_bits())==partial_key"]])] := by decide

/-- CODE.  `IndexTable::{write_insert_plan, write_remove_plan, get}` read a chunk from the LOG OVERLAY first (the chunk as
    planned by earlier operations of records that are not enacted yet), then from the mapped file, and only then fall
    back to the empty chunk / `Skipped` / the empty entry; each source ends the function (`return`).  The model's
    `Table.page` is this merged view ("file + overlay"). -/
theorem index_plans_read_overlay_first :
    indexInsertPlan = [keyPrefixOf, chunkIndexOf, ifOverlayChunk, planInsertCall, endIfOverlayChunk, ifMapped, chunkAt,
                       planInsertCall, endIfMapped, emptyChunk, planInsertCall] ∧
    indexInsertPlan_stmts = [(planInsertCall, "return self.plan_insert_chunk(key_prefix,address,chunk,sub_index,log)"),
                             (planInsertCall, "return self.plan_insert_chunk(key_prefix,address,chunk,sub_index,log)"),
                             (planInsertCall, "self.plan_insert_chunk(key_prefix,address,chunk,sub_index,log)")] ∧
    indexRemovePlan = [keyPrefixOf, chunkIndexOf, ifOverlayChunk, planRemoveCall, endIfOverlayChunk, ifMapped, chunkAt,
                       planRemoveCall, endIfMapped, returnSkipped] ∧
    indexRemovePlan_stmts = [(planRemoveCall, "return self.plan_remove_chunk(key_prefix,chunk,sub_index,log)"),
                             (planRemoveCall, "return self.plan_remove_chunk(key_prefix,chunk,sub_index,log)")] ∧
    indexGet = [keyPrefixOf, chunkIndexOf, ifOverlayChunk, findEntryCall, endIfOverlayChunk, ifMapped, chunkAt, findEntryCall,
                endIfMapped, returnEmptyOk] ∧
    condsOf ifOverlayChunk indexInsertPlan_conds =
      [[["let Some(chunk)=log.with_index(self.id,chunk_index,|chunk|chunk.clone())"]]] ∧
    condsOf ifOverlayChunk indexRemovePlan_conds =
      [[["let Some(chunk)=log.with_index(self.id,chunk_index,|chunk|chunk.clone())"]]] ∧
    condsOf ifMapped indexGet_conds = [[["let Some(map)=&*self.map.read()"]]] ∧
    indexGet_exits.map (·.1) = ["return Ok(entry)", "return Ok(self.find_entry(key,sub_index,chunk))"] := by decide

/-! ## (e) B-tree split constants vs. `C04.MIDDLE` / `needRebalance` -/

/-- CODE + MODEL.  a node splits when separator `ORDER - 1` is set, at `ORDER / 2`; it needs rebalancing when separator
    `ORDER / 2 - 1` is missing (`C04.MIDDLE = ORDER / 2`, `needRebalance n = n.seps.length < MIDDLE`). -/
theorem btree_split_matches_model :
    nodeSplitMiddle = "ORDER/2" ∧ nodeSplitMiddleNode = "ORDER/2" ∧ nodeSplitTest = "self.has_separator(ORDER-1)" ∧
    nodeRebalanceTest = "let middle=ORDER/2;!self.has_separator(middle-1)" ∧
    C04.MIDDLE = C04.ORDER / 2 ∧ C04.ORDER = Pdb.Gen.BTREE_ORDER ∧ C04.MIDDLE = 4 :=
  ⟨by decide, by decide, by decide, by decide, rfl, rfl, by decide⟩

/-! ### non-vacuity of the model facts (concrete instances) -/

example : (ValueTable.nextFree (ValueTable.VT.empty 32 false false)).toOption.map (·.2) = some 1 := by decide
example : (ValueTable.nextFree (ValueTable.clearSlot (ValueTable.VT.empty 32 false false |>.setSlot 1 [1, 0, 7]
    |> fun t => { t with filled := 2 }) 1)).toOption.map (fun r => (r.2, r.1.lastRemoved, r.1.filled)) = some (1, 0, 2) :=
  free_then_alloc_model _ 1 (by decide) (by decide) (by decide)
example : Index.frees (some (3, 0, "v")) (Pdb.Gen.Address.new 5 2) = true := by decide
example : Index.frees (some (2, 0, "v")) (Pdb.Gen.Address.new 5 2) = false := by decide
example : held lockReindexRead unlockReindexRead getInIndexQueued
    [lockReindexRead, unlockReindexRead, getInIndexQueued] = false := by decide
example : held lockReindexRead unlockReindexRead getInIndexQueued
    [lockReindexRead, getInIndexQueued, unlockReindexRead] = true := by decide

end Pdb.OrdS

#print axioms Pdb.OrdS.writePlan_dispatch
#print axioms Pdb.OrdS.write_model
#print axioms Pdb.OrdS.writeExisting_purges_on_every_freeing_path
#print axioms Pdb.OrdS.valuePlan_frees_exactly_where_it_says
#print axioms Pdb.OrdS.writeExisting_model
#print axioms Pdb.OrdS.writeNew_loop
#print axioms Pdb.OrdS.triggerReindex_matches_model
#print axioms Pdb.OrdS.get_lookup_order
#print axioms Pdb.OrdS.table_scan_continues_after_a_mismatch
#print axioms Pdb.OrdS.searchAll_order
#print axioms Pdb.OrdS.searchAll_model
#print axioms Pdb.OrdS.purge_visits_every_queued_candidate
#print axioms Pdb.OrdS.no_early_exit
#print axioms Pdb.OrdS.nextFree_code
#print axioms Pdb.OrdS.nextFree_model
#print axioms Pdb.OrdS.clearSlot_code
#print axioms Pdb.OrdS.clearSlot_model
#print axioms Pdb.OrdS.free_then_alloc_model
#print axioms Pdb.OrdS.removePlan_matches_model
#print axioms Pdb.OrdS.nextPart_model
#print axioms Pdb.OrdS.header_layout
#print axioms Pdb.OrdS.header_written_and_read_back
#print axioms Pdb.OrdS.initTableData_code
#print axioms Pdb.OrdS.open_model
#print axioms Pdb.OrdS.overwriteChain_code
#print axioms Pdb.OrdS.partCap_model
#print axioms Pdb.OrdS.changeRef_code
#print axioms Pdb.OrdS.changeRef_model
#print axioms Pdb.OrdS.claimEntries_code
#print axioms Pdb.OrdS.colFlush_code
#print axioms Pdb.OrdS.iterIndexTable_code
#print axioms Pdb.OrdS.reindex_batch_code
#print axioms Pdb.OrdS.reindex_model
#print axioms Pdb.OrdS.collectChunk_model
#print axioms Pdb.OrdS.dropIndex_matches_model
#print axioms Pdb.OrdS.writeReindex_code
#print axioms Pdb.OrdS.writeReindex_model
#print axioms Pdb.OrdS.index_chunk_plans_code
#print axioms Pdb.OrdS.index_plans_read_overlay_first
#print axioms Pdb.OrdS.btree_split_matches_model
