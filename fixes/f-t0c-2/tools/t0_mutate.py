#!/usr/bin/env python3
"""Mutation validation of the T0 translators (skeleton.py, rs2lean.py): apply one edit to a scratch copy of
the crate's src/, run the three translators and `lake build` of the obligation modules, and report which
obligation breaks / which translator fails.  Never touches /repo or the tree this file lives in.

  T0_MUT_ROOT=/dev/shm/t0-mut python3 tools/t0_mutate.py            all edits (about 70 minutes; give disjoint lists of
                                                                     names to several T0_MUT_ROOTs to run them in parallel)
  ... t0_mutate.py H1 C05a R3                                        selected edits
  FAST=1 ...                                                         skip the Props.C15 / Props.C18 build of passing edits

Kinds: harmful (must break an obligation or a translator), harmless (any outcome is acceptable except a WRONG
extraction that the obligations accept: the diff of a changed generated file is printed for inspection),
unreadable (must be a translator error or a broken obligation, never a silently unchanged file + exit 0).
The work area (T0_MUT_ROOT, default /dev/shm/t0-mut) is created on first use from this tree (lean/ with its
.lake, tools/) and from $PDB_REPO/src (default /repo/src); delete it to start afresh.
Reverts of fix commits read the commit with `git -C $T0_GIT show` (default /repo, read only); seeded defects
(`SD-*`) apply /verif/seeded/<name>/patch.diff (`$T0_SEEDED`, default <this tree>/seeded) with `patch -p1`.
Groups: ST-* (storage layer: src/column.rs, src/table.rs, src/index.rs, src/btree/node.rs; obligations `OrdS.*` of
Pdb/Proofs/OrderStorage.lean / OrderStorageRun.lean / OrderStoragePins.lean on Pdb/Gen/Storage.lean), H* X* C05* C18* C08* K* L* C17 S1 (first round), E* (the 17 edits of the second audit), R* N* (harmless
rewrites), T* (unreadable input), SD-* (seeded defects)."""
import os, re, shutil, subprocess, sys, json

VERIF = os.path.dirname(os.path.dirname(os.path.abspath(__file__)))
GIT = os.environ.get("T0_GIT", "/repo")
SEEDED = os.environ.get("T0_SEEDED", os.path.join(VERIF, "seeded"))
ROOT = os.environ.get("T0_MUT_ROOT", "/dev/shm/t0-mut")
PRISTINE = ROOT + "/src.pristine"
REPO = ROOT + "/repo"
LEAN = ROOT + "/lean"
TOOLS = ROOT + "/tools"


def setup():
    os.makedirs(ROOT, exist_ok=True)
    if not os.path.exists(LEAN):
        shutil.copytree(os.path.join(VERIF, "lean"), LEAN, symlinks=True)
    if not os.path.exists(TOOLS):
        shutil.copytree(os.path.join(VERIF, "tools"), TOOLS)
    if not os.path.exists(PRISTINE):
        shutil.copytree(os.path.join(os.environ.get("PDB_REPO", "/repo"), "src"), PRISTINE)

GEN = ["Order.lean", "Bits.lean", "Consts.lean", "Text.lean", "Storage.lean"]
MODULES = ["Pdb.Proofs.Order", "Pdb.Proofs.Throttle", "Pdb.Proofs.OrderStorage", "Pdb.Proofs.OrderStoragePins", "Pdb.Proofs.OrderStorageRun"]
MODULES2 = ["Pdb.Props.C15", "Pdb.Props.C18"]      # only when the obligations pass although the generated files changed


def rep(path, old, new, count=1, nth=0):
    p = os.path.join(REPO, path)
    s = open(p).read()
    n = s.count(old)
    assert n >= 1, "pattern not found in %s: %r" % (path, old[:60])
    if count == 1:
        idx = -1
        for _ in range(nth + 1):
            idx = s.index(old, idx + 1)
        s = s[:idx] + new + s[idx + len(old):]
    else:
        s = s.replace(old, new)
    open(p, "w").write(s)


def revert(commit, path):
    d = subprocess.run(["git", "-C", GIT, "show", commit, "--", path], stdout=subprocess.PIPE, check=True).stdout
    r = subprocess.run(["patch", "-R", "-p1", "-s"], cwd=REPO, input=d, stdout=subprocess.PIPE, stderr=subprocess.STDOUT)
    assert r.returncode == 0, r.stdout.decode()


DB = "src/db.rs"
LOG = "src/log.rs"

MUTS = {}


def mut(name, kind, desc):
    def deco(f):
        MUTS[name] = (kind, desc, f)
        return f
    return deco


# ------------------------------------------------------------------ harmful edits

@mut("H1", "harmful", "shutdown(): notify_one moved out of the block that holds the log-queue mutex (F12 back)")
def _():
    rep(DB, "\t\t\tlet _log_queue = self.log_queue_wait.work.lock();\n\t\t\tself.log_queue_wait.cv.notify_one();\n\t\t}\n",
        "\t\t\tlet _log_queue = self.log_queue_wait.work.lock();\n\t\t}\n\t\tself.log_queue_wait.cv.notify_one();\n")


@mut("H2", "harmful", "store_err: `let _ = self.commit_queue.lock();` (guard dropped at once, F13 race back)")
def _():
    rep(DB, "let _queue = self.commit_queue.lock();", "let _ = self.commit_queue.lock();")


@mut("H3", "harmful", "commit_raw: `bg_err.lock().is_none()` -> `is_some()` in the queue-full `if`")
def _():
    rep(DB, "self.bg_err.lock().is_none()\n\t\t{", "self.bg_err.lock().is_some()\n\t\t{")


@mut("H4", "harmful", "commit_worker: `if !db.log.has_log_files_to_read()` without the `!`")
def _():
    rep(DB, "if !db.log.has_log_files_to_read() {", "if db.log.has_log_files_to_read() {")


@mut("H5", "harmful", "kill_logs: `while self.process_commits(db)? {}` -> a single call")
def _():
    rep(DB, "while self.process_commits(db)? {}", "self.process_commits(db)?;")


@mut("H5b", "harmful", "kill_logs: first `while self.enact_logs(false)? {}` -> a single call")
def _():
    rep(DB, "\t\twhile self.enact_logs(false)? {}\n\t\tself.flush_logs(0)?;\n\t\twhile self.process",
        "\t\tself.enact_logs(false)?;\n\t\tself.flush_logs(0)?;\n\t\twhile self.process")


@mut("H6a", "harmful", "enact_logs: MAX_LOG_FILES / KEEP_LOGS swapped in `let max_logs = if sync_data ..`")
def _():
    rep(DB, "let max_logs = if self.options.sync_data { MAX_LOG_FILES } else { KEEP_LOGS };",
        "let max_logs = if self.options.sync_data { KEEP_LOGS } else { MAX_LOG_FILES };")


@mut("H6b", "harmful", "clean_logs: branches of `let keep_logs = if sync_data {0} else {KEEP_LOGS}` swapped")
def _():
    rep(DB, "let keep_logs = if self.options.sync_data { 0 } else { KEEP_LOGS };",
        "let keep_logs = if self.options.sync_data { KEEP_LOGS } else { 0 };")


@mut("X1", "harmful", "commit_worker: `|| more_work` dropped from the loop condition")
def _():
    rep(DB, "while !db.shutdown.load(Ordering::SeqCst) || more_work {", "while !db.shutdown.load(Ordering::SeqCst) {")


@mut("X2", "harmful", "log_worker: second conjunct of the idle test dropped")
def _():
    rep(DB, "if !more_commits && !more_reindex {", "if !more_commits {")


@mut("X3", "harmful", "enact_logs: `!self.shutdown.load(..)` dropped from the cleanup wait loop (F7 back)")
def _():
    rep(DB, "while has_cleanup_worker &&\n\t\t\t\t\t\t!self.shutdown.load(Ordering::SeqCst) &&\n", "while has_cleanup_worker &&\n")


@mut("X4", "harmful", "enact_logs: wake-up comparison `<=` -> `<` (log queue)")
def _():
    rep(DB, "if *queue <= MAX_LOG_QUEUE_BYTES &&", "if *queue < MAX_LOG_QUEUE_BYTES &&")


@mut("X5", "harmful", "process_commits: `!self.shutdown.load(..) &&` dropped from the log-queue throttle")
def _():
    rep(DB, "if !self.shutdown.load(Ordering::Relaxed) && *queue > MAX_LOG_QUEUE_BYTES {", "if *queue > MAX_LOG_QUEUE_BYTES {")


@mut("C05a", "harmful", "get: `drop(overlay)` before the column lookup (hash arm)")
def _():
    rep(DB, "\t\t\t\t// Go into tables and log overlay.\n\t\t\t\tlet log = self.log.overlays();\n\t\t\t\tOk(column.get(&key, log)?",
        "\t\t\t\tdrop(overlay);\n\t\t\t\tlet log = self.log.overlays();\n\t\t\t\tOk(column.get(&key, log)?")


@mut("C05b", "harmful", "get_size: overlay guard confined to an inner block around the overlay lookup")
def _():
    rep(DB, "\t\t\t\tlet overlay = self.commit_overlay.read();\n\t\t\t\t// Check commit overlay first\n"
            "\t\t\t\tif let Some(l) = overlay.get(col as usize).and_then(|o| o.get_size(&key)) {\n\t\t\t\t\treturn Ok(l)\n\t\t\t\t}\n",
        "\t\t\t\t{\n\t\t\t\tlet overlay = self.commit_overlay.read();\n"
        "\t\t\t\tif let Some(l) = overlay.get(col as usize).and_then(|o| o.get_size(&key)) {\n\t\t\t\t\treturn Ok(l)\n\t\t\t\t}\n\t\t\t\t}\n")


@mut("C05c", "harmful", "get (btree arm): guard taken as a temporary of the `if let` only")
def _():
    rep(DB, "\t\t\t\tlet overlay = self.commit_overlay.read();\n\t\t\t\tif let Some(l) = overlay.get(col as usize).and_then(|o| o.btree_get(key)) {\n"
            "\t\t\t\t\treturn Ok(l.map(|i| i.value().clone()))",
        "\t\t\t\tif let Some(l) = self.commit_overlay.read().get(col as usize).and_then(|o| o.btree_get(key)) {\n"
        "\t\t\t\t\treturn Ok(l.map(|i| i.value().clone()))")


@mut("C05d", "harmful", "get_node: `let _ = self.commit_overlay.read();` + lookup through a second temporary guard")
def _():
    rep(DB, "\t\t\t\tlet overlay = self.commit_overlay.read();\n\t\t\t\t// Check commit overlay first\n"
            "\t\t\t\tif let Some(v) = overlay.get(col as usize).and_then(|o| o.get_address(node_address))\n\t\t\t\t{\n"
            "\t\t\t\t\treturn Ok(Some(unpack_node_data(",
        "\t\t\t\tlet _ = self.commit_overlay.read();\n\t\t\t\tlet overlay = self.commit_overlay.read().clone();\n"
        "\t\t\t\tif let Some(v) = overlay.get(col as usize).and_then(|o| o.get_address(node_address))\n\t\t\t\t{\n"
        "\t\t\t\t\treturn Ok(Some(unpack_node_data(")


@mut("C18a", "harmful", "DbInner::open: new file write before try_lock_exclusive (call outside the vocabulary)")
def _():
    rep(DB, '\t\tlock_path.push("lock");\n', '\t\tlock_path.push("lock");\n\t\tstd::fs::write(options.path.join("opened"), b"1").ok();\n')


@mut("C18b", "harmful", "Db::open_inner: file removal before DbInner::open")
def _():
    rep(DB, "\t\tassert!(options.is_valid());\n\t\tlet mut db = DbInner::open(",
        "\t\tassert!(options.is_valid());\n\t\tlet _ = std::fs::remove_file(options.path.join(\"stats.txt\"));\n\t\tlet mut db = DbInner::open(")


@mut("C18c", "harmful", "DbInner::open: metadata loaded before the lock is taken")
def _():
    rep(DB, "\t\tlock_file.try_lock_exclusive().map_err(Error::Locked)?;\n\n\t\tlet metadata = options.load_and_validate_metadata(opening_mode == OpeningMode::Create)?;\n",
        "\t\tlet metadata = options.load_and_validate_metadata(opening_mode == OpeningMode::Create)?;\n\t\tlock_file.try_lock_exclusive().map_err(Error::Locked)?;\n")


@mut("C18d", "harmful", "DbInner::open: truncating helper closure called before the lock (method call on a local)")
def _():
    rep(DB, '\t\tlock_path.push("lock");\n', '\t\tlock_path.push("lock");\n\t\toptions.write_metadata(&options.path, &[0u8; 32]).ok();\n')


@mut("C08a", "harmful", "commit_changes: validation moved into the apply loop (per change, not whole tx first)")
def _():
    rep(DB, "\t\tfor (col, change) in tx.iter() {\n\t\t\tself.validate_change(*col, change)?;\n\t\t}\n", "")
    rep(DB, "\t\tfor (col, change) in tx.into_iter() {\n", "\t\tfor (col, change) in tx.into_iter() {\n\t\t\tself.validate_change(col, &change)?;\n")


@mut("C08b", "harmful", "commit_changes: stored background error no longer tested (f67544a undone by hand)")
def _():
    rep(DB, "\t\t{\n\t\t\tlet bg_err = self.bg_err.lock();\n\t\t\tif let Some(err) = &*bg_err {\n"
            "\t\t\t\treturn Err(Error::Background(err.clone()))\n\t\t\t}\n\t\t}\n\n\t\tlet mut commit: CommitChangeSet",
        "\n\t\tlet mut commit: CommitChangeSet")


@mut("C08c", "harmful", "commit_changes: background error tested after the apply loop")
def _():
    blk = ("\t\t{\n\t\t\tlet bg_err = self.bg_err.lock();\n\t\t\tif let Some(err) = &*bg_err {\n"
           "\t\t\t\treturn Err(Error::Background(err.clone()))\n\t\t\t}\n\t\t}\n")
    rep(DB, blk + "\n\t\tlet mut commit: CommitChangeSet", "\n\t\tlet mut commit: CommitChangeSet")
    rep(DB, "\n\t\tself.commit_raw_checked(commit, false)\n", "\n" + blk + "\t\tself.commit_raw_checked(commit, false)\n")


@mut("C08d", "harmful", "commit_changes: only the first change is validated (`tx.iter().take(1)`)")
def _():
    rep(DB, "for (col, change) in tx.iter() {\n\t\t\tself.validate_change", "for (col, change) in tx.iter().take(1) {\n\t\t\tself.validate_change")


@mut("C08e", "harmful", "commit_changes: validation result ignored (`let _ = self.validate_change(..)`)")
def _():
    rep(DB, "\t\t\tself.validate_change(*col, change)?;\n", "\t\t\tlet _ = self.validate_change(*col, change);\n")


@mut("K1", "harmful", "kill_logs: error branch no longer flushes the columns (revert 671d30b)")
def _():
    revert("671d30b", DB)


@mut("K2", "harmful", "kill_logs: error branch flushes AFTER Log::clean_logs")
def _():
    fl = "\t\t\t\tif self.options.sync_data {\n\t\t\t\t\tfor c in self.columns.iter() {\n\t\t\t\t\t\tc.flush()?;\n\t\t\t\t\t}\n\t\t\t\t}\n"
    cl = "\t\t\t\tself.log.clean_logs(self.log.num_dirty_logs())?;\n"
    rep(DB, fl + cl, cl + fl)


@mut("K3", "harmful", "kill_logs: error branch flush made unconditional on the wrong flag (`if self.options.stats`)")
def _():
    rep(DB, "\t\t\t\tif self.options.sync_data {\n\t\t\t\t\tfor c in self.columns.iter() {\n\t\t\t\t\t\tc.flush()?;",
        "\t\t\t\tif self.options.stats {\n\t\t\t\t\tfor c in self.columns.iter() {\n\t\t\t\t\t\tc.flush()?;")


@mut("L1", "harmful", "Log::clean_logs: failed files no longer re-queued (revert 5e84721)")
def _():
    revert("5e84721", LOG)


@mut("L1b", "harmful", "Log::clean_logs: the failed file itself is dropped (`pending.push_front` removed)")
def _():
    rep(LOG, "\t\t\t\t\tpending.push_front((id, file));\n", "")


@mut("L1c", "harmful", "Log::clean_logs: pending files pushed to the BACK of the cleanup queue")
def _():
    rep(LOG, "queue.push_front(entry);", "queue.push_back(entry);")


@mut("L2", "harmful", "Log::end_record: appending file not retired after a failed write (revert 5899f3f)")
def _():
    revert("5899f3f", LOG)


@mut("C17", "harmful", "load_and_validate_metadata: comparison loop starts at column 1")
def _():
    rep("src/options.rs", "for c in 0..meta.columns.len() {", "for c in 1..meta.columns.len() {")


@mut("S1", "harmful", "WaitCondvar::signal: notify after the guard is dropped")
def _():
    rep(DB, "\t\tlet mut work = self.work.lock();\n\t\t*work = true;\n\t\tself.cv.notify_one();\n",
        "\t\tlet mut work = self.work.lock();\n\t\t*work = true;\n\t\tdrop(work);\n\t\tself.cv.notify_one();\n")


# ------------------------------------------------------------------ the 17 edits of the second audit (all compile)

FLUSH_CLEAN = "\t\t\tif self.options.sync_data {\n\t\t\t\tfor c in self.columns.iter() {\n\t\t\t\t\tc.flush()?;"
FLUSH_KILL = "\t\t\t\tif self.options.sync_data {\n\t\t\t\t\tfor c in self.columns.iter() {\n\t\t\t\t\t\tc.flush()?;"


@mut("E1", "harmful", "clean_logs: `for c in self.columns.iter().skip(1) { c.flush()? }` (first column never flushed)")
def _():
    rep(DB, FLUSH_CLEAN, FLUSH_CLEAN.replace("self.columns.iter()", "self.columns.iter().skip(1)"))


@mut("E13", "harmful", "kill_logs error branch: `for c in self.columns.iter().skip(1)`")
def _():
    rep(DB, FLUSH_KILL, FLUSH_KILL.replace("self.columns.iter()", "self.columns.iter().skip(1)"))


@mut("E2", "harmful", "Log::open: `sync: false` (the WAL is never synced)")
def _():
    rep(LOG, "\t\t\tsync: options.sync_wal,\n", "\t\t\tsync: false,\n")


@mut("E3", "harmful", "process_commits: `queue.bytes -= commit.bytes` deleted (committers throttle for ever)")
def _():
    rep(DB, "\t\t\t\tqueue.bytes -= commit.bytes;\n", "")


@mut("E10", "harmful", "enact_logs: `*queue -= bytes as i64 / 2` (the log worker throttles for ever after ~256 MiB)")
def _():
    rep(DB, "*queue -= bytes as i64;", "*queue -= bytes as i64 / 2;")


@mut("E4", "harmful", "log_worker: result of `process_commits` dropped")
def _():
    rep(DB, "\t\t\tmore_commits = db.process_commits(&db)?;\n", "\t\t\tdb.process_commits(&db)?;\n")


@mut("E6", "harmful", "open_inner: commit worker not wrapped in `store_err`")
def _():
    rep(DB, "commit_worker_db.store_err(Self::commit_worker(commit_worker_db.clone()))",
        "let _ = Self::commit_worker(commit_worker_db.clone());")


@mut("E9", "harmful", "get: a commit-overlay hit is ignored (hash arm)")
def _():
    rep(DB, "\t\t\t\tif let Some(v) = overlay.get(col as usize).and_then(|o| o.get(&key)) {\n\t\t\t\t\treturn Ok(v.map(|i| i.value().clone()))\n",
        "\t\t\t\tif let Some(v) = overlay.get(col as usize).and_then(|o| o.get(&key)) {\n\t\t\t\t\tlet _ = v;\n")


@mut("E5", "harmful", "DbInner::open: `let _ = lock_file.unlock();` right after try_lock_exclusive")
def _():
    rep(DB, "\t\tlock_file.try_lock_exclusive().map_err(Error::Locked)?;\n",
        "\t\tlock_file.try_lock_exclusive().map_err(Error::Locked)?;\n\t\tlet _ = lock_file.unlock();\n")


@mut("E7", "harmful", "column.rs: revert of 49b959b (reindex lock not held across the index lookups of a read)")
def _():
    revert("49b959b", "src/column.rs")


@mut("E8", "harmful", "Log::clean_logs: `queue.drain(0..count)` -> `queue.drain(..)` (max_count not honoured)")
def _():
    rep(LOG, "queue.drain(0..count).collect()", "queue.drain(..).collect()")


@mut("E14", "harmful", "commit_raw: the log worker is signalled only `if !was_empty`")
def _():
    rep(DB, "\t\tqueue.commits.push_back(commit);\n\t\tqueue.bytes += bytes;\n\t\tself.log_worker_wait.signal();\n",
        "\t\tlet was_empty = queue.commits.is_empty();\n\t\tqueue.commits.push_back(commit);\n\t\tqueue.bytes += bytes;\n"
        "\t\tif !was_empty {\n\t\t\tself.log_worker_wait.signal();\n\t\t}\n")


@mut("E15", "harmful", "WaitCondvar::signal: `if false { self.cv.notify_one(); }`")
def _():
    rep(DB, "\t\t*work = true;\n\t\tself.cv.notify_one();\n", "\t\t*work = true;\n\t\tif false {\n\t\t\tself.cv.notify_one();\n\t\t}\n")


@mut("E16", "harmful", "drop_inner: `if self.inner.options.stats { kill_logs .. }`")
def _():
    rep(DB, "\t\tif let Err(e) = self.inner.kill_logs(&self.inner) {\n\t\t\tlog::warn!(target: \"parity-db\", \"Shutdown error: {:?}\", e);\n\t\t}\n",
        "\t\tif self.inner.options.stats {\n\t\t\tif let Err(e) = self.inner.kill_logs(&self.inner) {\n"
        "\t\t\t\tlog::warn!(target: \"parity-db\", \"Shutdown error: {:?}\", e);\n\t\t\t}\n\t\t}\n")


@mut("E11", "harmful", "control: store_err `notify_all` -> `notify_one`")
def _():
    rep(DB, "\t\t\tlet _queue = self.commit_queue.lock();\n\t\t\tself.commit_queue_full_cv.notify_all();\n",
        "\t\t\tlet _queue = self.commit_queue.lock();\n\t\t\tself.commit_queue_full_cv.notify_one();\n")


@mut("E17", "harmful", "control: commit_raw `queue.bytes > MAX_COMMIT_QUEUE_BYTES` -> `>=`")
def _():
    rep(DB, "\t\t\tqueue.bytes > MAX_COMMIT_QUEUE_BYTES &&\n", "\t\t\tqueue.bytes >= MAX_COMMIT_QUEUE_BYTES &&\n")


@mut("E18", "harmful", "control: flush_one publishes the file to the read queue BEFORE the sync")
def _():
    rep(LOG, "\t\t\t\tif self.sync {\n", "\t\t\t\tself.read_queue.write().push_back((to_flush.id, try_io!(file.try_clone())));\n\t\t\t\tif self.sync {\n")
    rep(LOG, "\t\t\t\tself.read_queue.write().push_back((to_flush.id, file));\n", "")


# further edits of the same classes (this round)

@mut("C08f", "harmful", "commit_changes calls `commit_raw_checked(commit, true)` (F44 back: refusal after the claims)")
def _():
    rep(DB, "\t\tself.commit_raw_checked(commit, false)\n", "\t\tself.commit_raw_checked(commit, true)\n")


@mut("C08g", "harmful", "the wrapper `commit_raw` passes `false` (no caller re-checks the error after the queue-full wait)")
def _():
    rep(DB, "\t\tself.commit_raw_checked(commit, true)\n", "\t\tself.commit_raw_checked(commit, false)\n")


@mut("C08h", "harmful", "commit_raw_checked: the second error test under `if !check_bg_err`")
def _():
    rep(DB, "\t\tif check_bg_err {\n", "\t\tif !check_bg_err {\n")


@mut("W1", "harmful", "IndexedChangeSet::write_plan: first pass plans ALL root changes (F41 back, postponed ones planned twice)")
def _():
    rep(DB, "for change in self.changes.iter().filter(|change| !postponed(change)) {", "for change in self.changes.iter() {")


@mut("W2", "harmful", "IndexedChangeSet::write_plan: the late pass moved in front of the node changes")
def _():
    late = ("\t\tfor change in self.changes.iter().filter(|change| postponed(change)) {\n"
            "\t\t\tif let PlanOutcome::NeedReindex = column.write_plan(change, writer)? {\n\t\t\t\t*reindex = true;\n\t\t\t}\n"
            "\t\t\t*ops += 1;\n\t\t}\n")
    rep(DB, late, "")
    rep(DB, "\t\tfor change in self.node_changes.iter() {\n\t\t\tmatch change {\n\t\t\t\tNodeChange::NewValue(address, val) => {",
        late + "\t\tfor change in self.node_changes.iter() {\n\t\t\tmatch change {\n\t\t\t\tNodeChange::NewValue(address, val) => {")


@mut("E1b", "harmful", "clean_all_logs: `for c in self.columns.iter().rev().skip(1)`")
def _():
    rep(DB, "\tfn clean_all_logs(&self) -> Result<()> {\n\t\tfor c in self.columns.iter() {",
        "\tfn clean_all_logs(&self) -> Result<()> {\n\t\tfor c in self.columns.iter().rev().skip(1) {")


@mut("E3b", "harmful", "process_reindex: second `*logged_bytes += bytes as i64` deleted (ref-count reindex records never counted)")
def _():
    rep(DB, "\t\t\t\t*logged_bytes += bytes as i64;\n", "", nth=1)


@mut("E3c", "harmful", "commit_raw: `queue.bytes += bytes` moved under `if bytes > 1024`")
def _():
    rep(DB, "\t\tqueue.commits.push_back(commit);\n\t\tqueue.bytes += bytes;\n",
        "\t\tqueue.commits.push_back(commit);\n\t\tif bytes > 1024 {\n\t\t\tqueue.bytes += bytes;\n\t\t}\n")


@mut("E3d", "harmful", "a new writer of the counter: `queue.bytes = 0;` in store_err")
def _():
    rep(DB, "\t\t\tlet _queue = self.commit_queue.lock();\n\t\t\tself.commit_queue_full_cv.notify_all();\n",
        "\t\t\tlet mut queue = self.commit_queue.lock();\n\t\t\tqueue.bytes = 0;\n\t\t\tself.commit_queue_full_cv.notify_all();\n")


@mut("E5b", "harmful", "Db::open_inner: `db.lock_file.unlock().ok();` after the replay")
def _():
    rep(DB, "\t\tdb.init_table_data()?;\n\t\tlet db = Arc::new(db);\n", "\t\tdb.init_table_data()?;\n\t\tdb.lock_file.unlock().ok();\n\t\tlet db = Arc::new(db);\n")


@mut("E5c", "harmful", "DbInner::open: the handle keeps a CLONE of the lock file (`lock_file: try_io!(lock_file.try_clone())`)")
def _():
    rep(DB, "\t\t\tdb_version: metadata.version,\n\t\t\tlock_file,\n", "\t\t\tdb_version: metadata.version,\n\t\t\tlock_file: try_io!(lock_file.try_clone()),\n")


@mut("E6b", "harmful", "open_inner: the log worker's error is swallowed before it reaches store_err (`.or(Ok(()))`)")
def _():
    rep(DB, "log_worker_db.store_err(Self::log_worker(log_worker_db.clone()))",
        "log_worker_db.store_err(Self::log_worker(log_worker_db.clone()).or(Ok(())))")


@mut("E8b", "harmful", "Log::clean_logs: `let count = max(max_count, queue.len())`")
def _():
    rep(LOG, "let count = min(max_count, queue.len());", "let count = std::cmp::max(max_count, queue.len());")


@mut("E14b", "harmful", "flush_logs: the commit worker is signalled in an `else` branch (`if !has_flushed {} else {..}` kept, condition negated)")
def _():
    rep(DB, "\t\tif has_flushed {\n\t\t\tself.commit_worker_wait.signal();\n\t\t}\n", "\t\tif !has_flushed {\n\t\t\tself.commit_worker_wait.signal();\n\t\t}\n")


@mut("E14c", "harmful", "shutdown: the cleanup-queue signal only `if self.options.sync_data`")
def _():
    rep(DB, "\t\tself.cleanup_queue_wait.signal();\n\t}\n\n\tfn kill_logs", "\t\tif self.options.sync_data {\n\t\t\tself.cleanup_queue_wait.signal();\n\t\t}\n\t}\n\n\tfn kill_logs")


@mut("E14d", "harmful", "process_commits: `end_record` .. signal moved into a closure that is never called")
def _():
    rep(DB, "\t\t\tlet bytes = {\n\t\t\t\tlet bytes = self.log.end_record(l)?;", "\t\t\tlet _never = || -> Result<u64> {\n\t\t\t\tlet bytes = self.log.end_record(l)?;")
    rep(DB, "\t\t\t\tself.flush_worker_wait.signal();\n\t\t\t\tbytes\n\t\t\t};\n", "\t\t\t\tself.flush_worker_wait.signal();\n\t\t\t\tOk(bytes)\n\t\t\t};\n\t\t\tlet bytes = 0u64;\n")


# ------------------------------------------------------------------ harmless rewrites

@mut("R1", "harmless", "rename guard variables (`_log_queue` -> `_guard` in shutdown, `_queue` -> `_q_guard` in store_err)")
def _():
    rep(DB, "let _log_queue = self.log_queue_wait.work.lock();", "let _guard = self.log_queue_wait.work.lock();")
    rep(DB, "let _queue = self.commit_queue.lock();", "let _q_guard = self.commit_queue.lock();")


@mut("R2", "harmless", "reorder two independent statements (two signals in shutdown)")
def _():
    rep(DB, "\t\tself.flush_worker_wait.signal();\n\t\tself.log_worker_wait.signal();\n",
        "\t\tself.log_worker_wait.signal();\n\t\tself.flush_worker_wait.signal();\n")


@mut("R3", "harmless", "reformat conditions over several lines (log throttle, max_logs, worker loop)")
def _():
    rep(DB, "if !self.shutdown.load(Ordering::Relaxed) && *queue > MAX_LOG_QUEUE_BYTES {",
        "if !self.shutdown.load(\n\t\t\t\tOrdering::Relaxed,\n\t\t\t) &&\n\t\t\t\t*queue >\n\t\t\t\t\tMAX_LOG_QUEUE_BYTES\n\t\t\t{")
    rep(DB, "let max_logs = if self.options.sync_data { MAX_LOG_FILES } else { KEEP_LOGS };",
        "let max_logs = if self.options.sync_data {\n\t\t\t\t\tMAX_LOG_FILES\n\t\t\t\t} else {\n\t\t\t\t\tKEEP_LOGS\n\t\t\t\t};")
    rep(DB, "while !db.shutdown.load(Ordering::SeqCst) || more_work {", "while !db.shutdown.load(Ordering::SeqCst)\n\t\t\t|| more_work\n\t\t{")


@mut("R4", "harmless", "comments containing braces, a `'}'` char literal and a `\"{\"` string literal")
def _():
    rep(DB, "\t\t\tlet _log_queue = self.log_queue_wait.work.lock();\n",
        "\t\t\t// unbalanced } } { in a comment\n\t\t\t/* } and /* nested { */ } */\n"
        "\t\t\tlet _log_queue = self.log_queue_wait.work.lock();\n\t\t\tlet _c = ('}', \"{ // }\", b'{', r#\"}\"#);\n")
    rep(DB, "\t\tlet mut queue = self.commit_queue.lock();\n\n\t\t#[cfg(any(test", "\t\tlet mut queue = self.commit_queue.lock(); // }\n\n\t\t#[cfg(any(test")


@mut("R5", "harmless", "debug log lines (store_err before the notify, DbInner::open before the lock, kill_logs error branch)")
def _():
    rep(DB, "\t\t\tself.commit_queue_full_cv.notify_all();\n\t\t}\n\t}\n",
        "\t\t\tlog::debug!(target: \"parity-db\", \"notify {{ all\");\n\t\t\tself.commit_queue_full_cv.notify_all();\n\t\t}\n\t}\n")
    rep(DB, '\t\tlock_path.push("lock");\n', '\t\tlock_path.push("lock");\n\t\tlog::debug!(target: "parity-db", "Opening {:?}", lock_path);\n')
    rep(DB, "\t\t\t\tself.log.clean_logs(self.log.num_dirty_logs())?;\n", "\t\t\t\tlog::debug!(target: \"parity-db\", \"reclaim\");\n\t\t\t\tself.log.clean_logs(self.log.num_dirty_logs())?;\n")


@mut("R6", "harmless", "extract a helper `fn is_shutdown()` and use it in the commit worker loop")
def _():
    rep(DB, "\tfn shutdown(&self) {\n", "\tfn is_shutdown(&self) -> bool {\n\t\tself.shutdown.load(Ordering::SeqCst)\n\t}\n\n\tfn shutdown(&self) {\n")
    rep(DB, "while !db.shutdown.load(Ordering::SeqCst) || more_work {", "while !db.is_shutdown() || more_work {")


@mut("R7", "harmless", "`let _ = t.join();` instead of logging the join error (log thread)")
def _():
    rep(DB, "\t\t\tif let Err(e) = t.join() {\n\t\t\t\tlog::warn!(target: \"parity-db\", \"Log thread shutdown error: {:?}\", e);\n\t\t\t}\n",
        "\t\t\tlet _ = t.join();\n")


@mut("R8", "harmless", "name a condition: `let full = queue.bytes > MAX_COMMIT_QUEUE_BYTES;` in commit_raw")
def _():
    rep(DB, "\t\tif might_wait_because_the_queue_is_full &&\n\t\t\tqueue.bytes > MAX_COMMIT_QUEUE_BYTES &&\n",
        "\t\tlet full = queue.bytes > MAX_COMMIT_QUEUE_BYTES;\n\t\tif might_wait_because_the_queue_is_full &&\n\t\t\tfull &&\n")


@mut("R9", "harmless", "get_size: guard bound to another name plus an alias (`let guard = ..read(); let overlay = &*guard;`)")
def _():
    rep(DB, "\t\t\t\tlet overlay = self.commit_overlay.read();\n\t\t\t\t// Check commit overlay first\n\t\t\t\tif let Some(l) = overlay.get(col as usize).and_then(|o| o.get_size(&key)) {",
        "\t\t\t\tlet guard = self.commit_overlay.read();\n\t\t\t\tlet overlay = &*guard;\n\t\t\t\tif let Some(l) = overlay.get(col as usize).and_then(|o| o.get_size(&key)) {")


@mut("R10", "harmless", "shutdown: explicit `drop(guard)` after the notify instead of the block")
def _():
    rep(DB, "\t\t\tlet _log_queue = self.log_queue_wait.work.lock();\n\t\t\tself.log_queue_wait.cv.notify_one();\n\t\t}\n",
        "\t\t\tlet log_queue = self.log_queue_wait.work.lock();\n\t\t\tself.log_queue_wait.cv.notify_one();\n\t\t\tdrop(log_queue);\n\t\t}\n")



@mut("N1", "harmless", "clean_all_logs: an extra plain block around the flush loop")
def _():
    rep(DB, "\tfn clean_all_logs(&self) -> Result<()> {\n\t\tfor c in self.columns.iter() {\n\t\t\tc.flush()?;\n\t\t}\n",
        "\tfn clean_all_logs(&self) -> Result<()> {\n\t\t{\n\t\t\tfor c in self.columns.iter() {\n\t\t\t\tc.flush()?;\n\t\t\t}\n\t\t}\n")


@mut("N2", "harmless", "clean_logs: loop header reformatted over several lines with a comment inside")
def _():
    rep(DB, FLUSH_CLEAN, "\t\t\tif self.options.sync_data {\n\t\t\t\tfor c in self\n\t\t\t\t\t.columns // every column\n\t\t\t\t\t.iter()\n\t\t\t\t{\n\t\t\t\t\tc.flush()?;")


@mut("N3", "harmless", "commit_raw: a guarded trace line (`if log::log_enabled!(..) { log::trace!(..) }`) between the push and the counter update")
def _():
    rep(DB, "\t\tqueue.commits.push_back(commit);\n\t\tqueue.bytes += bytes;\n",
        "\t\tqueue.commits.push_back(commit);\n\t\tif log::log_enabled!(log::Level::Trace) {\n\t\t\tlog::trace!(target: \"parity-db\", \"queued {{ {} }}\", bytes);\n\t\t}\n\t\tqueue.bytes += bytes;\n")


@mut("N4", "harmless", "process_commits: local `ops` renamed to `n_ops` (not part of any header or pinned statement)")
def _():
    for a, b in (("let mut ops: u64 = 0;", "let mut n_ops: u64 = 0;"), ("\t\t\t\t\t&mut ops,\n", "\t\t\t\t\t&mut n_ops,\n"),
                 ("btree.write_plan(column, &mut writer, &mut ops)?;", "btree.write_plan(column, &mut writer, &mut n_ops)?;"),
                 ("\t\t\t\trecord_id,\n\t\t\t\tops,\n\t\t\t\tbytes,\n", "\t\t\t\trecord_id,\n\t\t\t\tn_ops,\n\t\t\t\tbytes,\n")):
        rep(DB, a, b)


@mut("N5", "harmless", "Log::clean_logs: `let count = min(..)` over several lines, comments, rustfmt trailing comma")
def _():
    rep(LOG, "let count = min(max_count, queue.len());", "let count = min(\n\t\t\t\tmax_count, // at most this many\n\t\t\t\tqueue.len(),\n\t\t\t);")


@mut("N6", "harmless", "commit_raw: `#[allow(unused_mut)]` on the `let mut overlay = ..write();` guard binding")
def _():
    rep(DB, "\t\tlet mut overlay = self.commit_overlay.write();\n\n\t\tqueue.record_id += 1;", "\t\t#[allow(unused_mut)]\n\t\tlet mut overlay = self.commit_overlay.write();\n\n\t\tqueue.record_id += 1;")


@mut("N7", "harmless", "Log::open: `sync: options.sync_wal` moved to the first field of the struct literal")
def _():
    rep(LOG, "\t\t\tsync: options.sync_wal,\n", "")
    rep(LOG, "\t\tOk(Log {\n\t\t\toverlays:", "\t\tOk(Log {\n\t\t\tsync: options.sync_wal,\n\t\t\toverlays:")


@mut("N8", "harmless", "DbInner::open: `lock_file: lock_file` spelled out, field moved up")
def _():
    rep(DB, "\t\t\tdb_version: metadata.version,\n\t\t\tlock_file,\n", "\t\t\tlock_file: lock_file,\n\t\t\tdb_version: metadata.version,\n")


@mut("N9", "harmless", "drop_inner: the error variable of `if let Err(e) = self.inner.kill_logs(..)` renamed (a header that encloses no marker)")
def _():
    rep(DB, "\t\tif let Err(e) = self.inner.kill_logs(&self.inner) {\n\t\t\tlog::warn!(target: \"parity-db\", \"Shutdown error: {:?}\", e);",
        "\t\tif let Err(err) = self.inner.kill_logs(&self.inner) {\n\t\t\tlog::warn!(target: \"parity-db\", \"Shutdown error: {:?}\", err);")


@mut("N10", "harmless", "clean_all_logs: `for c in &self.columns` (same range, other spelling: a pinned header, flagged by design)")
def _():
    rep(DB, "\tfn clean_all_logs(&self) -> Result<()> {\n\t\tfor c in self.columns.iter() {", "\tfn clean_all_logs(&self) -> Result<()> {\n\t\tfor c in &self.columns {")


@mut("N11", "harmless", "open_inner: worker handle variables renamed (`commit_worker_db` -> `cw`)")
def _():
    rep(DB, "commit_worker_db", "cw", count=0)


@mut("N12", "harmless", "flush_logs: local `has_flushed` renamed (it IS the header the signal sits under: flagged by design)")
def _():
    rep(DB, "has_flushed", "flushed", count=0)


# ------------------------------------------------------------------ seeded defects (/verif/seeded/<name>/patch.diff)

def seeded(name):
    d = open(os.path.join(SEEDED, name, "patch.diff"), "rb").read()
    r = subprocess.run(["patch", "-p1", "-s", "--no-backup-if-mismatch"], cwd=REPO, input=d, stdout=subprocess.PIPE, stderr=subprocess.STDOUT)
    assert r.returncode == 0, r.stdout.decode()


for _sd in ("C12-c12a", "C15-c15a", "C15-c15b", "C18-c18a", "C18-c18b"):
    MUTS["SD-" + _sd] = ("seeded", "seeded defect " + _sd, (lambda n: (lambda: seeded(n)))(_sd))


# ------------------------------------------------------------------ storage layer (tools/rs2lean_storage.py, theorems OrdS.*)

COLRS = "src/column.rs"
TABRS = "src/table.rs"
IDXRS = "src/index.rs"
NODERS = "src/btree/node.rs"
GET_QUEUED = ("\t\tfor entry in &reindex.queue {\n\t\t\tif let ReindexEntry::Index(r) = entry {\n"
              "\t\t\t\tif let Some((tier, rc, value)) = self.get_in_index(key, r, values, log)? {")
PURGE = "Self::remove_from_queued_indexes(key, existing_address, reindex, log)?;\n"


@mut("ST-H01", "harmful", "get: queued index tables visited newest first (`reindex.queue.iter().rev()`)")
def _():
    rep(COLRS, GET_QUEUED, GET_QUEUED.replace("in &reindex.queue", "in reindex.queue.iter().rev()"))


@mut("ST-H02", "harmful", "get: the oldest queued index table is never searched (`reindex.queue.iter().skip(1)`)")
def _():
    rep(COLRS, GET_QUEUED, GET_QUEUED.replace("in &reindex.queue", "in reindex.queue.iter().skip(1)"))


@mut("ST-H03", "harmful", "get: a hit in a queued table reports reference count 0")
def _():
    rep(COLRS, "\t\t\t\t\treturn Ok(Some((value, rc)))\n", "\t\t\t\t\treturn Ok(Some((value, 0)))\n")


@mut("ST-H04", "harmful", "get_in_index: continuation skips a candidate (`sub_index + 2`)")
def _():
    rep(COLRS, "\t\t\t\t\tlet (next_entry, next_index) = index.get(key, sub_index + 1, log)?;\n\t\t\t\t\tentry = next_entry;",
        "\t\t\t\t\tlet (next_entry, next_index) = index.get(key, sub_index + 2, log)?;\n\t\t\t\t\tentry = next_entry;")


@mut("ST-H05", "harmful", "get_in_index: gives up at the first candidate whose slot holds another key")
def _():
    rep(COLRS, "\t\t\t\tNone => {\n\t\t\t\t\tlet (next_entry, next_index) = index.get(key, sub_index + 1, log)?;\n"
               "\t\t\t\t\tentry = next_entry;\n\t\t\t\t\tsub_index = next_index;\n\t\t\t\t},\n", "\t\t\t\tNone => return Ok(None),\n")


@mut("ST-H06", "harmful", "search_index: the stored key is not compared (`TableKey::NoHash`)")
def _():
    rep(COLRS, "\t\t\tlet existing_tier = existing_address.size_tier();\n\t\t\tlet table_key = TableKey::Partial(*key);\n",
        "\t\t\tlet existing_tier = existing_address.size_tier();\n\t\t\tlet table_key = TableKey::NoHash;\n")


@mut("ST-H07", "harmful", "search_all_indexes: a hit in a queued table is ignored")
def _():
    rep(COLRS, "\t\t\t\tif let Some(r) = Self::search_index(key, index, tables, log)? {\n\t\t\t\t\treturn Ok(Some(r))\n",
        "\t\t\t\tif let Some(r) = Self::search_index(key, index, tables, log)? {\n\t\t\t\t\tlet _ = r;\n")


@mut("ST-H08", "harmful", "get: the reindex lock is taken after the lookup in the current index (revert of 49b959b by hand)")
def _():
    rep(COLRS, "\t\tlet reindex = self.reindex.read();\n\t\tlet values = self.as_ref(&tables.value);\n", "\t\tlet values = self.as_ref(&tables.value);\n")
    rep(COLRS, "\t\tfor entry in &reindex.queue {\n\t\t\tif let ReindexEntry::Index(r) = entry {\n\t\t\t\tif let Some((tier, rc, value)) = self.get_in_index",
        "\t\tlet reindex = self.reindex.read();\n\t\tfor entry in &reindex.queue {\n\t\t\tif let ReindexEntry::Index(r) = entry {\n\t\t\t\tif let Some((tier, rc, value)) = self.get_in_index")


@mut("ST-H09", "harmful", "write_plan_existing: no purge of the queued tables when the value is removed (half of 515aeb7 undone)")
def _():
    rep(COLRS, "\t\t\t\tindex.write_remove_plan(key, sub_index, log)?;\n\t\t\t\t" + PURGE + "\t\t\t\tOk((PlanOutcome::Written, None))",
        "\t\t\t\tindex.write_remove_plan(key, sub_index, log)?;\n\t\t\t\tOk((PlanOutcome::Written, None))")


@mut("ST-H10", "harmful", "write_plan_existing: the purge of a moved value only when it was not replaced in place")
def _():
    rep(COLRS, "\t\t\t\t\tindex.write_remove_plan(key, sub_index, log)?;\n\t\t\t\t}\n\t\t\t\t" + PURGE,
        "\t\t\t\t\tindex.write_remove_plan(key, sub_index, log)?;\n\t\t\t\t\t" + PURGE + "\t\t\t\t}\n")


@mut("ST-H11", "harmful", "column.rs: revert of 515aeb7 (stale entries stay in the queued index tables)")
def _():
    revert("515aeb7", "src/column.rs")


@mut("ST-H12", "harmful", "write_plan_existing: in-place replacement decided the wrong way round")
def _():
    rep(COLRS, "let replace = if index.id == tables.index.id { Some(sub_index) } else { None };",
        "let replace = if index.id != tables.index.id { Some(sub_index) } else { None };")


@mut("ST-H13", "harmful", "write_plan: a `Set` of a missing key is skipped")
def _():
    rep(COLRS, "\t\t\t\t\tlet (r, _, _) =\n\t\t\t\t\t\tself.write_plan_new(tables, reindex, key, value.as_ref(), log)?;\n\t\t\t\t\tOk(r)\n",
        "\t\t\t\t\tlet _ = (key, value);\n\t\t\t\t\tOk(PlanOutcome::Skipped)\n")


@mut("ST-H14", "harmful", "write_existing_value_plan: replace in place whenever `tier <= target_tier`")
def _():
    rep(COLRS, "\t\t\t\tif tier == target_tier {\n", "\t\t\t\tif tier <= target_tier {\n")


@mut("ST-H15", "harmful", "write_existing_value_plan: new slot allocated BEFORE the old one is freed (tier move)")
def _():
    a = "\t\t\t\t\ttables.tables[tier].write_remove_plan(address.offset(), log)?;\n"
    b = "\t\t\t\t\tlet new_offset =\n\t\t\t\t\t\ttables.tables[target_tier].write_insert_plan(key, cval, log, compressed)?;\n"
    rep(COLRS, a + b, b + a)


@mut("ST-H16", "harmful", "write_existing_value_plan: preimage columns replace values (`if tables.preimage && ref_counted`)")
def _():
    rep(COLRS, "\t\t\t\tif tables.preimage {\n", "\t\t\t\tif tables.preimage && ref_counted {\n")


@mut("ST-H17", "harmful", "write_existing_value_plan: a plain `Dereference` frees the slot but reports `remove = false` (index entry stays)")
def _():
    rep(COLRS, "\t\t\t\t\ttables.tables[tier].write_remove_plan(address.offset(), log)?;\n\t\t\t\t\ttrue\n",
        "\t\t\t\t\ttables.tables[tier].write_remove_plan(address.offset(), log)?;\n\t\t\t\t\tfalse\n")


@mut("ST-H18", "harmful", "next_free: `filled` not advanced when a new slot is taken")
def _():
    rep(TABRS, "\t\t\tself.filled.store(filled + 1, Ordering::Relaxed);\n\t\t\tfilled\n", "\t\t\tself.filled.store(filled, Ordering::Relaxed);\n\t\t\tfilled\n")


@mut("ST-H19", "harmful", "next_free: the pop branch hands out the NEXT free slot instead of the head")
def _():
    rep(TABRS, "\t\t\t\tdebug_assert_eq!(last, last_removed);\n\t\t\t}\n\t\t\tlast_removed\n", "\t\t\t\tdebug_assert_eq!(last, last_removed);\n\t\t\t}\n\t\t\tnext_removed\n")


@mut("ST-H20", "harmful", "clear_slot: the tombstone does not link to the old head (`write_next(0)`: the free list is cut)")
def _():
    rep(TABRS, "\t\tbuf.write_tombstone();\n\t\tbuf.write_next(last_removed);\n", "\t\tbuf.write_tombstone();\n\t\tbuf.write_next(0);\n")


@mut("ST-H21", "harmful", "clear_slot: the head moves only `if index > last_removed`")
def _():
    rep(TABRS, "\t\tself.last_removed.store(index, Ordering::Relaxed);\n\t\tself.dirty_header.store(true, Ordering::Relaxed);\n\n\t\tif let Some(mut free_entries) = free_entries_guard {\n\t\t\tfree_entries.stack.push(index);",
        "\t\tif index > last_removed {\n\t\t\tself.last_removed.store(index, Ordering::Relaxed);\n\t\t}\n\t\tself.dirty_header.store(true, Ordering::Relaxed);\n\n\t\tif let Some(mut free_entries) = free_entries_guard {\n\t\t\tfree_entries.stack.push(index);")


@mut("ST-H22", "harmful", "clear_chain: continuation parts are followed but not cleared")
def _():
    rep(TABRS, "\t\t\t\tSome(next) => {\n\t\t\t\t\tself.clear_slot(index, log)?;\n\t\t\t\t\tindex = next;", "\t\t\t\tSome(next) => {\n\t\t\t\t\tindex = next;")


@mut("ST-H23", "harmful", "write_dec_ref: removal decided the wrong way round (`if !self.change_ref(..)`)")
def _():
    rep(TABRS, "\t\tif self.change_ref(index, -1, log)? {\n\t\t\treturn Ok(true)", "\t\tif !self.change_ref(index, -1, log)? {\n\t\t\treturn Ok(true)")


@mut("ST-H24", "harmful", "complete_plan: `filled` not written into the logged header")
def _():
    rep(TABRS, "\t\t\tbuf.set_last_removed(last_removed);\n\t\t\tbuf.set_filled(filled);\n", "\t\t\tbuf.set_last_removed(last_removed);\n")


@mut("ST-H25", "harmful", "Header::filled reads bytes 0..8 (the `last_removed` field)")
def _():
    rep(TABRS, "u64::from_le_bytes(self.0[INDEX_SIZE..INDEX_SIZE * 2].try_into().unwrap())", "u64::from_le_bytes(self.0[0..INDEX_SIZE].try_into().unwrap())")


@mut("ST-H26", "harmful", "ValueTable::open accepts `last_removed == filled`")
def _():
    rep(TABRS, "\t\t\tif last_removed >= filled {\n\t\t\t\treturn Err(crate::error::Error::Corruption(format!(\n\t\t\t\t\t\"Bad removed ref {} out of {}\",\n\t\t\t\t\tlast_removed, filled",
        "\t\t\tif last_removed > filled {\n\t\t\t\treturn Err(crate::error::Error::Corruption(format!(\n\t\t\t\t\t\"Bad removed ref {} out of {}\",\n\t\t\t\t\tlast_removed, filled")


@mut("ST-H27", "harmful", "refresh_metadata: `filled` only ever grows (`if filled > self.filled.load(..)`)")
def _():
    rep(TABRS, "\t\tself.last_removed.store(last_removed, Ordering::Relaxed);\n\t\tself.filled.store(filled, Ordering::Relaxed);\n\t\tself.written.store(filled, Ordering::Relaxed);\n\t\tOk(())",
        "\t\tself.last_removed.store(last_removed, Ordering::Relaxed);\n\t\tif filled > self.filled.load(Ordering::Relaxed) {\n\t\t\tself.filled.store(filled, Ordering::Relaxed);\n\t\t}\n\t\tself.written.store(filled, Ordering::Relaxed);\n\t\tOk(())")


@mut("ST-H28", "harmful", "reindex: batch bound `plan.len() <= MAX_REINDEX_BATCH`")
def _():
    rep(COLRS, "\t\t\t\t\t\t\tplan.len() < MAX_REINDEX_BATCH\n", "\t\t\t\t\t\t\tplan.len() <= MAX_REINDEX_BATCH\n")


@mut("ST-H29", "harmful", "reindex: the progress is stored only when the source is exhausted")
def _():
    rep(COLRS, "\t\t\t\t\t\treindex.progress.store(source_index, Ordering::Relaxed);\n\t\t\t\t\t\tif source_index == source.id.total_chunks() {\n\t\t\t\t\t\t\tlog::info!(target: \"parity-db\", \"Completed reindex {} into {}\"",
        "\t\t\t\t\t\tif source_index == source.id.total_chunks() {\n\t\t\t\t\t\t\treindex.progress.store(source_index, Ordering::Relaxed);\n\t\t\t\t\t\t\tlog::info!(target: \"parity-db\", \"Completed reindex {} into {}\"")


@mut("ST-H30", "harmful", "reindex: the rest of a chunk is dropped at the first empty entry (`break`, in the spirit of seeded C20-c20b)")
def _():
    rep(COLRS, "\t\t\t\t\t\t\t\tif entry.is_empty() {\n\t\t\t\t\t\t\t\t\tcontinue\n\t\t\t\t\t\t\t\t}\n\t\t\t\t\t\t\t\t// We only need key prefix to reindex.",
        "\t\t\t\t\t\t\t\tif entry.is_empty() {\n\t\t\t\t\t\t\t\t\tbreak\n\t\t\t\t\t\t\t\t}\n\t\t\t\t\t\t\t\t// We only need key prefix to reindex.")


@mut("ST-H31", "harmful", "reindex: the source table is dropped one chunk early")
def _():
    rep(COLRS, "\t\t\t\t\t\tif source_index == source.id.total_chunks() {\n\t\t\t\t\t\t\tlog::info!(target: \"parity-db\", \"Completed reindex {} into {}\"",
        "\t\t\t\t\t\tif source_index + 1 >= source.id.total_chunks() {\n\t\t\t\t\t\t\tlog::info!(target: \"parity-db\", \"Completed reindex {} into {}\"")


@mut("ST-H32", "harmful", "reindex: a batch restarts at chunk 0 (`let mut source_index = 0`)")
def _():
    rep(COLRS, "\t\t\t\t\t\tlet mut source_index = progress;\n", "\t\t\t\t\t\tlet mut source_index = 0;\n")


@mut("ST-H33", "harmful", "trigger_reindex: the old table goes to the FRONT of the queue")
def _():
    rep(COLRS, "reindex.queue.push_back(ReindexEntry::Index(old_table));", "reindex.queue.push_front(ReindexEntry::Index(old_table));")


@mut("ST-H34", "harmful", "trigger_reindex: the index grows by two bits")
def _():
    rep(COLRS, "IndexTableId::new(tables.index.id.col(), tables.index.id.index_bits() + 1);", "IndexTableId::new(tables.index.id.col(), tables.index.id.index_bits() + 2);")


@mut("ST-H35", "harmful", "plan_insert_chunk: entry 0 of a chunk is never used (`for i in 1..CHUNK_ENTRIES`)")
def _():
    rep(IDXRS, "\t\tfor i in 0..CHUNK_ENTRIES {\n\t\t\tlet entry = Self::read_entry(&chunk, i);\n\t\t\tif entry.is_empty() {",
        "\t\tfor i in 1..CHUNK_ENTRIES {\n\t\t\tlet entry = Self::read_entry(&chunk, i);\n\t\t\tif entry.is_empty() {")


@mut("ST-H36", "harmful", "plan_remove_chunk: removes whatever sits at `sub_index` (partial key not compared)")
def _():
    rep(IDXRS, "\t\tif !entry.is_empty() && entry.partial_key(self.id.index_bits()) == partial_key {", "\t\tif !entry.is_empty() {")


@mut("ST-H37", "harmful", "find_entry_base: empty entries match a zero partial key (`&& !entry.is_empty()` dropped)")
def _():
    rep(IDXRS, "if entry.partial_key(self.id.index_bits()) == partial_key && !entry.is_empty() {", "if entry.partial_key(self.id.index_bits()) == partial_key {")


@mut("ST-H38", "harmful", "overwrite_chain: a new value starts with reference count 0")
def _():
    rep(TABRS, "buf.write_rc(1u32);", "buf.write_rc(0u32);")


@mut("ST-H39", "harmful", "overwrite_chain: the unused tail of the old chain is never cleared")
def _():
    rep(TABRS, "\t\t\t\tif index != 0 {\n\t\t\t\t\t// End of new entry. Clear the remaining tail and exit", "\t\t\t\tif false && index != 0 {\n\t\t\t\t\t// End of new entry. Clear the remaining tail and exit")


@mut("ST-H40", "harmful", "btree Node::insert: split point `ORDER / 2 + 1`")
def _():
    rep(NODERS, "\t\t\t\tlet middle = ORDER / 2;\n", "\t\t\t\tlet middle = ORDER / 2 + 1;\n")


@mut("ST-H41", "harmful", "btree Node::need_rebalance: threshold `middle` instead of `middle - 1`")
def _():
    rep(NODERS, "\t\t!self.has_separator(middle - 1)\n", "\t\t!self.has_separator(middle)\n")


@mut("ST-H42", "harmful", "write_plan: the growth loop inserts before it grows (pending entry tried in the full table for ever)")
def _():
    rep(COLRS, "\t\t\t\t\t(tables, reindex) = Self::trigger_reindex(tables, reindex, self.path.as_path());\n\t\t\t\t\tif !matches!(",
        "\t\t\t\t\tif !matches!(")
    rep(COLRS, "\t\t\t\t\t\tPlanOutcome::NeedReindex\n\t\t\t\t\t) {\n\t\t\t\t\t\tbreak\n\t\t\t\t\t}\n",
        "\t\t\t\t\t\tPlanOutcome::NeedReindex\n\t\t\t\t\t) {\n\t\t\t\t\t\tbreak\n\t\t\t\t\t}\n\t\t\t\t\t(tables, reindex) = Self::trigger_reindex(tables, reindex, self.path.as_path());\n")


@mut("ST-H43", "harmful", "remove_from_queued_indexes: stops at the first candidate with another address")
def _():
    rep(COLRS, "\t\t\t\t\t\tindex.write_remove_plan(key, sub_index, log)?;\n\t\t\t\t\t}\n\t\t\t\t\t(existing_entry, sub_index)",
        "\t\t\t\t\t\tindex.write_remove_plan(key, sub_index, log)?;\n\t\t\t\t\t} else {\n\t\t\t\t\t\tbreak\n\t\t\t\t\t}\n\t\t\t\t\t(existing_entry, sub_index)")


@mut("ST-H44", "harmful", "write_replace_plan passes `claimed = true` (old chain not followed: its continuation slots leak)")
def _():
    rep(TABRS, "\t\tself.overwrite_chain(key, value, log, Some(index), false, compressed)?;\n", "\t\tself.overwrite_chain(key, value, log, Some(index), true, compressed)?;\n")


for _sd in ("C06-c06a", "C06-c06b", "C06-c06c", "C14-c14a", "C09-c09a", "C01-c01b", "C10-c10b", "C02-c02b", "C20-c20b", "C04-c04a",
            "C19-c19a", "C12-c12b", "C01-c01e", "C06-c06e", "C07-c07e", "C09-c09e", "C10-c10e", "C13-c13e", "C16-c16e"):
    # (the `e` series was seeded after this vocabulary was fixed: unseen edits)
    MUTS["ST-SD-" + _sd] = ("seeded", "seeded defect " + _sd, (lambda n: (lambda: seeded(n)))(_sd))


@mut("ST-R01", "harmless", "column.rs: trace lines added in both freeing arms of write_plan_existing and in get")
def _():
    rep(COLRS, "\t\t\t\tlet replace = if index.id == tables.index.id", "\t\t\t\tlog::trace!(target: \"parity-db\", \"moved {{ {}\", hex(key));\n\t\t\t\tlet replace = if index.id == tables.index.id")
    rep(COLRS, "\t\tlet values = self.as_ref(&tables.value);\n\t\tif let Some((tier, rc, value)) = self.get_in_index(key, &tables.index", "\t\tlet values = self.as_ref(&tables.value);\n\t\tlog::trace!(target: \"parity-db\", \"get }}\");\n\t\tif let Some((tier, rc, value)) = self.get_in_index(key, &tables.index")


@mut("ST-R02", "harmless", "reindex: loop condition reformatted over three lines with a comment")
def _():
    rep(COLRS, "\t\t\t\t\t\twhile source_index < source.id.total_chunks() &&\n\t\t\t\t\t\t\tplan.len() < MAX_REINDEX_BATCH\n",
        "\t\t\t\t\t\twhile source_index <\n\t\t\t\t\t\t\tsource.id.total_chunks() && // whole chunks only\n\t\t\t\t\t\t\tplan.len() <\n\t\t\t\t\t\t\t\tMAX_REINDEX_BATCH\n")


@mut("ST-R03", "harmless", "clear_slot: comments with braces and a `'}'` literal")
def _():
    rep(TABRS, "\t\tbuf.write_tombstone();\n\t\tbuf.write_next(last_removed);\n", "\t\t// } the link { goes first\n\t\tlet _c = ('}', \"{\");\n\t\tbuf.write_tombstone();\n\t\tbuf.write_next(last_removed);\n")


@mut("ST-R04", "harmless", "write_plan_existing: a plain block around the purge call of the removal arm")
def _():
    rep(COLRS, "\t\t\t\tindex.write_remove_plan(key, sub_index, log)?;\n\t\t\t\t" + PURGE + "\t\t\t\tOk((PlanOutcome::Written, None))",
        "\t\t\t\tindex.write_remove_plan(key, sub_index, log)?;\n\t\t\t\t{\n\t\t\t\t\t" + PURGE + "\t\t\t\t}\n\t\t\t\tOk((PlanOutcome::Written, None))")


@mut("ST-R05", "harmless", "write_existing_value_plan: local of the `fetch_size` closure renamed (`uncompressed` -> `plain`; not pinned)")
def _():
    rep(COLRS, "\t\t\t\tlet uncompressed = tables.compression.decompress(compressed.as_slice())?;\n\n\t\t\t\t(cur_size, uncompressed.len() as u32)",
        "\t\t\t\tlet plain = tables.compression.decompress(compressed.as_slice())?;\n\n\t\t\t\t(cur_size, plain.len() as u32)")


@mut("ST-R06", "harmless", "get: statistics call of the miss path moved into a helper closure (not pinned)")
def _():
    rep(COLRS, "\t\tif self.collect_stats {\n\t\t\tself.stats.query_miss();\n\t\t}\n\t\tOk(None)\n\t}\n\n\tpub fn get_size",
        "\t\tlet miss = || self.stats.query_miss();\n\t\tif self.collect_stats {\n\t\t\tmiss();\n\t\t}\n\t\tOk(None)\n\t}\n\n\tpub fn get_size")


@mut("ST-R07", "harmless", "next_free: the two independent loads swapped (order of pinned markers changes: flagged by design, names nextFree)")
def _():
    rep(TABRS, "\t\tlet filled = self.filled.load(Ordering::Relaxed);\n\t\tlet last_removed = self.last_removed.load(Ordering::Relaxed);\n\t\tlet index = if last_removed != 0 {",
        "\t\tlet last_removed = self.last_removed.load(Ordering::Relaxed);\n\t\tlet filled = self.filled.load(Ordering::Relaxed);\n\t\tlet index = if last_removed != 0 {")


@mut("ST-R08", "harmless", "next_free: local `next_removed` renamed (part of a pinned statement: flagged by design, names nextFree)")
def _():
    rep(TABRS, "let next_removed = self.read_next_free(last_removed, log)?;", "let new_head = self.read_next_free(last_removed, log)?;")
    rep(TABRS, "self.last_removed.store(next_removed, Ordering::Relaxed);", "self.last_removed.store(new_head, Ordering::Relaxed);")


@mut("ST-R09", "harmless", "drop_index: log texts changed, `return Ok(())` of the else branch kept")
def _():
    rep(COLRS, "log::debug!(target: \"parity-db\", \"Dropped {}\", id);", "log::debug!(target: \"parity-db\", \"Dropped index table {}\", id);")


@mut("ST-R10", "harmless", "reindex: local `entries` renamed (it is part of a pinned `for` header: flagged by design, names reindexFn)")
def _():
    rep(COLRS, "\t\t\t\t\t\t\tlet entries = source.entries(source_index, log.overlays())?;\n\t\t\t\t\t\t\tfor entry in entries.iter() {\n\t\t\t\t\t\t\t\tif entry.is_empty() {\n\t\t\t\t\t\t\t\t\tcontinue\n\t\t\t\t\t\t\t\t}\n\t\t\t\t\t\t\t\t// We only",
        "\t\t\t\t\t\t\tlet chunk_entries = source.entries(source_index, log.overlays())?;\n\t\t\t\t\t\t\tfor entry in chunk_entries.iter() {\n\t\t\t\t\t\t\t\tif entry.is_empty() {\n\t\t\t\t\t\t\t\t\tcontinue\n\t\t\t\t\t\t\t\t}\n\t\t\t\t\t\t\t\t// We only")


@mut("ST-R11", "harmless", "table.rs: `write_remove_plan` reformatted (one-line branches), body text unchanged after canonicalisation")
def _():
    rep(TABRS, "\t\tif self.multipart {\n\t\t\tself.clear_chain(index, log)?;\n\t\t} else {\n\t\t\tself.clear_slot(index, log)?;\n\t\t}\n\t\tOk(())",
        "\t\tif self.multipart { self.clear_chain(index, log)?; } else { self.clear_slot(index, log)?; }\n\t\t// done\n\t\tOk(())")


@mut("ST-R12", "harmless", "clear_slot: the head is moved before the slot image is logged (same result: `OrdS.clearSlot_run_eq_model` keeps holding; the pinned ORDER changes: flagged by design, names clearSlot)")
def _():
    a = "\t\tlog.insert_value(self.id, index, buf[0..buf.offset()].to_vec());\n"
    b = "\t\tself.last_removed.store(index, Ordering::Relaxed);\n"
    rep(TABRS, a + b, b + a)


@mut("ST-R13", "harmless", "change_ref: locals renamed (`counter` -> `refs`: part of pinned headers, flagged by design, names changeRef)")
def _():
    rep(TABRS, "counter", "refs", count=0)


@mut("ST-H45", "harmful", "clear_slot: `last_removed` loaded AFTER the head was moved (the tombstone links to itself)")
def _():
    rep(TABRS, "\t\tlet last_removed = self.last_removed.load(Ordering::Relaxed);\n\t\tlog::trace!(\n\t\t\ttarget: \"parity-db\",\n\t\t\t\"{}: Freeing slot {}\",",
        "\t\tself.last_removed.store(index, Ordering::Relaxed);\n\t\tlet last_removed = self.last_removed.load(Ordering::Relaxed);\n\t\tlog::trace!(\n\t\t\ttarget: \"parity-db\",\n\t\t\t\"{}: Freeing slot {}\",")
    rep(TABRS, "\t\tlog.insert_value(self.id, index, buf[0..buf.offset()].to_vec());\n\t\tself.last_removed.store(index, Ordering::Relaxed);\n",
        "\t\tlog.insert_value(self.id, index, buf[0..buf.offset()].to_vec());\n")


@mut("ST-H46", "harmful", "read_next_free: the bound check of the link dropped")
def _():
    rep(TABRS, "\t\tlet next = buf.read_next();\n\t\tif next >= filled {\n", "\t\tlet next = buf.read_next();\n\t\tif false && next >= filled {\n")


@mut("ST-H47", "harmful", "change_ref: a decrement of a locked counter unlocks it (`else if counter != LOCKED_REF` -> `else`)")
def _():
    rep(TABRS, "\t\t} else if counter != LOCKED_REF {\n", "\t\t} else {\n")


@mut("ST-H48", "harmful", "HashColumn::flush: queued index tables not flushed (revert of the C12 fix by hand)")
def _():
    rep(COLRS, "\t\t\t\tReindexEntry::Index(t) => t.flush()?,\n", "\t\t\t\tReindexEntry::Index(_) => (),\n")


@mut("ST-H49", "harmful", "IndexTable::write_remove_plan: the log overlay is not consulted (an entry planned by an earlier operation of the same record is not seen)")
def _():
    rep(IDXRS, "\t\tif let Some(chunk) = log.with_index(self.id, chunk_index, |chunk| chunk.clone()) {\n\t\t\treturn self.plan_remove_chunk(key_prefix, chunk, sub_index, log)\n\t\t}\n", "")


@mut("ST-H50", "harmful", "IndexTable::write_insert_plan: the mapped file is read BEFORE the log overlay")
def _():
    a = "\t\tif let Some(chunk) = log.with_index(self.id, chunk_index, |chunk| chunk.clone()) {\n\t\t\treturn self.plan_insert_chunk(key_prefix, address, chunk, sub_index, log)\n\t\t}\n"
    b = "\t\tif let Some(map) = &*self.map.read() {\n\t\t\tlet chunk = Self::chunk_at(chunk_index, map)?.clone();\n\t\t\treturn self.plan_insert_chunk(key_prefix, address, chunk, sub_index, log)\n\t\t}\n"
    rep(IDXRS, a + "\n" + b, b + "\n" + a)


@mut("ST-H51", "harmful", "clear_chain: the continuation slot is cleared instead of the current one (the head of the chain is never freed)")
def _():
    rep(TABRS, "\t\t\t\tSome(next) => {\n\t\t\t\t\tself.clear_slot(index, log)?;\n\t\t\t\t\tindex = next;", "\t\t\t\tSome(next) => {\n\t\t\t\t\tself.clear_slot(next, log)?;\n\t\t\t\t\tindex = next;")


@mut("ST-H52", "harmful", "clear_chain: the last part of a chain is not cleared")
def _():
    rep(TABRS, "\t\t\t\tNone => {\n\t\t\t\t\tself.clear_slot(index, log)?;\n\t\t\t\t\treturn Ok(())", "\t\t\t\tNone => {\n\t\t\t\t\treturn Ok(())")


@mut("ST-H53", "harmful", "claim_entries: the new head is read from the stack BEFORE the pop (`last_removed` never advances)")
def _():
    a = "\t\t\t\t\t\tlet last = free_entries.stack.pop().unwrap();\n\t\t\t\t\t\tdebug_assert_eq!(last, last_removed);\n"
    b = "\t\t\t\t\t\tlet next_removed = *free_entries.stack.last().unwrap_or(&0u64);\n"
    rep(TABRS, a + "\n" + b, b + a)


@mut("ST-H54", "harmful", "write_inc_ref adds two references (`change_ref(index, 2, log)`)")
def _():
    rep(TABRS, "\t\tself.change_ref(index, 1, log)?;\n", "\t\tself.change_ref(index, 2, log)?;\n")


@mut("ST-H55", "harmful", "write_dec_ref releases through `clear_chain` whatever the table kind (by hand; a fixed-size entry whose bytes look like a multipart marker is then followed)")
def _():
    rep(TABRS, "\t\tself.write_remove_plan(index, log)?;\n\t\tOk(false)", "\t\tself.clear_chain(index, log)?;\n\t\tOk(false)")


@mut("ST-R14", "harmless", "clear_chain: the bound variable of the `Some` arm renamed (`next` -> `nx`: part of a pinned arm header, flagged by design, names clearChain)")
def _():
    rep(TABRS, "\t\t\t\tSome(next) => {\n\t\t\t\t\tself.clear_slot(index, log)?;\n\t\t\t\t\tindex = next;", "\t\t\t\tSome(nx) => {\n\t\t\t\t\tself.clear_slot(index, log)?;\n\t\t\t\t\tindex = nx;")


@mut("ST-R15", "harmless", "claim_entries: the two independent loads swapped (same result: `OrdS.claimEntries_run_eq_model` keeps holding; the pinned ORDER changes: flagged by design, names claimEntries)")
def _():
    rep(TABRS, "\t\t\t\t\tlet filled = self.filled.load(Ordering::Relaxed);\n\t\t\t\t\tlet last_removed = self.last_removed.load(Ordering::Relaxed);\n\t\t\t\t\tlet index = if last_removed != 0 {\n\t\t\t\t\t\tlet last = free_entries",
        "\t\t\t\t\tlet last_removed = self.last_removed.load(Ordering::Relaxed);\n\t\t\t\t\tlet filled = self.filled.load(Ordering::Relaxed);\n\t\t\t\t\tlet index = if last_removed != 0 {\n\t\t\t\t\t\tlet last = free_entries")


@mut("ST-R16", "harmless", "write_dec_ref / clear_chain: trace lines added")
def _():
    rep(TABRS, "\t\tself.write_remove_plan(index, log)?;\n\t\tOk(false)", "\t\tlog::trace!(target: \"parity-db\", \"{}: last reference of {} gone\", self.id, index);\n\t\tself.write_remove_plan(index, log)?;\n\t\tOk(false)")
    rep(TABRS, "\t\t\t\tNone => {\n\t\t\t\t\tself.clear_slot(index, log)?;\n\t\t\t\t\treturn Ok(())", "\t\t\t\tNone => {\n\t\t\t\t\tlog::trace!(target: \"parity-db\", \"end of chain }} {}\", index);\n\t\t\t\t\tself.clear_slot(index, log)?;\n\t\t\t\t\treturn Ok(())")


for _sd in ("C14-c14e", "C05-c05e"):
    MUTS["ST-SD-" + _sd] = ("seeded", "seeded defect " + _sd, (lambda n: (lambda: seeded(n)))(_sd))


@mut("ST-T1", "unreadable", "src/column.rs: a closing brace deleted in write_plan_new")
def _():
    rep(COLRS, "\t\t\toutcome = PlanOutcome::NeedReindex;\n\t\t}\n\t\tOk((outcome, tables, reindex))", "\t\t\toutcome = PlanOutcome::NeedReindex;\n\t\tOk((outcome, tables, reindex))")


@mut("ST-T2", "unreadable", "src/column.rs: tracked function renamed (`fn write_plan_existing` -> `fn plan_existing`)")
def _():
    rep(COLRS, "\tfn write_plan_existing(", "\tfn plan_existing(")


@mut("ST-T3", "unreadable", "src/table.rs missing")
def _():
    os.remove(os.path.join(REPO, TABRS))


# ------------------------------------------------------------------ input the translators cannot read

@mut("T1", "unreadable", "src/db.rs: a closing brace deleted (unbalanced braces)")
def _():
    rep(DB, "\t\tself.cleanup_queue_wait.signal();\n\t}\n\n\tfn kill_logs", "\t\tself.cleanup_queue_wait.signal();\n\n\tfn kill_logs")


@mut("T2", "unreadable", "src/db.rs: unterminated string literal")
def _():
    rep(DB, 'lock_path.push("lock");', 'lock_path.push("lock);')


@mut("T3", "unreadable", "src/db.rs: tracked function renamed (`fn shutdown` -> `fn shut_down`)")
def _():
    rep(DB, "\tfn shutdown(&self) {", "\tfn shut_down(&self) {")


@mut("T4", "unreadable", "src/db.rs: a second `fn store_err` under #[cfg(test)] in impl DbInner")
def _():
    rep(DB, "\tfn store_err(&self, result: Result<()>) {", "\t#[cfg(test)]\n\tfn store_err(&self, _result: Result<()>) {}\n\n\t#[cfg(not(test))]\n\tfn store_err(&self, result: Result<()>) {")


@mut("T5", "unreadable", "src/log.rs missing")
def _():
    os.remove(os.path.join(REPO, LOG))


@mut("T6", "unreadable", "shutdown(): guard bound by a tuple pattern `let (_g, _) = (self.log_queue_wait.work.lock(), 0);`")
def _():
    rep(DB, "let _log_queue = self.log_queue_wait.work.lock();", "let (_g, _n) = (self.log_queue_wait.work.lock(), 0);")


@mut("T7", "unreadable", "src/db.rs: unterminated block comment")
def _():
    rep(DB, "\tfn shutdown(&self) {", "\t/* fn shutdown(&self) {")

# ------------------------------------------------------------------ driver

def theorem_at(path, line):
    name = "?"
    for i, l in enumerate(open(path).read().splitlines(), 1):
        m = re.match(r"(?:theorem|example|def)\s+([A-Za-z0-9_.']+)?", l)
        if m:
            name = m.group(1) or "example"
        if i >= line:
            break
    return name


def run_one(name, baseline):
    kind, desc, f = MUTS[name]
    if os.path.exists(REPO):
        shutil.rmtree(REPO)
    os.makedirs(REPO)
    shutil.copytree(PRISTINE, REPO + "/src")
    if name != "BASE":
        try:
            f()
        except AssertionError as e:
            return {"name": name, "kind": kind, "desc": desc, "translator_errors": [], "gen_changed": [], "broken": [],
                    "edit_failed": str(e)[:200]}
    env = dict(os.environ, PDB_REPO=REPO)
    errs = []
    for tool in ("rs2lean.py", "rs2lean_text.py", "skeleton.py", "rs2lean_storage.py"):
        r = subprocess.run([sys.executable, os.path.join(TOOLS, tool)], env=env, stdout=subprocess.PIPE, stderr=subprocess.STDOUT)
        if r.returncode != 0:
            errs.append("%s rc=%d: %s" % (tool, r.returncode, r.stdout.decode().strip()[-300:]))
    changed = []
    for g in GEN:
        cur = open(os.path.join(LEAN, "Pdb/Gen", g)).read()
        if baseline is not None and cur != baseline[g]:
            changed.append(g)
    res = {"name": name, "kind": kind, "desc": desc, "translator_errors": errs, "gen_changed": changed, "broken": []}
    if not errs:
        r = subprocess.run(["lake", "build"] + MODULES, cwd=LEAN, stdout=subprocess.PIPE, stderr=subprocess.STDOUT, timeout=1500)
        out = r.stdout.decode()
        if r.returncode == 0 and (changed or name == "BASE") and not os.environ.get("FAST"):
            r = subprocess.run(["lake", "build"] + MODULES2, cwd=LEAN, stdout=subprocess.PIPE, stderr=subprocess.STDOUT, timeout=2500)
            out = r.stdout.decode()
            res["built_props"] = True
        res["lake_rc"] = r.returncode
        seen = []
        for m in re.finditer(r"^error: (Pdb/[\w/]+\.lean):(\d+):(\d+)", out, re.M):
            th = "%s:%s" % (m.group(1).replace("Pdb/", "").replace(".lean", ""), theorem_at(os.path.join(LEAN, m.group(1)), int(m.group(2))))
            if th not in seen:
                seen.append(th)
        res["broken"] = seen
        if r.returncode != 0 and not seen:
            res["broken"] = ["(build failed) " + out[-400:]]
    return res


def snapshot():
    return {g: open(os.path.join(LEAN, "Pdb/Gen", g)).read() for g in GEN}


def main():
    setup()
    MUTS["BASE"] = ("base", "unchanged tree", lambda: None)
    base = run_one("BASE", None)
    assert not base["translator_errors"] and base.get("lake_rc") == 0, base
    baseline = snapshot()
    names = sys.argv[1:] or [n for n in MUTS if n != "BASE"]
    results = []
    for n in names:
        r = run_one(n, baseline)
        results.append(r)
        verdict = ("EDIT-DOES-NOT-APPLY " + r["edit_failed"]) if r.get("edit_failed") else \
            ("TRANSLATOR-ERROR " + "; ".join(r["translator_errors"])) if r["translator_errors"] else \
            ("BROKEN " + ", ".join(r["broken"])) if r["broken"] else "pass"
        print("%-5s %-8s gen-changed=%-22s %s" % (n, r["kind"], ",".join(r["gen_changed"]) or "-", verdict), flush=True)
        if r["kind"] == "harmless" and r["gen_changed"] and not r["translator_errors"]:
            for g in r["gen_changed"]:
                open("/tmp/f-t0-cur.lean", "w").write(open(os.path.join(LEAN, "Pdb/Gen", g)).read())
                open("/tmp/f-t0-base.lean", "w").write(baseline[g])
                d = subprocess.run(["diff", "/tmp/f-t0-base.lean", "/tmp/f-t0-cur.lean"], stdout=subprocess.PIPE).stdout.decode()
                print("      diff %s:\n%s" % (g, "\n".join("        " + x for x in d.splitlines()[:30])))
    run_one("BASE", None)        # leave the generated files in the baseline state
    json.dump(results, open(ROOT + "/results.json", "w"), indent=1)


if __name__ == "__main__":
    main()
