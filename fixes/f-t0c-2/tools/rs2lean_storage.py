#!/usr/bin/env python3
"""rs2lean_storage: regenerate Pdb/Gen/Storage.lean from /repo/src/{column,table,index}.rs (and the split constants of
src/btree/node.rs).

Tie T0 widened to the storage layer.  The extraction machinery is the one of tools/skeleton.py (token stream of
tools/rustlex.py, fixed marker vocabulary, enclosing block headers, complete statements); this file only adds the
vocabulary and the function list of the storage layer, three further kinds of generated items, and its own output
file / namespace (`Pdb.Gen.Storage`), so that Pdb/Gen/Order.lean and its obligations are untouched.

Per function of FUNCS (see skeleton.py for the meaning):
  def <fn>        : List Marker                            markers in source order (block markers with their `end..`)
  def <fn>_conds  : List (Marker × List (List String))     complete headers of the block markers (split at `||`, `&&`)
  def <fn>_ctx    : List (List Marker × List String)       chain of enclosing block headers per marker (`if C`,
                                                           `if C{}else`, `match E`, `PAT=>`, `while C`, `for P in E`, `loop`)
  def <fn>_stmts  : List (Marker × String)                 complete statement around the markers listed under `stmts`
                                                           (field initialiser for `fields`)
  def <fn>_exits  : List (String × List String)            EVERY `break` / `continue` / `return` of the function (text up to the
                                                           end of its statement) with its chain of enclosing block headers
Per function of PROGS (free-list and reference-count functions of src/table.rs: next_free, read_next_free, clear_slot,
write_remove_plan, clear_chain, write_dec_ref, write_inc_ref, claim_entries, change_ref):
  def <fn>_prog   : List Prog                              the statement TREE: marker occurrences with their complete statement,
                                                           nested in the block headers they depend on (run and proved equal to
                                                           the model function in Pdb/Proofs/OrderStorageRun.lean)
Per function of BODIES (functions of one to three statements):
  def <fn>_body   : String                                 the COMPLETE canonical body
Per entry of RANGES (`Header` accessors of src/table.rs):
  def <fn>_range  : Nat × Nat                              the byte range `self.0[A..B]` as Lean terms over Pdb.Gen.Consts
Per entry of EXPRS:
  def <name>      : String                                 the canonical text of the first group of a regular expression
                                                           matched exactly once in a function body

Anything that cannot be extracted (missing / duplicate function, count violated, lexer error, unbalanced braces)
is a hard error: message `rs2lean_storage: STORAGE-ERROR: <file> <impl>::<fn>: ...` + exit 2; the check driver
reports that as a broken obligation (O1-translate).  The output file is only ever written completely.

`rs2lean_storage.py --pins [<lean name> ..]` prints the pin theorems (`conds_<fn>`, `ctx_<fn>`, `stmts_<fn>`,
`body_<fn>`) of the CURRENT source for review after an intended change of the Rust (section "pins" of
Pdb/Proofs/OrderStorage.lean).

Reach: branch / call / statement skeleton of the listed functions.  Not covered: expressions that are not part of a
pinned header or statement, callees not listed, early exits by `?`, name resolution (markers match callee TEXT).
"""
import re, sys, os

sys.path.insert(0, os.path.dirname(os.path.abspath(__file__)))
import rustlex  # noqa: E402
import skeleton as sk  # noqa: E402

REPO = os.environ.get("PDB_REPO", "/repo")
OUT = os.path.join(os.path.dirname(os.path.abspath(__file__)), "..", "lean", "Pdb", "Gen")

COL, TAB, IDX, NODE = "src/column.rs", "src/table.rs", "src/index.rs", "src/btree/node.rs"
RELAXED = r"Ordering::Relaxed\)"

M = {
    # ---- reads: HashColumn::get / get_in_index / search_index / search_all_indexes
    "lockTablesRead": r"self\.tables\.read\(\)",
    "lockReindexRead": r"self\.reindex\.read\(\)",
    "ifHit": ("if", r"^let Some\(\(tier,rc,value\)\)=self\.get_in_index\("),
    "getInIndexCurrent": r"self\.get_in_index\(key,&tables\.index,values,log\)\?",
    "getInIndexQueued": r"self\.get_in_index\(key,(?!&tables\.index)[\w&.]+,values,log\)\?",
    "forQueue": ("for", r"\breindex\.queue\b"),
    "ifQueuedIndex": ("if", r"^let ReindexEntry::Index\(\w+\)=entry$"),
    "returnHit": r"return Ok\(Some\(\(value,rc\)\)\)",
    "returnNone": r"(?<!return )Ok\(None\)",
    "indexGetFirst": r"\bindex\.get\(key,0,log\)\?",
    "indexGetNext": r"\bindex\.get\(key,sub_index\+1,log\)\?",
    "whileEntry": ("while", r"^!\w+\.is_empty\(\)$"),
    "entryAddress": r"\b\w+\.address\(index\.id\.index_bits\(\)\)",
    "getValueCheckKey": r"Column::get_value\(TableKeyQuery::Check\(&TableKey::Partial\(\*key\)\),address,tables,log\)\?",
    "matchValue": r"\bmatch value\{",
    "returnFound": r"Some\(result\)=>return Ok\(Some\(result\)\)",
    "assignEntry": r"\bentry=next_entry\b",
    "assignExistingEntry": r"\bexisting_entry=next_entry\b",
    "assignSub": r"\bsub_index=next_index\b",
    "tableKeyPartial": r"let table_key=TableKey::Partial\(\*key\)",
    "existingTier": r"let existing_tier=existing_address\.size_tier\(\)",
    "ifHasKey": ("if", r"\.has_key_at\("),
    "returnFoundAt": r"return Ok\(Some\(\(index,sub_index,existing_address\)\)\)",
    "ifFoundCurrent": ("if", r"^let Some\(r\)=Self::search_index\(key,&tables\.index,"),
    "ifFoundQueued": ("if", r"^let Some\(r\)=Self::search_index\(key,(?!&tables\.index)"),
    "returnR": r"return Ok\(Some\(r\)\)",
    # ---- remove_from_queued_indexes (fix 515aeb7)
    "ifAddrEq": ("if", r"\.address\(index\.id\.index_bits\(\)\)==address$"),
    "queuedRemovePlan": r"\bindex\.write_remove_plan\(key,sub_index,log\)\?",
    "advanceEntry": r"\(existing_entry,sub_index\)=index\.get\(key,sub_index\+1,log\)\?",
    # ---- HashColumn::write_plan
    "lockTablesUp": r"self\.tables\.upgradable_read\(\)",
    "lockReindexUp": r"self\.reindex\.upgradable_read\(\)",
    "searchAllCall": r"Self::search_all_indexes\(",
    "ifExisting": ("if", r"^let Some\(\(table,sub_index,existing_address\)\)=existing$"),
    "callExisting": r"self\.write_plan_existing\(",
    "ifPending": ("if", r"^let Some\(value_address\)=pending$"),
    "growLoop": r"\bloop\{",
    "triggerReindex": r"Self::trigger_reindex\(tables,reindex,self\.path\.as_path\(\)\)",
    "insertPending": r"tables\.index\.write_insert_plan\(key,value_address,None,log\)\?",
    "ifInserted": ("if", r"^!matches!\(tables\.index\.write_insert_plan\("),
    "breakLoop": r"\bbreak\b",
    "returnOutcome": r"(?<![\w(])Ok\(outcome\)",
    "matchChange": r"\bmatch change\{",
    "callNew": r"self\.write_plan_new\(",
    "returnNew": r"(?<![\w(])Ok\(r\)",
    "returnSkipped": r"(?<!return )Ok\(PlanOutcome::Skipped\)",
    "unsupportedOp": r"Err\(Error::InvalidConfiguration\(",
    # ---- HashColumn::write_plan_existing
    "valuePlan": r"Column::write_existing_value_plan\(",
    "armDone": r"\(Some\(outcome\),_\)=>Ok\(\(outcome,None\)\)",
    "replaceInPlace": r"\blet replace=",
    "insertMoved": r"tables\.index\.write_insert_plan\(key,value_address,replace,log\)\?",
    "ifNotReplaced": ("if", r"^replace\.is_none\(\)"),
    "foundRemovePlan": r"(?<![\w])[\w.]*index\.write_remove_plan\(",
    "purgeCall": r"Self::remove_from_queued_indexes\(",
    "returnMoved": r"Ok\(match outcome\{",
    "armNeedReindex": r"PlanOutcome::NeedReindex=>\(PlanOutcome::NeedReindex,Some\(value_address\)\)",
    "armOther": r"\boutcome=>\(outcome,None\)",
    "returnRemoved": r"Ok\(\(PlanOutcome::Written,None\)\)",
    # ---- HashColumn::write_plan_new / write_reindex_plan_locked / trigger_reindex
    "newValuePlan": r"Column::write_new_value_plan\(",
    "initWritten": r"let mut outcome=PlanOutcome::Written",
    "whileNeedReindex": ("while", r"^let PlanOutcome::NeedReindex=tables\.index\.write_insert_plan\("),
    "setNeedReindex": r"\boutcome=PlanOutcome::NeedReindex\b",
    "returnTriple": r"Ok\(\(outcome,tables,reindex\)\)",
    "ifContains": ("if", r"^Self::contains_partial_key_with_address\("),
    "returnSkippedEarly": r"return Ok\(PlanOutcome::Skipped\)",
    "upgradeTables": r"RwLockUpgradableReadGuard::upgrade\(tables\)",
    "upgradeReindex": r"RwLockUpgradableReadGuard::upgrade\(reindex\)",
    "newIndexId": r"\blet new_index_id=",
    "createNewTable": r"IndexTable::create_new\(path,new_index_id\)",
    "replaceCurrent": r"std::mem::replace\(&mut tables\.index,new_table\)",
    "queuePush": r"reindex\.queue\.push_\w+\(ReindexEntry::Index\(old_table\)\)",
    # ---- Column::write_existing_value_plan / write_new_value_plan
    "ifRefCounted": ("if", r"^ref_counted$"),
    "ifPreimage": ("if", r"^tables\.preimage$"),
    "incRef": r"tables\.tables\[tier\]\.write_inc_ref\(address\.offset\(\),log\)\?",
    "retWritten": r"Ok\(\(Some\(PlanOutcome::Written\),None\)\)",
    "retSkipped": r"Ok\(\(Some\(PlanOutcome::Skipped\),None\)\)",
    "compressVal": r"Column::compress\(tables\.compression,key,val(?:\.as_ref\(\))?,tables\.tables\)",
    "ifSameTier": ("if", r"^tier==target_tier$"),
    "replacePlan": r"tables\.tables\[target_tier\]\.write_replace_plan\(",
    "removeOld": r"tables\.tables\[tier\]\.write_remove_plan\(address\.offset\(\),log\)\?",
    "insertNewTier": r"tables\.tables\[target_tier\]\.write_insert_plan\(key,cval,log,compressed\)\?",
    "newAddress": r"Address::new\(\w+,target_tier as u8\)",
    "retMoved": r"Ok\(\(None,Some\(new_address\)\)\)",
    "decRef": r"tables\.tables\[tier\]\.write_dec_ref\(address\.offset\(\),log\)\?",
    "letRemove": r"\blet remove=",
    "ifRemove": ("if", r"^remove$"),
    "retFreed": r"Ok\(\(None,None\)\)",
    "tailRemoved": r"(?<=;)removed(?=\}else)",
    "tailTrue": r"(?<=;)true(?=\};)",
    "invalidOp": r"Err\(Error::InvalidInput\(",
    "retAddress": r"Ok\(address\)",
    # ---- HashColumn::reindex / drop_index
    "ifFront": ("if", r"^let Some\(source\)=reindex\.queue\.\w+\(\)$"),
    "loadProgress": r"reindex\.progress\.load\(",
    "ifNotDone": ("if", r"^progress!=source\.id\.total_chunks\(\)$"),
    "startAtProgress": r"let mut source_index=progress",
    "whileBatch": ("while", r"\bsource_index\b"),
    "sourceEntries": r"source\.entries\(source_index,log\.overlays\(\)\)\?",
    "ifEmptyEntry": ("if", r"^entry\.is_empty\(\)$"),
    "continueEmpty": r"\bcontinue\b",
    "recoverKey": r"source\.recover_key_prefix\(source_index,\*entry\)",
    "pushPlan": r"\bplan\.push\(",
    "pushRcPlan": r"\bref_count_plan\.push\(",
    "incSource": r"\bsource_index\+=\w+",
    "storeProgress": r"reindex\.progress\.store\(source_index,",
    "ifFinished": ("if", r"^source_index==source\.id\.total_chunks\(\)$"),
    "setDropIndex": r"\bdrop_index=Some\(source\.id\)",
    "setDropRc": r"\bdrop_ref_count=Some\(source\.id\)",
    "returnBatch": r"Ok\(ReindexBatch\{",
    "lockReindexWrite": r"self\.reindex\.write\(\)",
    "ifFrontMatches": ("if", r"^reindex\.queue\.front_mut\(\)\.map_or\(false,"),
    "frontIdEq": r"\bt\.id==id\b",
    "resetProgress": r"reindex\.progress\.store\(0,",
    "popFront": r"reindex\.queue\.pop_\w+\(\)",
    "dropFile": r"\btable\.drop_file\(\)\?",
    # ---- src/table.rs
    "lockFree": r"free_entries\.write\(\)",
    "lockFreeRead": r"free_entries\.read\(\)",
    "loadFilled": r"self\.filled\.load\(",
    "loadLastRemoved": r"self\.last_removed\.load\(",
    "ifHaveRemoved": ("if", r"^last_removed!=0$"),
    "readNextFree": r"self\.read_next_free\(last_removed,log\)\?",
    "storeLastRemoved": r"self\.last_removed\.store\(",
    "ifStack": ("if", r"^let Some\(mut free_entries\)=free_entries_guard$"),
    "popStack": r"free_entries\.stack\.pop\(\)",
    "pushStack": r"free_entries\.stack\.push\(index\)",
    "tailLastRemoved": r"(?<=[;}])last_removed(?=\}else)",
    "storeFilled": r"self\.filled\.store\(",
    "storeWritten": r"self\.written\.store\(",
    "tailFilled": r"(?<=;)filled(?=\};)",
    "setDirtyHeader": r"self\.dirty_header\.store\(true,",
    "returnIndex": r"Ok\(index\)",
    "writeTombstone": r"buf\.write_tombstone\(\)",
    "writeNext": r"buf\.write_next\(",
    "insertValue": r"log\.insert_value\(",
    "readBuf": r"log\.value\(self\.id,index,buf\.as_mut\(\)\)",
    "readFile": r"self\.file\.read_at\(buf\.as_mut\(\),index\*self\.entry_size as u64\)\?",
    "skipSize": r"buf\.skip_size\(\)",
    "readNext": r"buf\.read_next\(\)",
    "ifBadNext": ("if", r"^next>=filled$"),
    "returnCorruption": r"return Err\(crate::error::Error::Corruption\(",
    "returnNext": r"Ok\(next\)",
    "ifDirty": ("if", r"^let Ok\(true\)=self\.dirty_header"),
    "setHdrLastRemoved": r"buf\.set_last_removed\(last_removed\)",
    "setHdrFilled": r"buf\.set_filled\(filled\)",
    "initFilled": r"let mut filled=1\b",
    "initLastRemoved": r"let mut last_removed=0\b",
    "ifHasMap": ("if", r"^file\.map\.read\(\)\.is_some\(\)$"),
    "ifNoMap": ("if", r"^self\.file\.map\.read\(\)\.is_none\(\)$"),
    "readHeader": r"file\.read_at\(&mut header\.0,0\)\?",
    "hdrLastRemoved": r"last_removed=header\.last_removed\(\)",
    "hdrFilled": r"filled=header\.filled\(\)",
    "ifFilledZero": ("if", r"^filled==0$"),
    "setFilledOne": r"(?<!mut )\bfilled=1\b",
    "ifBadRemoved": ("if", r"^last_removed>=filled$"),
    "fieldFilled": r"(?<=[,{])filled:(?!:)",
    "fieldWritten": r"(?<=[,{])written:(?!:)",
    "fieldLastRemoved": r"(?<=[,{])last_removed:(?!:)",
    "fieldDirty": r"(?<=[,{])dirty_header:(?!:)",
    "fieldFreeEntries": r"(?<=[,{])free_entries:(?!:)",
    "returnOkUnit": r"return Ok\(\(\)\)",
    "tailEntrySize": r"(?<=;)self\.entry_size as usize(?=\}else)",
    "tailOffsetPlusSize": r"(?<=;)buf\.offset\(\)\+size as usize(?=\};)",
    "ifChangeRefDec": ("if", r"^self\.change_ref\(index,-1,log\)\?$"),
    "returnTrueEarly": r"return Ok\(true\)",
    "callRelease": r"self\.(?:write_remove_plan|clear_slot|clear_chain)\(index,log\)\?",
    "returnFalseTail": r"(?<!return )Ok\(false\)",
    "callChangeRefInc": r"self\.change_ref\(index,1,log\)\?",
    "assignIndexNext": r"\bindex=next\b",
    "callClearChain": r"self\.clear_chain\(index,log\)\?",
    "callClearSlot": r"self\.clear_slot\(index,log\)\?",
    # init_table_data
    "ifNeedsFree": ("if", r"^self\.needs_free_entries$"),
    "startAtHead": r"let mut next=last_removed",
    "whileNext": ("while", r"^next!=0$"),
    "ifBadLink": ("if", r"^next>=filled"),
    "stackPush": r"\bstack\.push\(next\)",
    "readLinkFile": r"self\.file\.read_at\(buf\.as_mut\(\),next\*self\.entry_size as u64\)\?",
    "nextFromLink": r"\bnext=buf\.read_next\(\)",
    "stackReverse": r"\bstack\.reverse\(\)",
    "setFreeEntries": r"self\.free_entries=free_entries",
    # change_ref / claim_entries
    "readSlot": r"log\.value\(self\.id,index,buf\.as_mut\(\)\)",
    "readSlotFile": r"self\.file\.read_at\(&mut buf\[0\.\.self\.entry_size as usize\],index\*self\.entry_size as u64\)\?",
    "ifTombstone": ("if", r"^buf\.is_tombstone\(\)$"),
    "returnFalse": r"return Ok\(false\)",
    "ifMultiEntry": ("if", r"^self\.multipart&&buf\.is_multi\(self\.db_version\)$"),
    "skipNext": r"buf\.skip_next\(\)",
    "readSize": r"buf\.read_size\(\)",
    "rcOffset": r"let rc_offset=buf\.offset\(\)",
    "readRc": r"let mut counter=buf\.read_rc\(\)",
    "ifIncrement": ("if", r"^delta>0$"),
    "ifSaturate": ("if", r"^counter\W.*LOCKED_REF-delta as u32$"),
    "lockCounter": r"\bcounter=LOCKED_REF\b",
    "addCounter": r"\bcounter\+=delta as u32\b",
    "ifNotLocked": ("if", r"^counter!=LOCKED_REF$"),
    "subCounter": r"\bcounter=counter\.saturating_sub\(-delta as u32\)",
    "ifCounterZero": ("if", r"^counter==0$"),
    "setRcOffset": r"buf\.set_offset\(rc_offset\)",
    "returnTrue": r"(?<!return )Ok\(true\)",
    "matchFreeEntries": r"match&self\.free_entries\{",
    "forClaim": ("for", r"^_i in 0\.\.num$"),
    "peekStack": r"let next_removed=\*free_entries\.stack\.last\(\)\.unwrap_or\(&0u64\)",
    "pushEntry": r"entries\.push\(index\)",
    "returnEntries": r"Ok\(entries\)",
    # HashColumn::flush / iter_index_table
    "flushIndex": r"tables\.index\.flush\(\)\?",
    "forValueTables": ("for", r"^t in tables\.value\.iter\(\)$"),
    "flushValueTable": r"(?<![\w.])t\.flush\(\)\?;",
    "ifHasRefCount": ("if", r"^tables\.ref_count\.is_some\(\)$"),
    "flushRefCount": r"tables\.get_ref_count\(\)\.flush\(\)\?",
    "forQueuedFlush": ("for", r"self\.reindex\.read\(\)\.queue"),
    "flushQueuedIndex": r"ReindexEntry::Index\(t\)=>t\.flush\(\)",
    "flushQueuedRc": r"ReindexEntry::RefCount\(t\)=>t\.flush\(\)\?",
    "returnOkTail": r"(?<!return )Ok\(\(\)\)$",
    "forChunks": ("for", r"^c in start_chunk\.\.total_chunks$"),
    "chunkEntries": r"source\.entries\(c,log\.overlays\(\)\)\?",
    "forEntries": ("for", r"^\(sub_index,entry\)in entries\.iter\(\)\.enumerate\(\)$"),
    "ifOlder": ("if", r"^!older\.is_empty\(\)$"),
    "forOlder": ("for", r"^table in older$"),
    "ifReportedByOlder": ("if", r"^Self::contains_partial_key_with_address\(&key_prefix,address,table,log\.overlays\(\)\)\?$"),
    "setReported": r"\breported=true\b",
    "ifReported": ("if", r"^reported$"),
    "getWithMeta": r"tables\.value\[size_tier as usize\]\.get_with_meta\(offset,log\.overlays\(\)\)",
    "copyKeyTail": r"key\[6\.\.\]\.copy_from_slice\(&pk\)",
    "ifStopped": ("if", r"^!f\("),
    "returnOkTrueTail": r"(?<!return )Ok\(true\)$",
    # overwrite_chain
    "matchAt": r"\bmatch at\{",
    "armAtSome": r"Some\(index\)=>\(index,!claimed\)",
    "armAtNone": r"None=>\(self\.next_free\(log\)\?,false\)",
    "ifFollow": ("if", r"^follow$"),
    "readNextPart": r"self\.read_next_part\(index,log\)\?",
    "ifOverflow": ("if", r"^remainder>free_space$"),
    "ifNotFollow": ("if", r"^!follow$"),
    "allocNext": r"next_index=self\.next_free\(log\)\?",
    "ifFirstPart": ("if", r"^start==0$"),
    "ifCompressed": ("if", r"^compressed$"),
    "writeMultiheadCompressed": r"buf\.write_multihead_compressed\(\)",
    "writeMultihead": r"buf\.write_multihead\(\)",
    "writeMultipart": r"buf\.write_multipart\(\)",
    "writeSize": r"buf\.write_size\(",
    "ifFirstOffset": ("if", r"^offset==0$"),
    "ifTableRc": ("if", r"^self\.ref_counted$"),
    "writeRc": r"buf\.write_rc\(",
    "writeKey": r"key\.write\(&mut buf\)",
    "writeSlice": r"buf\.write_slice\(",
    "subRemainder": r"remainder-=value_len",
    "setStart": r"\bstart=index\b",
    "advanceIndex": r"\bindex=next_index\b",
    "ifDone": ("if", r"^remainder==0$"),
    "ifTail": ("if", r"^index!=0$"),
    "clearTail": r"self\.clear_chain\(index,log\)\?",
    "returnStart": r"Ok\(start\)",
    # ---- src/index.rs
    "extractKey": r"Entry::extract_key\(key_prefix,self\.id\.index_bits\(\)\)",
    "forScan": ("for", r"^i in .*CHUNK_ENTRIES"),
    "readEntry": r"Self::read_entry\(&?chunk,i\)",
    "ifMatch": ("if", r"^entry\.partial_key\(self\.id\.index_bits\(\)\)==partial_key"),
    "returnEntry": r"return\(entry,i\)",
    "returnEmpty": r"\(Entry::empty\(\),0\)",
    "ifOverflowAddr": ("if", r"^address\.as_u64\(\)"),
    "returnNeedReindex": r"return Ok\(PlanOutcome::NeedReindex\)",
    "newEntry": r"Entry::new\(address,partial_key,self\.id\.index_bits\(\)\)",
    "ifSubIndex": ("if", r"^let Some\(i\)=sub_index$"),
    "assertSameKey": r"assert_eq!\(entry\.partial_key\(",
    "writeEntry": r"Self::write_entry\(&new_entry,i,&mut chunk\)",
    "insertIndex": r"log\.insert_index\(self\.id,chunk_index,i as u8,chunk\)",
    "returnWrittenEarly": r"return Ok\(PlanOutcome::Written\)",
    "ifEmptySlot": ("if", r"^entry\.is_empty\(\)$"),
    "tailNeedReindex": r"(?<!return )Ok\(PlanOutcome::NeedReindex\)",
    "letSub": r"\blet i=sub_index\b",
    "ifOccupiedSame": ("if", r"^!entry\.is_empty\(\)&&"),
    "emptyEntry": r"let new_entry=Entry::empty\(\)",
    # IndexTable::write_insert_plan / write_remove_plan / get: log overlay first, then the mapped file, then the empty chunk
    "keyPrefixOf": r"TableKey::index_from_partial\(key\)",
    "chunkIndexOf": r"self\.chunk_index\(key(?:_prefix)?\)",
    "ifOverlayChunk": ("if", r"^let Some\(\w+\)=log\.with_index\(self\.id,chunk_index,"),
    "ifMapped": ("if", r"^let Some\(map\)=&\*self\.map\.read\(\)$"),
    "chunkAt": r"Self::chunk_at\(chunk_index,map\)\?",
    "emptyChunk": r"EMPTY_CHUNK\.clone\(\)",
    "planInsertCall": r"self\.plan_insert_chunk\(key_prefix,address,chunk,sub_index,log\)",
    "planRemoveCall": r"self\.plan_remove_chunk\(key_prefix,chunk,sub_index,log\)",
    "findEntryCall": r"self\.find_entry\(key,sub_index,chunk\)",
    "returnEmptyOk": r"Ok\(\(Entry::empty\(\),0\)\)",
    "otherCall": None,
}

GUARDS = {"lockTablesRead": "unlockTablesRead", "lockReindexRead": "unlockReindexRead",
          "lockReindexWrite": "unlockReindexWrite"}

# (lean name, file, impl, fn, [(marker, count)], [one-of groups], options)
FUNCS = [
    ("colGet", COL, "HashColumn", "get",
     [("lockTablesRead", "1"), ("lockReindexRead", "1"), ("ifHit", "+"), ("getInIndexCurrent", "1"), ("forQueue", "1"),
      ("ifQueuedIndex", "1"), ("getInIndexQueued", "1"), ("returnHit", "+"), ("returnNone", "1")], [],
     {"stmts": ["returnHit", "returnNone"]}),
    ("getInIndex", COL, "HashColumn", "get_in_index",
     [("indexGetFirst", "1"), ("whileEntry", "1"), ("entryAddress", "1"), ("getValueCheckKey", "1"), ("matchValue", "1"),
      ("returnFound", "1"), ("indexGetNext", "1"), ("assignEntry", "1"), ("assignSub", "1"), ("returnNone", "1")], [],
     {"stmts": ["indexGetFirst", "entryAddress", "indexGetNext"]}),
    ("searchIndex", COL, "HashColumn", "search_index",
     [("indexGetFirst", "1"), ("whileEntry", "1"), ("entryAddress", "1"), ("existingTier", "1"), ("tableKeyPartial", "1"),
      ("ifHasKey", "1"), ("returnFoundAt", "1"), ("indexGetNext", "1"), ("assignExistingEntry", "1"), ("assignSub", "1"),
      ("returnNone", "1")], [], {"stmts": ["indexGetFirst", "entryAddress", "indexGetNext"]}),
    ("searchAll", COL, "HashColumn", "search_all_indexes",
     [("ifFoundCurrent", "1"), ("forQueue", "1"), ("ifQueuedIndex", "1"), ("ifFoundQueued", "1"), ("returnR", "+"),
      ("returnNone", "1")], [], {}),
    ("purgeQueued", COL, "HashColumn", "remove_from_queued_indexes",
     [("forQueue", "1"), ("ifQueuedIndex", "1"), ("indexGetFirst", "1"), ("whileEntry", "1"), ("ifAddrEq", "1"),
      ("queuedRemovePlan", "1"), ("advanceEntry", "1")], [], {"stmts": ["indexGetFirst"]}),
    ("colWritePlan", COL, "HashColumn", "write_plan",
     [("lockTablesUp", "1"), ("lockReindexUp", "1"), ("searchAllCall", "1"), ("ifExisting", "1"), ("callExisting", "1"),
      ("ifPending", "1"), ("growLoop", "1"), ("triggerReindex", "1"), ("ifInserted", "1"), ("insertPending", "1"), ("breakLoop", "1"),
      ("returnOutcome", "1"), ("matchChange", "1"), ("callNew", "1"), ("returnNew", "1"), ("returnSkipped", "+"),
      ("unsupportedOp", "1")], [], {"stmts": ["searchAllCall", "callExisting", "callNew"]}),
    ("writeExisting", COL, "HashColumn", "write_plan_existing",
     [("tableKeyPartial", "1"), ("valuePlan", "1"), ("armDone", "1"), ("replaceInPlace", "1"), ("insertMoved", "1"),
      ("ifNotReplaced", "1"), ("foundRemovePlan", "+"), ("purgeCall", "+"), ("returnMoved", "1"), ("armNeedReindex", "1"),
      ("armOther", "1"), ("returnRemoved", "1")], [],
     {"stmts": ["replaceInPlace", "insertMoved", "foundRemovePlan", "purgeCall"]}),
    ("writeNew", COL, "HashColumn", "write_plan_new",
     [("tableKeyPartial", "1"), ("newValuePlan", "1"), ("initWritten", "1"), ("whileNeedReindex", "1"),
      ("triggerReindex", "1"), ("setNeedReindex", "1"), ("returnTriple", "1")], [], {"stmts": ["newValuePlan"]}),
    ("writeReindexLocked", COL, "HashColumn", "write_reindex_plan_locked",
     [("ifContains", "1"), ("returnSkippedEarly", "1"), ("initWritten", "1"), ("whileNeedReindex", "1"),
      ("triggerReindex", "1"), ("setNeedReindex", "1"), ("returnOutcome", "1")], [], {}),
    ("triggerReindexFn", COL, "HashColumn", "trigger_reindex",
     [("upgradeTables", "1"), ("upgradeReindex", "1"), ("newIndexId", "1"), ("createNewTable", "1"), ("replaceCurrent", "1"),
      ("queuePush", "1")], [], {"stmts": ["newIndexId", "replaceCurrent", "queuePush"]}),
    ("valuePlanExisting", COL, "Column", "write_existing_value_plan",
     [("matchChange", "1"), ("ifRefCounted", "+"), ("ifPreimage", "1"), ("incRef", "+"), ("retWritten", "+"),
      ("retSkipped", "+"), ("compressVal", "1"), ("ifSameTier", "1"), ("replacePlan", "1"), ("removeOld", "+"),
      ("insertNewTier", "1"), ("newAddress", "1"), ("retMoved", "1"), ("decRef", "1"), ("tailRemoved", "1"), ("tailTrue", "1"), ("letRemove", "1"), ("ifRemove", "1"),
      ("retFreed", "1"), ("invalidOp", "1")], [], {"stmts": ["replacePlan", "decRef", "newAddress", "insertNewTier"]}),
    ("valuePlanNew", COL, "Column", "write_new_value_plan",
     [("compressVal", "1"), ("insertNewTier", "1"), ("newAddress", "1"), ("retAddress", "1")], [],
     {"stmts": ["insertNewTier", "newAddress"]}),
    ("reindexFn", COL, "HashColumn", "reindex",
     [("lockTablesRead", "1"), ("lockReindexRead", "1"), ("ifFront", "1"), ("loadProgress", "1"), ("ifNotDone", "+"),
      ("startAtProgress", "+"), ("whileBatch", "+"), ("sourceEntries", "+"), ("ifEmptyEntry", "+"), ("continueEmpty", "+"),
      ("recoverKey", "1"), ("pushPlan", "1"), ("pushRcPlan", "1"), ("incSource", "+"), ("storeProgress", "+"),
      ("ifFinished", "+"), ("setDropIndex", "1"), ("setDropRc", "1"), ("returnBatch", "1")], [],
     {"stmts": ["pushPlan", "incSource", "storeProgress", "returnBatch", "sourceEntries"]}),
    ("dropIndexFn", COL, "HashColumn", "drop_index",
     [("lockReindexWrite", "1"), ("ifFrontMatches", "1"), ("frontIdEq", "1"), ("resetProgress", "1"), ("popFront", "1"),
      ("dropFile", "1"), ("returnOkUnit", "*")], [], {"stmts": ["resetProgress", "popFront"]}),
    ("colFlush", COL, "HashColumn", "flush",
     [("lockTablesRead", "1"), ("flushIndex", "1"), ("forValueTables", "1"), ("flushValueTable", "1"), ("ifHasRefCount", "1"),
      ("flushRefCount", "1"), ("forQueuedFlush", "1"), ("flushQueuedIndex", "1"), ("flushQueuedRc", "1"), ("returnOkTail", "1"),
      ("returnOkUnit", "*")], [], {"stmts": ["flushIndex", "flushQueuedIndex"]}),
    ("iterIndexTable", COL, "HashColumn", "iter_index_table",
     [("forChunks", "1"), ("chunkEntries", "1"), ("forEntries", "1"), ("ifEmptyEntry", "1"), ("continueEmpty", "+"),
      ("ifOlder", "1"), ("forOlder", "1"), ("ifReportedByOlder", "1"), ("setReported", "1"), ("breakLoop", "1"),
      ("ifReported", "1"), ("getWithMeta", "1"), ("copyKeyTail", "1"), ("ifStopped", "+"), ("returnFalse", "+"),
      ("returnOkTrueTail", "1")], [], {}),
    # ---- src/table.rs
    ("nextFree", TAB, "ValueTable", "next_free",
     [("lockFree", "1"), ("loadFilled", "1"), ("loadLastRemoved", "1"), ("ifHaveRemoved", "1"), ("readNextFree", "1"),
      ("storeLastRemoved", "1"), ("ifStack", "1"), ("popStack", "1"), ("tailLastRemoved", "1"), ("storeFilled", "1"),
      ("tailFilled", "1"), ("setDirtyHeader", "1"), ("returnIndex", "1")], [],
     {"stmts": ["readNextFree", "storeLastRemoved", "storeFilled"]}),
    ("readNextFreeFn", TAB, "ValueTable", "read_next_free",
     [("loadFilled", "1"), ("readBuf", "1"), ("readFile", "1"), ("skipSize", "1"), ("readNext", "1"), ("ifBadNext", "1"),
      ("returnCorruption", "1"), ("returnNext", "1")], [], {"stmts": ["readNext"]}),
    ("clearSlot", TAB, "ValueTable", "clear_slot",
     [("lockFree", "1"), ("loadLastRemoved", "1"), ("writeTombstone", "1"), ("writeNext", "1"), ("insertValue", "1"),
      ("storeLastRemoved", "1"), ("setDirtyHeader", "1"), ("ifStack", "1"), ("pushStack", "1")], [],
     {"stmts": ["writeNext", "insertValue", "storeLastRemoved"]}),
    ("removePlanFn", TAB, "ValueTable", "write_remove_plan",
     [("callClearChain", "1"), ("callClearSlot", "1"), ("returnOkTail", "1")], [], {}),
    ("tableCompletePlan", TAB, "ValueTable", "complete_plan",
     [("lockFreeRead", "1"), ("ifDirty", "1"), ("loadLastRemoved", "1"), ("loadFilled", "1"), ("setHdrLastRemoved", "1"),
      ("setHdrFilled", "1"), ("insertValue", "1")], [], {"stmts": ["insertValue"]}),
    ("tableOpen", TAB, "ValueTable", "open",
     [("initFilled", "1"), ("initLastRemoved", "1"), ("ifHasMap", "1"), ("readHeader", "1"), ("hdrLastRemoved", "1"),
      ("hdrFilled", "1"), ("ifFilledZero", "1"), ("setFilledOne", "1"), ("ifBadRemoved", "1"), ("returnCorruption", "1"),
      ("fieldFilled", "1"), ("fieldWritten", "1"), ("fieldLastRemoved", "1"), ("fieldDirty", "1"), ("fieldFreeEntries", "1")],
     [], {"fields": ["fieldFilled", "fieldWritten", "fieldLastRemoved", "fieldDirty", "fieldFreeEntries"]}),
    ("tableRefresh", TAB, "ValueTable", "refresh_metadata",
     [("ifNoMap", "1"), ("returnOkUnit", "1"), ("lockFree", "1"), ("readHeader", "1"), ("hdrLastRemoved", "1"),
      ("hdrFilled", "1"), ("ifFilledZero", "1"), ("setFilledOne", "1"), ("storeLastRemoved", "1"), ("storeFilled", "1"),
      ("storeWritten", "1")], [], {"stmts": ["storeLastRemoved", "storeFilled", "storeWritten"]}),
    ("initTableData", TAB, "ValueTable", "init_table_data",
     [("ifNeedsFree", "1"), ("loadFilled", "1"), ("loadLastRemoved", "1"), ("startAtHead", "1"), ("whileNext", "1"),
      ("ifBadLink", "1"), ("returnCorruption", "1"), ("stackPush", "1"), ("readLinkFile", "1"), ("skipSize", "1"),
      ("nextFromLink", "1"), ("stackReverse", "1"), ("setFreeEntries", "1")], [], {}),
    ("changeRef", TAB, "ValueTable", "change_ref",
     [("readSlot", "1"), ("readSlotFile", "1"), ("ifTombstone", "1"), ("returnFalse", "+"), ("ifMultiEntry", "1"),
      ("skipSize", "1"), ("skipNext", "1"), ("tailEntrySize", "1"), ("readSize", "1"), ("tailOffsetPlusSize", "1"), ("rcOffset", "1"), ("readRc", "1"), ("ifIncrement", "1"),
      ("ifSaturate", "1"), ("lockCounter", "1"), ("addCounter", "1"), ("ifNotLocked", "1"), ("subCounter", "1"),
      ("ifCounterZero", "1"), ("setRcOffset", "1"), ("writeRc", "1"), ("insertValue", "1"), ("returnTrue", "1")], [],
     {"stmts": ["writeRc", "insertValue"]}),
    ("decRefFn", TAB, "ValueTable", "write_dec_ref",
     [("ifChangeRefDec", "1"), ("returnTrueEarly", "1"), ("callRelease", "1"), ("returnFalseTail", "1")], [], {}),
    ("incRefFn", TAB, "ValueTable", "write_inc_ref",
     [("callChangeRefInc", "1"), ("returnOkTail", "1")], [], {}),
    ("clearChainFn", TAB, "ValueTable", "clear_chain",
     [("growLoop", "1"), ("readNextPart", "1"), ("callClearSlot", "+"), ("assignIndexNext", "1"), ("returnOkUnit", "1")], [], {}),
    ("claimEntries", TAB, "ValueTable", "claim_entries",
     [("matchFreeEntries", "1"), ("lockFree", "1"), ("forClaim", "1"), ("loadFilled", "1"), ("loadLastRemoved", "1"),
      ("ifHaveRemoved", "1"), ("popStack", "1"), ("peekStack", "1"), ("storeLastRemoved", "1"), ("tailLastRemoved", "1"),
      ("storeFilled", "1"), ("tailFilled", "1"), ("pushEntry", "1"), ("setDirtyHeader", "1"), ("returnEntries", "1")], [],
     {"stmts": ["storeLastRemoved", "storeFilled"]}),
    ("overwriteChain", TAB, "ValueTable", "overwrite_chain",
     [("matchAt", "1"), ("armAtSome", "1"), ("armAtNone", "1"), ("growLoop", "1"), ("ifFollow", "1"), ("readNextPart", "1"),
      ("ifOverflow", "1"), ("ifNotFollow", "1"), ("allocNext", "1"), ("ifFirstPart", "+"), ("ifCompressed", "1"),
      ("writeMultiheadCompressed", "1"), ("writeMultihead", "1"), ("writeMultipart", "1"), ("writeNext", "1"),
      ("writeSize", "1"), ("ifFirstOffset", "1"), ("ifTableRc", "1"), ("writeRc", "1"), ("writeKey", "1"), ("writeSlice", "1"),
      ("insertValue", "1"), ("subRemainder", "1"), ("setStart", "1"), ("advanceIndex", "1"), ("ifDone", "1"), ("ifTail", "1"),
      ("clearTail", "1"), ("breakLoop", "1"), ("returnStart", "1")], [],
     {"stmts": ["writeNext", "writeSize", "writeRc", "writeSlice", "insertValue"]}),
    # ---- src/index.rs
    ("indexInsertPlan", IDX, "IndexTable", "write_insert_plan",
     [("keyPrefixOf", "1"), ("chunkIndexOf", "1"), ("ifOverlayChunk", "1"), ("ifMapped", "1"), ("chunkAt", "1"),
      ("emptyChunk", "1"), ("planInsertCall", "+")], [], {"stmts": ["planInsertCall"]}),
    ("indexRemovePlan", IDX, "IndexTable", "write_remove_plan",
     [("keyPrefixOf", "1"), ("chunkIndexOf", "1"), ("ifOverlayChunk", "1"), ("ifMapped", "1"), ("chunkAt", "1"),
      ("planRemoveCall", "+"), ("returnSkipped", "1")], [], {"stmts": ["planRemoveCall"]}),
    ("indexGet", IDX, "IndexTable", "get",
     [("keyPrefixOf", "1"), ("chunkIndexOf", "1"), ("ifOverlayChunk", "1"), ("ifMapped", "1"), ("chunkAt", "1"),
      ("findEntryCall", "+"), ("returnEmptyOk", "1")], [], {"stmts": ["findEntryCall"]}),
    ("findEntryBase", IDX, "IndexTable", "find_entry_base",
     [("extractKey", "1"), ("forScan", "1"), ("readEntry", "1"), ("ifMatch", "1"), ("returnEntry", "1"), ("returnEmpty", "1")],
     [], {}),
    ("planInsertChunk", IDX, "IndexTable", "plan_insert_chunk",
     [("ifOverflowAddr", "1"), ("returnNeedReindex", "1"), ("extractKey", "1"), ("newEntry", "1"), ("ifSubIndex", "1"),
      ("assertSameKey", "1"), ("writeEntry", "+"), ("insertIndex", "+"), ("returnWrittenEarly", "+"), ("forScan", "1"),
      ("readEntry", "+"), ("ifEmptySlot", "1"), ("tailNeedReindex", "1")], [], {}),
    ("planRemoveChunk", IDX, "IndexTable", "plan_remove_chunk",
     [("extractKey", "1"), ("letSub", "1"), ("readEntry", "1"), ("ifOccupiedSame", "1"), ("emptyEntry", "1"),
      ("writeEntry", "1"), ("insertIndex", "1"), ("returnWrittenEarly", "1"), ("returnSkipped", "1")], [], {}),
]

# functions of FUNCS for which the statement TREE is emitted as well: `def <fn>_prog : List Prog`, where
#   Prog.act m stmt     a marker occurrence (block markers at their keyword) with the COMPLETE statement around it
#   Prog.blk header ps  a region whose execution depends on a block header (`if C`, `if C{}else`, `match E`, `PAT=>`,
#                       `while C`, `for P in E`, `loop`, `|args|`), with the markers / blocks inside it, in source order
# Blocks that contain no marker do not appear.  Pdb/Proofs/OrderStorage.lean runs these trees with a fixed semantics of
# the pinned statement texts and proves the result EQUAL to the hand-written model function.
PROGS = ["nextFree", "readNextFreeFn", "clearSlot", "removePlanFn", "changeRef", "decRefFn", "incRefFn", "clearChainFn", "claimEntries"]

# functions whose COMPLETE canonical body is emitted: (lean name, file, impl, fn)
BODIES = [
    ("tableRemovePlan", TAB, "ValueTable", "write_remove_plan"),
    ("tableClearChain", TAB, "ValueTable", "clear_chain"),
    ("tableInsertPlan", TAB, "ValueTable", "write_insert_plan"),
    ("tableReplacePlan", TAB, "ValueTable", "write_replace_plan"),
    ("tableClaimedPlan", TAB, "ValueTable", "write_claimed_plan"),
    ("tableIncRef", TAB, "ValueTable", "write_inc_ref"),
    ("tableDecRef", TAB, "ValueTable", "write_dec_ref"),
    ("tableReadNextPart", TAB, "ValueTable", "read_next_part"),
    ("colGetSize", COL, "HashColumn", "get_size"),
    ("colWriteReindexPlan", COL, "HashColumn", "write_reindex_plan"),
]

# `Header` accessors: (lean name, fn); the body must contain exactly one `self.0[A..B]`
RANGES = [("hdrGetLastRemoved", "last_removed"), ("hdrSetLastRemoved", "set_last_removed"),
          ("hdrGetFilled", "filled"), ("hdrSetFilled", "set_filled")]

# (lean name, file, impl, fn, regex with one group, matched exactly once on the canonical body)
EXPRS = [
    ("nodeSplitMiddle", NODE, "Node", "insert", r"let middle=([^;]+);"),
    ("nodeSplitTest", NODE, "Node", "insert", r"if (self\.has_separator\(ORDER-1\))\{"),
    ("nodeSplitMiddleNode", NODE, "Node", "insert_node", r"let middle=([^;]+);"),
    ("nodeRebalanceTest", NODE, "Node", "need_rebalance", r"^(.*)$"),
    ("tableHeaderStruct", TAB, None, "struct Header", None),
]


class StorageError(Exception):
    pass


def load(srcs, f):
    if f not in srcs:
        try:
            with open(os.path.join(REPO, f)) as fh:
                srcs[f] = rustlex.lex(fh.read())
            rustlex.check_balanced(srcs[f], f)
        except rustlex.LexError as e:
            raise StorageError("%s: %s" % (f, e))
    return srcs[f]


def lstr(s):
    return sk.lstr(s)


def range_term(text, where):
    """`A..B` of a `self.0[A..B]` -> two Lean terms over Pdb.Gen constants"""
    m = re.fullmatch(r"([0-9A-Z_*+]+)\.\.([0-9A-Z_*+]+)", text)
    if not m:
        raise StorageError("%s: byte range `%s` is not of the form CONST-EXPR..CONST-EXPR" % (where, text))
    def term(t):
        return re.sub(r"[A-Z_][A-Z0-9_]*", lambda x: "Pdb.Gen." + x.group(0), t).replace("*", " * ").replace("+", " + ")
    return term(m.group(1)), term(m.group(2))


def struct_header(toks, where):
    """canonical text of `struct Header(...)` of src/table.rs"""
    for i in range(len(toks) - 2):
        if toks[i][1] == "struct" and toks[i + 1][1] == "Header":
            j, depth = i, 0
            while j < len(toks) and not (toks[j][1] == ";" and depth == 0):
                depth += {"(": 1, "[": 1, "{": 1, ")": -1, "]": -1, "}": -1}.get(toks[j][1], 0) if toks[j][0] == "op" else 0
                j += 1
            return rustlex.canon(toks[i:j])[0]
    raise StorageError("%s: `struct Header` not found" % where)


def prog_tree(body, spec):
    """[(Prog as Lean text)] of the markers of `spec` in `body`: see PROGS"""
    leaves = []
    for marker, _count in spec:
        if sk.is_block(marker):
            for kw, _ob in sk.block_hits(body, marker):
                leaves.append((kw, marker))
        else:
            for h in re.finditer(M[marker], body.text):
                leaves.append((body.tok_at(h.start()), marker))
    leaves.sort()
    rows = []
    for pos, marker in leaves:
        a, b = body.stmt_span(pos)
        if sk.is_block(marker):
            b = body.header_end(pos)                    # the statement of a block marker is its header
        chain = [(x, y, h) for x, y, h in body.scopes if x <= pos <= y]
        rows.append((marker, body.canon(a, b) if a <= pos < b else "", chain))

    def build(rs, depth, indent):
        out, i = [], 0
        while i < len(rs):
            marker, stmt, chain = rs[i]
            if len(chain) == depth:
                out.append("%s.act .%s %s" % (indent, marker, lstr(stmt)))
                i += 1
                continue
            sc, j = chain[depth], i
            while j < len(rs) and len(rs[j][2]) > depth and rs[j][2][depth] == sc:
                j += 1
            inner = build(rs[i:j], depth + 1, indent + "  ")
            out.append("%s.blk %s [\n%s]" % (indent, lstr(sc[2]), ",\n".join(inner)))
            i = j
        return out
    return build(rows, 0, "   ")


def main():
    sk.M, sk.GUARDS = M, GUARDS
    srcs, vocab = {}, []
    for name in M:
        vocab.append(name)
        if M[name] is not None and sk.is_block(name):
            vocab.append(sk.end_name(name))
        if name in GUARDS:
            vocab.append(GUARDS[name])
    if len(set(vocab)) != len(vocab):
        raise StorageError("duplicate marker names in the vocabulary")
    used = set(m for fn in FUNCS for m, _ in fn[4])
    unused = [m for m in M if m not in used and m != "otherCall"]
    if unused:
        raise StorageError("markers of the vocabulary used by no function: %s" % unused)
    defs, pins, total = [], [], 0
    for lean, f, impl, fn, spec, oneof, opts in FUNCS:
        toks = sk.fn_body(load(srcs, f), f, impl, fn)
        where = "%s %s::%s" % (f, impl, fn)
        body = sk.Body(toks, where)
        markers, conds, _others, ctx, stmts = sk.extract(body, spec, oneof, opts, where)
        total += len(markers)
        defs.append("/-- %s: `%s::%s` -/\ndef %s : List Marker :=\n%s" % (f, impl, fn, lean, sk.wrap(["." + m for m in markers])))
        rows = ["(.%s, [%s])" % (m, ", ".join("[" + ", ".join(lstr(x) for x in conj) + "]" for conj in c)) for m, c in conds]
        defs.append("/-- %s: `%s::%s`: the complete headers of its block markers, in source order (split at top-level "
                    "`||`, then `&&`) -/\ndef %s_conds : List (Marker × List (List String)) :=\n  [%s]"
                    % (f, impl, fn, lean, ",\n   ".join(rows)))
        pins.append((lean, "theorem conds_%s :\n    %s_conds =\n      [%s] := by decide" % (lean, lean, ",\n       ".join(
            "(%s, [%s])" % (m, ", ".join("[" + ", ".join(lstr(x) for x in conj) + "]" for conj in c)) for m, c in conds))))
        defs.append("/-- %s: `%s::%s`: every marker that sits inside a conditional / loop / match arm / closure, with the chain "
                    "of the enclosing block headers (outermost first; `if C{}else` = the else part), consecutive markers with "
                    "the same chain grouped; markers not listed are at the top level of the body -/\n"
                    "def %s_ctx : List (List Marker × List String) :=\n  [%s]"
                    % (f, impl, fn, lean, ",\n   ".join("([%s],\n    [%s])" % (
                        ", ".join("." + m for m in ms), ", ".join(lstr(x) for x in c)) for ms, c in ctx)))
        pins.append((lean, "theorem ctx_%s :\n    %s_ctx =\n      [%s] := by decide" % (lean, lean, ",\n       ".join(
            "([%s],\n        [%s])" % (", ".join(ms), ",\n         ".join(lstr(x) for x in c)) for ms, c in ctx))))
        # every early exit of the function with the chain of block headers it sits under (the marker skeleton is linear)
        exits = []
        for i, (kind, text, _) in enumerate(body.toks):
            if kind == "id" and text in ("break", "continue", "return"):
                a, b = body.stmt_span(i)
                exits.append((body.canon(i, b) if b > i else text, body.chain(i)))
        defs.append("/-- %s: `%s::%s`: every `break` / `continue` / `return` with the chain of block headers it sits under, in "
                    "source order -/\ndef %s_exits : List (String × List String) :=\n  [%s]"
                    % (f, impl, fn, lean, ",\n   ".join("(%s, [%s])" % (lstr(t), ", ".join(lstr(x) for x in c)) for t, c in exits)))
        pins.append((lean, "theorem exits_%s :\n    %s_exits =\n      [%s] := by decide" % (lean, lean, ",\n       ".join(
            "(%s,\n        [%s])" % (lstr(t), ",\n         ".join(lstr(x) for x in c)) for t, c in exits))))
        if lean in PROGS:
            defs.append("/-- %s: `%s::%s`: the statement tree of its markers (see PROGS in tools/rs2lean_storage.py) -/\n"
                        "def %s_prog : List Prog :=\n  [\n%s]" % (f, impl, fn, lean, ",\n".join(prog_tree(body, spec))))
        if opts.get("stmts") or opts.get("fields"):
            defs.append("/-- %s: `%s::%s`: the COMPLETE statement (resp. field initialiser) around the markers %s, in source "
                        "order -/\ndef %s_stmts : List (Marker × String) :=\n  [%s]"
                        % (f, impl, fn, ", ".join(list(opts.get("stmts", [])) + list(opts.get("fields", []))), lean,
                           ",\n   ".join("(.%s, %s)" % (m, lstr(c)) for m, c in stmts)))
            pins.append((lean, "theorem stmts_%s :\n    %s_stmts =\n      [%s] := by decide" % (
                lean, lean, ",\n       ".join("(%s, %s)" % (m, lstr(c)) for m, c in stmts))))
    for lean, f, impl, fn in BODIES:
        text = rustlex.canon(sk.fn_body(load(srcs, f), f, impl, fn))[0]
        defs.append("/-- %s: `%s::%s`: the complete canonical body -/\ndef %s_body : String :=\n  %s" % (f, impl, fn, lean, lstr(text)))
        pins.append((lean, "theorem body_%s :\n    %s_body =\n      %s := by decide" % (lean, lean, lstr(text))))
    for lean, fn in RANGES:
        where = "%s Header::%s" % (TAB, fn)
        text = rustlex.canon(sk.fn_body(load(srcs, TAB), TAB, "Header", fn))[0]
        hits = re.findall(r"self\.0\[([^\[\]]*)\]", text)
        if len(hits) != 1:
            raise StorageError("%s: expected exactly one `self.0[A..B]`, found %d" % (where, len(hits)))
        a, b = range_term(hits[0], where)
        defs.append("/-- %s: `Header::%s`: the byte range `self.0[%s]` -/\ndef %s_range : Nat × Nat := (%s, %s)"
                    % (TAB, fn, hits[0], lean, a, b))
        defs.append("/-- %s: `Header::%s`: the complete canonical body -/\ndef %s_body : String :=\n  %s" % (TAB, fn, lean, lstr(text)))
    for lean, f, impl, fn, rx in EXPRS:
        if impl is None:
            text = struct_header(load(srcs, f), "%s %s" % (f, fn))
        else:
            where = "%s %s::%s" % (f, impl, fn)
            body = rustlex.canon(sk.fn_body(load(srcs, f), f, impl, fn))[0]
            hits = re.findall(rx, body)
            if len(hits) != 1:
                raise StorageError("%s: item %s: `%s` expected exactly once, found %d time(s)" % (where, lean, rx, len(hits)))
            text = hits[0]
        defs.append("/-- %s: `%s`: %s -/\ndef %s : String :=\n  %s" % (f, fn if impl is None else impl + "::" + fn,
                                                                      "canonical text" if rx is None else "`" + rx + "`", lean, lstr(text)))
    if "--pins" in sys.argv[1:]:
        sel = [a for a in sys.argv[1:] if not a.startswith("--")]
        print("\n".join(t for n, t in pins if not sel or n in sel))
        return
    hdr = ("-- GENERATED by tools/rs2lean_storage.py from /repo/src/{column,table,index}.rs, src/btree/node.rs on every check run.\n"
           "-- Do not edit.  Branch / call / statement skeletons of the storage layer (fixed marker vocabulary, source order).\n"
           "import Pdb.Gen.Consts\n\nnamespace Pdb.Gen.Storage\n\n")
    ind = "inductive Marker where\n" + "\n".join("  | " + v for v in vocab) + "\nderiving DecidableEq, Repr\n\n"
    ind += ("/-- statement tree of a function: marker occurrences with their complete statement, nested in the block headers "
            "they depend on -/\ninductive Prog where\n  | act (m : Marker) (stmt : String)\n  | blk (header : String) "
            "(body : List Prog)\n\n")
    os.makedirs(OUT, exist_ok=True)
    sk.write_if_changed(os.path.join(OUT, "Storage.lean"), hdr + ind + "\n\n".join(defs) + "\n\nend Pdb.Gen.Storage\n")
    print("rs2lean_storage: %d functions, %d markers (vocabulary %d), %d bodies, %d ranges, %d expressions"
          % (len(FUNCS), total, len(vocab), len(BODIES), len(RANGES), len(EXPRS)))


if __name__ == "__main__":
    try:
        main()
    except (StorageError, sk.SkeletonError) as e:
        print("rs2lean_storage: STORAGE-ERROR: %s" % e)
        sys.exit(2)
    except (OSError, IndexError, KeyError, ValueError, AttributeError, re.error) as e:
        print("rs2lean_storage: STORAGE-ERROR: %s: %s" % (type(e).__name__, e))
        sys.exit(2)
