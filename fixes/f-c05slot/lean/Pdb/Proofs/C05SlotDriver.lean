/-
The `c05s` driver executes the slot-level LTS of the `C05_slot_*` theorems and nothing else: the
state after an op line is `srun Cfg.real` of the actions the line denotes, hence the state after a
whole replayed trace is a run of the LTS from `SSt.init` (since the last `init` line).
-/
import Pdb.Model.ConcSlotDriver
import Pdb.Props.C05Slot

namespace Pdb
namespace CSlotDriver
open CSlot

theorem stepDrv_n (d : Drv) (args : List String) : (stepDrv d args).n = d.n := by
  unfold stepDrv
  split <;> rfl

/-- one op line = `srun` of its action list -/
theorem stepDrv_sched (d : Drv) (args : List String) :
    (stepDrv d args).s =
      srun Cfg.real tierOf chunkOfKey d.n d.s ((actsOf d args).getD []) := by
  unfold stepDrv
  split
  · next as h => simp [h]
  · next h => simp [h, srun]

/-- the slot-level state of a driver state is a run of the LTS from `SSt.init` -/
def Reach (st : State) : Prop :=
  ∀ d, st = some d → ∃ as, d.s = srun Cfg.real tierOf chunkOfKey d.n SSt.init as

theorem Reach.step {st : State} (h : Reach st) (args : List String) : Reach (step st args).1 := by
  intro d' hd'
  unfold CSlotDriver.step at hd'
  split at hd'
  · next n =>
    split at hd'
    · next n' _ =>
      simp only [Option.some.injEq] at hd'
      subst hd'
      exact ⟨[], rfl⟩
    · exact h d' hd'
  · split at hd'
    · exact h d' hd'
    · next d =>
      simp only [Option.some.injEq] at hd'
      subst hd'
      obtain ⟨as, has⟩ := h d rfl
      refine ⟨as ++ (actsOf d args).getD [], ?_⟩
      rw [stepDrv_sched, stepDrv_n, has]
      simp [srun, List.foldl_append]

theorem Reach.replay {st : State} (h : Reach st) (ls : List (List String)) :
    Reach (replay st ls) := by
  induction ls generalizing st with
  | nil => exact h
  | cons l ls ih =>
    simp only [CSlotDriver.replay, List.foldl_cons]
    exact ih (h.step l)

theorem Reach.none : Reach (none : State) := by
  intro d hd; cases hd

end CSlotDriver
end Pdb
