//! c05s: SLOT-level replay of point reads racing with the pipeline stages (property C05; also C01, C09).
//!
//! The real `Db` is driven with the stepping API only (no worker threads).  The yield-point callback
//! (`parity_db::verif::set_yield_hook`) runs on the stepping thread and takes observations
//!   * `process_commits.before_end_record`   the commit is planned, nothing is published
//!   * `process_commits.after_end_record`    record in the log overlay, commit overlay not cleaned
//!   * `enact_logs.before_action`            between two table writes of ONE record (hook-c05s.diff)
//!   * `enact_logs.before_end_read`          every table write done, log overlay entries still there
//! and the main line takes them after every stepping call.  An observation is, for every probed key,
//! what `Db::get` answers and the address in the key's index entry (through the log overlay, from
//! `Db::verif_dump`), and for the two value tables in use the planner state (fill mark, free-list head)
//! and the raw FILE content slot by slot (`ValueTable::verif_dump`: no log overlay).
//!
//! Keys: six keys, four in one index chunk and two in another (zero salt + uniform: the first 16 bits
//! of the key select the chunk).  Values of two lengths, hence two size tiers: removing a key and
//! inserting another one of the same tier reuses the slot (the free list is LIFO), a value that changes
//! its length moves to the other tier and frees its slot, a value that keeps it is overwritten in place.
//!
//! Every op line is replayed by `pdbdriver` command `c05s` = `CSlot.sstep Cfg.real` (Pdb/Model/ConcSlot.lean,
//! the model of the `C05_slot_*` theorems); the model predicts the allocation decisions itself.
//! Independent oracle (plain Rust): every `get` returns the value of the last accepted commit.
use crate::util::*;
use parity_db::{ColumnOptions, Db, Options};
use std::collections::{BTreeMap, HashMap};
use std::path::Path;
use std::sync::{Arc, Mutex};

const LENS: [usize; 2] = [40, 200];

fn options(path: &Path) -> Options {
	let mut o = Options::with_columns(path, 1);
	o.columns[0] = ColumnOptions { uniform: true, ..Default::default() };
	o.salt = Some([0u8; 32]);
	o.with_background_thread = false;
	o.always_flush = true;
	o.stats = false;
	o.sync_wal = true;
	o.sync_data = true;
	o
}

/// model key id `chunk * 100 + j`
fn key_bytes(id: u64) -> [u8; 32] {
	let mut r = Rng::new(id.wrapping_mul(0x9e37_79b9_7f4a_7c15).wrapping_add(0xc05));
	let mut k = [0u8; 32];
	for i in 0..4 {
		k[i * 8..i * 8 + 8].copy_from_slice(&r.next().to_le_bytes());
	}
	k[0] = 0x5a;
	k[1] = 0xc3 + (id / 100) as u8;
	k[24..32].copy_from_slice(&id.to_be_bytes());
	k
}

fn enc(id: u64, sel: usize, version: u64) -> Vec<u8> {
	let len = LENS[sel];
	let mut b = Vec::with_capacity(len);
	b.extend_from_slice(&version.to_le_bytes());
	b.extend_from_slice(&(id as u16).to_le_bytes());
	let mut j = 0u64;
	while b.len() < len {
		b.push((version.wrapping_mul(31).wrapping_add(j * 7).wrapping_add(id)) as u8);
		j += 1;
	}
	b
}

struct Ctx {
	keys: Vec<(u64, [u8; 32])>,
	/// real size tier of a value of length LENS[sel]
	tiers: [u64; 2],
}

impl Ctx {
	fn token(&self, sel: usize, version: u64) -> u64 {
		self.tiers[sel] * 1000 + version
	}
	fn obs_get(&self, id: u64, got: &Result<Option<Vec<u8>>, parity_db::Error>) -> String {
		match got {
			Err(e) => format!("err:{}", err_kind(e)),
			Ok(None) => "none".to_string(),
			Ok(Some(b)) => {
				let sel = match LENS.iter().position(|l| *l == b.len()) {
					Some(s) => s,
					None => return "some CORRUPT".to_string(),
				};
				let version = u64::from_le_bytes(b[0..8].try_into().unwrap());
				if enc(id, sel, version) != *b {
					return "some CORRUPT".to_string()
				}
				format!("some {}", self.token(sel, version))
			},
		}
	}
}

#[derive(Clone, Copy, PartialEq)]
enum Level {
	/// reads and index entries only (the planner state has run ahead of what is published)
	View,
	Full,
	/// inside a half-enacted record
	Mid,
}

type Addr = (u64, u64);

/// One observation: trace lines + the address of every key's index entry.
fn observe(db: &Db, cx: &Ctx, level: Level, out: &mut Vec<(String, String)>) -> BTreeMap<u64, Option<Addr>> {
	let mut addrs = BTreeMap::new();
	for (id, key) in cx.keys.iter() {
		let got = db.get(0, key);
		out.push((format!("c05s get {}", id), cx.obs_get(*id, &got)));
	}
	let dump = match db.verif_dump(0, true) {
		Ok(d) => d,
		Err(e) => {
			// the structures are unreadable: the model answers something else, the case is reported
			for (id, _) in cx.keys.iter() {
				out.push((format!("c05s addr {}", id), format!("err:{}", err_kind(&e))));
				addrs.insert(*id, None);
			}
			return addrs
		},
	};
	let (bits, entries) = &dump.index[0];
	let address_bits = *bits as u32 + 6 + 8;
	let mut chunk_of: HashMap<u64, u64> = HashMap::new();
	for (id, key) in cx.keys.iter() {
		let prefix = u64::from_be_bytes(key[0..8].try_into().unwrap());
		let chunk = prefix >> (64 - *bits as u32);
		let partial = (prefix << *bits as u32) >> address_bits;
		let mut found: Vec<Addr> = Vec::new();
		for (c, _slot, raw) in entries.iter() {
			if *c == chunk && (raw >> address_bits) == partial {
				let a = raw & ((1u64 << address_bits) - 1);
				found.push((a & 0xff, a >> 8));
			}
		}
		chunk_of.insert(*id, chunk);
		let s = match found.len() {
			0 => "-".to_string(),
			1 => format!("{}:{}", found[0].0, found[0].1),
			_ => format!("dup{:?}", found),
		};
		addrs.insert(*id, if found.len() == 1 { Some(found[0]) } else { None });
		out.push((format!("c05s addr {}", id), s));
	}
	// self-check of the key construction: model chunk = id / 100
	for (a, _) in cx.keys.iter() {
		for (b, _) in cx.keys.iter() {
			assert_eq!(a / 100 == b / 100, chunk_of[a] == chunk_of[b], "key construction: chunks");
		}
	}
	if level != Level::View {
		for tier in cx.tiers.iter() {
			let table = dump.tables.iter().find(|t| t.tier as u64 == *tier);
			let (filled, head, slots) = match table {
				None => (1u64, 0u64, Vec::new()),
				Some(t) => {
					let mut slots = vec!["-".to_string(); (t.filled.max(1) - 1) as usize];
					for (index, kind, _next, tail) in t.slots.iter() {
						let s = if *kind == 0 || tail.iter().all(|b| *b == 0) {
							"-".to_string()
						} else {
							match cx.keys.iter().find(|(_, k)| k[6..32] == tail[..]) {
								Some((id, _)) => id.to_string(),
								None => "?".to_string(),
							}
						};
						slots[(*index - 1) as usize] = s;
					}
					(t.filled.max(1), t.last_removed, slots)
				},
			};
			if level == Level::Full {
				out.push((format!("c05s files {}", tier), format!("filled={} head={} slots=[{}]", filled, head, slots.join(" "))));
			} else {
				out.push((format!("c05s filesmid {} {}", tier, slots.join(" ")).trim_end().to_string(), "ok".to_string()));
			}
		}
	}
	addrs
}

#[derive(Default)]
struct Shared {
	lines: Vec<(String, String)>,
	/// address maps seen at `after_end_record` (one per published record of the call)
	published: Vec<BTreeMap<u64, Option<Addr>>>,
	proc_stage: u8,
	in_record: bool,
	/// `end_read` of the last enacted record has happened (or is about to, when the call returns): the
	/// `endRead` line is still to be emitted
	pending_end: bool,
	actions_done: u64,
	records_done: u64,
	mid_points: u64,
	half_points: u64,
	between_publish_and_clean: u64,
	before_end_read_points: u64,
	max_actions: u64,
}

fn full_free_list(db: &Db, cx: &Ctx, t: &mut Trace) {
	let dump = match db.verif_dump(0, true) {
		Ok(d) => d,
		Err(e) => {
			t.op(&format!("c05s freelist {}", cx.tiers[0]), &format!("err:{}", err_kind(&e)));
			return
		},
	};
	for tier in cx.tiers.iter() {
		let fl = dump.tables.iter().find(|x| x.tier as u64 == *tier).map(|x| x.free_list.clone()).unwrap_or_default();
		t.op(&format!("c05s freelist {}", tier), &format!("[{}]", fl.iter().map(|x| x.to_string()).collect::<Vec<_>>().join(" ")));
	}
}

fn case(seed: u64, thorough: bool, root: &Path, t: &mut Trace, ctr: &mut Counters, prop: &str) -> bool {
	let mut rng = Rng::new(seed);
	let steps = if thorough { rng.range(60, 120) } else { rng.range(25, 50) };
	t.begin_case(&format!("seed={} c05s steps={}", seed, steps));
	let dir = fresh_dir(root, &format!("c05s-{}", seed));
	let sizes = parity_db::verif::entry_sizes();
	let tier_of = |len: usize| sizes.iter().position(|s| *s as usize >= len + 28).expect("tier") as u64;
	let cx = Arc::new(Ctx {
		keys: [0u64, 1, 2, 3, 100, 101].iter().map(|id| (*id, key_bytes(*id))).collect(),
		tiers: [tier_of(LENS[0]), tier_of(LENS[1])],
	});
	assert!(cx.tiers[0] != cx.tiers[1]);
	let db = Arc::new(Db::open_or_create(&options(&dir)).expect("create"));
	let shared = Arc::new(Mutex::new(Shared::default()));
	{
		let db = Arc::downgrade(&db);
		let cx = cx.clone();
		let shared = shared.clone();
		parity_db::verif::set_yield_hook(Some(Arc::new(move |name: &'static str| {
			let db = match db.upgrade() {
				Some(db) => db,
				None => return,
			};
			// `Db::get` has a yield point of its own: the observations below re-enter this callback
			let mut guard = match shared.try_lock() {
				Ok(g) => g,
				Err(_) => return,
			};
			let sh = &mut *guard;
			match name {
				"process_commits.before_end_record" => {
					sh.lines.push(("c05s pop".into(), "ok".into()));
					observe(&db, &cx, Level::View, &mut sh.lines);
					sh.proc_stage = 1;
				},
				"process_commits.after_end_record" => {
					sh.lines.push(("c05s publish".into(), "ok".into()));
					let a = observe(&db, &cx, Level::Full, &mut sh.lines);
					sh.published.push(a);
					sh.proc_stage = 2;
					sh.between_publish_and_clean += 1;
				},
				"enact_logs.before_action" => {
					if !sh.in_record {
						if sh.pending_end {
							sh.pending_end = false;
							sh.lines.push(("c05s endRead".into(), "ok".into()));
							observe(&db, &cx, Level::Full, &mut sh.lines);
						}
						sh.in_record = true;
						sh.actions_done = 0;
					} else {
						sh.actions_done += 1;
						sh.lines.push(("c05s ew".into(), "ok".into()));
						observe(&db, &cx, Level::Mid, &mut sh.lines);
						sh.mid_points += 1;
					}
				},
				"enact_logs.before_end_read" => {
					// (without hook-c05s.diff there is no `before_action` point: the previous record of this
					// call has been ended meanwhile, and the table writes of this one are done: no
					// observation between the two lines)
					if sh.pending_end {
						sh.pending_end = false;
						sh.lines.push(("c05s endRead".into(), "ok".into()));
					}
					// observation points with 1 .. total-1 of the record's table writes done
					sh.half_points += sh.actions_done.saturating_sub(1);
					sh.max_actions = sh.max_actions.max(sh.actions_done);
					sh.lines.push(("c05s ewAll".into(), "ok".into()));
					observe(&db, &cx, Level::Full, &mut sh.lines);
					sh.in_record = false;
					sh.pending_end = true;
					sh.records_done += 1;
					sh.before_end_read_points += 1;
				},
				_ => {},
			}
		})));
	}
	t.op("c05s init 1", "ok");
	// oracle state: last accepted value of every key
	let mut cur: BTreeMap<u64, Option<(usize, u64)>> = cx.keys.iter().map(|(id, _)| (*id, None)).collect();
	let mut version = 0u64;
	let mut ok = true;
	let mut queued = 0u64;
	// physical statistics
	let mut last_addrs: BTreeMap<u64, Option<Addr>> = cx.keys.iter().map(|(id, _)| (*id, None)).collect();
	let mut owner_history: HashMap<Addr, Vec<u64>> = HashMap::new();
	let mut freed_by_record: HashMap<Addr, u64> = HashMap::new();
	let mut published_records = 0u64;
	let mut ended_records = 0u64;

	// a stepping call that fails: reported as a violation, routed to the background-error slot as the
	// worker threads do (so that the handle can be dropped), the case ends
	let mut dead = false;
	macro_rules! step_call {
		($e:expr, $name:expr) => {{
			if let Err(e) = $e {
				t.comment(&format!("c05s: {} failed: {:?}", $name, e));
				t.oracle_fail(prop, &format!("c05s: {} returned an error: {:?}", $name, e));
				ctr.inc(&format!("step_errors.{}", err_kind(&e)));
				db.verif_store_err(Err(e));
				ok = false;
				dead = true;
			}
		}};
	}
	macro_rules! drain_lines {
		() => {{
			let lines: Vec<(String, String)> = std::mem::take(&mut shared.lock().unwrap().lines);
			for (op, obs) in lines.iter() {
				t.op(op, obs);
				if let Some(rest) = op.strip_prefix("c05s get ") {
					ctr.inc("reads");
					let id: u64 = rest.parse().unwrap();
					let want = match cur[&id] {
						None => "none".to_string(),
						Some((sel, v)) => format!("some {}", cx.token(sel, v)),
					};
					if *obs != want {
						t.oracle_fail(prop, &format!("c05s: get {} answered {} but the last accepted commit left {}", id, obs, want));
						ok = false;
					}
				}
			}
		}};
	}
	macro_rules! observe_main {
		() => {{
			let mut lines = Vec::new();
			let a = observe(&db, &cx, Level::Full, &mut lines);
			shared.lock().unwrap().lines.extend(lines);
			drain_lines!();
			a
		}};
	}
	macro_rules! account_publish {
		($addrs:expr) => {{
			published_records += 1;
			let addrs: &BTreeMap<u64, Option<Addr>> = $addrs;
			let mut chunk_changed: BTreeMap<u64, bool> = BTreeMap::new();
			for (id, a) in addrs.iter() {
				let before = last_addrs[id];
				if before == *a {
					continue
				}
				chunk_changed.insert(id / 100, true);
				if let Some(b) = before {
					freed_by_record.insert(b, published_records);
					ctr.inc("phys.slot_freed");
				}
				if let Some(n) = a {
					let hist = owner_history.entry(*n).or_default();
					if !hist.is_empty() {
						ctr.inc("phys.slot_reuse");
						if hist.iter().any(|o| o != id) {
							ctr.inc("phys.slot_reuse_other_key");
							if freed_by_record.get(n).map_or(false, |r| *r > ended_records) {
								// the record that freed the slot has not been enacted yet
								ctr.inc("phys.slot_reuse_other_key_freeing_record_not_enacted");
							}
						}
					}
					hist.push(*id);
					ctr.inc("phys.slot_allocated");
				}
			}
			for (c, _) in chunk_changed.iter() {
				ctr.inc("phys.chunk_rewrites");
				let others = addrs.iter().filter(|(id, a)| *id / 100 == *c && a.is_some() && last_addrs[*id] == **a).count();
				if others > 0 {
					ctr.inc("phys.chunk_rewrites_with_other_live_entries");
				}
			}
			last_addrs = addrs.clone();
		}};
	}
	macro_rules! do_process {
		() => {{
			shared.lock().unwrap().proc_stage = 0;
			shared.lock().unwrap().published.clear();
			step_call!(db.process_commits(), "process_commits");
			let stage = shared.lock().unwrap().proc_stage;
			if stage == 2 {
				shared.lock().unwrap().lines.push(("c05s cleanOverlay".into(), "ok".into()));
				queued -= 1;
				ctr.inc("steps.process");
				let pubs: Vec<_> = std::mem::take(&mut shared.lock().unwrap().published);
				for a in pubs.iter() {
					account_publish!(a);
				}
			} else {
				ctr.inc("steps.process_idle");
			}
			if !dead {
				observe_main!();
			} else {
				drain_lines!();
			}
		}};
	}
	macro_rules! do_enact {
		() => {{
			{
				let mut sh = shared.lock().unwrap();
				sh.records_done = 0;
				sh.in_record = false;
				sh.pending_end = false;
			}
			step_call!(db.enact_logs(), "enact_logs");
			let done = shared.lock().unwrap().records_done;
			if done > 0 {
				let mut sh = shared.lock().unwrap();
				if sh.pending_end {
					sh.pending_end = false;
					sh.lines.push(("c05s endRead".into(), "ok".into()));
				}
				drop(sh);
				ended_records += done;
				ctr.add("steps.enact.records", done);
			} else {
				ctr.inc("steps.enact_idle");
			}
			if !dead {
				observe_main!();
				step_call!(db.clean_logs(), "clean_logs");
			}
		}};
	}

	for _ in 0..steps {
		if !ok {
			break
		}
		match rng.below(100) {
			0..=39 => {
				// a transaction of 1..3 operations
				let mut tx: Vec<(u8, Vec<u8>, Option<Vec<u8>>)> = Vec::new();
				let mut line = String::from("c05s commit");
				let nops = 1 + rng.below(3) as usize;
				let mut touched: Vec<u64> = Vec::new();
				let mut next = cur.clone();
				let shape = rng.below(10);
				for j in 0..nops {
					// shape 0..3: remove a present key, then insert an absent one with the same length
					// (slot reuse); otherwise random writes
					let present: Vec<u64> = next.iter().filter(|(id, v)| v.is_some() && !touched.contains(id)).map(|(id, _)| *id).collect();
					let absent: Vec<u64> = next.iter().filter(|(id, v)| v.is_none() && !touched.contains(id)).map(|(id, _)| *id).collect();
					let (id, val): (u64, Option<usize>) = if shape < 4 && j == 0 && !present.is_empty() {
						(*rng.pick(&present), None)
					} else if shape < 4 && j == 1 && !absent.is_empty() {
						let removed = touched[0];
						(*rng.pick(&absent), Some(cur[&removed].map_or(0, |x| x.0)))
					} else {
						let free: Vec<u64> = next.keys().filter(|id| !touched.contains(id)).copied().collect();
						if free.is_empty() {
							break
						}
						let id = *rng.pick(&free);
						match rng.below(10) {
							0..=1 => (id, None),
							2..=4 => (id, Some(next[&id].map_or(rng.below(2) as usize, |x| x.0))), // same length: in place
							5..=6 => (id, Some(next[&id].map_or(rng.below(2) as usize, |x| 1 - x.0))), // other length: the value moves
							_ => (id, Some(rng.below(2) as usize)),
						}
					};
					touched.push(id);
					let key = cx.keys.iter().find(|(i, _)| *i == id).unwrap().1;
					match val {
						None => {
							line.push_str(&format!(" del:{}", id));
							tx.push((0, key.to_vec(), None));
							ctr.inc(if next[&id].is_some() { "ops.remove_present" } else { "ops.remove_absent" });
							next.insert(id, None);
						},
						Some(sel) => {
							version += 1;
							line.push_str(&format!(" set:{}:{}", id, cx.token(sel, version)));
							tx.push((0, key.to_vec(), Some(enc(id, sel, version))));
							ctr.inc(match next[&id] {
								None => "ops.insert",
								Some((s, _)) if s == sel => "ops.overwrite_same_tier",
								Some(_) => "ops.overwrite_other_tier",
							});
							next.insert(id, Some((sel, version)));
						},
					}
				}
				let r = db.commit(tx);
				t.op(&line, &match &r { Ok(()) => "ok".to_string(), Err(e) => format!("err:{}", err_kind(e)) });
				r.unwrap();
				cur = next;
				queued += 1;
				ctr.inc("steps.commit");
				observe_main!();
			},
			40..=64 => do_process!(),
			65..=74 => {
				step_call!(db.flush_logs(), "flush_logs");
				if !dead {
					t.op("c05s flush", "ok");
					ctr.inc("steps.flush");
					observe_main!();
				}
			},
			75..=94 => do_enact!(),
			_ => {
				step_call!(db.clean_logs(), "clean_logs");
				ctr.inc("steps.clean");
			},
		}
	}
	// drain
	let mut guard = 0;
	while ok && guard < 64 {
		guard += 1;
		if queued > 0 {
			do_process!();
		}
		step_call!(db.flush_logs(), "flush_logs");
		if dead {
			break
		}
		t.op("c05s flush", "ok");
		observe_main!();
		do_enact!();
		if queued == 0 && published_records == ended_records {
			break
		}
	}
	if !ok && !dead {
		// no observations any more: just let everything reach the tables so that the handle can be dropped
		parity_db::verif::set_yield_hook(None);
		for _ in 0..(queued + 8) {
			let _ = db.process_commits();
			let _ = db.flush_logs();
			let _ = db.enact_logs();
			let _ = db.clean_logs();
		}
	}
	if ok {
		t.op("c05s drained", &format!("ok hist={}", ctr.0.get("steps.commit").copied().unwrap_or(0) - CASE_BASE.with(|b| b.get())));
		full_free_list(&db, &cx, t);
	}
	CASE_BASE.with(|b| b.set(ctr.0.get("steps.commit").copied().unwrap_or(0)));
	parity_db::verif::set_yield_hook(None);
	{
		let sh = shared.lock().unwrap();
		ctr.add("points.between_publish_and_clean_overlay", sh.between_publish_and_clean);
		ctr.add("points.inside_enact_record", sh.mid_points);
		ctr.add("points.inside_half_enacted_record", sh.half_points);
		ctr.add("points.before_end_read", sh.before_end_read_points);
		let k = format!("record.max_table_writes.{}", sh.max_actions.min(9));
		ctr.inc(&k);
	}
	let db = Arc::try_unwrap(db).ok().expect("no other owner of the Db");
	drop(db);
	// reopen: the files alone give every value
	if ok {
		let db = Db::open(&options(&dir)).expect("reopen");
		for (id, key) in cx.keys.iter() {
			let got = cx.obs_get(*id, &db.get(0, key));
			let want = match cur[id] {
				None => "none".to_string(),
				Some((sel, v)) => format!("some {}", cx.token(sel, v)),
			};
			if got != want {
				t.oracle_fail(prop, &format!("c05s: after reopen get {} answered {} expected {}", id, got, want));
				ok = false;
			}
		}
		drop(db);
	}
	let _ = std::fs::remove_dir_all(&dir);
	ctr.inc("cases.c05s");
	t.end_case(true);
	t.flush();
	ok
}

thread_local! {
	/// `steps.commit` at the start of the current case (the counter runs over all cases)
	static CASE_BASE: std::cell::Cell<u64> = std::cell::Cell::new(0);
}

pub fn run(seeds: &[u64], thorough: bool, root: &Path, t: &mut Trace, ctr: &mut Counters, prop: &str) -> u64 {
	let mut fails = 0;
	CASE_BASE.with(|b| b.set(0));
	for s in seeds.iter().copied() {
		let ok = case(s, thorough, root, t, ctr, prop);
		ctr.inc("cases");
		if !ok {
			fails += 1;
			t.comment(&format!("FAILED-CASE seed={}", s));
		}
	}
	fails
}
