/-
REFINEMENT R5  "ref-counted and preimage hash columns at the physical level" (DESIGN 13.0)

  Spec / P1   Pdb.spec with `Kind.plain / preimage / rc`, `applyCell` (counter saturating at
      ^       `LOCKED`)                                          (Pdb/Model/Pipeline.lean)
      |  R5   `rGet` = value through the index pages and the byte-level value table, TOGETHER
      |       WITH the counter stored in the head slot (`ValueTable::query`)
  physical    `PCol` driven by `rRun` (Pdb/Model/RefineRc.lean): `HashColumn::write_plan` with
              `write_inc_ref` / `write_dec_ref` (`ValueTable.changeRef` on the slot bytes, the
              counter behind the size field resp. behind the `next` link of a multipart head),
              `Skipped` on a preimage column, `write_plan_new` into tables with / without counter

WHAT IS PROVED (all full strength, no `_partial`)
  R5_rc_refines       for every kind k ∈ {plain, preimage, rc} and EVERY history of Set /
                      Dereference / Reference operations on keys of `U` (in any order: Set of a
                      present key with another value, Dereference / Reference of absent keys,
                      Dereference below zero, ...) interleaved with reindex batches, enacted
                      drops, reopens and relaunches: `rGet` (value AND stored counter) of the state
                      reached from the empty column equals `Pdb.spec (fun _ => k) txs key`.
                      Hypotheses: exactly R3's (A-compress, A-tail `PUniv`, the two C09 fixes,
                      16 ≤ bits ≤ 49, keys in `U`, physical limits `RAllBounded`, the run returns
                      `.ok`).  NO hypothesis on the order or the arguments of the operations.
                      The last two are hypotheses on the model's own TRAJECTORY, see below.
  R5_from_state       the same from any reachable state (history, then one more stretch of
                      actions): the reads move by `Pdb.applyOps`; with `planRec_apply` this is R4
                      (`R5_record_refines`) for all three kinds.
  R5_simulation       (kinds preimage, rc) the run is, step by step, a run of the index model of
                      C09 whose values code P1 cells; every reachable physical state represents
                      a state satisfying `IdxInv`, C09's `SlotInv` and `Abs`, and every stored
                      counter is at most `LOCKED_REF`.
  R5_saturates        `change_ref` on a stored counter: +1 saturates at `LOCKED_REF`, -1 leaves a
                      locked counter alone and never reports it for removal (the byte-level
                      counterpart of `C07_saturates`).

WHAT IS ASSUMED, AND WHAT IS NOT DERIVED (read this before citing R5)
  INPUT hypotheses (on the universe, the configuration and the action list):
    hA      A-compress: `decomp (cmp v) = some v`.
    hU      `PUniv U` = A-tail at the byte level: distinct keys of `U` differ in the 26-byte tail
            that is stored with the value (and tails are < 2^208).  NEEDED: value slots store
            only the tail and `search_index` accepts a candidate by comparing it, so for two keys
            with the same tail an index entry of the first whose slot was freed and reused
            resolves to the value of the second: finding F29 (`C09_full_statement_false_twin`,
            Pdb/Props/C09F24.lean, reproduced on the crate; reach of the assumption: header of
            Pdb/Props/C09.lean).
    hex, hgrow   `cfg.exact = true`, `cfg.growOnMove = true`: the physical column runs the index code
            WITH the two C09 fixes (fix-c09-sse2-partial-key.diff, fix-c09-move-into-full-page.diff).
            NEEDED: the code as it is (`⟨false, false, false⟩`) panics in `plan_insert_chunk` on a stale
            candidate of another partial key (F-C09-1, `C09_full_statement_false_sse2`) and loses
            the index entry of a value moved into a full page (F-C09-2,
            `C09_full_statement_false_move`, `C09_lookup_latest_full_false`, Pdb/Props/C09.lean);
            R5 says nothing about the unfixed code.
    hbits, hkeys, hops   16 ≤ b0 ≤ 49, the keys of the actions lie in `U`, `txs` is a grouping of the
            operations of `acts` into transactions.
  TRAJECTORY hypotheses (on the run of the physical model itself; NOT derived from the input):
    hrun    `rRun kind cmp thr (rInit kind cfg b0) acts = .ok p'`: the physical run does not fail
            (no `diverge` of the insert loop, no value-table error).
    hb      `RAllBounded ..`: every state the physical run goes through has at most 49 index bits
            and at most 2^56 slots per value table.
  For the INDEX-LAYER model (`Index.runA`) both are derived from a condition on the action list
  alone: `Index.InputOK` / `Index.C09_run_total` (Pdb/Props/C09Total.lean).  That theorem is NOT
  lifted to the physical column `PCol`: no theorem here concludes `rRun .. = .ok p'` or
  `RAllBounded ..` from input hypotheses (the simulation `rsim_run`, Pdb/Proofs/RefineRc3.lean, goes
  from a successful physical run to the index model, not back).  They cannot hold for every input:
  more than 64 index entries of one class of key prefixes make the index grow past 49 bits
  (finding F28, `C09_no_total_65`, Pdb/Props/C09F24.lean; the physical column runs the same index
  code).  For concrete histories they are established by evaluation (`rRunChecked_sound`): the
  non-vacuity examples 1, 2 and 4 below.

How it is proved: `ValueTable.changeRef` rewrites exactly the four counter bytes of the head slot
(`bumped_spec`, Pdb/Proofs/RefineRc1.lean), so C06's `SlotInv` and R2's `RepL` are preserved with
the same abstract store; R3's forward simulation is redone for tables with the counter field, the
values of the index model coding (value, count) (`SimR`, Pdb/Proofs/RefineRc2.lean); a counter
update is `setVal` on a live slot of the index model (`good_setVal`), insertion / removal are
C09's `write` (Pdb/Proofs/RefineRc3.lean).  The plain kind is R3 itself (`rget_run_plain`).

RUST vs P1: no deviation found.  Every branch of `write_existing_value_plan` / `write_plan` agrees
with `applyCell` (see the table in Pdb/Model/RefineRc.lean); in particular on a ref-counted column
`Set` of a present key increments whatever the new value is and keeps the OLD value, on a preimage
column it is `Skipped`, `Dereference` / `Reference` of an absent key are `Skipped`, a locked
counter is never decremented and its entry never removed.  (`Reference` on a column without
counters is refused by `commit` as a whole, `opValid`; the physical `Skipped` branch is modelled
all the same.)
-/
import Pdb.Proofs.RefineRc3
import Pdb.Props.Refine

namespace Pdb
open Pdb.Gen Pdb.Refine Pdb.RefineRc

/-- R5.  A hash column of kind `kind` whose index is the page model and whose value tables are
byte-level `VT`s (with the counter field iff the column is ref-counted) returns, after every
history from the empty column, the value AND the reference count `Pdb.spec` says.  Left-hand
side: physical models only (`rRun`, `rGet`); right-hand side: `Pdb.spec`.

TRAJECTORY hypotheses: `hrun` (the physical run returns `.ok`) and `hb : RAllBounded` (every state
of that run within 49 index bits / 2^56 slots) are about the model's OWN run; they are not derived
from the input (`Index.C09_run_total` derives their index-layer counterparts for `Index.runA` only,
not for the physical column; with more than 64 index entries of one class they fail, finding F28).
INPUT hypotheses that are NEEDED: `hU : PUniv U` (A-tail: distinct keys of `U` differ in their stored
26-byte tails; without it finding F29, `C09_full_statement_false_twin`) and `hex`, `hgrow` (the two C09
fixes fix-c09-sse2-partial-key / fix-c09-move-into-full-page; without them F-C09-1 writer panic,
`C09_full_statement_false_sse2`, and F-C09-2 lost key, `C09_full_statement_false_move`). -/
theorem R5_rc_refines (kind : Kind) (cmp : ValueTable.Bytes → ValueTable.Bytes)
    (decomp : ValueTable.Bytes → Option ValueTable.Bytes) (thr : Nat) (U : Index.Key → Prop)
    (cfg : Index.Cfg) (b0 : Nat) (acts : List RAction) (p' : PCol)
    (txs : List (List (Op Index.Key ValueTable.Bytes))) (k : Index.Key)
    (hA : ∀ v, decomp (cmp v) = some v)                                   -- A-compress
    (hU : PUniv U)                                                         -- A-tail, byte level
    (hex : cfg.exact = true) (hgrow : cfg.growOnMove = true) (hbits : 16 ≤ b0 ∧ b0 ≤ 49)  -- C09
    (hkeys : ∀ a ∈ acts, RActKeys U a)
    (hb : RAllBounded kind cmp thr (rInit kind cfg b0) acts)              -- physical limits
    (hrun : rRun kind cmp thr (rInit kind cfg b0) acts = .ok p')
    (hops : acts.flatMap RAction.ops = txs.flatten) (hk : U k) :
    rGet decomp p' k = spec (fun _ => kind) txs k := by
  unfold spec
  rw [← hops]
  by_cases hkind : kind = .plain
  · subst hkind
    exact rget_run_plain decomp hA hU cfg b0 hex hgrow hbits acts p' hkeys hb hrun k hk
  · exact rget_run decomp hA hkind hU cfg b0 hex hgrow hbits acts p' hkeys hb hrun k hk

/-- R5 from any reachable state: after the history `hist`, one more stretch of actions moves the
physical reads (value and counter) by P1's `applyOps` of its operations.

TRAJECTORY hypotheses: `hrun1`, `hrun2` (both stretches of the physical run return `.ok`) and
`hb : RAllBounded` over `hist ++ more` are about the model's own run, not derived from the input
(see `R5_rc_refines`; `Index.C09_run_total` covers the index-layer model only).  NEEDED input
hypotheses: A-tail `hU : PUniv U` (else F29) and the two C09 fixes `hex`, `hgrow` (else F-C09-1 /
F-C09-2). -/
theorem R5_from_state (kind : Kind) (cmp : ValueTable.Bytes → ValueTable.Bytes)
    (decomp : ValueTable.Bytes → Option ValueTable.Bytes) (thr : Nat) (U : Index.Key → Prop)
    (cfg : Index.Cfg) (b0 : Nat) (hist more : List RAction) (p p' : PCol) (k : Index.Key)
    (hA : ∀ v, decomp (cmp v) = some v) (hU : PUniv U)
    (hex : cfg.exact = true) (hgrow : cfg.growOnMove = true) (hbits : 16 ≤ b0 ∧ b0 ≤ 49)
    (hkeys : ∀ a ∈ hist ++ more, RActKeys U a)
    (hb : RAllBounded kind cmp thr (rInit kind cfg b0) (hist ++ more))
    (hrun1 : rRun kind cmp thr (rInit kind cfg b0) hist = .ok p)
    (hrun2 : rRun kind cmp thr p more = .ok p') (hk : U k) :
    rGet decomp p' k = applyOps (fun _ => kind) (rGet decomp p) (more.flatMap RAction.ops) k :=
  rget_from kind decomp hA hU cfg b0 hex hgrow hbits hist more p p' hkeys hb hrun1 hrun2 k hk

/-- R4 for every kind: planning and enacting the physical writes of one more transaction gives a
state whose reads are `applyRec` of P1's logical record `planRec` of the transaction, applied to
the reads before.  So P1's record-level theorems (C01, C02, C07) speak about physical states of
ref-counted and preimage columns at record boundaries.

TRAJECTORY hypotheses: `hrun1`, `hrun2`, `hb : RAllBounded` (the physical run of the history and of
the transaction succeeds within the physical limits) are about the model's own run, not derived
from the input (see `R5_rc_refines`).  NEEDED input hypotheses: A-tail `hU : PUniv U` (else F29) and
the two C09 fixes `hex`, `hgrow` (else F-C09-1 / F-C09-2). -/
theorem R5_record_refines (kind : Kind) (cmp : ValueTable.Bytes → ValueTable.Bytes)
    (decomp : ValueTable.Bytes → Option ValueTable.Bytes) (thr : Nat) (U : Index.Key → Prop)
    (cfg : Index.Cfg) (b0 : Nat) (hist txActs : List RAction) (p p' : PCol) (k : Index.Key)
    (hA : ∀ v, decomp (cmp v) = some v) (hU : PUniv U)
    (hex : cfg.exact = true) (hgrow : cfg.growOnMove = true) (hbits : 16 ≤ b0 ∧ b0 ≤ 49)
    (hkeys : ∀ a ∈ hist ++ txActs, RActKeys U a)
    (hb : RAllBounded kind cmp thr (rInit kind cfg b0) (hist ++ txActs))
    (hrun1 : rRun kind cmp thr (rInit kind cfg b0) hist = .ok p)
    (hrun2 : rRun kind cmp thr p txActs = .ok p') (hk : U k) :
    rGet decomp p' k =
      applyRec (rGet decomp p)
        (planRec (fun _ => kind) (rGet decomp p) (txActs.flatMap RAction.ops)) k := by
  rw [planRec_apply]
  exact R5_from_state kind cmp decomp thr U cfg b0 hist txActs p p' k hA hU hex hgrow hbits hkeys hb
    hrun1 hrun2 hk

/-- the physical run of R5 on a column with `preimage` (with or without counters) never leaves
the states that represent a good state of the index model of C09 (values = codes of P1 cells):
C09's / C14's invariants hold of what the bytes represent, the coded table is `Pdb.spec`, and the
stored counter of every live value is the coded count, at most `LOCKED_REF`.

This is a FORWARD simulation: GIVEN that the physical run succeeds within the limits (`hrun`,
`hb : RAllBounded`: TRAJECTORY hypotheses about the model's own run, not derived from the input;
`Index.C09_run_total` provides them for the index-layer model only) the represented index-model
state exists.  It does not show that the physical run succeeds.  NEEDED input hypotheses: A-tail
`hU : PUniv U` (else F29, `C09_full_statement_false_twin`) and the two C09 fixes `hex`, `hgrow`
(else F-C09-1 / F-C09-2, Pdb/Props/C09.lean). -/
theorem R5_simulation (kind : Kind) (hkind : kind ≠ .plain)
    (cmp : ValueTable.Bytes → ValueTable.Bytes) (thr : Nat) (U : Index.Key → Prop)
    (cfg : Index.Cfg) (b0 : Nat) (acts : List RAction) (p' : PCol)
    (hU : PUniv U) (hex : cfg.exact = true) (hgrow : cfg.growOnMove = true)
    (hbits : 16 ≤ b0 ∧ b0 ≤ 49) (hkeys : ∀ a ∈ acts, RActKeys U a)
    (hb : RAllBounded kind cmp thr (rInit kind cfg b0) acts)
    (hrun : rRun kind cmp thr (rInit kind cfg b0) acts = .ok p') :
    ∃ s' m', SimR (refCounted kind) cmp thr p' s' ∧ Index.IdxInv U s' ∧ Index.SlotInv s' ∧
      Index.Abs U s' m' ∧
      liftC m' = applyOps (fun _ => kind) (fun _ => none) (acts.flatMap RAction.ops) := by
  obtain ⟨s', m', h1, h2, h3⟩ := rsim_run hkind hU acts _ _ p' _ (rInit_sim kind cmp thr cfg b0)
    (Index.init_good U cfg b0 hbits.1 hbits.2) hex hgrow hkeys (rInit_pbounded kind cfg b0 hbits.2)
    hb hrun
  exact ⟨s', m', h1, h2.idx, h2.slots, h2.abs, h3⟩

/-- `change_ref` on a stored counter (the arithmetic `ValueTable.changeRef` performs on the four
counter bytes): +1 saturates at `LOCKED_REF`; -1 leaves a locked counter alone and does not
report it for removal; below the lock it reports removal exactly when the counter is 1. -/
theorem R5_saturates :
    newCount true (LOCKED_REF - 1) = LOCKED_REF ∧ newCount true LOCKED_REF = LOCKED_REF ∧
    newCount false LOCKED_REF = LOCKED_REF ∧ ¬ goes false LOCKED_REF ∧ ¬ goes true LOCKED_REF ∧
    (∀ n, n < LOCKED_REF - 1 → newCount true n = n + 1) ∧
    (∀ n, 0 < n → n < LOCKED_REF → (goes false n ↔ n = 1) ∧ newCount false n = n - 1) := by
  refine ⟨by decide, by decide, by decide, by decide, by decide, fun n hn => ?_, fun n h0 hn => ?_⟩
  · unfold newCount
    simp only [if_true]
    rw [if_neg (by omega)]
  · have hne : n ≠ LOCKED_REF := by omega
    have hnc : newCount false n = n - 1 := by
      unfold newCount
      simp only [Bool.false_eq_true, if_false, ne_eq, hne, not_false_eq_true, if_true]
    refine ⟨⟨fun hg => ?_, fun e => ⟨by simp, hne, by rw [hnc, e]⟩⟩, hnc⟩
    have := hg.2.2
    rw [hnc] at this
    omega

/-! ### non-vacuity 1: a ref-counted column, count 1 → 3 → 0, slot freed and reused

Keys: C09's (`exK1`, `exK2` collide on all 50 index-visible bits).  Compressor of R3's example.
History: Set (count 1), Set of the SAME key with ANOTHER value (count 2, the old value stays),
Reference (3), three Dereferences (2, 1, removed: the slot goes on the free list), Dereference
and Reference of the now absent key (ignored), Set of another key with a value of the same size
tier (reuses the freed slot), enact, reopen. -/

def exRcHist : List RAction :=
  [.set Index.exK1 [1, 2, 3], .set Index.exK1 [4, 4], .ref Index.exK1]
def exRcMore : List RAction :=
  [.deref Index.exK1, .deref Index.exK1, .deref Index.exK1, .deref Index.exK1, .ref Index.exK1,
   .set Index.exK2 [7, 7, 7], .enact, .reopen]

def exRcMid : PCol :=
  (rRunChecked .rc exCmpR 0 (rInit .rc ⟨true, true, false⟩ 16) exRcHist).getD (rInit .rc ⟨true, true, false⟩ 16)
def exRcFinal : PCol :=
  (rRunChecked .rc exCmpR 0 (rInit .rc ⟨true, true, false⟩ 16) (exRcHist ++ exRcMore)).getD
    (rInit .rc ⟨true, true, false⟩ 16)

theorem exRcRun1 : rRunChecked .rc exCmpR 0 (rInit .rc ⟨true, true, false⟩ 16) exRcHist = some exRcMid := by
  have : (rRunChecked .rc exCmpR 0 (rInit .rc ⟨true, true, false⟩ 16) exRcHist).isSome = true := by
    decide +kernel
  unfold exRcMid
  cases h : rRunChecked .rc exCmpR 0 (rInit .rc ⟨true, true, false⟩ 16) exRcHist with
  | none => rw [h] at this; cases this
  | some s => rfl

theorem exRcRun : rRunChecked .rc exCmpR 0 (rInit .rc ⟨true, true, false⟩ 16) (exRcHist ++ exRcMore) =
    some exRcFinal := by
  have : (rRunChecked .rc exCmpR 0 (rInit .rc ⟨true, true, false⟩ 16) (exRcHist ++ exRcMore)).isSome = true := by
    decide +kernel
  unfold exRcFinal
  cases h : rRunChecked .rc exCmpR 0 (rInit .rc ⟨true, true, false⟩ 16) (exRcHist ++ exRcMore) with
  | none => rw [h] at this; cases this
  | some s => rfl

theorem exRcKeys : ∀ a ∈ exRcHist ++ exRcMore, RActKeys Index.exU a := by
  intro a ha
  simp only [exRcHist, exRcMore, List.cons_append, List.nil_append, List.mem_cons,
    List.mem_nil_iff, or_false] at ha
  rcases ha with h | h | h | h | h | h | h | h | h | h | h <;> subst h <;>
    first
    | trivial
    | exact Or.inl rfl
    | exact Or.inr (Or.inl rfl)

def exRcTxs : List (List (Op Index.Key ValueTable.Bytes)) :=
  [[.set Index.exK1 [1, 2, 3], .set Index.exK1 [4, 4], .ref Index.exK1],
   [.deref Index.exK1, .deref Index.exK1, .deref Index.exK1],
   [.deref Index.exK1, .ref Index.exK1, .set Index.exK2 [7, 7, 7]]]

/- every hypothesis of R5 holds of this history -/
example := R5_rc_refines .rc exCmpR exDecompR 0 Index.exU ⟨true, true, false⟩ 16 (exRcHist ++ exRcMore)
  exRcFinal exRcTxs Index.exK1 exCmpR_ok exPUniv rfl rfl ⟨by decide, by decide⟩ exRcKeys
  (rRunChecked_sound _ _ _ _ _ _ exRcRun).2 (rRunChecked_sound _ _ _ _ _ _ exRcRun).1 rfl (Or.inl rfl)
example := R5_simulation .rc (by decide) exCmpR 0 Index.exU ⟨true, true, false⟩ 16 (exRcHist ++ exRcMore)
  exRcFinal exPUniv rfl rfl ⟨by decide, by decide⟩ exRcKeys
  (rRunChecked_sound _ _ _ _ _ _ exRcRun).2 (rRunChecked_sound _ _ _ _ _ _ exRcRun).1
/- what the bytes return (evaluated on the physical model): after the first three operations the
first value with count 3; at the end the key is gone and the other key sits, with count 1, in the
slot the removal freed: one slot ever used in its table, free list empty again -/
example : rGet exDecompR exRcMid Index.exK1 = some ([1, 2, 3], 3) ∧
    rGet exDecompR exRcFinal Index.exK1 = none ∧
    rGet exDecompR exRcFinal Index.exK2 = some ([7, 7, 7], 1) := by decide +kernel
example : (ValueTable.tierFor exCmpR 0 true (tkey Index.exK1) [1, 2, 3]).2 = 3 ∧
    (ValueTable.tierFor exCmpR 0 true (tkey Index.exK2) [7, 7, 7]).2 = 3 ∧
    (exRcMid.vt 3).filled = 2 ∧ (exRcMid.vt 3).lastRemoved = 0 ∧
    (exRcFinal.vt 3).filled = 2 ∧ (exRcFinal.vt 3).lastRemoved = 0 ∧
    (exRcFinal.vt 3).refCounted = true := by decide +kernel
/- between the third Dereference and the Set the slot is on the free list -/
example : ((rRunChecked .rc exCmpR 0 exRcMid (exRcMore.take 3)).map
    (fun p => ((p.vt 3).filled, (p.vt 3).lastRemoved, rGet exDecompR p Index.exK1))) =
    some (2, 1, none) := by decide +kernel
/- and what `spec` says -/
example : spec (fun _ => Kind.rc) exRcTxs Index.exK1 = none ∧
    spec (fun _ => Kind.rc) exRcTxs Index.exK2 = some ([7, 7, 7], 1) ∧
    spec (fun _ => Kind.rc) (exRcTxs.take 1) Index.exK1 = some ([1, 2, 3], 3) := by decide
/- R4 on this history: the last eight actions as one more transaction after the first three -/
theorem exRcRun2 : rRun .rc exCmpR 0 exRcMid exRcMore = .ok exRcFinal := by
  obtain ⟨p1, h1, h2⟩ := rRun_append .rc exCmpR 0 exRcHist exRcMore _ _
    (rRunChecked_sound _ _ _ _ _ _ exRcRun).1
  have e := (rRunChecked_sound _ _ _ _ _ _ exRcRun1).1
  have e2 : PRes.ok p1 = PRes.ok exRcMid := h1.symm.trans e
  have e3 : p1 = exRcMid := PRes.ok.inj e2
  rw [← e3]; exact h2
example := R5_record_refines .rc exCmpR exDecompR 0 Index.exU ⟨true, true, false⟩ 16 exRcHist exRcMore
  exRcMid exRcFinal Index.exK1 exCmpR_ok exPUniv rfl rfl ⟨by decide, by decide⟩ exRcKeys
  (rRunChecked_sound _ _ _ _ _ _ exRcRun).2 (rRunChecked_sound _ _ _ _ _ _ exRcRun1).1 exRcRun2 (Or.inl rfl)

/-! ### non-vacuity 2: a preimage column (no counters)

Set, Set of the same key with ANOTHER value (skipped: "Replace is not supported"), a nine-part
value in the multipart table, Dereference (removes), Dereference of the absent key, Set again
(now the second value is stored), a re-launched growth, enact, reopen. -/

def exPiHist : List RAction :=
  [.set Index.exK1 [1, 2, 3], .set Index.exK1 [4, 4], .set Index.exK3 (List.replicate 33000 6),
   .deref Index.exK1, .deref Index.exK1, .relaunch, .set Index.exK1 [4, 4], .enact, .reopen]

def exPiFinal : PCol :=
  (rRunChecked .preimage exCmpR 0 (rInit .preimage ⟨true, true, false⟩ 16) exPiHist).getD
    (rInit .preimage ⟨true, true, false⟩ 16)

set_option maxRecDepth 100000 in
theorem exPiRun : rRunChecked .preimage exCmpR 0 (rInit .preimage ⟨true, true, false⟩ 16) exPiHist =
    some exPiFinal := by
  have : (rRunChecked .preimage exCmpR 0 (rInit .preimage ⟨true, true, false⟩ 16) exPiHist).isSome = true := by
    decide +kernel
  unfold exPiFinal
  cases h : rRunChecked .preimage exCmpR 0 (rInit .preimage ⟨true, true, false⟩ 16) exPiHist with
  | none => rw [h] at this; cases this
  | some s => rfl

theorem exPiKeys : ∀ a ∈ exPiHist, RActKeys Index.exU a := by
  intro a ha
  unfold exPiHist at ha
  rcases List.mem_cons.1 ha with h | ha
  · subst h; exact Or.inl rfl
  rcases List.mem_cons.1 ha with h | ha
  · subst h; exact Or.inl rfl
  rcases List.mem_cons.1 ha with h | ha
  · subst h; exact Or.inr (Or.inr rfl)
  rcases List.mem_cons.1 ha with h | ha
  · subst h; exact Or.inl rfl
  rcases List.mem_cons.1 ha with h | ha
  · subst h; exact Or.inl rfl
  rcases List.mem_cons.1 ha with h | ha
  · subst h; trivial
  rcases List.mem_cons.1 ha with h | ha
  · subst h; exact Or.inl rfl
  rcases List.mem_cons.1 ha with h | ha
  · subst h; trivial
  rcases List.mem_cons.1 ha with h | ha
  · subst h; trivial
  · cases ha

def exPiTxs : List (List (Op Index.Key ValueTable.Bytes)) :=
  [[.set Index.exK1 [1, 2, 3], .set Index.exK1 [4, 4], .set Index.exK3 (List.replicate 33000 6)],
   [.deref Index.exK1, .deref Index.exK1], [.set Index.exK1 [4, 4]]]

example := R5_rc_refines .preimage exCmpR exDecompR 0 Index.exU ⟨true, true, false⟩ 16 exPiHist
  exPiFinal exPiTxs Index.exK1 exCmpR_ok exPUniv rfl rfl ⟨by decide, by decide⟩ exPiKeys
  (rRunChecked_sound _ _ _ _ _ _ exPiRun).2 (rRunChecked_sound _ _ _ _ _ _ exPiRun).1 rfl (Or.inl rfl)
example := R5_simulation .preimage (by decide) exCmpR 0 Index.exU ⟨true, true, false⟩ 16 exPiHist
  exPiFinal exPUniv rfl rfl ⟨by decide, by decide⟩ exPiKeys
  (rRunChecked_sound _ _ _ _ _ _ exPiRun).2 (rRunChecked_sound _ _ _ _ _ _ exPiRun).1
set_option maxRecDepth 100000 in
example : (rGet exDecompR exPiFinal Index.exK1 == some ([4, 4], 1) &&
    rGet exDecompR exPiFinal Index.exK3 == some (List.replicate 33000 6, 1) &&
    ((rRunChecked .preimage exCmpR 0 (rInit .preimage ⟨true, true, false⟩ 16) (exPiHist.take 2)).map
      (fun p => rGet exDecompR p Index.exK1) == some (some ([1, 2, 3], 1))) &&
    (exPiFinal.vt 255).filled == 10 && exPiFinal.current.bits == 17 &&
    (exPiFinal.vt 255).refCounted == false) = true := by decide +kernel
set_option maxRecDepth 100000 in
example : spec (fun _ => Kind.preimage) exPiTxs Index.exK1 = some ([4, 4], 1) ∧
    spec (fun _ => Kind.preimage) (exPiTxs.take 1) Index.exK1 = some ([1, 2, 3], 1) := by decide

/-! ### non-vacuity 4: a ref-counted column with MULTIPART values, chain removed and reused

Set of a 33 000-byte value (9 parts in table 255, counter in the head part) and of a 40 000-byte
value (10 parts), Reference of the first key (count 2), two Dereferences (1, then 0: the whole
9-part chain is REMOVED, its slots go on the free list, the last part on top), Set of another key
with a 36 000-byte value (9 parts: it REUSES exactly the freed slots, the free list is empty
again and the fill mark has not moved), enact, reopen. -/

def exMpHist : List RAction :=
  [.set Index.exK1 (List.replicate 33000 6), .set Index.exK3 (List.replicate 40000 7),
   .ref Index.exK1, .deref Index.exK1, .deref Index.exK1]
def exMpMore : List RAction :=
  [.set Index.exK2 (List.replicate 36000 8), .enact, .reopen]

def exMpMid : PCol :=
  (rRunChecked .rc exCmpR 0 (rInit .rc ⟨true, true, false⟩ 16) exMpHist).getD (rInit .rc ⟨true, true, false⟩ 16)
def exMpFinal : PCol :=
  (rRunChecked .rc exCmpR 0 (rInit .rc ⟨true, true, false⟩ 16) (exMpHist ++ exMpMore)).getD
    (rInit .rc ⟨true, true, false⟩ 16)

set_option maxRecDepth 100000 in
/-- one kernel evaluation of the whole history (about 30 s): the checked run succeeds, and what
the bytes of its final state hold: fill mark and free list of table 255, the removed key reads
nothing, the new key reads 36 000 bytes with count 1 -/
theorem exMpEval : ((rRunChecked .rc exCmpR 0 (rInit .rc ⟨true, true, false⟩ 16) (exMpHist ++ exMpMore)).map
    (fun p => ((p.vt 255).filled, (p.vt 255).lastRemoved, (p.vt 255).refCounted,
      (rGet exDecompR p Index.exK1).isNone,
      (rGet exDecompR p Index.exK2).map (fun x => (x.1.length, x.2)))) ==
    some ((20 : Nat), (0 : Nat), true, true, some ((36000 : Nat), (1 : Nat)))) = true := by
  decide +kernel

set_option maxRecDepth 100000 in
/-- the first five operations (one more evaluation, about 10 s): after the Reference the counter
of the 9-part value reads 2; after the second Dereference the key is gone, the fill mark is still
20 (1 + 9 + 10 slots) and the free list starts at slot 9, the last part of the removed chain -/
theorem exMpEvalMid :
    ((rRunChecked .rc exCmpR 0 (rInit .rc ⟨true, true, false⟩ 16) (exMpHist.take 3)).bind (fun p3 =>
      (rRunChecked .rc exCmpR 0 p3 (exMpHist.drop 3)).map (fun p5 =>
        ((rGet exDecompR p3 Index.exK1).map (fun x => x.2), (p3.vt 255).filled, (p3.vt 255).lastRemoved,
         rGet exDecompR p5 Index.exK1, (p5.vt 255).filled, (p5.vt 255).lastRemoved,
         (rGet exDecompR p5 Index.exK3).map (fun x => x.2)))) ==
    some (some (2 : Nat), (20 : Nat), (0 : Nat), (none : Option (ValueTable.Bytes × Nat)), (20 : Nat),
      (9 : Nat), some (1 : Nat))) = true := by
  decide +kernel

theorem exMpRun : rRunChecked .rc exCmpR 0 (rInit .rc ⟨true, true, false⟩ 16) (exMpHist ++ exMpMore) =
    some exMpFinal := by
  have h := exMpEval
  unfold exMpFinal
  cases hr : rRunChecked .rc exCmpR 0 (rInit .rc ⟨true, true, false⟩ 16) (exMpHist ++ exMpMore) with
  | none => rw [hr] at h; cases h
  | some s => rfl

theorem exMpKeys : ∀ a ∈ exMpHist ++ exMpMore, RActKeys Index.exU a := by
  intro a ha
  simp only [exMpHist, exMpMore, List.cons_append, List.nil_append, List.mem_cons,
    List.mem_nil_iff, or_false] at ha
  rcases ha with h | h | h | h | h | h | h | h <;> subst h <;>
    first
    | trivial
    | exact Or.inl rfl
    | exact Or.inr (Or.inl rfl)
    | exact Or.inr (Or.inr rfl)

def exMpTxs : List (List (Op Index.Key ValueTable.Bytes)) :=
  [[.set Index.exK1 (List.replicate 33000 6), .set Index.exK3 (List.replicate 40000 7), .ref Index.exK1],
   [.deref Index.exK1, .deref Index.exK1], [.set Index.exK2 (List.replicate 36000 8)]]

/- every hypothesis of `R5_rc_refines` and of `R5_simulation` holds of this history -/
example := R5_rc_refines .rc exCmpR exDecompR 0 Index.exU ⟨true, true, false⟩ 16 (exMpHist ++ exMpMore)
  exMpFinal exMpTxs Index.exK2 exCmpR_ok exPUniv rfl rfl ⟨by decide, by decide⟩ exMpKeys
  (rRunChecked_sound _ _ _ _ _ _ exMpRun).2 (rRunChecked_sound _ _ _ _ _ _ exMpRun).1 rfl
  (Or.inr (Or.inl rfl))
example := R5_simulation .rc (by decide) exCmpR 0 Index.exU ⟨true, true, false⟩ 16 (exMpHist ++ exMpMore)
  exMpFinal exPUniv rfl rfl ⟨by decide, by decide⟩ exMpKeys
  (rRunChecked_sound _ _ _ _ _ _ exMpRun).2 (rRunChecked_sound _ _ _ _ _ _ exMpRun).1
/- what the bytes of the final state hold (from the evaluation `exMpEval`): the fill mark is 20 as
before the removal and the free list is empty again: the 9 parts of the new value sit in the slots
the removal freed; the removed key reads nothing, the new key 36 000 bytes with count 1 -/
example : (exMpFinal.vt 255).filled = 20 ∧ (exMpFinal.vt 255).lastRemoved = 0 ∧
    (exMpFinal.vt 255).refCounted = true ∧ (rGet exDecompR exMpFinal Index.exK1).isNone = true ∧
    (rGet exDecompR exMpFinal Index.exK2).map (fun x => (x.1.length, x.2)) = some (36000, 1) := by
  have h := eq_of_beq exMpEval
  rw [exMpRun] at h
  have h3 := Option.some.inj h
  obtain ⟨e1, h3⟩ := Prod.mk.inj h3
  obtain ⟨e2, h3⟩ := Prod.mk.inj h3
  obtain ⟨e3, h3⟩ := Prod.mk.inj h3
  obtain ⟨e4, e5⟩ := Prod.mk.inj h3
  exact ⟨e1, e2, e3, e4, e5⟩
/- what `spec` says (no evaluation of the 36 000-element lists is needed: `rfl`) -/
theorem exMpSpec : spec (fun _ => Kind.rc) exMpTxs Index.exK1 = none ∧
    spec (fun _ => Kind.rc) exMpTxs Index.exK2 = some (List.replicate 36000 8, 1) ∧
    spec (fun _ => Kind.rc) exMpTxs Index.exK3 = some (List.replicate 40000 7, 1) ∧
    spec (fun _ => Kind.rc) (exMpTxs.take 1) Index.exK1 = some (List.replicate 33000 6, 2) := by
  refine ⟨?_, ?_, ?_, ?_⟩ <;> rfl
/- ... and therefore, by R5, what the bytes return in full: every byte of the values and the counters -/
example : rGet exDecompR exMpFinal Index.exK1 = none ∧
    rGet exDecompR exMpFinal Index.exK2 = some (List.replicate 36000 8, 1) ∧
    rGet exDecompR exMpFinal Index.exK3 = some (List.replicate 40000 7, 1) := by
  have r5 := fun k hk => R5_rc_refines .rc exCmpR exDecompR 0 Index.exU ⟨true, true, false⟩ 16
    (exMpHist ++ exMpMore) exMpFinal exMpTxs k exCmpR_ok exPUniv rfl rfl ⟨by decide, by decide⟩ exMpKeys
    (rRunChecked_sound _ _ _ _ _ _ exMpRun).2 (rRunChecked_sound _ _ _ _ _ _ exMpRun).1 rfl hk
  exact ⟨(r5 _ (Or.inl rfl)).trans exMpSpec.1, (r5 _ (Or.inr (Or.inl rfl))).trans exMpSpec.2.1,
    (r5 _ (Or.inr (Or.inr rfl))).trans exMpSpec.2.2.1⟩

/-! ### non-vacuity 3: the plain kind is R3 with a counter that reads 1 -/

example := R5_rc_refines .plain exCmpR exDecompR 0 Index.exU ⟨true, true, false⟩ 16
example : (rRunChecked .plain exCmpR 0 (rInit .plain ⟨true, true, false⟩ 16)
      [.set Index.exK1 [1, 2, 3], .set Index.exK1 [4, 4], .ref Index.exK1]).map
    (fun p => rGet exDecompR p Index.exK1) = some (some ([4, 4], 1)) := by decide +kernel

end Pdb

#print axioms Pdb.R5_rc_refines
#print axioms Pdb.R5_from_state
#print axioms Pdb.R5_record_refines
#print axioms Pdb.R5_simulation
#print axioms Pdb.R5_saturates
#print axioms Pdb.exMpEval
#print axioms Pdb.exMpEvalMid
#print axioms Pdb.exMpRun
#print axioms Pdb.exMpSpec
