/-
C14  "Storage stays structurally sound: no orphan, double-used or leaked slot"
     -- the index / abstract-slot part (hash columns).

This file is definitions + corollaries of the C09 development (Pdb/Proofs/C09*.lean):

  IndexInv      := `IdxInv`   every live keyed value is reachable through the index; entries whose
                               slot was freed or reused are inert (DESIGN 6.1)
  SlotInvAbs    := `SlotInv`  on the abstract value tables (address -> (tail, value), per tier a
                               fill mark, a free list and the continuation slots of the live
                               multi-slot values, `Tier.chains`): free-list members, continuation
                               slots and slots at or above the fill mark hold no value; live
                               addresses lie below the fill mark; "free list ++ continuation
                               slots" (`Col.dead`) has no duplicate and is in range; every slot
                               below the fill mark is free, a continuation slot or live (no leak);
                               one chain per head slot, and the head of every chain is a live value
                               (no orphan chain)
  NoLeak                       live addresses and live keys are in bijection

The state of the model is the logical state (files + log overlay), so "whenever the pipeline is
drained" is every state of a run.  Not covered here, by design of the split between agents:
  * the byte level of the value tables (tombstone links, `last_removed` chain acyclic and ending
    at 0, multipart chains, header written with the record)      -> Pdb/Model/ValueTable.lean (C06)
  * btree order / depth / reachability (TreeInv)                 -> C04
  * node reference counts (RcInv)                                -> C10
The harness checks the byte-level counterparts on dumps of the real files after every drain,
reopen and recovery (`c09.rs`, `structure`): free list acyclic / in range / tombstones only, every
slot below `filled` owned exactly once by the free list or one live chain, live chains = live
keys, every live key has a valid index entry, `iter_column_while` = live values, fill marks
bounded by the peak slot use under a steady workload.
-/
import Pdb.Props.C09

namespace Pdb.Index
open Pdb.Gen Pdb.IndexPage

abbrev IndexInv := @IdxInv
abbrev SlotInvAbs := @SlotInv

/-- Live addresses and live keys correspond one to one. -/
structure NoLeak (U : Key → Prop) (s : Col) (m : Key → Option Val) : Prop where
  /-- every live slot belongs to a live key (no orphan value) -/
  slot_key : ∀ a sl, s.valAt a = some sl → ∃ k, U k ∧ k.tail = sl.tail ∧ m k = some sl.val
  /-- every live key has exactly one slot (no double use) -/
  key_slot : ∀ k v, U k → m k = some v →
    ∃ a, s.valAt a = some ⟨k.tail, v⟩ ∧ ∀ a', s.tailAt a' = some k.tail → a' = a

theorem C14_no_leak {U : Key → Prop} {s : Col} {m : Key → Option Val} (hG : Good U s m) :
    NoLeak U s m := by
  refine ⟨fun a sl ha => ?_, fun k v hk hm => ?_⟩
  · obtain ⟨tl, v⟩ := sl
    have ht : s.tailAt a = some tl := (tailAt_eq_some s a tl).2 ⟨v, ha⟩
    obtain ⟨k, hk, htl, _⟩ := hG.idx.reach a tl ht
    refine ⟨k, hk, htl, (hG.abs k hk v).2 ⟨a, ?_⟩⟩
    rw [htl]; exact ha
  · obtain ⟨a, ha⟩ := (hG.abs k hk v).1 hm
    refine ⟨a, ha, fun a' ha' => ?_⟩
    exact hG.idx.inj a' a k.tail ha' ((tailAt_eq_some s a k.tail).2 ⟨v, ha⟩)

/-- The invariants hold in every state of every history (C09 restated for the drained state). -/
theorem C14_index_inv_preserved (U : Key → Prop) (cfg : Cfg) (b0 : Nat) (acts : List Action)
    (h : RunHyp U cfg b0 acts) (s' : Col) (hrun : runA (Col.init cfg b0) acts = .ok s') :
    IndexInv U s' ∧ SlotInvAbs s' ∧ NoLeak U s' (spec (fun _ => none) acts) := by
  have hG := runA_ok h.univ acts (Col.init cfg b0) s' _ (init_good U cfg b0 h.bits.1 h.bits.2)
    h.exact h.grow h.actsOK h.bounded hrun
  exact ⟨hG.idx, hG.slots, C14_no_leak hG⟩

/-- Every index entry that matches a key's page and partial key and whose slot holds that key's
tail leads to that key's value: an entry never resolves to a value of another key. -/
theorem C14_no_misattribution {U : Key → Prop} {s : Col} {m : Key → Option Val} (hU : Univ U)
    (hG : Good U s m) (k : Key) (hk : U k) (a : Nat) (sl : Slot) (ha : s.valAt a = some sl)
    (htail : sl.tail = k.tail) : m k = some sl.val := by
  obtain ⟨k', hk', htl, hm⟩ := (C14_no_leak hG).slot_key a sl ha
  have : k' = k := hU.atail k' k hk' hk (htl.trans htail)
  rw [← this]; exact hm

/-- Removing a key returns its slots: the whole chain of the value (head slot, then its
continuation slots) is pushed on its tier's free list, so the last part ends up on top; the fill
mark does not move, no chain is recorded for the head any more, and the next allocation in that
tier reuses the slot on top.  For a one-slot value (`restAt = []`) the free list becomes
`offset a :: free` and the next allocation returns `offset a`. -/
theorem remove_returns_slot0 {s s' : Col} (k : Key) (j i a : Nat)
    (h : writeExisting0 s k none j i a = .ok s') :
    s'.tailAt a = none ∧
    (s'.tier (Address.size_tier a)).free =
      (Address.offset a :: s.restAt (Address.size_tier a) (Address.offset a)).reverse ++
        (s.tier (Address.size_tier a)).free ∧
    (s'.tier (Address.size_tier a)).filled = (s.tier (Address.size_tier a)).filled ∧
    s'.restAt (Address.size_tier a) (Address.offset a) = [] ∧
    (s'.alloc (Address.size_tier a)).1 =
      ((Address.offset a :: s.restAt (Address.size_tier a) (Address.offset a)).reverse).headD 0 := by
  unfold writeExisting0 at h
  simp only at h
  change (match ((freed s a (s.nLive - 1)).tableAt j).remove k.pre i with
    | some t => Res.ok ((freed s a (s.nLive - 1)).setTableAt j t)
    | none => Res.ok (freed s a (s.nLive - 1))) = Res.ok s' at h
  have key : s'.tailAt a = (freed s a (s.nLive - 1)).tailAt a ∧
      ∀ t, s'.tier t = (freed s a (s.nLive - 1)).tier t := by
    cases hr : ((freed s a (s.nLive - 1)).tableAt j).remove k.pre i with
    | none => rw [hr] at h; simp only at h; injection h with h; subst h; exact ⟨rfl, fun _ => rfl⟩
    | some t =>
      rw [hr] at h
      simp only at h
      injection h with h
      subst h
      cases j <;> exact ⟨rfl, fun _ => rfl⟩
  have ht := key.2 (Address.size_tier a)
  rw [freed_tier] at ht
  simp only [if_true] at ht
  refine ⟨by rw [key.1, freed_tailAt]; simp, by rw [ht]; rfl, by rw [ht], ?_, ?_⟩
  · unfold Col.restAt
    rw [ht]
    simp only
    rw [chainRest_chainDrop, if_pos rfl]
  · cases hx : (Address.offset a :: s.restAt (Address.size_tier a) (Address.offset a)).reverse with
    | nil => simp at hx
    | cons o xs =>
      have hf : (s'.tier (Address.size_tier a)).free = o :: (xs ++ (s.tier (Address.size_tier a)).free) := by
        rw [ht]
        show (Address.offset a :: s.restAt (Address.size_tier a) (Address.offset a)).reverse ++ _ = _
        rw [hx]; rfl
      rw [Col.alloc_cons s' (Address.size_tier a) o _ hf]
      rfl

theorem C14_remove_returns_slot {U : Key → Prop} {s s' : Col} {m : Key → Option Val}
    (hG : Good U s m) (k : Key) (j i a : Nat) (hs : searchAll s k = some (j, i, a))
    (h : write s k none = .ok s') :
    s'.tailAt a = none ∧
    (s'.tier (Address.size_tier a)).free =
      (Address.offset a :: s.restAt (Address.size_tier a) (Address.offset a)).reverse ++
        (s.tier (Address.size_tier a)).free ∧
    (s'.tier (Address.size_tier a)).filled = (s.tier (Address.size_tier a)).filled ∧
    s'.restAt (Address.size_tier a) (Address.offset a) = [] ∧
    (s'.alloc (Address.size_tier a)).1 =
      ((Address.offset a :: s.restAt (Address.size_tier a) (Address.offset a)).reverse).headD 0 := by
  have _ := hG
  unfold write at h
  rw [hs] at h
  simp only at h
  -- the removal of the stale entries (fixed code) touches the queued index tables only
  obtain ⟨s0, h0, hP⟩ := writeExisting_ok2 h
  obtain ⟨h1, h2, h3, h4, h5⟩ := remove_returns_slot0 k j i a h0
  refine ⟨by rw [hP.tailAt]; exact h1, by rw [hP.tier]; exact h2, by rw [hP.tier]; exact h3, ?_, ?_⟩
  · unfold Col.restAt at h4 ⊢
    rw [hP.tier]; exact h4
  · rw [Col.alloc_fst_congr s0 s' _ (hP.tier _)]; exact h5

/-- `overwrite_chain` seen from the allocator (`Col.resize`, used when a value is written with
`m` continuation slots at the head slot `h`): the first `m` old continuation slots are kept,
missing ones come from the top of the free list and only then from the fill mark, surplus ones
go to the free list with the last part on top; afterwards the value owns exactly `m`
continuation slots, and the fill mark moves only by what neither the old chain nor the free list
could supply. -/
theorem C14_overwrite_chain_slots (s : Col) (tier h m : Nat) :
    (s.resize tier h m).restAt tier h =
      (s.restAt tier h).take m ++ ((s.tier tier).free.take (m - (s.restAt tier h).length) ++
        List.range' (s.tier tier).filled (m - (s.restAt tier h).length - (s.tier tier).free.length)) ∧
    ((s.resize tier h m).restAt tier h).length = m ∧
    ((s.resize tier h m).tier tier).free =
      ((s.restAt tier h).drop m).reverse ++ (s.tier tier).free.drop (m - (s.restAt tier h).length) ∧
    ((s.resize tier h m).tier tier).filled =
      (s.tier tier).filled + (m - (s.restAt tier h).length - (s.tier tier).free.length) := by
  have ht : (s.resize tier h m).tier tier = (s.tier tier).resize h m := by
    rw [Col.tier_resize, if_pos rfl]
  have h1 : (s.resize tier h m).restAt tier h =
      (s.restAt tier h).take m ++ ((s.tier tier).free.take (m - (s.restAt tier h).length) ++
        List.range' (s.tier tier).filled (m - (s.restAt tier h).length - (s.tier tier).free.length)) := by
    unfold Col.restAt
    rw [ht]
    simp only [Tier.resize]
    rw [chainRest_chainPut, if_pos rfl]
  refine ⟨h1, ?_, by rw [ht]; rfl, by rw [ht]; rfl⟩
  rw [h1]
  simp only [List.length_append, List.length_take, List.length_range']
  omega

/-- A steady insert/remove workload does not grow the tables: the fill mark moves only when the
tier's free list is empty. -/
theorem C14_fill_mark_moves_only_when_no_free_slot (s : Col) (tier : Nat)
    (h : (s.tier tier).free ≠ []) :
    ((s.alloc tier).2.tier tier).filled = (s.tier tier).filled ∧
    (s.alloc tier).1 ∈ (s.tier tier).free := by
  cases hf : (s.tier tier).free with
  | nil => exact absurd hf h
  | cons o rest =>
    rw [Col.alloc_cons s tier o rest hf]
    refine ⟨?_, by simp⟩
    have := Col.tier_set s tier tier ⟨(s.tier tier).filled, rest, (s.tier tier).chains⟩
    simp only [if_true] at this
    rw [this]

/-- Value iteration over the column yields exactly the live values: a value is stored in some
slot iff it is the value of some key of the abstract map (multiplicities by `NoLeak`). -/
theorem C14_iter_values_exact {U : Key → Prop} {s : Col} {m : Key → Option Val}
    (hG : Good U s m) (v : Val) :
    (∃ a tl, s.valAt a = some ⟨tl, v⟩) ↔ (∃ k, U k ∧ m k = some v) := by
  constructor
  · rintro ⟨a, tl, ha⟩
    obtain ⟨k, hk, _, hm⟩ := (C14_no_leak hG).slot_key a ⟨tl, v⟩ ha
    exact ⟨k, hk, hm⟩
  · rintro ⟨k, hk, hm⟩
    obtain ⟨a, ha, _⟩ := (C14_no_leak hG).key_slot k v hk hm
    exact ⟨a, k.tail, ha⟩

/-! ## non-vacuity (the concrete history of Pdb/Props/C09.lean) -/

/- multi-slot values (tier 255): a 3-slot value, a 2-slot value, the first one shrunk in place to
one slot (its two continuation slots are freed, last part on top), the second one removed (its
chain is freed), a 4-slot value that reuses all four freed slots in free-list order: the fill
mark stays at 6, the free list is empty, no slot is leaked -/
def exActsM : List Action :=
  [.set exK1 255 2 "m1", .set exK2 255 1 "m2", .set exK1 255 0 "m1s", .del exK2, .set exK3 255 3 "m3"]

def exFinalM : Col := (runChecked (Col.init ⟨true, true, false⟩ 16) exActsM).getD (Col.init ⟨true, true, false⟩ 16)

theorem exRunM : runChecked (Col.init ⟨true, true, false⟩ 16) exActsM = some exFinalM := by
  have : (runChecked (Col.init ⟨true, true, false⟩ 16) exActsM).isSome = true := by decide +kernel
  unfold exFinalM
  cases h : runChecked (Col.init ⟨true, true, false⟩ 16) exActsM with
  | none => rw [h] at this; cases this
  | some s => rfl

theorem exActsM_ok : ∀ a ∈ exActsM, ActOK exU a := by
  intro a ha
  simp only [exActsM, List.mem_cons, List.mem_nil_iff, or_false] at ha
  rcases ha with h | h | h | h | h <;> subst h <;> simp [ActOK, exU, exK1, exK2, exK3]

theorem exHypM : RunHyp exU ⟨true, true, false⟩ 16 exActsM :=
  ⟨exU_univ, rfl, rfl, ⟨by decide, by decide⟩, exActsM_ok, (runChecked_sound _ _ _ exRunM).2⟩

example := C14_index_inv_preserved exU _ 16 exActsM exHypM exFinalM (runChecked_sound _ _ _ exRunM).1
example : (exFinalM.tier 255).filled = 6 ∧ (exFinalM.tier 255).free = [] ∧
    (exFinalM.tier 255).chains = [(5, [4, 3, 2])] ∧ exFinalM.nLive = 2 ∧
    lookup exFinalM exK1 = some "m1s" ∧ lookup exFinalM exK2 = none ∧
    lookup exFinalM exK3 = some "m3" := by decide +kernel
example := C14_overwrite_chain_slots exFinalM 255 5 1

example := C14_index_inv_preserved exU _ 16 exActs exHyp exFinal (runChecked_sound _ _ _ exRun).1
example := C14_no_leak exGood
example := C14_iter_values_exact exGood "a2"
/- `exK2` was removed and re-inserted in another tier; the slot freed by the removal (tier 0) is
on the free list: the fill mark of tier 0 is 3 with one free slot, i.e. no leak -/
example : (exFinal.tier 0).filled = 3 ∧ (exFinal.tier 0).free.length = 2 ∧ exFinal.nLive = 3 := by
  decide +kernel
example : (exFinal.tier 0).free ≠ [] := by decide +kernel
example := C14_fill_mark_moves_only_when_no_free_slot exFinal 0 (by decide +kernel)
/- remove: the key is found, the hypotheses of `C14_remove_returns_slot` are satisfiable -/
example : (searchAll exFinal exK3).isSome = true ∧
    (match write exFinal exK3 none with | .ok _ => true | _ => false) = true := by decide +kernel

end Pdb.Index

#print axioms Pdb.Index.C14_no_leak
#print axioms Pdb.Index.C14_index_inv_preserved
#print axioms Pdb.Index.C14_no_misattribution
#print axioms Pdb.Index.C14_remove_returns_slot
#print axioms Pdb.Index.C14_overwrite_chain_slots
#print axioms Pdb.Index.C14_fill_mark_moves_only_when_no_free_slot
#print axioms Pdb.Index.C14_iter_values_exact
