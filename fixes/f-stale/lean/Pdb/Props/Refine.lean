/-
REFINEMENT  "The layers of the model are one system" (DESIGN section 6)

  Spec / P1   Pdb.Tbl, Pdb.applyOps, Pdb.spec, Pdb.applyRec, Pdb.planRec  (Pdb/Model/Pipeline.lean)
      ^  R1   absCol                 index layer ⊑ logical table of a plain hash column
  P2 index    Pdb.Index.Col = pages + ABSTRACT value store (C09, C14, page search C19)
      ^  R2   absVT, AStore, RepL    byte-level value table ⊑ abstract value store of one tier
                                     (cells at head slots, chains = `Tier.chains`)
  P2/P3       Pdb.ValueTable.VT      byte-level slots, entry formats, chains (C06)
      R3      the PHYSICAL column `PCol` (pages + byte-level tables, Pdb/Model/Refine.lean) = Pdb.spec
      R4      one transaction: physical planning + enactment = `applyRec` of the logical record

WHAT IS PROVED
  R1_index_refines_P1      full.  Hypotheses inherited from C09: `RunHyp` (A-tail `Univ U`, the two
                           C09 fixes `cfg.exact`, `cfg.growOnMove`, 16 ≤ bits ≤ 49, keys in `U` and
                           tiers < 256 `ActOK`, physical limits `AllBounded`), run returns `.ok`.
  R1_step_refines          full.  The commuting square of one action (maintenance = stutter).
  R2_valuetable_refines_store   full, for every table (fixed-size tiers of `SIZES` AND the
                           multipart table): reads, allocation order (head slot, then the
                           continuation slots `Tier.resize` takes), insert / replace in place /
                           remove commute with `absVT`, C06's `SlotInv` yields the index model's
                           slot invariant (`AStoreInv`).  Hypotheses inherited from C06: `WriteOk`,
                           `filled + parts ≤ 2^64`.
  R2_chain_heads           what C06 gives at the head slot for any witnesses of its invariant.
  R3_composed_full         FULL: `R3_composed` for all histories, values in the multipart tier
                           255 included (the index model allocates chains slot by slot, M1; `RepL`
                           for chains, M2; frame of the table operations, M3).
                           Hypotheses: `PRunHypFull` (C09's, stated on the physical column) and
                           A-compress.  `WriteOk` is discharged by `C06_tier_writeOk`, C06's
                           `filled + parts ≤ 2^64` by the physical limits (`write_bound`).
  R3_composed_partial      the former partial theorem (single-slot tiers), now a corollary.
  R3_gap_closed            `R3_gap` (the histories `R3_composed_partial` left out) holds.
  R4_record_refines(_full) (stretch) for a transaction planned in any reachable state of the
                           physical column: abstraction after = `applyRec` of the logical record
                           `planRec` on the abstraction before.
-/
import Pdb.Proofs.Refine3
import Pdb.Props.C09

namespace Pdb
open Pdb.Gen Pdb.Refine

/-! ## R1: index layer ⊑ logical table of a plain column -/

/-- R1.  Any history of the index model that implements the P1 operations `txs.flatten` of one
plain hash column (`Refine.Implements`: `Op.set k v ↦ .set k tier ext v` with any tier and any
number `ext` of continuation slots,
`Op.deref k ↦ .del k`, reindex batches / enacted drops / reopen / relaunch interleaved anywhere)
ends in a state whose abstraction `absCol` is P1's `spec`, on the key universe. -/
theorem R1_index_refines_P1 (U : Index.Key → Prop) (cfg : Index.Cfg) (b0 : Nat)
    (acts : List Index.Action) (h : Index.RunHyp U cfg b0 acts) (s' : Index.Col)
    (hrun : Index.runA (Index.Col.init cfg b0) acts = .ok s')
    (txs : List (List (Op Index.Key Index.Val))) (himpl : Implements txs.flatten acts)
    (k : Index.Key) (hk : U k) :
    absCol s' k = spec (fun _ => Kind.plain) txs k := by
  have e := Index.C09_lookup_latest U cfg b0 acts h s' hrun k hk
  have := congrFun (spec_implements himpl (fun _ => none)) k
  simp only [liftMap] at this
  simp only [absCol, e, spec]
  exact this

/-- every list of P1 operations has an implementation (the canonical one, no maintenance) -/
theorem R1_translation_exists (tier ext : Index.Key → Index.Val → Nat)
    (ops : List (Op Index.Key Index.Val)) : Implements ops (translate tier ext ops) :=
  translate_implements tier ext ops

/-- R1, one step: from a good state (`Index.Good`: IndexInv + SlotInv + Abs) one action moves the
abstraction by its logical operations; reindex / enact / reopen / relaunch are stutter steps. -/
theorem R1_step_refines {U : Index.Key → Prop} {s s' : Index.Col} {m : Index.Key → Option Index.Val}
    (hU : Index.Univ U) (hG : Index.Good U s m) (hex : s.cfg.exact = true)
    (hgrow : s.cfg.growOnMove = true) (a : Index.Action) (ha : Index.ActOK U a)
    (h : Index.stepA s a = .ok s') (hB : Index.Bounded s') (k : Index.Key) (hk : U k) :
    absCol s' k = applyOps (fun _ => Kind.plain) (absCol s) (logical a) k := by
  obtain ⟨_, h1, h2⟩ := absCol_step hU hG hex hgrow a ha h hB k hk
  rw [h1]
  exact applyOps_congr_key _ _ _ _ k h2.symm

/-! ### R1: C09's concrete history (three keys, two of them colliding on all 50 index-visible
bits; a tier move, a removal, a re-launched growth, enact, reopen) implements three transactions -/

def exTxs : List (List (Op Index.Key Index.Val)) :=
  [[.set Index.exK1 "a", .set Index.exK2 "b"],
   [.set Index.exK3 "c", .set Index.exK1 "a2", .deref Index.exK2],
   [.set Index.exK2 "b2"]]

theorem exImpl : Implements exTxs.flatten Index.exActs :=
  .set _ 0 0 _ (.set _ 0 0 _ (.set _ 5 0 _ (.set _ 7 0 _ (.deref _ (.relaunch (.set _ 3 0 _ (.enact (.reopen .nil))))))))

example : absCol Index.exFinal Index.exK1 = some ("a2", 1) ∧
    absCol Index.exFinal Index.exK2 = some ("b2", 1) ∧ absCol Index.exFinal Index.exK3 = some ("c", 1) :=
  ⟨by rw [R1_index_refines_P1 Index.exU _ 16 Index.exActs Index.exHyp Index.exFinal
      (Index.runChecked_sound _ _ _ Index.exRun).1 exTxs exImpl Index.exK1 (Or.inl rfl)]; decide,
   by rw [R1_index_refines_P1 Index.exU _ 16 Index.exActs Index.exHyp Index.exFinal
      (Index.runChecked_sound _ _ _ Index.exRun).1 exTxs exImpl Index.exK2 (Or.inr (Or.inl rfl))]; decide,
   by rw [R1_index_refines_P1 Index.exU _ 16 Index.exActs Index.exHyp Index.exFinal
      (Index.runChecked_sound _ _ _ Index.exRun).1 exTxs exImpl Index.exK3 (Or.inr (Or.inr rfl))]; decide⟩

example := R1_translation_exists (fun _ _ => 3) (fun _ _ => 0) exTxs.flatten
example : (translate (fun _ _ => 3) (fun _ _ => 0) exTxs.flatten).length = 6 := by decide
/- one step from the reachable state `exFinal` (C09's `exGood`): removing `exK1` -/
example (s' : Index.Col) (h : Index.stepA Index.exFinal (.del Index.exK1) = .ok s')
    (hB : Index.Bounded s') :=
  R1_step_refines Index.exU_univ Index.exGood (by decide +kernel) (by decide +kernel)
    (.del Index.exK1) (Or.inl rfl) h hB Index.exK1 (Or.inl rfl)
example : (Index.runChecked Index.exFinal [.del Index.exK1]).isSome = true := by decide +kernel

/-! ## R2: byte-level value table ⊑ abstract value store -/

/-- R2 (every table: fixed-size tier or multipart).  If the byte-level table `t` represents the
store `A` of the index model (`RepL`: C06's `SlotInv` with `A`'s free list and the live chains
`L`; the cell at the head of every chain is what a keyed read returns, the recorded continuation
slots are the rest of the chain; no cell elsewhere; same fill mark), then
  (read)     a keyed read succeeds exactly where the cell holds that tail, and returns the cell;
  (insert)   `write_insert_plan` succeeds, returns the slot `AStore.alloc` returns (head of the
             free list, else the fill mark), the other parts go to the slots `Tier.resize` takes
             (`parts - 1` continuation slots) and the new table represents `A.insert`;
  (live)     a live cell is the head of a listed chain, whose other slots are the recorded
             continuation slots;
  (replace)  `write_replace_plan` at the head of a live chain keeps the address, represents
             `A.replace` (the chain is cut or extended by `Tier.resize`);
  (remove)   `write_remove_plan` at the head of a live chain represents `A.remove` (the whole
             chain pushed on the free list, last part on top);
  (inv)      `A` satisfies the slot invariant of the index model. -/
theorem R2_valuetable_refines_store (t : ValueTable.VT) (A : AStore) (L : List (List Nat))
    (h : RepL t A L) :
    (∀ tl i v c, (∃ n, ValueTable.readChain t (.partialKey tl) i = .ok (some (v, c, n))) ↔
      A.cell i = some (tl, v, c)) ∧
    (∀ tl v c, ValueTable.WriteOk t (.partialKey tl) v →
      t.filled + ValueTable.numParts t (.partialKey tl) v ≤ 2 ^ 64 →
      ∃ r, ValueTable.writeChain t (.partialKey tl) v none c = .ok r ∧
        r.addr = (A.insert (tl, v, c) (ValueTable.numParts t (.partialKey tl) v - 1)).1 ∧
        RepL r.table (A.insert (tl, v, c) (ValueTable.numParts t (.partialKey tl) v - 1)).2
          (r.chain :: L)) ∧
    (∀ a, (A.cell a).isSome = true →
      ∃ c0 ∈ L, c0.headD 0 = a ∧ c0 = a :: Index.chainRest A.tier.chains a) ∧
    (∀ c0 ∈ L, ∀ tl v c, ValueTable.WriteOk t (.partialKey tl) v →
      t.filled + ValueTable.numParts t (.partialKey tl) v ≤ 2 ^ 64 →
      ∃ r, ValueTable.writeChain t (.partialKey tl) v (some (c0.headD 0)) c = .ok r ∧
        r.addr = c0.headD 0 ∧
        RepL r.table (A.replace (c0.headD 0) (tl, v, c)
          (ValueTable.numParts t (.partialKey tl) v - 1)) (r.chain :: L.erase c0)) ∧
    (∀ c0 ∈ L, t.filled ≤ 2 ^ 64 →
      ∃ t', ValueTable.removePlan t (c0.headD 0) = .ok (t', c0) ∧
        RepL t' (A.remove (c0.headD 0)) (L.erase c0)) ∧
    AStoreInv A := by
  refine ⟨fun tl i v c => h.read tl i v c, fun tl v c hok hb => ?_, fun a ha => ?_,
    fun c0 hc0 tl v c hok hb => ?_, fun c0 hc0 hb => ?_, h.storeInv⟩
  · obtain ⟨r, h1, h2, h3, _⟩ := h.insert tl v c hok hb
    exact ⟨r, h1, h2, h3⟩
  · obtain ⟨c0, hc0, e⟩ := h.live a ha
    have hc := h.chain_eq c0 hc0
    rw [e] at hc
    exact ⟨c0, hc0, e, hc⟩
  · obtain ⟨r, h1, h2, h3, _⟩ := h.replace c0 hc0 tl v c hok hb
    exact ⟨r, h1, h2, h3⟩
  · obtain ⟨t', h1, h2, _⟩ := h.remove c0 hc0 hb
    exact ⟨t', h1, h2⟩

/-- the empty table (a fixed-size tier, or the multipart table) represents the empty store -/
theorem R2_empty (es : Nat) (mp rc : Bool) :
    RepL (ValueTable.VT.empty es mp rc) ⟨fun _ => none, Index.Tier.init⟩ [] :=
  RepL.empty es mp rc

/-- R2 for chains (multipart tier 255; holds for every table).  Address = head slot of the chain.
With C06's `SlotInv t F L`:
  (insert)   the cell at the returned head holds the value whatever the number of parts; the
             slots are the first `numParts` of the free list, then fresh ones (the allocation
             order of the index model, once per PART); heads of other live chains unchanged;
  (replace)  same head address, new value, other heads unchanged;
  (remove)   the cell at the head is empty, the whole chain is on the free list. -/
theorem R2_chain_heads (t : ValueTable.VT) (F : List Nat) :
    (∀ tl v c L, ValueTable.WriteOk t (.partialKey tl) v → ValueTable.SlotInv t F L →
      t.filled + ValueTable.numParts t (.partialKey tl) v ≤ 2 ^ 64 →
      ∃ r, ValueTable.writeChain t (.partialKey tl) v none c = .ok r ∧ r.addr = r.chain.headD 0 ∧
        r.chain = F.take (ValueTable.numParts t (.partialKey tl) v) ++
          List.range' t.filled (ValueTable.numParts t (.partialKey tl) v - F.length) ∧
        absVT r.table r.addr = some (tl, v, c) ∧
        ValueTable.SlotInv r.table (F.drop (ValueTable.numParts t (.partialKey tl) v)) (r.chain :: L) ∧
        ∀ ch ∈ L, absVT r.table (ch.headD 0) = absVT t (ch.headD 0)) ∧
    (∀ tl v c c0 Lr, ValueTable.WriteOk t (.partialKey tl) v → ValueTable.SlotInv t F (c0 :: Lr) →
      t.filled + ValueTable.numParts t (.partialKey tl) v ≤ 2 ^ 64 →
      ∃ r, ValueTable.writeChain t (.partialKey tl) v (some (c0.headD 0)) c = .ok r ∧
        r.addr = c0.headD 0 ∧ absVT r.table r.addr = some (tl, v, c) ∧
        ValueTable.SlotInv r.table
          (ValueTable.newFree F c0 (ValueTable.numParts t (.partialKey tl) v)) (r.chain :: Lr) ∧
        ∀ ch ∈ Lr, absVT r.table (ch.headD 0) = absVT t (ch.headD 0)) ∧
    (∀ c0 Lr, ValueTable.SlotInv t F (c0 :: Lr) → t.filled ≤ 2 ^ 64 →
      ∃ t', ValueTable.removePlan t (c0.headD 0) = .ok (t', c0) ∧ absVT t' (c0.headD 0) = none ∧
        ValueTable.SlotInv t' (c0.reverse ++ F) Lr ∧
        ∀ ch ∈ Lr, absVT t' (ch.headD 0) = absVT t (ch.headD 0)) :=
  ⟨fun tl v c L hok hinv hb => heads_insert t tl v c F L hok hinv hb,
   fun tl v c c0 Lr hok hinv hb => heads_replace t tl v c F c0 Lr hok hinv hb,
   fun c0 Lr hinv hb => heads_remove t F c0 Lr hinv hb⟩

/-! ### R2: non-vacuity (tier 0, entry size 32; the multipart table of C06) -/

/-- a 26-byte key tail -/
def exTl : ValueTable.Bytes := List.replicate 26 9

/-- the table of tier 0 (entry size 32) after: insert `[1,2,3]`, insert `[4]`, remove slot 1,
insert `[5,6]`; with the addresses returned by the three inserts -/
def exR2 : Option (ValueTable.VT × List Nat) :=
  match ValueTable.writeChain (ValueTable.VT.empty 32 false false) (.partialKey exTl) [1, 2, 3] none false with
  | .ok r1 =>
    match ValueTable.writeChain r1.table (.partialKey exTl) [4] none false with
    | .ok r2 =>
      match ValueTable.removePlan r2.table 1 with
      | .ok (t3, _) =>
        match ValueTable.writeChain t3 (.partialKey exTl) [5, 6] none true with
        | .ok r4 => some (r4.table, [r1.addr, r2.addr, r4.addr])
        | _ => none
      | _ => none
    | _ => none
  | _ => none

/-- the same history on the abstract store of the index model -/
def exA : AStore :=
  (((((⟨fun _ => none, Index.Tier.init⟩ : AStore).insert (exTl, [1, 2, 3], false) 0).2.insert
    (exTl, [4], false) 0).2.remove 1).insert (exTl, [5, 6], true) 0).2

example := R2_valuetable_refines_store _ _ _ (R2_empty 32 false false)
example := R2_valuetable_refines_store _ _ _ (R2_empty Gen.MULTIPART_ENTRY_SIZE true false)
example : ValueTable.WriteOk (ValueTable.VT.empty 32 false false) (.partialKey exTl) [1, 2, 3] ∧
    (ValueTable.VT.empty 32 false false).filled + 1 ≤ 2 ^ 64 :=
  ⟨⟨by decide, by decide, by decide, by decide⟩, by decide⟩
/- the bytes and the abstract store agree: addresses 1, 2 and again 1 (the freed slot is reused
first), cells read back, fill mark and free list -/
set_option maxRecDepth 100000 in
example : (exR2.map (·.2)) = some [1, 2, 1] ∧
    (exR2.bind (fun x => absVT x.1 1) = some (exTl, [5, 6], true) ∧
      exR2.bind (fun x => absVT x.1 2) = some (exTl, [4], false) ∧
      exR2.bind (fun x => absVT x.1 3) = none) ∧
    (exA.cell 1 = some (exTl, [5, 6], true) ∧ exA.cell 2 = some (exTl, [4], false) ∧
      exA.cell 3 = none) ∧
    (exR2.map (fun x => (x.1.filled, x.1.lastRemoved))) = some (3, 0) ∧
    (exA.tier.filled, exA.tier.free, exA.tier.chains) = (3, [], []) :=
  ⟨by decide, by decide, by decide, by decide, by decide⟩

/- chains: a 5000-byte value in the multipart table of C06's example takes two slots, one cell -/
set_option maxRecDepth 100000 in
example : ValueTable.WriteOk ValueTable.exM ValueTable.exKey (List.replicate 5000 1) ∧
    ValueTable.SlotInv ValueTable.exM [] [] ∧
    ValueTable.numParts ValueTable.exM ValueTable.exKey (List.replicate 5000 1) = 2 :=
  ⟨⟨by decide, by decide, by decide, by decide⟩, by decide, by decide⟩
example := (R2_chain_heads ValueTable.exM []).1 (List.replicate 26 7) (List.replicate 5000 1) false []
/- the same insert on the abstract store of the index model: head slot 1, continuation slot 2
recorded in `Tier.chains`, fill mark 3 -/
example := (R2_valuetable_refines_store _ _ _ (R2_empty Gen.MULTIPART_ENTRY_SIZE true true)).2.1
  (List.replicate 26 7) (List.replicate 5000 1) false
example : ((⟨fun _ => none, Index.Tier.init⟩ : AStore).insert
      (List.replicate 26 7, List.replicate 5000 1, false) 1).1 = 1 ∧
    (((⟨fun _ => none, Index.Tier.init⟩ : AStore).insert
      (List.replicate 26 7, List.replicate 5000 1, false) 1).2.tier.filled,
     ((⟨fun _ => none, Index.Tier.init⟩ : AStore).insert
      (List.replicate 26 7, List.replicate 5000 1, false) 1).2.tier.free,
     ((⟨fun _ => none, Index.Tier.init⟩ : AStore).insert
      (List.replicate 26 7, List.replicate 5000 1, false) 1).2.tier.chains) = (3, [], [(1, [2])]) :=
  ⟨by decide, by decide⟩

/-! ## R3: the physical column = Pdb.spec -/

/-- R3, full statement: a plain hash column whose index is the page model and whose value tables
are byte-level `VT`s returns, after every history of sets / removals / reindex batches / enacted
drops / reopens / relaunches from the empty column, the value `Pdb.spec` says.  Left-hand side:
physical models only (`pRun`, `pGet`); right-hand side: `Pdb.spec`. -/
def R3_composed : Prop :=
  ∀ (cmp : ValueTable.Bytes → ValueTable.Bytes) (decomp : ValueTable.Bytes → Option ValueTable.Bytes)
    (thr : Nat) (U : Index.Key → Prop) (cfg : Index.Cfg) (b0 : Nat) (acts : List PAction) (p' : PCol)
    (txs : List (List (Op Index.Key ValueTable.Bytes))) (k : Index.Key),
    (∀ v, decomp (cmp v) = some v) →                              -- A-compress
    PUniv U →                                                      -- A-tail, byte level
    cfg.exact = true → cfg.growOnMove = true → (16 ≤ b0 ∧ b0 ≤ 49) →   -- C09
    (∀ a ∈ acts, PActKeys U a) →
    PAllBounded cmp thr (PCol.init cfg b0) acts →                  -- physical limits
    pRun cmp thr (PCol.init cfg b0) acts = .ok p' →
    acts.flatMap PAction.ops = txs.flatten → U k →
    (pGet decomp p' k).map (fun v => (v, 1)) = spec (fun _ => Kind.plain) txs k

/-- R3, FULL: `R3_composed` holds - for every history, whatever tiers `tierFor` selects, values
stored as chains in the multipart tier 255 included.  (`PActKeys`: keys in `U`, nothing about the
values.)  The proof is the forward simulation `sim_run` of the physical column by the index model
of C09 (whose allocator takes a head slot and `parts - 1` continuation slots and releases whole
chains), R2 for chains (`RepL`), and R1. -/
theorem R3_composed_full : R3_composed := by
  intro cmp decomp thr U cfg b0 acts p' txs k hA hU hex hgrow hbits hkeys hb hrun hops hk
  have := run_abs decomp hA hU acts _ _ p' _ (init_sim cmp thr cfg b0)
    (Index.init_good U cfg b0 hbits.1 hbits.2) hex hgrow hkeys
    (init_pbounded cfg b0 hbits.2) hb hrun k hk
  have e0 : pAbs decomp (PCol.init cfg b0) k = none := by
    rw [pAbs_eq decomp hA (init_sim cmp thr cfg b0) hU
      (Index.init_good U cfg b0 hbits.1 hbits.2) k hk]
    rfl
  simp only [pAbs] at this
  rw [this, hops, spec]
  exact applyOps_congr_key _ _ _ _ k e0

/-- R3 with the hypotheses bundled (`PRunHypFull`) -/
theorem R3_composed_full' (cmp : ValueTable.Bytes → ValueTable.Bytes)
    (decomp : ValueTable.Bytes → Option ValueTable.Bytes) (thr : Nat) (U : Index.Key → Prop)
    (cfg : Index.Cfg) (b0 : Nat) (acts : List PAction)
    (hA : ∀ v, decomp (cmp v) = some v)
    (h : PRunHypFull cmp thr U cfg b0 acts) (p' : PCol)
    (hrun : pRun cmp thr (PCol.init cfg b0) acts = .ok p')
    (txs : List (List (Op Index.Key ValueTable.Bytes)))
    (hops : acts.flatMap PAction.ops = txs.flatten) (k : Index.Key) (hk : U k) :
    (pGet decomp p' k).map (fun v => (v, 1)) = spec (fun _ => Kind.plain) txs k :=
  R3_composed_full cmp decomp thr U cfg b0 acts p' txs k hA h.univ h.exact h.grow h.bits h.keys
    h.bounded hrun hops hk

/-- R3, the former partial theorem: the same statement with the extra hypothesis, inside
`PRunHyp.actsOK`, that every value of the history is stored in a single-slot tier
(`tierFor .. < 255`).  Now a corollary of `R3_composed_full`. -/
theorem R3_composed_partial (cmp : ValueTable.Bytes → ValueTable.Bytes)
    (decomp : ValueTable.Bytes → Option ValueTable.Bytes) (thr : Nat) (U : Index.Key → Prop)
    (cfg : Index.Cfg) (b0 : Nat) (acts : List PAction)
    (hA : ∀ v, decomp (cmp v) = some v)
    (h : PRunHyp cmp thr U cfg b0 acts) (p' : PCol)
    (hrun : pRun cmp thr (PCol.init cfg b0) acts = .ok p')
    (txs : List (List (Op Index.Key ValueTable.Bytes)))
    (hops : acts.flatMap PAction.ops = txs.flatten) (k : Index.Key) (hk : U k) :
    (pGet decomp p' k).map (fun v => (v, 1)) = spec (fun _ => Kind.plain) txs k :=
  R3_composed_full' cmp decomp thr U cfg b0 acts hA h.full p' hrun txs hops k hk

/-- the physical run of R3 never panics, never fails in a value table and is, step by step, the
mirrored run of the index model (so every C09 / C14 invariant holds of the state it represents);
all histories, multipart values included -/
theorem R3_simulation_full (cmp : ValueTable.Bytes → ValueTable.Bytes) (thr : Nat)
    (U : Index.Key → Prop) (cfg : Index.Cfg) (b0 : Nat) (acts : List PAction)
    (h : PRunHypFull cmp thr U cfg b0 acts) (p' : PCol)
    (hrun : pRun cmp thr (PCol.init cfg b0) acts = .ok p') :
    ∃ s' m, Index.runA (Index.Col.init cfg b0) (acts.map (mirror cmp thr)) = .ok s' ∧
      Sim cmp thr p' s' ∧ Index.IdxInv U s' ∧ Index.SlotInv s' ∧ Index.Abs U s' m := by
  obtain ⟨s', m, h1, h2, _, h4⟩ := reach_sim h p' hrun
  exact ⟨s', m, h4, h1, h2.idx, h2.slots, h2.abs⟩

/-- the same under the hypotheses of the former partial theorem -/
theorem R3_simulation (cmp : ValueTable.Bytes → ValueTable.Bytes) (thr : Nat)
    (U : Index.Key → Prop) (cfg : Index.Cfg) (b0 : Nat) (acts : List PAction)
    (h : PRunHyp cmp thr U cfg b0 acts) (p' : PCol)
    (hrun : pRun cmp thr (PCol.init cfg b0) acts = .ok p') :
    ∃ s' m, Index.runA (Index.Col.init cfg b0) (acts.map (mirror cmp thr)) = .ok s' ∧
      Sim cmp thr p' s' ∧ Index.IdxInv U s' ∧ Index.SlotInv s' ∧ Index.Abs U s' m :=
  R3_simulation_full cmp thr U cfg b0 acts h.full p' hrun

/-! ### R3 / R4: a concrete history of the physical column

Keys: C09's (`exK1`, `exK2` collide on all 50 index-visible bits).  Compressor: shrinks exactly
one value (100 bytes `7` -> `[1]`), satisfies A-compress, threshold 0.  History: three inserts
(4-byte slot tier, a compressed value), a value that moves to a larger tier, a removal, a no-op
reindex batch, a re-launched growth, a re-insert (reuses the freed slot), enact, reopen. -/

def exCmpR (v : ValueTable.Bytes) : ValueTable.Bytes := if v = List.replicate 100 7 then [1] else 0 :: v
def exDecompR (b : ValueTable.Bytes) : Option ValueTable.Bytes :=
  if b = [1] then some (List.replicate 100 7) else some b.tail

theorem exCmpR_ok : ∀ v, exDecompR (exCmpR v) = some v := by
  intro v
  unfold exCmpR exDecompR
  by_cases h : v = List.replicate 100 7
  · rw [if_pos h, if_pos rfl, h]
  · rw [if_neg h, if_neg (by simp)]; rfl

def exHist : List PAction :=
  [.set Index.exK1 [1, 2, 3], .set Index.exK2 [4], .set Index.exK3 (List.replicate 100 7),
   .set Index.exK1 (List.replicate 20 5), .del Index.exK2, .reindex]
def exTx : List PAction := [.relaunch, .set Index.exK2 [9, 9], .del Index.exK3, .enact, .reopen]

def exPMid : PCol :=
  (pRunChecked exCmpR 0 (PCol.init ⟨true, true, false⟩ 16) exHist).getD (PCol.init ⟨true, true, false⟩ 16)
def exPFinal : PCol :=
  (pRunChecked exCmpR 0 (PCol.init ⟨true, true, false⟩ 16) (exHist ++ exTx)).getD (PCol.init ⟨true, true, false⟩ 16)

theorem exPRun1 : pRunChecked exCmpR 0 (PCol.init ⟨true, true, false⟩ 16) exHist = some exPMid := by
  have : (pRunChecked exCmpR 0 (PCol.init ⟨true, true, false⟩ 16) exHist).isSome = true := by decide +kernel
  unfold exPMid
  cases h : pRunChecked exCmpR 0 (PCol.init ⟨true, true, false⟩ 16) exHist with
  | none => rw [h] at this; cases this
  | some s => rfl

theorem exPRun : pRunChecked exCmpR 0 (PCol.init ⟨true, true, false⟩ 16) (exHist ++ exTx) = some exPFinal := by
  have : (pRunChecked exCmpR 0 (PCol.init ⟨true, true, false⟩ 16) (exHist ++ exTx)).isSome = true := by
    decide +kernel
  unfold exPFinal
  cases h : pRunChecked exCmpR 0 (PCol.init ⟨true, true, false⟩ 16) (exHist ++ exTx) with
  | none => rw [h] at this; cases this
  | some s => rfl

theorem exPUniv : PUniv Index.exU :=
  ⟨Index.exU_univ, fun k hk => by rcases hk with h | h | h <;> subst h <;> decide⟩

set_option maxRecDepth 100000 in
theorem exPActs_ok : ∀ a ∈ exHist ++ exTx, PActOK exCmpR 0 Index.exU a := by
  intro a ha
  simp only [exHist, exTx, List.cons_append, List.nil_append, List.mem_cons, List.mem_nil_iff,
    or_false] at ha
  rcases ha with h | h | h | h | h | h | h | h | h | h | h <;> subst h <;>
    first
    | trivial
    | exact Or.inl rfl
    | exact Or.inr (Or.inl rfl)
    | exact Or.inr (Or.inr rfl)
    | exact ⟨Or.inl rfl, by decide⟩
    | exact ⟨Or.inr (Or.inl rfl), by decide⟩
    | exact ⟨Or.inr (Or.inr rfl), by decide⟩

theorem exPHyp : PRunHyp exCmpR 0 Index.exU ⟨true, true, false⟩ 16 (exHist ++ exTx) :=
  ⟨exPUniv, rfl, rfl, ⟨by decide, by decide⟩, exPActs_ok, (pRunChecked_sound _ _ _ _ _ exPRun).2⟩

def exPTxs : List (List (Op Index.Key ValueTable.Bytes)) :=
  [[.set Index.exK1 [1, 2, 3], .set Index.exK2 [4]],
   [.set Index.exK3 (List.replicate 100 7), .set Index.exK1 (List.replicate 20 5), .deref Index.exK2],
   [.set Index.exK2 [9, 9], .deref Index.exK3]]

example := R3_composed_partial exCmpR exDecompR 0 Index.exU _ 16 _ exCmpR_ok exPHyp exPFinal
  (pRunChecked_sound _ _ _ _ _ exPRun).1 exPTxs rfl
/- what the bytes return (evaluated on the physical model) and what `spec` says -/
example : pGet exDecompR exPFinal Index.exK1 = some (List.replicate 20 5) ∧
    pGet exDecompR exPFinal Index.exK2 = some [9, 9] ∧ pGet exDecompR exPFinal Index.exK3 = none := by
  decide +kernel
example : spec (fun _ => Kind.plain) exPTxs Index.exK1 = some (List.replicate 20 5, 1) ∧
    spec (fun _ => Kind.plain) exPTxs Index.exK2 = some ([9, 9], 1) ∧
    spec (fun _ => Kind.plain) exPTxs Index.exK3 = none := by decide
/- the history is not trivial: two tiers in use, the compressed flag set, the freed slot reused,
the index grown to 17 bits with the old table still queued -/
example : (ValueTable.tierFor exCmpR 0 false (tkey Index.exK1) [1, 2, 3]).2 = 0 ∧
    (ValueTable.tierFor exCmpR 0 false (tkey Index.exK1) (List.replicate 20 5)).2 = 15 ∧
    (ValueTable.tierFor exCmpR 0 false (tkey Index.exK3) (List.replicate 100 7)) = (([1], true), 0) ∧
    exPFinal.current.bits = 17 ∧ exPFinal.older.length = 1 ∧ (exPFinal.vt 0).filled = 4 ∧
    (exPFinal.vt 15).filled = 2 := by decide +kernel
example := R3_simulation exCmpR 0 Index.exU _ 16 _ exPHyp exPFinal (pRunChecked_sound _ _ _ _ _ exPRun).1


/-! ## R4: a logical record and the physical writes of its transaction -/

/-- R4.  In any state `p` the physical column reaches (history `hist` from the empty column),
planning and enacting the physical writes of one more transaction (`txActs`: its sets / removals,
with whatever maintenance in between) gives a state whose abstraction is `applyRec` of P1's
logical record `planRec` of the transaction, applied to the abstraction of `p`.  Hence P1's
theorems about records (overlay = newest image, idempotent replay, crash prefixes of RECORDS)
speak about physical states at record boundaries.  All histories (multipart values included). -/
theorem R4_record_refines_full (cmp : ValueTable.Bytes → ValueTable.Bytes)
    (decomp : ValueTable.Bytes → Option ValueTable.Bytes) (thr : Nat) (U : Index.Key → Prop)
    (cfg : Index.Cfg) (b0 : Nat) (hist txActs : List PAction)
    (hA : ∀ v, decomp (cmp v) = some v)
    (h : PRunHypFull cmp thr U cfg b0 (hist ++ txActs)) (p p' : PCol)
    (hrun1 : pRun cmp thr (PCol.init cfg b0) hist = .ok p)
    (hrun2 : pRun cmp thr p txActs = .ok p') (k : Index.Key) (hk : U k) :
    pAbs decomp p' k =
      applyRec (pAbs decomp p)
        (planRec (fun _ => Kind.plain) (pAbs decomp p) (txActs.flatMap PAction.ops)) k := by
  obtain ⟨hb1, hb2, hb3⟩ := pAllBounded_append cmp thr hist txActs _ p h.bounded hrun1
  have h1 : PRunHypFull cmp thr U cfg b0 hist :=
    ⟨h.univ, h.exact, h.grow, h.bits, fun a ha => h.keys a (List.mem_append_left _ ha), hb1⟩
  obtain ⟨s, m, hS, hG, hc, _⟩ := reach_sim h1 p hrun1
  rw [planRec_apply]
  exact run_abs decomp hA h.univ txActs p s p' m hS hG (by rw [hc]; exact h.exact)
    (by rw [hc]; exact h.grow) (fun a ha => h.keys a (List.mem_append_right _ ha))
    (hb3 (init_pbounded cfg b0 h.bits.2)) hb2 hrun2 k hk

/-- R4 under the hypotheses of the former partial theorem (single-slot tiers). -/
theorem R4_record_refines (cmp : ValueTable.Bytes → ValueTable.Bytes)
    (decomp : ValueTable.Bytes → Option ValueTable.Bytes) (thr : Nat) (U : Index.Key → Prop)
    (cfg : Index.Cfg) (b0 : Nat) (hist txActs : List PAction)
    (hA : ∀ v, decomp (cmp v) = some v)
    (h : PRunHyp cmp thr U cfg b0 (hist ++ txActs)) (p p' : PCol)
    (hrun1 : pRun cmp thr (PCol.init cfg b0) hist = .ok p)
    (hrun2 : pRun cmp thr p txActs = .ok p') (k : Index.Key) (hk : U k) :
    pAbs decomp p' k =
      applyRec (pAbs decomp p)
        (planRec (fun _ => Kind.plain) (pAbs decomp p) (txActs.flatMap PAction.ops)) k :=
  R4_record_refines_full cmp decomp thr U cfg b0 hist txActs hA h.full p p' hrun1 hrun2 k hk

/-- R4 at the index layer (no restriction on tiers: this is C09's model). -/
theorem R4_record_refines_index {U : Index.Key → Prop} {s s' : Index.Col}
    {m : Index.Key → Option Index.Val} (hU : Index.Univ U) (hG : Index.Good U s m)
    (hex : s.cfg.exact = true) (hgrow : s.cfg.growOnMove = true)
    (tx : List (Op Index.Key Index.Val)) (acts : List Index.Action) (himpl : Implements tx acts)
    (hact : ∀ a ∈ acts, Index.ActOK U a) (hb : Index.AllBounded s acts)
    (hrun : Index.runA s acts = .ok s') (k : Index.Key) (hk : U k) :
    absCol s' k = applyRec (absCol s) (planRec (fun _ => Kind.plain) (absCol s) tx) k := by
  have hG' := Index.runA_ok hU acts s s' m hG hex hgrow hact hb hrun
  rw [planRec_apply]
  have e1 : absCol s' k = liftMap (Index.spec m acts) k := by
    simp only [absCol, liftMap, Index.lookup_eq hU hG'.idx hG'.abs k hk]
  have e2 : absCol s k = liftMap m k := by
    simp only [absCol, liftMap, Index.lookup_eq hU hG.idx hG.abs k hk]
  rw [e1, spec_implements himpl m]
  exact applyOps_congr_key _ _ _ _ k e2.symm

/- R4: `exTx` as one more transaction after `exHist` -/
theorem exPRun2 : pRun exCmpR 0 exPMid exTx = .ok exPFinal := by
  obtain ⟨p1, h1, h2⟩ := pRun_append exCmpR 0 exHist exTx _ _ (pRunChecked_sound _ _ _ _ _ exPRun).1
  have e := (pRunChecked_sound _ _ _ _ _ exPRun1).1
  have e2 : PRes.ok p1 = PRes.ok exPMid := h1.symm.trans e
  have e3 : p1 = exPMid := PRes.ok.inj e2
  rw [← e3]; exact h2

example := R4_record_refines exCmpR exDecompR 0 Index.exU _ 16 exHist exTx exCmpR_ok exPHyp exPMid
  exPFinal (pRunChecked_sound _ _ _ _ _ exPRun1).1 exPRun2
example : planRec (fun _ => Kind.plain) (pAbs exDecompR exPMid) (exTx.flatMap PAction.ops) =
    [(Index.exK2, some ([9, 9], 1)), (Index.exK3, none)] := by decide +kernel
example : pAbs exDecompR exPMid Index.exK3 = some (List.replicate 100 7, 1) ∧
    pAbs exDecompR exPFinal Index.exK3 = none := by decide +kernel

/- R4 at the index layer: the last transaction of C09's history (`.set exK2 3 0 "b2"`, then enact
and reopen) from the state reached by the first six actions -/
def exIMid : Index.Col :=
  (Index.runChecked (Index.Col.init ⟨true, true, false⟩ 16) (Index.exActs.take 6)).getD
    (Index.Col.init ⟨true, true, false⟩ 16)
def exIFin : Index.Col := (Index.runChecked exIMid (Index.exActs.drop 6)).getD exIMid

theorem exIRun1 :
    Index.runChecked (Index.Col.init ⟨true, true, false⟩ 16) (Index.exActs.take 6) = some exIMid := by
  have : (Index.runChecked (Index.Col.init ⟨true, true, false⟩ 16) (Index.exActs.take 6)).isSome = true := by
    decide +kernel
  unfold exIMid
  cases h : Index.runChecked (Index.Col.init ⟨true, true, false⟩ 16) (Index.exActs.take 6) with
  | none => rw [h] at this; cases this
  | some s => rfl

theorem exIRun2 : Index.runChecked exIMid (Index.exActs.drop 6) = some exIFin := by
  have : (Index.runChecked exIMid (Index.exActs.drop 6)).isSome = true := by decide +kernel
  unfold exIFin
  cases h : Index.runChecked exIMid (Index.exActs.drop 6) with
  | none => rw [h] at this; cases this
  | some s => rfl

theorem exIGood : Index.Good Index.exU exIMid (Index.spec (fun _ => none) (Index.exActs.take 6)) :=
  Index.runA_ok Index.exU_univ _ _ exIMid _ (Index.init_good Index.exU _ 16 (by decide) (by decide))
    rfl rfl (fun a ha => Index.exActs_ok a (List.mem_of_mem_take ha))
    (Index.runChecked_sound _ _ _ exIRun1).2 (Index.runChecked_sound _ _ _ exIRun1).1

example := R4_record_refines_index Index.exU_univ exIGood (by decide +kernel) (by decide +kernel)
  [.set Index.exK2 "b2"] (Index.exActs.drop 6) (.set _ 3 0 _ (.enact (.reopen .nil)))
  (fun a ha => Index.exActs_ok a (List.mem_of_mem_drop ha))
  (Index.runChecked_sound _ _ _ exIRun2).2 (Index.runChecked_sound _ _ _ exIRun2).1 Index.exK2
  (Or.inr (Or.inl rfl))
example : absCol exIMid Index.exK2 = none ∧ absCol exIFin Index.exK2 = some ("b2", 1) := by
  decide +kernel

/-! ## the gap `R3_composed_partial` left, and how it was closed

`R3_gap` = exactly the histories in which some value goes to the multipart tier 255.  What was
needed, and where it is now:
  (M1) an index model whose allocator takes `parts` slots for a chain and whose `release` returns
       the whole chain: `Index.Col.alloc` (head slot) + `Index.Col.resize` / `Tier.resize`
       (continuation slots, `Tier.chains`) + `Index.Col.release` (Pdb/Model/Index.lean); C09 / C14
       re-proved for it (`SlotInv` with `Col.dead` = free list ++ continuation slots,
       Pdb/Proofs/C09Slots.lean, C09Write.lean); the compiled model agrees with the real tables on
       fill mark and free-list length of tier 255 (harness `c09`);
  (M2) `RepL` for chains (cells at head slots only; live = list of chains), its three operations
       (Pdb/Proofs/Refine2.lean, Refine4.lean);
  (M3) the frame "slots outside the written / cleared chains are untouched" for every table
       (`writeChain_struct`, `removePlan_frame`) and "the parts after the head are not chain
       heads" (`Written_tail_plain`), so that `absVT` at stale index entries is `none`. -/

/-- `R3_composed` restricted to histories with at least one value in the multipart tier -/
def R3_gap : Prop :=
  ∀ (cmp : ValueTable.Bytes → ValueTable.Bytes) (decomp : ValueTable.Bytes → Option ValueTable.Bytes)
    (thr : Nat) (U : Index.Key → Prop) (cfg : Index.Cfg) (b0 : Nat) (acts : List PAction) (p' : PCol)
    (txs : List (List (Op Index.Key ValueTable.Bytes))) (k : Index.Key),
    (¬ ∀ a ∈ acts, PActOK cmp thr U a) →
    (∀ v, decomp (cmp v) = some v) → PUniv U →
    cfg.exact = true → cfg.growOnMove = true → (16 ≤ b0 ∧ b0 ≤ 49) →
    (∀ a ∈ acts, PActKeys U a) →
    PAllBounded cmp thr (PCol.init cfg b0) acts →
    pRun cmp thr (PCol.init cfg b0) acts = .ok p' →
    acts.flatMap PAction.ops = txs.flatten → U k →
    (pGet decomp p' k).map (fun v => (v, 1)) = spec (fun _ => Kind.plain) txs k

/-- the gap is closed -/
theorem R3_gap_closed : R3_gap :=
  fun cmp decomp thr U cfg b0 acts p' txs k _ hA hU hex hgrow hbits hkeys hb hrun hops hk =>
    R3_composed_full cmp decomp thr U cfg b0 acts p' txs k hA hU hex hgrow hbits hkeys hb hrun hops hk

/-- the partial theorem covers everything else -/
theorem R3_composed_of_gap (hgap : R3_gap) : R3_composed := by
  intro cmp decomp thr U cfg b0 acts p' txs k hA hU hex hgrow hbits hkeys hb hrun hops hk
  by_cases hall : ∀ a ∈ acts, PActOK cmp thr U a
  · exact R3_composed_partial cmp decomp thr U cfg b0 acts hA ⟨hU, hex, hgrow, hbits, hall, hb⟩ p'
      hrun txs hops k hk
  · exact hgap cmp decomp thr U cfg b0 acts p' txs k hall hA hU hex hgrow hbits hkeys hb hrun hops hk

/-! ### non-vacuity of the full theorem: a history with values in the multipart tier 255

A 40000-byte value (a chain of 10 parts, slots 1..10 of the multipart table) and a one-slot
value; the big value replaced IN PLACE by a 33000-byte one (9 parts: the tenth slot is freed);
the small value removed; enact, reopen. -/

/- the values are sent to tier 255 -/
set_option maxRecDepth 100000 in
example : (ValueTable.tierFor exCmpR 0 false (tkey Index.exK1) (List.replicate 40000 3)).2 = 255 ∧
    (ValueTable.tierFor exCmpR 0 false (tkey Index.exK1) (List.replicate 33000 5)).2 = 255 := by
  decide +kernel

def exHistM : List PAction :=
  [.set Index.exK1 (List.replicate 40000 3), .set Index.exK2 [4],
   .set Index.exK1 (List.replicate 33000 5), .del Index.exK2, .enact, .reopen]

def exPFinalM : PCol :=
  (pRunChecked exCmpR 0 (PCol.init ⟨true, true, false⟩ 16) exHistM).getD (PCol.init ⟨true, true, false⟩ 16)

set_option maxRecDepth 1000000 in
theorem exPRunM : pRunChecked exCmpR 0 (PCol.init ⟨true, true, false⟩ 16) exHistM = some exPFinalM := by
  have : (pRunChecked exCmpR 0 (PCol.init ⟨true, true, false⟩ 16) exHistM).isSome = true := by decide +kernel
  unfold exPFinalM
  cases h : pRunChecked exCmpR 0 (PCol.init ⟨true, true, false⟩ 16) exHistM with
  | none => rw [h] at this; cases this
  | some s => rfl

theorem exPKeysM : ∀ a ∈ exHistM, PActKeys Index.exU a := by
  intro a ha
  unfold exHistM at ha
  rcases List.mem_cons.1 ha with h | ha
  · subst h; exact Or.inl rfl
  rcases List.mem_cons.1 ha with h | ha
  · subst h; exact Or.inr (Or.inl rfl)
  rcases List.mem_cons.1 ha with h | ha
  · subst h; exact Or.inl rfl
  rcases List.mem_cons.1 ha with h | ha
  · subst h; exact Or.inr (Or.inl rfl)
  rcases List.mem_cons.1 ha with h | ha
  · subst h; trivial
  rcases List.mem_cons.1 ha with h | ha
  · subst h; trivial
  · cases ha

theorem exPHypM : PRunHypFull exCmpR 0 Index.exU ⟨true, true, false⟩ 16 exHistM :=
  ⟨exPUniv, rfl, rfl, ⟨by decide, by decide⟩, exPKeysM, (pRunChecked_sound _ _ _ _ _ exPRunM).2⟩

def exPTxsM : List (List (Op Index.Key ValueTable.Bytes)) :=
  [[.set Index.exK1 (List.replicate 40000 3), .set Index.exK2 [4]],
   [.set Index.exK1 (List.replicate 33000 5), .deref Index.exK2]]

/- the hypotheses of `R3_composed` hold of this history ... -/
example := R3_composed_full exCmpR exDecompR 0 Index.exU _ 16 exHistM exPFinalM exPTxsM Index.exK1
  exCmpR_ok exPUniv rfl rfl ⟨by decide, by decide⟩ exPKeysM (pRunChecked_sound _ _ _ _ _ exPRunM).2
  (pRunChecked_sound _ _ _ _ _ exPRunM).1 rfl (Or.inl rfl)
example := R3_simulation_full exCmpR 0 Index.exU _ 16 _ exPHypM exPFinalM (pRunChecked_sound _ _ _ _ _ exPRunM).1
/- ... it is one of the histories of `R3_gap` (not covered by the former partial theorem) ... -/
set_option maxRecDepth 100000 in
example : ¬ ∀ a ∈ exHistM, PActOK exCmpR 0 Index.exU a := by
  intro h
  have h1 : PActOK exCmpR 0 Index.exU (.set Index.exK1 (List.replicate 40000 3)) :=
    h _ (by unfold exHistM; exact List.Mem.head _)
  have h2 : ¬ (ValueTable.tierFor exCmpR 0 false (tkey Index.exK1) (List.replicate 40000 3)).2 < 255 := by
    decide +kernel
  exact h2 h1.2
/- ... and the conclusion is about a real chain: the bytes return the 33000-byte value (read
through its 9 parts), the multipart table has used 10 slots and the slot freed by the in-place
replacement is the head of its free list -/
set_option maxRecDepth 1000000 in
example : (pGet exDecompR exPFinalM Index.exK1 == some (List.replicate 33000 5) &&
    pGet exDecompR exPFinalM Index.exK2 == none &&
    (exPFinalM.vt 255).filled == 11 && (exPFinalM.vt 255).lastRemoved == 10) = true := by
  decide +kernel

end Pdb

#print axioms Pdb.R1_index_refines_P1
#print axioms Pdb.R1_translation_exists
#print axioms Pdb.R1_step_refines
#print axioms Pdb.R2_valuetable_refines_store
#print axioms Pdb.R2_empty
#print axioms Pdb.R2_chain_heads
#print axioms Pdb.R3_composed_full
#print axioms Pdb.R3_composed_full'
#print axioms Pdb.R3_composed_partial
#print axioms Pdb.R3_simulation_full
#print axioms Pdb.R3_simulation
#print axioms Pdb.R3_gap_closed
#print axioms Pdb.R3_composed_of_gap
#print axioms Pdb.R4_record_refines_full
#print axioms Pdb.R4_record_refines
#print axioms Pdb.R4_record_refines_index
