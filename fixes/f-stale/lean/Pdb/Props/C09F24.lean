/-
C09, finding F28: the full statement of the property is FALSE for key sets inside its quantifier
("adversarial ones that ... share the index-visible hash prefix", no bound of 64).

Input: 65 keys that agree on all 50 index-visible bits (`f65Key`), written once each.  The model
(fixed code) behaves as the real crate does (harness case `directed-class-overflow`, measured on the
crate: index bits 17, 18, 19, .. one more after every `process_reindex` batch, the batch time and
the size of the index file doubling each time):

  * `C09_65_never_settles`  in every state satisfying the invariants in which the 65 keys are live
    the queue of older index tables is non-empty (pigeonhole on the 64 entries of one page): no
    schedule of batches, enactments, restarts and recoveries ever completes the growth;
  * `C09_full_statement_false_65`  for every `n`: after the 65 writes and `n` complete reindex
    passes (`passes R n`: `R` batches, then the enactment of the logged `DropTable`, `n` times;
    `R ≥ 2^49` batches are enough for any table, the real batch of 8192 entries finishes a table
    of 65 entries in one go) every successful run within the physical limits has at least
    `16 + n` index bits, and the queue is still non-empty;
  * `C09_no_total_65`  hence no run with 34 passes is both successful and within the limits
    (`AllBounded`): the conclusion of `C09_run_total` fails for this input, which satisfies every
    hypothesis of `InputOK` except `classes` (`f65_input_but_classes`: the 65 keys are distinct
    and written once each, so all 65 `set`s are index-inserting, `nIns .. = 65 = nSets ..`).

So lookups stay correct for as long as the index can grow (`C09_lookup_latest` applies), but the
growth itself does not terminate: in the model the run leaves the 49-bit envelope, in the crate
the index file doubles until `set_len` / `mmap` fails.
-/
import Pdb.Proofs.C09Pigeon
import Pdb.Props.C09Total

namespace Pdb.Index
open Pdb.Gen Pdb.IndexPage

/-- 65 keys sharing bits 63..14 of the u64 prefix (they differ in the 14 invisible bits and in
the rest of the stored tail) -/
def f65Key (i : Nat) : Key := ⟨(0xABCD <<< 48) ||| (0x123 <<< 14) ||| i, 1 + i⟩
def f65U (k : Key) : Prop := ∃ i, i < 65 ∧ k = f65Key i
def f65Keys : List Key := (List.range 65).map f65Key
def f65Acts : List Action := (List.range 65).map (fun i => Action.set (f65Key i) 0 0 "v")

theorem f65U_univ : Univ f65U := by
  refine ⟨fun k hk => ?_, fun k1 k2 h1 h2 ht => ?_⟩
  · obtain ⟨i, hi, rfl⟩ := hk
    show (0xABCD <<< 48) ||| (0x123 <<< 14) ||| i < 2 ^ 64
    apply Nat.or_lt_two_pow (by decide)
    omega
  · obtain ⟨i, _, rfl⟩ := h1
    obtain ⟨j, _, rfl⟩ := h2
    have : i = j := by
      simp only [f65Key] at ht
      omega
    rw [this]

theorem f65Acts_ok : ∀ a ∈ f65Acts, ActOK f65U a := by
  intro a ha
  simp only [f65Acts, List.mem_map, List.mem_range] at ha
  obtain ⟨i, hi, rfl⟩ := ha
  exact ⟨⟨i, hi, rfl⟩, by decide⟩

theorem f65Keys_class : ∀ k ∈ f65Keys, k.pre >>> 14 = (f65Key 0).pre >>> 14 := by
  intro k hk
  simp only [f65Keys, List.mem_map, List.mem_range] at hk
  obtain ⟨i, hi, rfl⟩ := hk
  have : ∀ i, i < 65 → (f65Key i).pre >>> 14 = (f65Key 0).pre >>> 14 := by decide
  exact this i hi

set_option maxRecDepth 100000 in
theorem f65Keys_nodup : f65Keys.Nodup ∧ f65Keys.length = 65 := by decide +kernel

set_option maxRecDepth 100000 in
theorem f65_live : ∀ i, i < 65 → (spec (fun _ => none) f65Acts (f65Key i)).isSome = true := by
  decide +kernel

/-- the state after the 65 writes (about 15 s of kernel evaluation) -/
def f65State : Col := (runChecked (Col.init ⟨true, true, false⟩ 16) f65Acts).getD (Col.init ⟨true, true, false⟩ 16)

set_option maxRecDepth 100000 in
theorem f65Run : (runChecked (Col.init ⟨true, true, false⟩ 16) f65Acts).map (fun s => (s.progress, s.cfg)) =
    some (0, ⟨true, true, false⟩) := by
  decide +kernel

theorem f65Run' : runChecked (Col.init ⟨true, true, false⟩ 16) f65Acts = some f65State := by
  unfold f65State
  cases h : runChecked (Col.init ⟨true, true, false⟩ 16) f65Acts with
  | none => have := f65Run; rw [h] at this; cases this
  | some s => rfl

theorem f65State_pass : PassInv f65U f65State (spec (fun _ => none) f65Acts) ∧ LB f65State 16 := by
  have hr := runChecked_sound _ _ _ f65Run'
  have hG : Good f65U f65State (spec (fun _ => none) f65Acts) :=
    runA_ok f65U_univ f65Acts _ f65State _ (init_good f65U _ 16 (by decide) (by decide)) rfl rfl
      f65Acts_ok hr.2 hr.1
  have hpc : f65State.progress = 0 ∧ f65State.cfg = ⟨true, true, false⟩ := by
    have := f65Run
    rw [f65Run'] at this
    simp only [Option.map_some, Option.some.injEq, Prod.mk.injEq] at this
    exact this
  refine ⟨⟨hG, by rw [hpc.2], by rw [hpc.2], fun t0 rest _ => by rw [hpc.1]; exact Nat.zero_le _⟩, ?_⟩
  intro t ht
  have hwf : TableWF t := by
    apply hG.idx.wf t
    rcases List.mem_append.1 ht with h | h
    · simp [Col.tables, h]
    · have : t = f65State.current := by simpa using h
      simp [Col.tables, this]
  exact hwf.lo

theorem f65_hlive : ∀ k ∈ f65Keys, f65U k ∧ (spec (fun _ => none) f65Acts k).isSome = true := by
  intro k hk
  simp only [f65Keys, List.mem_map, List.mem_range] at hk
  obtain ⟨i, hi, rfl⟩ := hk
  exact ⟨⟨i, hi, rfl⟩, f65_live i hi⟩

/-- With the 65 keys live the growth never completes, whatever the history was. -/
theorem C09_65_never_settles {U : Key → Prop} {s : Col} {m : Key → Option Val} (hU : Univ U)
    (hG : Good U s m) (ks : List Key) (hnd : ks.Nodup) (hlen : 65 ≤ ks.length)
    (hlive : ∀ k ∈ ks, U k ∧ (m k).isSome = true) (c50 : Nat)
    (hcls : ∀ k ∈ ks, k.pre >>> 14 = c50) : s.older ≠ [] :=
  never_settles hU hG ks hnd hlen hlive c50 hcls

/-- After the 65 writes and `n` complete reindex passes the index has at least `16 + n` bits, and
another table is already queued. -/
theorem C09_full_statement_false_65 (R : Nat) (hR : 2 ^ 49 ≤ R) (n : Nat) (s' : Col)
    (hrun : runA (Col.init ⟨true, true, false⟩ 16) (f65Acts ++ passes R n) = .ok s')
    (hb : AllBounded (Col.init ⟨true, true, false⟩ 16) (f65Acts ++ passes R n)) :
    16 + n ≤ s'.current.bits ∧ s'.older ≠ [] := by
  rw [runA_append] at hrun
  obtain ⟨s1, h1, h2⟩ := Res.bind_ok hrun
  have hs1 : s1 = f65State := by
    have := (runChecked_sound _ _ _ f65Run').1
    rw [this] at h1
    injection h1 with h1; exact h1.symm
  subst hs1
  obtain ⟨_, hb2⟩ := AllBounded_append _ _ _ hb
  obtain ⟨hP, hLB⟩ := f65State_pass
  obtain ⟨_, hLB', hne⟩ := passes_bits f65U_univ R hR f65Keys f65Keys_nodup.1
    (by rw [f65Keys_nodup.2]; exact Nat.le_refl _) f65_hlive _ f65Keys_class n f65State s' 16 hP hLB h2
    (hb2 _ (runChecked_sound _ _ _ f65Run').1)
  exact ⟨hLB' s'.current (by simp), hne⟩

/-- Under the property's own quantifier the run theorems' hypotheses cannot be met: for the
65-key input no run with 34 reindex passes is successful AND within the physical limits. -/
theorem C09_no_total_65 (R : Nat) (hR : 2 ^ 49 ≤ R) :
    ¬ ∃ s', runA (Col.init ⟨true, true, false⟩ 16) (f65Acts ++ passes R 34) = .ok s' ∧
      AllBounded (Col.init ⟨true, true, false⟩ 16) (f65Acts ++ passes R 34) := by
  rintro ⟨s', hrun, hb⟩
  have h1 := (C09_full_statement_false_65 R hR 34 s' hrun hb).1
  -- the last state of a bounded run has at most 49 bits
  have hB : Bounded s' := by
    have key : ∀ (acts : List Action) (s : Col), Bounded s → AllBounded s acts →
        ∀ s', runA s acts = .ok s' → Bounded s' := by
      intro acts
      induction acts with
      | nil => intro s hs _ s' h; simp only [runA] at h; injection h with h; subst h; exact hs
      | cons a as ih =>
        intro s _ hb s' h
        simp only [runA] at h
        obtain ⟨s1, h1, h2⟩ := Res.bind_ok h
        exact ih s1 (hb s1 h1).1 (hb s1 h1).2 s' h2
    refine key _ _ ⟨by decide, fun tier _ => ?_⟩ hb s' hrun
    have : (Col.init ⟨true, true, false⟩ 16).tier tier = Tier.init := rfl
    rw [this]; decide
  have := hB.bits
  omega

/-- the 65-key input satisfies every input hypothesis except the class bound: 65 distinct keys of
one 49-bit class written once each are 65 index-inserting `set`s (`nIns`, the count of
`InputOK.classes`), which here is also the number of all `set`s of the class (`nSets`) -/
theorem f65_input_but_classes :
    Univ f65U ∧ (∀ a ∈ f65Acts, ActOK f65U a) ∧ nSlots f65Acts + 1 ≤ 2 ^ (49 + 6) ∧
      nRelaunch f65Acts = 0 ∧ nIns 49 ((f65Key 0).pre >>> 15) (fun _ => none) f65Acts = 65 ∧
      nSets 49 ((f65Key 0).pre >>> 15) f65Acts = 65 := by
  refine ⟨f65U_univ, f65Acts_ok, ?_, ?_, ?_, ?_⟩ <;> (set_option maxRecDepth 100000 in decide +kernel)

/-! ## finding F29: two keys with the same stored tail (assumption A-tail violated)

`twK1` and `twK2` differ only in bytes 0..5 of the hashed key (here: in the u64 prefix, the 26-byte
tail is the same).  `twK1` and 63 other keys fill one 16-bit page, a 65th key starts the growth,
`twK1` is overwritten with a value of another size tier while it lives in the old table (its old
entry stays there, the slot is freed), `twK2` is written and takes that slot, `twK1` is removed.
Then `get twK1` finds the stale entry in the old table, the slot holds the tail it looks for, and
it returns the value of `twK2`; removing `twK1` once more frees the slot of `twK2`.  The model is
the code with the fixes `exact` and `growOnMove` but WITHOUT fix-c09-stale-index-entries
(`cfg.purge = false`); the real crate without that fix does the same (harness case
`directed-twin-tail`).  With `cfg.purge = true` the move of `twK1` takes its old entry along and
nothing is misattributed: `C09_twin_fixed` in Pdb/Props/C09Stale.lean. -/

def twK1 : Key := ⟨(0x1234 <<< 48) ||| (0x5555 <<< 16) ||| 0x1abc, 7⟩
def twK2 : Key := ⟨(0x9999 <<< 48) ||| (0x7777 <<< 16) ||| 0x1abc, 7⟩
def twFill (i : Nat) : Key := ⟨(0x1234 <<< 48) ||| ((i + 1) <<< 41), 100 + i⟩
def twTrigger : Key := ⟨(0x1234 <<< 48) ||| (1 <<< 47) ||| (1 <<< 30), 999⟩
def twActs : List Action :=
  Action.set twK1 0 0 "v1" :: (List.range 63).map (fun i => Action.set (twFill i) 0 0 "f") ++
    [Action.set twTrigger 0 0 "t", Action.set twK1 5 0 "big", Action.set twK2 0 0 "v2", Action.del twK1]

set_option maxRecDepth 100000 in
/-- (about 15 s of kernel evaluation) -/
theorem twRun :
    (runChecked (Col.init ⟨true, true, false⟩ 16) twActs).bind (fun s1 =>
      (runChecked s1 [Action.del twK1]).map (fun s2 => (lookup s1 twK1, lookup s1 twK2, lookup s2 twK2))) =
    some (some "v2", some "v2", none) := by
  decide +kernel

/-- The full statement without A-tail is false: after the history `twActs` (all keys have u64
prefixes, `twK1 ≠ twK2`) the removed key `twK1` reads the value of `twK2`; one more removal of
`twK1` makes `twK2` unreadable although the abstract map still holds it. -/
theorem C09_full_statement_false_twin :
    twK1 ≠ twK2 ∧ twK1.tail = twK2.tail ∧
    ∃ s1 s2, runA (Col.init ⟨true, true, false⟩ 16) twActs = .ok s1 ∧
      AllBounded (Col.init ⟨true, true, false⟩ 16) twActs ∧ runA s1 [Action.del twK1] = .ok s2 ∧
      spec (fun _ => none) twActs twK1 = none ∧ lookup s1 twK1 = some "v2" ∧
      spec (fun _ => none) (twActs ++ [Action.del twK1]) twK2 = some "v2" ∧ lookup s2 twK2 = none := by
  refine ⟨by decide, rfl, ?_⟩
  have h := twRun
  cases h1 : runChecked (Col.init ⟨true, true, false⟩ 16) twActs with
  | none => rw [h1] at h; cases h
  | some s1 =>
    rw [h1] at h
    simp only [Option.bind_some] at h
    cases h2 : runChecked s1 [Action.del twK1] with
    | none => rw [h2] at h; cases h
    | some s2 =>
      rw [h2] at h
      simp only [Option.map_some, Option.some.injEq, Prod.mk.injEq] at h
      obtain ⟨e1, _, e3⟩ := h
      have r1 := runChecked_sound _ _ _ h1
      have r2 := runChecked_sound _ _ _ h2
      refine ⟨s1, s2, r1.1, r1.2, r2.1, ?_, e1, ?_, e3⟩
      · set_option maxRecDepth 100000 in decide +kernel
      · set_option maxRecDepth 100000 in decide +kernel

end Pdb.Index

#print axioms Pdb.Index.C09_full_statement_false_twin
#print axioms Pdb.Index.C09_65_never_settles
#print axioms Pdb.Index.C09_full_statement_false_65
#print axioms Pdb.Index.C09_no_total_65
#print axioms Pdb.Index.f65_input_but_classes
