/-
C09 / C14, the missing half of the run theorems: TOTALITY from hypotheses on the INPUT only.

The run theorems of Pdb/Props/C09.lean and Pdb/Props/C14.lean are conditional on the model's own
trajectory (`hrun : runA .. = .ok s'`, `RunHyp.bounded : AllBounded ..`).  Here both are DERIVED
from a condition on the action list alone (`InputOK`), so the property theorems can be restated
without any hypothesis about intermediate model states (`.._total`).

`InputOK U cfg K b0 acts`  (`K` = a number of index bits, 16 ≤ b0 ≤ K ≤ 49, chosen by the reader):
    univ      Univ U                        u64 prefixes, distinct 26-byte tails (A-tail)
    exact / grow                            the fixed code (as in `RunHyp`)
    actsOK    keys of the actions lie in U, size tiers < 256
    room      K + #relaunch ≤ 49            (a relaunch is a growth forced by recovery)
    slots     Σ_{set} (ext + 1) + 1 ≤ 2^(K+6)   every slot ever allocated has an offset below
                                            2^(K+6) (K = 49: 2^55), so its address fits an entry
                                            of a table with K index bits
    classes   for every K-bit prefix p at most 64 INDEX-INSERTING `set` operations of the history
              are on keys whose u64 prefix starts with p:  `nIns K p (fun _ => none) acts ≤ 64`.
              A `set k tier ext v` is index-inserting iff, in the specification state reached by
              the actions before it, `k` is absent or holds a value of ANOTHER size tier
              (`write_plan_new`, or the tier move of `write_plan_existing`).  A same-tier overwrite
              of a present key replaces the value in place and writes no index entry: it does not
              count, so a key may be overwritten any number of times.  `nIns` is a function of the
              action list alone: it threads the tier specification `tierStep`
              (Pdb/Proofs/C09Tier.lean: `set k tier ..` ↦ `some tier` at `k`, `del k` ↦ `none` at `k`),
              no model state is involved.

The previous version of this file bounded ALL `set` operations of a class (`nSets`, still defined);
that hypothesis implies the present one (`nIns_le_nSets`, `InputOK_of_old`), so every `_total`
theorem below is at least as strong as before, and strictly stronger: `owActs` is a history with
72 writes of one key, 70 of them same-tier overwrites (plus a tier move, a second key of the same
class, a removal, a reindex batch) that satisfies `InputOK` (`owInput`) and for NO `K` the old
class bound (`owActs_not_old`); `C09_lookup_latest_total` is instantiated on it.

WHY INSERTIONS AND NOT KEYS.  The audit asked for "no class of more than 64 keys of U agrees on
the 50 index-visible bits".  That hypothesis is NOT sufficient, neither in the model nor in the
crate: an index entry whose slot has been freed or reused (left in an older table by a tier move
of its key, `write_plan_existing`: "If it was found in an older index we just insert a new entry")
is copied by every later reindex batch like a live one (`reindex` / `write_reindex_plan` test only
"same partial key and same address already present"), so index entries of one 50-bit class
accumulate: 64 keys of one class, one more key in the same 16-bit page and one overwrite of each
of the 64 with a value of another size tier before the first batch give 128 entries of that class,
and from then on every reindex pass ends in another growth, for ever (reproduced on the real crate:
harness case `directed-stale-class-overflow`, finding F28).  What bounds the entries of a class is
the number of index insertions, i.e. of `set` operations that create or move a value; this is
exactly what `classes` counts.  With K = 49 and distinct keys written once this is "at most 64
keys share the top 49 bits".  REMAINING COARSENESS: a tier move of a key found in the CURRENT table
overwrites its index entry in place (`writeExisting0`, `j = 0`) but is counted like an insertion;
whether the key is found in the current or in an older table depends on the reindex progress,
which is not a function of the specification state.

`C09_run_total` then gives: the run never panics, never runs out of loop fuel (`Res.diverge`),
stays below 50 index bits and 2^56 slots per tier in every state it goes through.  The converse
direction (an input outside `InputOK` for which the run leaves these limits) is
`C09_full_statement_false_65` (65 distinct keys of one 49-bit class written once each: all 65
`set`s are index-inserting, `f65_input_but_classes`).
-/
import Pdb.Proofs.C09Total
import Pdb.Props.C14

namespace Pdb.Index
open Pdb.Gen Pdb.IndexPage

/-- The hypotheses on the INPUT (universe, configuration, action list) from which the run is total.
`classes` counts, per `K`-bit class of key prefixes, the index-inserting `set`s only (`nIns`: the key
is absent or holds a value of another size tier in the specification state before the `set`);
same-tier overwrites are free. -/
structure InputOK (U : Key → Prop) (cfg : Cfg) (K b0 : Nat) (acts : List Action) : Prop where
  univ : Univ U
  exact : cfg.exact = true
  grow : cfg.growOnMove = true
  bits : 16 ≤ b0 ∧ b0 ≤ K
  room : K + nRelaunch acts ≤ 49
  actsOK : ∀ a ∈ acts, ActOK U a
  slots : nSlots acts + 1 ≤ 2 ^ (K + 6)
  classes : ∀ p, nIns K p (fun _ => none) acts ≤ 64

/-- the hypothesis of the previous version (at most 64 `set` operations per class, same-tier
overwrites included) implies the present one: nothing is lost -/
theorem InputOK_of_old (U : Key → Prop) (cfg : Cfg) (K b0 : Nat) (acts : List Action)
    (univ : Univ U) (exact : cfg.exact = true) (grow : cfg.growOnMove = true)
    (bits : 16 ≤ b0 ∧ b0 ≤ K) (room : K + nRelaunch acts ≤ 49) (actsOK : ∀ a ∈ acts, ActOK U a)
    (slots : nSlots acts + 1 ≤ 2 ^ (K + 6)) (classes : ∀ p, nSets K p acts ≤ 64) :
    InputOK U cfg K b0 acts :=
  ⟨univ, exact, grow, bits, room, actsOK, slots,
    fun p => Nat.le_trans (nIns_le_nSets K p acts _) (classes p)⟩

theorem init_totL (cfg : Cfg) (K b0 : Nat) (acts : List Action) (hb : b0 ≤ K)
    (hroom : K + nRelaunch acts ≤ 49) (hslots : nSlots acts + 1 ≤ 2 ^ (K + 6))
    (hcls : ∀ p, nIns K p (fun _ => none) acts ≤ 64) :
    TotL K [] (fun _ => none) (Col.init cfg b0) acts := by
  refine ⟨fun t ht => ?_, fun kp => ?_, fun tier _ => ?_, ?_⟩
  · have : t = Table.new b0 := by simpa [Col.tables, Col.init] using ht
    rw [this]; exact TableLe.new _ _
  · have := hcls (kp >>> (64 - K))
    simpa using this
  · have : (Col.init cfg b0).tier tier = Tier.init := rfl
    rw [this]
    simp only [Tier.init]
    omega
  · show max b0 K + _ ≤ 49
    omega

/-- TOTALITY: from the input hypotheses alone the run succeeds and every state it goes through is
within the physical limits.  (`InputOK.classes` bounds the index-inserting `set`s per class;
same-tier overwrites of a present key are not counted.) -/
theorem C09_run_total (U : Key → Prop) (cfg : Cfg) (K b0 : Nat) (acts : List Action)
    (h : InputOK U cfg K b0 acts) :
    ∃ s', runA (Col.init cfg b0) acts = .ok s' ∧ AllBounded (Col.init cfg b0) acts :=
  runA_total h.univ K (by have := h.bits; omega) (by have := h.room; omega) acts (Col.init cfg b0)
    (fun _ => none) (fun _ => none) []
    (init_good U cfg b0 h.bits.1 (by have := h.bits; have := h.room; omega))
    (TierLink.init U cfg b0)
    h.exact h.grow h.actsOK (init_totL cfg K b0 acts h.bits.2 h.room h.slots h.classes)

/-- the run hypotheses of Pdb/Props/C09.lean follow from the input hypotheses -/
theorem C09_runHyp_of_input (U : Key → Prop) (cfg : Cfg) (K b0 : Nat) (acts : List Action)
    (h : InputOK U cfg K b0 acts) : RunHyp U cfg b0 acts := by
  obtain ⟨_, _, hb⟩ := C09_run_total U cfg K b0 acts h
  exact ⟨h.univ, h.exact, h.grow, ⟨h.bits.1, by have := h.bits; have := h.room; omega⟩, h.actsOK, hb⟩

/-- the insert loop never runs out of fuel -/
theorem C09_no_diverge_total (U : Key → Prop) (cfg : Cfg) (K b0 : Nat) (acts : List Action)
    (h : InputOK U cfg K b0 acts) : runA (Col.init cfg b0) acts ≠ .diverge := by
  obtain ⟨s', hr, _⟩ := C09_run_total U cfg K b0 acts h
  rw [hr]; exact fun e => by cases e

theorem C09_no_panic_total (U : Key → Prop) (cfg : Cfg) (K b0 : Nat) (acts : List Action)
    (h : InputOK U cfg K b0 acts) : runA (Col.init cfg b0) acts ≠ .panic :=
  C09_no_panic U cfg b0 acts (C09_runHyp_of_input U cfg K b0 acts h)

theorem C09_index_inv_preserved_total (U : Key → Prop) (cfg : Cfg) (K b0 : Nat) (acts : List Action)
    (h : InputOK U cfg K b0 acts) :
    ∃ s', runA (Col.init cfg b0) acts = .ok s' ∧
      IdxInv U s' ∧ SlotInv s' ∧ Abs U s' (spec (fun _ => none) acts) := by
  obtain ⟨s', hr, _⟩ := C09_run_total U cfg K b0 acts h
  exact ⟨s', hr, C09_index_inv_preserved U cfg b0 acts (C09_runHyp_of_input U cfg K b0 acts h) s' hr⟩

/-- Every key returns its latest value after any interleaving of commits, reindex batches, drops,
reopens / recoveries and re-launched growths; the final state exists. -/
theorem C09_lookup_latest_total (U : Key → Prop) (cfg : Cfg) (K b0 : Nat) (acts : List Action)
    (h : InputOK U cfg K b0 acts) :
    ∃ s', runA (Col.init cfg b0) acts = .ok s' ∧
      ∀ k, U k → lookup s' k = spec (fun _ => none) acts k := by
  obtain ⟨s', hr, _⟩ := C09_run_total U cfg K b0 acts h
  exact ⟨s', hr, fun k hk =>
    C09_lookup_latest U cfg b0 acts (C09_runHyp_of_input U cfg K b0 acts h) s' hr k hk⟩

theorem C09_collision_individual_total (U : Key → Prop) (cfg : Cfg) (K b0 : Nat) (acts : List Action)
    (k1 k2 : Key) (hk1 : U k1) (hk2 : U k2) (hne : k1 ≠ k2)
    (hsame : k1.pre >>> 14 = k2.pre >>> 14) (op : Action)
    (hop : (∃ t e v, op = .set k1 t e v) ∨ op = .del k1)
    (h : InputOK U cfg K b0 (acts ++ [op])) :
    ∃ s', runA (Col.init cfg b0) (acts ++ [op]) = .ok s' ∧
      lookup s' k1 = specStep (spec (fun _ => none) acts) op k1 ∧
      lookup s' k2 = spec (fun _ => none) acts k2 ∧
      (∀ t e v, op = .set k1 t e v → lookup s' k1 = some v) ∧ (op = .del k1 → lookup s' k1 = none) := by
  obtain ⟨s', hr, _⟩ := C09_run_total U cfg K b0 _ h
  exact ⟨s', hr, C09_collision_individual U cfg b0 acts k1 k2 hk1 hk2 hne hsame op hop
    (C09_runHyp_of_input U cfg K b0 _ h) s' hr⟩

/-- C14: the structural invariants hold in the (existing) final state of every history. -/
theorem C14_index_inv_preserved_total (U : Key → Prop) (cfg : Cfg) (K b0 : Nat) (acts : List Action)
    (h : InputOK U cfg K b0 acts) :
    ∃ s', runA (Col.init cfg b0) acts = .ok s' ∧
      IndexInv U s' ∧ SlotInvAbs s' ∧ NoLeak U s' (spec (fun _ => none) acts) := by
  obtain ⟨s', hr, _⟩ := C09_run_total U cfg K b0 acts h
  exact ⟨s', hr, C14_index_inv_preserved U cfg b0 acts (C09_runHyp_of_input U cfg K b0 acts h) s' hr⟩

/-! ## an executable check of the class hypothesis, non-vacuity -/

/-- class of an index-inserting `set` -/
def insClass (K : Nat) (mt : Key → Option Nat) : Action → Option Nat
  | .set k tier _ _ => if mt k != some tier then some (k.pre >>> (64 - K)) else none
  | _ => none

/-- the classes of the index-inserting `set`s of a history, in order (one pass) -/
def insClasses (K : Nat) : (Key → Option Nat) → List Action → List Nat
  | _, [] => []
  | mt, a :: as => (insClass K mt a).toList ++ insClasses K (tierStep mt a) as

theorem isInsOf_iff_insClass (K p : Nat) (mt : Key → Option Nat) (a : Action) :
    isInsOf K p mt a = true ↔ insClass K mt a = some p := by
  cases a with
  | set k tier e v =>
    simp only [isInsOf, insClass, Bool.and_eq_true, beq_iff_eq]
    cases hb : (mt k != some tier)
    · simp
    · simp
  | _ => simp [isInsOf, insClass]

theorem nIns_eq_count (K p : Nat) : ∀ (acts : List Action) (mt : Key → Option Nat),
    nIns K p mt acts = (insClasses K mt acts).count p := by
  intro acts
  induction acts with
  | nil => intro _; rfl
  | cons a as ih =>
    intro mt
    simp only [nIns, insClasses, List.count_append, ih]
    have h := isInsOf_iff_insClass K p mt a
    cases hc : insClass K mt a with
    | none =>
      have : isInsOf K p mt a = false := by
        cases hi : isInsOf K p mt a
        · rfl
        · rw [h.1 hi] at hc; cases hc
      simp [this]
    | some q =>
      by_cases hq : q = p
      · subst hq
        simp [h.2 hc]
      · have : isInsOf K p mt a = false := by
          cases hi : isInsOf K p mt a
          · rfl
          · rw [h.1 hi] at hc; injection hc with hc; exact absurd hc.symm hq
        simp [this, hq]

theorem nSets_zero_of_no_set (K p : Nat) (acts : List Action)
    (h : ∀ k t e v, Action.set k t e v ∈ acts → k.pre >>> (64 - K) ≠ p) : nSets K p acts = 0 := by
  unfold nSets
  rw [List.countP_eq_zero]
  intro a ha
  cases a with
  | set k t e v =>
    have := h k t e v ha
    simpa [isSetOf] using this
  | _ => simp [isSetOf]

/-- `classes` only has to be checked for the classes of the index-inserting `set`s -/
def classesB (K : Nat) (acts : List Action) : Bool :=
  (insClasses K (fun _ => none) acts).all
    (fun p => decide ((insClasses K (fun _ => none) acts).count p ≤ 64))

theorem classesB_sound (K : Nat) (acts : List Action) (h : classesB K acts = true) :
    ∀ p, nIns K p (fun _ => none) acts ≤ 64 := by
  intro p
  rw [nIns_eq_count]
  by_cases hp : p ∈ insClasses K (fun _ => none) acts
  · have := List.all_eq_true.1 h p hp
    simpa using this
  · rw [List.count_eq_zero.2 hp]
    omega

/-- the history of Pdb/Props/C09.lean (three keys, two of them sharing all 50 index-visible bits,
a tier move, a removal, a growth re-launched by recovery, a drop, a reopen) satisfies the input
hypotheses with `K = 20` -/
theorem exInput : InputOK exU ⟨true, true, false⟩ 20 16 exActs :=
  ⟨exU_univ, rfl, rfl, ⟨by decide, by decide⟩, by decide, exActs_ok, by decide,
    classesB_sound 20 exActs (by decide)⟩

example := C09_run_total exU _ 20 16 exActs exInput
example := C09_no_diverge_total exU _ 20 16 exActs exInput
example := C09_lookup_latest_total exU _ 20 16 exActs exInput
example := C09_index_inv_preserved_total exU _ 20 16 exActs exInput
example := C14_index_inv_preserved_total exU _ 20 16 exActs exInput
/- the conclusion is not trivial: the final state the theorem produces is `exFinal` -/
example : ∃ s', runA (Col.init ⟨true, true, false⟩ 16) exActs = .ok s' ∧ lookup s' exK1 = some "a2" := by
  obtain ⟨s', hr, hl⟩ := C09_lookup_latest_total exU _ 20 16 exActs exInput
  refine ⟨s', hr, ?_⟩
  rw [hl exK1 (Or.inl rfl)]; decide

/-- 128 keys of ONE 17-bit page written once each, then one of them moved to another size tier
(the history `w3Acts` on which the unfixed code loses a key): with the fixes it satisfies the
input hypotheses for `K = 24` (each key is alone in its 24-bit class), so the run is total. -/
theorem w3Classes : classesB 24 w3Acts = true := by
  set_option maxRecDepth 100000 in decide +kernel

set_option maxRecDepth 100000 in
theorem w3Room : 24 + nRelaunch w3Acts ≤ 49 ∧ nSlots w3Acts + 1 ≤ 2 ^ (24 + 6) := by
  decide +kernel

theorem w3Input : InputOK w3U ⟨true, true, false⟩ 24 16 w3Acts :=
  ⟨w3U_univ, rfl, rfl, ⟨by decide, by decide⟩, w3Room.1, w3Acts_ok, w3Room.2,
    classesB_sound 24 w3Acts w3Classes⟩

example := C09_lookup_latest_total w3U _ 24 16 w3Acts w3Input

/-! ## strictly more permissive than a bound on all `set` operations

`owActs`: 70 writes of `exK1` with values of ONE size tier (1 insertion, 69 overwrites in place), a
write of `exK2` (same 50 index-visible bits as `exK1`), a move of `exK1` to another size tier, a
removal, a reindex batch, one more overwrite.  Three index insertions in the class of `exK1`. -/

def owActs : List Action :=
  (List.range 70).map (fun _ => Action.set exK1 3 0 "v") ++
    [.set exK2 0 0 "b", .set exK1 4 0 "w", .del exK2, .reindex, .set exK1 4 0 "w2"]

theorem owActs_ok : ∀ a ∈ owActs, ActOK exU a := by
  intro a ha
  simp only [owActs, List.mem_append, List.mem_map, List.mem_range, List.mem_cons,
    List.mem_nil_iff, or_false] at ha
  rcases ha with ⟨_, _, rfl⟩ | rfl | rfl | rfl | rfl | rfl <;>
    simp [ActOK, exU, exK1, exK2, exK3]

/-- no `K` makes the history satisfy the previous hypothesis (at most 64 `set` operations per
class): the class of `exK1` has at least 72 of them, whatever `K` is -/
theorem owActs_not_old (K : Nat) : ¬ ∀ p, nSets K p owActs ≤ 64 := by
  intro h
  have h1 := h (exK1.pre >>> (64 - K))
  have h2 : 70 ≤ nSets K (exK1.pre >>> (64 - K)) owActs := by
    unfold nSets owActs
    rw [List.countP_append]
    have : List.countP (isSetOf K (exK1.pre >>> (64 - K)))
        ((List.range 70).map (fun _ => Action.set exK1 3 0 "v")) = 70 := by
      rw [List.countP_eq_length.2]
      · simp
      · intro a ha
        obtain ⟨_, _, rfl⟩ := List.mem_map.1 ha
        simp [isSetOf]
    omega
  omega

/-- ... but it satisfies `InputOK` (here with `K = 20`): only 3 of the 72 `set`s of the class of
`exK1` / `exK2` insert an index entry -/
theorem owInput : InputOK exU ⟨true, true, false⟩ 20 16 owActs :=
  ⟨exU_univ, rfl, rfl, ⟨by decide, by decide⟩, by decide +kernel, owActs_ok, by decide +kernel,
    classesB_sound 20 owActs (by decide +kernel)⟩

example : nIns 20 (exK1.pre >>> 44) (fun _ => none) owActs = 3 ∧
    nSets 20 (exK1.pre >>> 44) owActs = 73 := by decide +kernel

example := C09_run_total exU _ 20 16 owActs owInput
example := C09_index_inv_preserved_total exU _ 20 16 owActs owInput
/- the 70-fold overwritten key returns its last value, the removed one nothing -/
example : ∃ s', runA (Col.init ⟨true, true, false⟩ 16) owActs = .ok s' ∧ lookup s' exK1 = some "w2" ∧
    lookup s' exK2 = none := by
  obtain ⟨s', hr, hl⟩ := C09_lookup_latest_total exU _ 20 16 owActs owInput
  refine ⟨s', hr, ?_, ?_⟩
  · rw [hl exK1 (Or.inl rfl)]; decide +kernel
  · rw [hl exK2 (Or.inr (Or.inl rfl))]; decide +kernel

end Pdb.Index

#print axioms Pdb.Index.C09_run_total
#print axioms Pdb.Index.InputOK_of_old
#print axioms Pdb.Index.nIns_le_nSets
#print axioms Pdb.Index.classesB_sound
#print axioms Pdb.Index.stepA_link
#print axioms Pdb.Index.runA_total
#print axioms Pdb.Index.owInput
#print axioms Pdb.Index.owActs_not_old
#print axioms Pdb.Index.C09_runHyp_of_input
#print axioms Pdb.Index.C09_no_diverge_total
#print axioms Pdb.Index.C09_no_panic_total
#print axioms Pdb.Index.C09_index_inv_preserved_total
#print axioms Pdb.Index.C09_lookup_latest_total
#print axioms Pdb.Index.C09_collision_individual_total
#print axioms Pdb.Index.C14_index_inv_preserved_total
