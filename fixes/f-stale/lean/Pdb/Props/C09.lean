/-
C09  "Index growth and hash-prefix collisions never change query results"
     (src/column.rs HashColumn, src/index.rs IndexTable; model: Pdb/Model/Index.lean)

WHAT IS PROVED (about the executable model that the correspondence run ties to the crate)

  The model carries a configuration `cfg`:
    cfg.exact       `find_entry` confirms the whole partial key   (fix-c09-sse2-partial-key.diff)
    cfg.growOnMove  a moved value whose new index entry does not fit grows the index
                                                               (fix-c09-move-into-full-page.diff)
  `⟨false, false, false⟩` is the code as it is.  The FULL statement (every history from the empty
  column, code as it is) is FALSE: see `C09_full_statement_false_*` at the end, both reproduced on
  the real crate by the harness (directed cases, writer panic / lost key).  The theorems below
  are the full statement for the fixed code, plus step theorems that show exactly which
  hypothesis each fix discharges:
    * planned writes need `growOnMove` (not exactness) to keep the invariant,
    * reindex batches need the exact search of the CURRENT table (`ExactCur`: fixed
      `find_entry`, or at least 18 index bits) for "same address already present",
    * panic freedom needs `ExactCur`.

  Hypotheses common to the run theorems (`RunHyp`):
    Univ U        the keys of the history have u64 prefixes and pairwise distinct 26-byte tails
                  (assumption A-tail; the harness embeds a unique id in every tail).  EXACT REACH:
                  a pair of distinct hashed keys with equal bytes 6..32 (they differ in bytes 0..5
                  only) is excluded.  On non-uniform columns that is a 208-bit partial collision of
                  salted Blake2b-256; on uniform columns of format version 8 the two user keys must
                  agree in bytes 16..32 and their salted SipHash-1-3-128 values must agree in 80 of
                  128 bits (about 2^40 trials knowing the salt, which is in the metadata file); on
                  uniform columns of format versions <= 7 and with the test-only identity hash the
                  user chooses the hashed keys.  Without A-tail the statement is FALSE (finding F29,
                  `C09_full_statement_false_twin` in Pdb/Props/C09F24.lean, reproduced on the crate).
    ActOK         keys of the actions lie in `U`; size tiers are < 256 (any number of
                  continuation slots: a `set` carries the tier and the number `ext` of slots the
                  stored value takes besides its head slot, `ext > 0` in the multipart tier 255)
    AllBounded    every state of the run has at most 49 index bits and fewer than 2^56 slots per
                  value table.  This is a hypothesis on the model's TRAJECTORY; together with
                  `hrun : runA .. = .ok s'` it is DERIVED from hypotheses on the input alone in
                  Pdb/Props/C09Total.lean (`InputOK`, `C09_run_total`, theorems `.._total`).
                  It is not implied by "at most 64 keys per (page, partial key)": index entries
                  whose slot has been freed or reused count toward the 64 entries of a page as
                  well (finding F28).  With more than 64 entries of one class the model grows past
                  49 bits (`C09_no_total_65`), the crate doubles the index file until it fails.
  Actions: set / del (one planned operation), reindex (one batch), enact (logged DropTable takes
  effect), reopen (`open_index`; with `enact` before it this is crash recovery), relaunch
  (`trigger_reindex` by the validation of a rejected record during recovery).  The pipeline
  stages between planning and enactment are the subject of the P1 model (C01/C02); here the
  state is the logical one planning works on.
-/
import Pdb.Proofs.C09Check

namespace Pdb.Index
open Pdb.Gen Pdb.IndexPage

structure RunHyp (U : Key → Prop) (cfg : Cfg) (b0 : Nat) (acts : List Action) : Prop where
  univ : Univ U
  exact : cfg.exact = true
  grow : cfg.growOnMove = true
  bits : 16 ≤ b0 ∧ b0 ≤ 49
  actsOK : ∀ a ∈ acts, ActOK U a
  bounded : AllBounded (Col.init cfg b0) acts

/-- IndexInv (and the abstract SlotInv) hold after every history; the state represents exactly
the abstract map `spec`. -/
theorem C09_index_inv_preserved (U : Key → Prop) (cfg : Cfg) (b0 : Nat) (acts : List Action)
    (h : RunHyp U cfg b0 acts) (s' : Col) (hrun : runA (Col.init cfg b0) acts = .ok s') :
    IdxInv U s' ∧ SlotInv s' ∧ Abs U s' (spec (fun _ => none) acts) := by
  have := runA_ok h.univ acts (Col.init cfg b0) s' _ (init_good U cfg b0 h.bits.1 h.bits.2)
    h.exact h.grow h.actsOK h.bounded hrun
  exact ⟨this.idx, this.slots, this.abs⟩

/-- Every key returns its latest value after any interleaving of commits, reindex batches,
drops, reopens / recoveries and re-launched growths. -/
theorem C09_lookup_latest (U : Key → Prop) (cfg : Cfg) (b0 : Nat) (acts : List Action)
    (h : RunHyp U cfg b0 acts) (s' : Col) (hrun : runA (Col.init cfg b0) acts = .ok s')
    (k : Key) (hk : U k) : lookup s' k = spec (fun _ => none) acts k := by
  obtain ⟨hI, _, hA⟩ := C09_index_inv_preserved U cfg b0 acts h s' hrun
  exact lookup_eq h.univ hI hA k hk

/-- No planning step panics. -/
theorem C09_no_panic (U : Key → Prop) (cfg : Cfg) (b0 : Nat) (acts : List Action)
    (h : RunHyp U cfg b0 acts) : runA (Col.init cfg b0) acts ≠ .panic :=
  runA_ne_panic h.univ acts (Col.init cfg b0) _ (init_good U cfg b0 h.bits.1 h.bits.2)
    h.exact h.grow h.actsOK h.bounded

theorem spec_append (m : Key → Option Val) (acts : List Action) (a : Action) :
    spec m (acts ++ [a]) = specStep (spec m acts) a := by
  induction acts generalizing m with
  | nil => rfl
  | cons x xs ih => exact ih (specStep m x)

/-- Keys that agree on all 50 bits the index stores (same page and same partial key in every
table) stay individually readable, replaceable and removable: whatever was done before, a write
to `k1` is read back and does not change what `k2` returns. -/
theorem C09_collision_individual (U : Key → Prop) (cfg : Cfg) (b0 : Nat) (acts : List Action)
    (k1 k2 : Key) (hk1 : U k1) (hk2 : U k2) (hne : k1 ≠ k2)
    (_hsame : k1.pre >>> 14 = k2.pre >>> 14) (op : Action)
    (hop : (∃ t e v, op = .set k1 t e v) ∨ op = .del k1)
    (h : RunHyp U cfg b0 (acts ++ [op])) (s' : Col)
    (hrun : runA (Col.init cfg b0) (acts ++ [op]) = .ok s') :
    lookup s' k1 = specStep (spec (fun _ => none) acts) op k1 ∧
    lookup s' k2 = spec (fun _ => none) acts k2 ∧
    (∀ t e v, op = .set k1 t e v → lookup s' k1 = some v) ∧ (op = .del k1 → lookup s' k1 = none) := by
  have e1 := C09_lookup_latest U cfg b0 _ h s' hrun k1 hk1
  have e2 := C09_lookup_latest U cfg b0 _ h s' hrun k2 hk2
  rw [spec_append] at e1 e2
  have hk21 : ¬ k2 = k1 := fun e => hne e.symm
  refine ⟨e1, ?_, fun t e v ho => ?_, fun ho => ?_⟩
  · rw [e2]
    rcases hop with ⟨t, e, v, ho⟩ | ho <;> subst ho <;> simp [specStep, upd, hk21]
  · rw [e1, ho]; simp [specStep, upd]
  · rw [e1, ho]; simp [specStep, upd]

/-! ## step theorems (any configuration; the hypothesis each fix discharges is explicit) -/

/-- A planned write keeps the invariants and implements the map update.  Needs the move fix,
not the exact search. -/
theorem C09_write_preserves {U : Key → Prop} {s s' : Col} {m : Key → Option Val} (hU : Univ U)
    (hG : Good U s m) (k : Key) (hk : U k) (op : Option (Nat × Nat × Val))
    (hop : ∀ t e v, op = some (t, e, v) → t < 256) (hgrow : s.cfg.growOnMove = true)
    (h : write s k op = .ok s') (hB : Bounded s') : Good U s' (upd m k (op.map (·.2.2))) :=
  write_ok hU hG k hk op hop hgrow h hB

/-- A planned write does not panic when the search of the current table is exact. -/
theorem C09_write_no_panic {U : Key → Prop} {s : Col} {m : Key → Option Val} (hG : Good U s m)
    (hx : ExactCur s) (k : Key) (op : Option (Nat × Nat × Val)) : write s k op ≠ .panic :=
  write_ne_panic hG hx k op

/-- C09_batch_no_loss: a reindex batch (copy of up to MAX_REINDEX_BATCH entries of the oldest
table, skipping those whose address is already present, growing when a page is full) loses
nothing: invariants kept, every key reads the same. -/
theorem C09_batch_no_loss {U : Key → Prop} {s s' : Col} {m : Key → Option Val} (hU : Univ U)
    (hG : Good U s m) (hx : ExactCur s) (h : reindexBatch s = .ok s') (hB : Bounded s') :
    Good U s' m ∧ ExactCur s' ∧ ∀ k, U k → lookup s' k = lookup s k := by
  obtain ⟨hG', hx'⟩ := reindexBatch_ok hU hG hx h hB
  refine ⟨hG', hx', fun k hk => ?_⟩
  rw [lookup_eq hU hG'.idx hG'.abs k hk, lookup_eq hU hG.idx hG.abs k hk]

/-- C09_drop_no_loss: when the exhausted old table is dropped every valid entry it held has a
valid copy in a newer table. -/
theorem C09_drop_no_loss {U : Key → Prop} {s : Col} {m : Key → Option Val} (hU : Univ U)
    (hG : Good U s m) : Good U (enactDrop s) m ∧ ∀ k, U k → lookup (enactDrop s) k = lookup s k := by
  have hG' := enactDrop_ok hU hG
  refine ⟨hG', fun k hk => ?_⟩
  rw [lookup_eq hU hG'.idx hG'.abs k hk, lookup_eq hU hG.idx hG.abs k hk]

/-- C09_growth_recover: crash recovery at any point of a growth (old and new index files
coexisting; a logged DropTable replayed; growth re-launched by rejected records) keeps the
invariants and every key's value: the interrupted growth is simply continued. -/
theorem C09_growth_recover {U : Key → Prop} {s : Col} {m : Key → Option Val} (hU : Univ U)
    (hG : Good U s m) (g : Nat) (hb : (recover s).current.bits + g ≤ 49) :
    Good U (relaunch (recover s) g) m ∧
      ∀ k, U k → lookup (relaunch (recover s) g) k = lookup s k := by
  have hG' := relaunch_ok g (recover s) (recover_ok hU hG) hb
  refine ⟨hG', fun k hk => ?_⟩
  rw [lookup_eq hU hG'.idx hG'.abs k hk, lookup_eq hU hG.idx hG.abs k hk]

/-- `open_index` re-detects the growth exactly: with every table written to a file, the reopened
column has the same current table and the same queue in the same order. -/
theorem C09_growth_redetected {U : Key → Prop} {s : Col} (hI : IdxInv U s)
    (hc : s.current.hasFile = true) (ho : ∀ t ∈ s.older, t.hasFile = true) :
    reopen s = { s with progress := 0 } :=
  reopen_redetects hI hc ho

/-! ## the code as it is: where the full statement fails

`C09_lookup_latest_full` is the property for `cfg = ⟨false, false, false⟩`.  It is false; the two
theorems below isolate the failing branches of `write_plan_existing` in the model, and the
harness reproduces both on the real crate (cases `directed-sse2-neighbour`, writer panic
`assertion left == right failed` at index.rs `plan_insert_chunk`; `directed-move-into-full-page`,
`get` returns `None` for a committed key and its slot is leaked), with the compiled model
agreeing step by step.  Closed Lean witnesses from the empty column need a full-page overflow
(65 inserts) and, for the panic, a reindex pass over 2^16 chunks, which is beyond kernel
evaluation; reachability is therefore established by the correspondence run, not in Lean. -/

def C09_lookup_latest_full : Prop :=
  ∀ (U : Key → Prop) (acts : List Action) (s' : Col) (k : Key), Univ U → U k →
    (∀ a ∈ acts, ActOK U a) → AllBounded (Col.init ⟨false, false, false⟩ 16) acts →
    (runA (Col.init ⟨false, false, false⟩ 16) acts ≠ .panic) ∧
    (runA (Col.init ⟨false, false, false⟩ 16) acts = .ok s' → lookup s' k = spec (fun _ => none) acts k)

/-- F-C09-1 (model branch): if the search returned, in the CURRENT table, a candidate whose
partial key is not the key's (possible below 18 bits with the SSE2 search: C19), a tier move
panics at the `assert_eq!` of `plan_insert_chunk`. -/
theorem C09_full_statement_false_sse2 (s : Col) (k : Key) (i a tier' ext : Nat) (v : Val)
    (hne : Address.size_tier a ≠ tier')
    (hla : (moveValue s k a tier' ext v).1 ≤ Entry.last_address (moveValue s k a tier' ext v).2.current.bits)
    (hwf : TableWF (moveValue s k a tier' ext v).2.current)
    (hpk : Entry.partial_key (entryAt ((moveValue s k a tier' ext v).2.current.page
        ((moveValue s k a tier' ext v).2.current.chunk k.pre)) i) (moveValue s k a tier' ext v).2.current.bits ≠
      Entry.extract_key k.pre (moveValue s k a tier' ext v).2.current.bits) :
    writeExisting s k (some (tier', ext, v)) 0 i a = .panic := by
  rw [writeExisting_panic_iff]
  unfold writeExisting0
  simp only [hne, if_false, if_true]
  have : (moveValue s k a tier' ext v).2.current.insert k.pre (moveValue s k a tier' ext v).1 (some i) =
      .panic := by
    unfold Table.insert
    have h1 : ¬ (moveValue s k a tier' ext v).1 > Entry.last_address (moveValue s k a tier' ext v).2.current.bits :=
      Nat.not_lt.2 hla
    simp only [h1, if_false]
    rw [entry_partial_key_new _ _ _ hwf.hi (extract_key_lt _ _ hwf.hi) hla]
    simp only [hpk, if_false]
  rw [this]
  rfl

/-- the SSE2 search does return such a candidate at 17 bits (entry 0 has partial key 4, the key
has 5; they agree on the 32 compared bits) -/
example : findEntry false 17 (5 <<< 14) 0 [(4 <<< 31) ||| 1, (5 <<< 31) ||| 1] = some 0 ∧
    Entry.partial_key ((4 <<< 31) ||| 1) 17 ≠ Entry.extract_key (5 <<< 14) 17 := by decide

/-- F-C09-2 (model branch): without the move fix, when the entry of the moved value does not
fit (page of the current table full, key found in an older table), the operation succeeds
WITHOUT a new index entry: the value sits at its new address with no entry pointing to it; the
current table is untouched, and the old entry still points to the freed slot unless the code
also removes stale entries (`purgeOlder`; it is the identity with `cfg.purge = false`, i.e. on
every crate version that lacked the move fix). -/
theorem C09_full_statement_false_move (s : Col) (k : Key) (j i a tier' ext : Nat) (v : Val)
    (hne : Address.size_tier a ≠ tier') (hg : s.cfg.growOnMove = false)
    (hfull : (moveValue s k a tier' ext v).2.current.insert k.pre (moveValue s k a tier' ext v).1
      (if j = 0 then some i else none) = .needReindex) :
    writeExisting s k (some (tier', ext, v)) j i a =
      .ok (purgeOlder (moveValue s k a tier' ext v).2 k.pre a) ∧
    (purgeOlder (moveValue s k a tier' ext v).2 k.pre a).current = s.current ∧
    (moveValue s k a tier' ext v).2.current = s.current ∧ (moveValue s k a tier' ext v).2.older = s.older := by
  refine ⟨?_, by rw [purgeOlder_current]; exact moveValue_current s k a tier' ext v,
    moveValue_current s k a tier' ext v, ?_⟩
  · rw [writeExisting_move _ _ _ _ _ _ _ _ hne]
    unfold writeExisting0
    simp only [hne, if_false]
    rw [hfull]
    simp [insertCont, hg, Res.map]
  · unfold moveValue
    simp only
    rw [Col.alloc_snd]
    rfl

/-! ## non-vacuity: a concrete history satisfying every hypothesis

Three keys; `exK1` and `exK2` agree on all 50 index-visible bits (same page, same partial key in
every table), `exK3` lives elsewhere.  The history writes, moves a value to another size tier,
removes, runs a reindex batch, enacts, reopens and re-launches a growth. -/

def exK1 : Key := ⟨0x1234000000004001, 1001⟩
def exK2 : Key := ⟨0x1234000000004002, 1002⟩
def exK3 : Key := ⟨0x9999000000000000, 1003⟩
def exU (k : Key) : Prop := k = exK1 ∨ k = exK2 ∨ k = exK3

def exActs : List Action :=
  [.set exK1 0 0 "a", .set exK2 0 0 "b", .set exK3 5 0 "c", .set exK1 7 0 "a2", .del exK2, .relaunch,
   .set exK2 3 0 "b2", .enact, .reopen]

theorem exU_univ : Univ exU := by
  refine ⟨fun k hk => ?_, fun k1 k2 h1 h2 ht => ?_⟩
  · rcases hk with h | h | h <;> subst h <;> decide
  · rcases h1 with h1 | h1 | h1 <;> rcases h2 with h2 | h2 | h2 <;> subst h1 <;> subst h2 <;>
      first | rfl | (exact absurd ht (by decide))

theorem exActs_ok : ∀ a ∈ exActs, ActOK exU a := by
  intro a ha
  simp only [exActs, List.mem_cons, List.mem_nil_iff, or_false] at ha
  rcases ha with h | h | h | h | h | h | h | h | h <;> subst h <;>
    simp [ActOK, exU, exK1, exK2, exK3]

def exFinal : Col := (runChecked (Col.init ⟨true, true, false⟩ 16) exActs).getD (Col.init ⟨true, true, false⟩ 16)

theorem exRun : runChecked (Col.init ⟨true, true, false⟩ 16) exActs = some exFinal := by
  have : (runChecked (Col.init ⟨true, true, false⟩ 16) exActs).isSome = true := by decide +kernel
  unfold exFinal
  cases h : runChecked (Col.init ⟨true, true, false⟩ 16) exActs with
  | none => rw [h] at this; cases this
  | some s => rfl

theorem exHyp : RunHyp exU ⟨true, true, false⟩ 16 exActs :=
  ⟨exU_univ, rfl, rfl, ⟨by decide, by decide⟩, exActs_ok, (runChecked_sound _ _ _ exRun).2⟩

/- the theorems apply to it, and the conclusion is not trivial: after the history `exK1` holds the
moved value, `exK2` its re-inserted one, the index has 17 bits with the old table still queued -/
example := C09_index_inv_preserved exU _ 16 exActs exHyp exFinal (runChecked_sound _ _ _ exRun).1
example := C09_no_panic exU _ 16 exActs exHyp
example : lookup exFinal exK1 = some "a2" ∧ lookup exFinal exK2 = some "b2" ∧
    lookup exFinal exK3 = some "c" :=
  ⟨by rw [C09_lookup_latest exU _ 16 exActs exHyp exFinal (runChecked_sound _ _ _ exRun).1 exK1
      (Or.inl rfl)]; decide,
   by rw [C09_lookup_latest exU _ 16 exActs exHyp exFinal (runChecked_sound _ _ _ exRun).1 exK2
      (Or.inr (Or.inl rfl))]; decide,
   by rw [C09_lookup_latest exU _ 16 exActs exHyp exFinal (runChecked_sound _ _ _ exRun).1 exK3
      (Or.inr (Or.inr rfl))]; decide⟩
example : exFinal.current.bits = 17 ∧ exFinal.older.length = 1 := by decide +kernel
example : exK1.pre >>> 14 = exK2.pre >>> 14 ∧ exK1 ≠ exK2 := by decide
/- collision theorem: instance with `acts` = the first three writes, `op` = the tier move of exK1 -/
example (h : RunHyp exU ⟨true, true, false⟩ 16 (exActs.take 3 ++ [.set exK1 7 0 "a2"])) (s' : Col)
    (hr : runA (Col.init ⟨true, true, false⟩ 16) (exActs.take 3 ++ [.set exK1 7 0 "a2"]) = .ok s') :=
  C09_collision_individual exU _ 16 (exActs.take 3) exK1 exK2 (Or.inl rfl) (Or.inr (Or.inl rfl))
    (by decide) (by decide) (.set exK1 7 0 "a2") (Or.inl ⟨7, 0, "a2", rfl⟩) h s' hr
/- step theorems: the reachable state `exFinal` satisfies `Good`, `ExactCur`; it has a queued table,
so a reindex batch and a recovery are real steps from it -/
theorem exGood : Good exU exFinal (spec (fun _ => none) exActs) :=
  runA_ok exU_univ exActs _ exFinal _ (init_good exU _ 16 (by decide) (by decide)) rfl rfl exActs_ok
    exHyp.bounded (runChecked_sound _ _ _ exRun).1
example := C09_drop_no_loss exU_univ exGood
example := C09_write_no_panic exGood (Or.inl (by decide +kernel)) exK1 (some (9, 0, "z"))
example (g : Nat) (hb : (recover exFinal).current.bits + g ≤ 49) :=
  C09_growth_recover exU_univ exGood g hb
example : (recover exFinal).current.bits = 17 := by decide +kernel

/-! ## the full statement is false of the code as it is (closed witness, F-C09-2)

128 keys of one 17-bit page (64 fill the 16-bit page, the 65th triggers the growth, the next 63
fill the page of the new table while the first 64 are still only in the old table); then the
value of key 5 changes size tier: found in the old table, moved, `write_insert_plan` answers
`NeedReindex`, nothing is inserted.  The run succeeds and the key is gone. -/

def w3Key (i : Nat) : Key := ⟨(0x1234 <<< 48) ||| (i <<< 40), 1 + i⟩
def w3U (k : Key) : Prop := ∃ i, i < 128 ∧ k = w3Key i
def w3Acts : List Action :=
  (List.range 128).map (fun i => Action.set (w3Key i) 0 0 "s") ++ [Action.set (w3Key 5) 51 0 "big"]

theorem w3U_univ : Univ w3U := by
  refine ⟨fun k hk => ?_, fun k1 k2 h1 h2 ht => ?_⟩
  · obtain ⟨i, hi, rfl⟩ := hk
    show (0x1234 <<< 48) ||| (i <<< 40) < 2 ^ 64
    apply Nat.or_lt_two_pow (by decide)
    rw [Nat.shiftLeft_eq]
    calc i * 2 ^ 40 < 128 * 2 ^ 40 := Nat.mul_lt_mul_of_pos_right hi (by decide)
      _ < 2 ^ 64 := by decide
  · obtain ⟨i, _, rfl⟩ := h1
    obtain ⟨j, _, rfl⟩ := h2
    have : i = j := by
      simp only [w3Key] at ht
      omega
    rw [this]

theorem w3Acts_ok : ∀ a ∈ w3Acts, ActOK w3U a := by
  intro a ha
  simp only [w3Acts, List.mem_append, List.mem_map, List.mem_range, List.mem_cons,
    List.mem_nil_iff, or_false] at ha
  rcases ha with ⟨i, hi, rfl⟩ | rfl
  · exact ⟨⟨i, hi, rfl⟩, by decide⟩
  · exact ⟨⟨5, by decide, rfl⟩, by decide⟩

/-- (about 30 s of kernel evaluation: 129 planned writes, two page overflows) -/
theorem w3Run : ((runChecked (Col.init ⟨false, false, false⟩ 16) w3Acts).map
    (fun s => lookup s (w3Key 5))) = some none := by
  decide +kernel

theorem C09_lookup_latest_full_false : ¬ C09_lookup_latest_full := by
  intro hfull
  cases hr : runChecked (Col.init ⟨false, false, false⟩ 16) w3Acts with
  | none => have := w3Run; rw [hr] at this; cases this
  | some s =>
    have hl : lookup s (w3Key 5) = none := by
      have := w3Run
      rw [hr] at this
      simpa using this
    obtain ⟨hrun, hb⟩ := runChecked_sound _ _ _ hr
    have := (hfull w3U w3Acts s (w3Key 5) w3U_univ ⟨5, by decide, rfl⟩ w3Acts_ok hb).2 hrun
    rw [hl] at this
    have hs : spec (fun _ => none) w3Acts (w3Key 5) = some "big" := by
      unfold w3Acts
      rw [spec_append]
      simp [specStep, upd]
    rw [hs] at this
    cases this

end Pdb.Index

#print axioms Pdb.Index.C09_index_inv_preserved
#print axioms Pdb.Index.C09_lookup_latest
#print axioms Pdb.Index.C09_no_panic
#print axioms Pdb.Index.C09_collision_individual
#print axioms Pdb.Index.C09_write_preserves
#print axioms Pdb.Index.C09_write_no_panic
#print axioms Pdb.Index.C09_batch_no_loss
#print axioms Pdb.Index.C09_drop_no_loss
#print axioms Pdb.Index.C09_growth_recover
#print axioms Pdb.Index.C09_growth_redetected
#print axioms Pdb.Index.C09_full_statement_false_sse2
#print axioms Pdb.Index.C09_full_statement_false_move
#print axioms Pdb.Index.C09_lookup_latest_full_false
