/-
R5, part 3: every step of the physical column of kind preimage / rc is a step (or a stutter step)
of the index model whose values code P1 cells, and moves the coded table by P1's `applyOp`;
the plain kind is R3 (a `Reference` is a no-op).  Runs, and the composed statement.
-/
import Pdb.Proofs.RefineRc2

namespace Pdb.RefineRc
open Pdb.Gen Pdb.Index Pdb.ValueTable Pdb.Refine

/-- the P1 operation of a planned write -/
def ROp.toOp (k : Key) : ROp → Pdb.Op Key Bytes
  | .set v => .set k v
  | .deref => .deref k
  | .ref => .ref k

/-- keys of the history lie in `U` (nothing about the values, nothing about the order) -/
def RActKeys (U : Key → Prop) : RAction → Prop
  | .set k _ => U k
  | .deref k => U k
  | .ref k => U k
  | _ => True

/-- the physical limits hold in every state the run goes through -/
def RAllBounded (kind : Pdb.Kind) (cmp : Bytes → Bytes) (thr : Nat) (p : PCol) : List RAction → Prop
  | [] => True
  | a :: as => ∀ p1, rStep kind cmp thr p a = .ok p1 → PBounded p1 ∧ RAllBounded kind cmp thr p1 as

/-! ## the coded table -/

theorem liftC_upd_some (m : Key → Option Val) (k : Key) (w : Val) :
    liftC (Index.upd m k (some w)) = Pdb.upd (liftC m) k (some (valOf w, cntOf w)) := by
  funext x
  simp only [liftC, Index.upd, Pdb.upd]
  by_cases h : x = k <;> simp [h]

theorem liftC_upd_none (m : Key → Option Val) (k : Key) :
    liftC (Index.upd m k none) = Pdb.upd (liftC m) k none := by
  funext x
  simp only [liftC, Index.upd, Pdb.upd]
  by_cases h : x = k <;> simp [h]

theorem upd_self {β : Type} (T : Key → β) (k : Key) (c : β) (h : T k = c) : Pdb.upd T k c = T := by
  funext x
  simp only [Pdb.upd]
  by_cases e : x = k
  · rw [if_pos e, e, h]
  · rw [if_neg e]

theorem applyOp_eq (kind : Pdb.Kind) (T : Pdb.Tbl Key Bytes) (k : Key) (op : ROp) :
    Pdb.applyOp (fun _ => kind) T (op.toOp k) =
      Pdb.upd T k (Pdb.applyCell kind (op.toOp k) (T k)) := by
  cases op <;> rfl

theorem incRc_eq (n : Nat) : Pdb.incRc n = newCount true n := by
  unfold Pdb.incRc newCount Pdb.LOCKED
  simp only [if_true, ge_iff_le]

/-! ## index-only steps -/

theorem sim_ixopR {rc cmp thr p s p'} (f : Col → Res)
    (hf : ∀ (s : Col) V T N, f (s.withVals V T N) = (f s).map (·.withVals V T N))
    (hcfg : ∀ s s', f s = .ok s' → s'.cfg = s.cfg)
    (hS : SimR rc cmp thr p s) (h : liftIx p (f p.ix) = .ok p') :
    ∃ s', f s = .ok s' ∧ SimR rc cmp thr p' s' := by
  obtain ⟨s', f1, f2, f3, f4, f5⟩ := ixop_run f hf hcfg hS.ix h
  exact ⟨s', f1, f2, hS.vs.congr f3 f4 f5⟩

/-! ## planned writes on a column with `preimage` (with or without counters) -/

theorem lookup_found {U : Key → Prop} {s : Col} {m : Key → Option Val} (hU : Univ U)
    (hG : Good U s m) (k : Key) (hk : U k) (j i a : Nat) (hs : searchAll s k = some (j, i, a)) :
    ∃ w, s.valAt a = some ⟨k.tail, w⟩ ∧ m k = some w ∧ s.tailAt a = some k.tail := by
  have ht := (searchAll_sound hG.idx k j i a hs).1
  obtain ⟨w, hw⟩ := (tailAt_eq_some s a k.tail).1 ht
  refine ⟨w, hw, ?_, ht⟩
  have := lookup_eq hU hG.idx hG.abs k hk
  unfold lookup at this
  rw [hs] at this
  simp only [Option.bind_some, hw, Option.map_some] at this
  exact this.symm

theorem lookup_absent {U : Key → Prop} {s : Col} {m : Key → Option Val} (hU : Univ U)
    (hG : Good U s m) (k : Key) (hk : U k) (hs : searchAll s k = none) : m k = none := by
  have := lookup_eq hU hG.idx hG.abs k hk
  unfold lookup at this
  rw [hs] at this
  exact this.symm

/-- the key is removed: value slot released, index entry cleared -/
theorem rsim_remove {rc cmp thr p s p'} {U : Key → Prop} {m : Key → Option Val}
    (hS : SimR rc cmp thr p s) (hU : PUniv U) (hG : Good U s m) (hex : s.cfg.exact = true)
    (hgrow : s.cfg.growOnMove = true) (k : Key) (hk : U k) (j sub a : Nat)
    (hs : searchAll s k = some (j, sub, a)) (hB : PBounded p)
    (h : pWriteExisting p k none j sub a = .ok p') (hB' : PBounded p') :
    ∃ s', SimR rc cmp thr p' s' ∧ Good U s' (Index.upd m k none) ∧ s'.cfg = s.cfg := by
  obtain ⟨s', e1, hS'⟩ := sim_removeR' hS hG.idx k j sub a hs hB h
  have hstep : stepA s (.del k) = .ok s' := by
    simp only [stepA]
    unfold write
    rw [hs]
    exact e1
  exact ⟨s', hS', stepA_ok hU.univ hG hex hgrow (.del k) hk hstep (hS'.bounded hB'),
    stepA_cfg s s' _ hstep⟩

/-- FORWARD SIMULATION of one planned write on a column of kind preimage or rc. -/
theorem rsim_write {kind : Pdb.Kind} {cmp thr p s p'} {U : Key → Prop} {m : Key → Option Val}
    (hkind : kind ≠ .plain) (hS : SimR (refCounted kind) cmp thr p s) (hU : PUniv U)
    (hG : Good U s m) (hex : s.cfg.exact = true) (hgrow : s.cfg.growOnMove = true)
    (k : Key) (hk : U k) (op : ROp) (hB : PBounded p)
    (h : rWrite kind cmp thr p k op = .ok p') (hB' : PBounded p') :
    ∃ s' m', SimR (refCounted kind) cmp thr p' s' ∧ Good U s' m' ∧ s'.cfg = s.cfg ∧
      liftC m' = Pdb.applyOp (fun _ => kind) (liftC m) (op.toOp k) := by
  unfold rWrite at h
  rw [pSearchAll_eqR hS hU hG.idx k hk] at h
  rw [applyOp_eq]
  cases hs : searchAll s k with
  | none =>
    rw [hs] at h
    simp only at h
    have hm := lookup_absent hU.univ hG k hk hs
    have hTk : liftC m k = none := by simp only [liftC, hm, Option.map_none]
    rw [hTk]
    cases op with
    | set v =>
      simp only at h
      obtain ⟨s', e1, hS'⟩ := sim_writeNewR hS k v hB h hB'
      have hstep : stepA s (.set k (tierFor cmp thr (refCounted kind) (tkey k) v).2
          (extForR cmp thr (refCounted kind) k v) (codeCell v 1)) = .ok s' := by
        simp only [stepA]
        unfold write
        rw [hs]
        exact e1
      have hact : ActOK U (.set k (tierFor cmp thr (refCounted kind) (tkey k) v).2
          (extForR cmp thr (refCounted kind) k v) (codeCell v 1)) :=
        ⟨hk, tier_ltR cmp thr _ (tkey k) v⟩
      refine ⟨s', _, hS', stepA_ok hU.univ hG hex hgrow _ hact hstep
        (hS'.bounded hB'), stepA_cfg s s' _ hstep, ?_⟩
      simp only [specStep]
      rw [liftC_upd_some, valOf_codeCell, cntOf_codeCell]
      cases kind with
      | plain => exact absurd rfl hkind
      | preimage => rfl
      | rc => rfl
    | deref =>
      simp only at h
      injection h with h; subst h
      refine ⟨s, m, hS, hG, rfl, ?_⟩
      cases kind <;> exact (upd_self _ k _ hTk).symm
    | ref =>
      simp only at h
      injection h with h; subst h
      refine ⟨s, m, hS, hG, rfl, ?_⟩
      cases kind <;> exact (upd_self _ k _ hTk).symm
  | some r =>
    obtain ⟨j, sub, a⟩ := r
    rw [hs] at h
    simp only at h
    obtain ⟨w, hw, hm, hl⟩ := lookup_found hU.univ hG k hk j sub a hs
    have hTk : liftC m k = some (valOf w, cntOf w) := by simp only [liftC, hm, Option.map_some]
    rw [hTk]
    unfold rWriteExisting at h
    cases kind with
    | plain => exact absurd rfl hkind
    | preimage =>
      have hrc : refCounted .preimage = false := rfl
      have hpi : preimage .preimage = true := rfl
      cases op with
      | set v =>
        simp only [hrc, hpi, Bool.false_eq_true, if_false, if_true] at h
        injection h with h; subst h
        exact ⟨s, m, hS, hG, rfl, (upd_self _ k _ hTk).symm⟩
      | ref =>
        simp only [hrc, Bool.false_eq_true, if_false] at h
        injection h with h; subst h
        exact ⟨s, m, hS, hG, rfl, (upd_self _ k _ hTk).symm⟩
      | deref =>
        simp only [hrc, Bool.false_eq_true, if_false] at h
        obtain ⟨s', hS', hG', hc⟩ := rsim_remove hS hU hG hex hgrow k hk j sub a hs hB h hB'
        exact ⟨s', _, hS', hG', hc, liftC_upd_none m k⟩
    | rc =>
      have hrc : refCounted .rc = true := rfl
      rw [hrc] at hS
      obtain ⟨b1, b2⟩ := vsim_bumpR hS.vs a k w hw true
      obtain ⟨d1, d2⟩ := vsim_bumpR hS.vs a k w hw false
      have hng : ¬ goes true (cntOf w) := fun hg => hg.1 rfl
      -- the increment, shared by Set and Reference
      have hinc : ∃ s' m', SimR true cmp thr (rIncRef p a) s' ∧ Good U s' m' ∧ s'.cfg = s.cfg ∧
          liftC m' = Pdb.upd (liftC m) k (some (valOf w, Pdb.incRc (cntOf w))) := by
        obtain ⟨_, hv⟩ := b2 hng
        refine ⟨_, _, ⟨?_, hv⟩, good_setVal hU.univ hG k hk a _ hl, rfl, ?_⟩
        · show (p.setVT _ _).ix = _
          rw [setVT_ix, strip_setVal]; exact hS.ix
        · rw [liftC_upd_some, valOf_codeCell, cntOf_codeCell, incRc_eq]
      cases op with
      | set v =>
        simp only [hrc, if_true] at h
        injection h with h; subst h
        exact hinc
      | ref =>
        simp only [hrc, if_true] at h
        injection h with h; subst h
        exact hinc
      | deref =>
        simp only [hrc, if_true] at h
        by_cases hg : goes false (cntOf w)
        · rw [d1 hg] at h
          simp only [Bool.false_eq_true, if_false] at h
          obtain ⟨s', hS', hG', hc⟩ := rsim_remove hS hU hG hex hgrow k hk j sub a hs hB h hB'
          refine ⟨s', _, hS', hG', hc, ?_⟩
          rw [liftC_upd_none]
          congr 1
          obtain ⟨_, g2, g3⟩ := hg
          have hL : Pdb.LOCKED = LOCKED_REF := rfl
          have g3' : cntOf w - 1 = 0 := by
            unfold newCount at g3
            simp only [Bool.false_eq_true, if_false, g2, ne_eq, not_false_eq_true, if_true] at g3
            exact g3
          show none = Pdb.applyCell .rc (.deref k) (some (valOf w, cntOf w))
          simp only [Pdb.applyCell, hL, if_neg g2]
          rw [if_pos (by omega)]
        · obtain ⟨e2, hv⟩ := d2 hg
          rw [e2] at h
          simp only [if_true] at h
          injection h with h; subst h
          refine ⟨_, _, ⟨?_, hv⟩, good_setVal hU.univ hG k hk a _ hl, rfl, ?_⟩
          · show (p.setVT _ _).ix = _
            rw [setVT_ix, strip_setVal]; exact hS.ix
          · rw [liftC_upd_some, valOf_codeCell, cntOf_codeCell]
            congr 1
            have hL : Pdb.LOCKED = LOCKED_REF := rfl
            show some (valOf w, newCount false (cntOf w)) =
              Pdb.applyCell .rc (.deref k) (some (valOf w, cntOf w))
            simp only [Pdb.applyCell, hL]
            by_cases e : cntOf w = LOCKED_REF
            · rw [if_pos e]
              unfold newCount
              simp only [Bool.false_eq_true, if_false, e, ne_eq, not_true_eq_false]
            · rw [if_neg e]
              have hnc : newCount false (cntOf w) = cntOf w - 1 := by
                unfold newCount
                simp only [Bool.false_eq_true, if_false, ne_eq, e, not_false_eq_true, if_true]
              have : ¬ cntOf w ≤ 1 := by
                intro hle
                exact hg ⟨by simp, e, by rw [hnc]; omega⟩
              rw [if_neg this, hnc]

/-! ## steps and runs (kinds preimage and rc) -/

theorem applyOps_nil (kind : Key → Pdb.Kind) (T : Pdb.Tbl Key Bytes) : Pdb.applyOps kind T [] = T := rfl

theorem applyOps_single (kind : Key → Pdb.Kind) (T : Pdb.Tbl Key Bytes) (op : Pdb.Op Key Bytes) :
    Pdb.applyOps kind T [op] = Pdb.applyOp kind T op := rfl

theorem rsim_step {kind : Pdb.Kind} {cmp thr p s p'} {U : Key → Prop} {m : Key → Option Val}
    (hkind : kind ≠ .plain) (hS : SimR (refCounted kind) cmp thr p s) (hU : PUniv U)
    (hG : Good U s m) (hex : s.cfg.exact = true) (hgrow : s.cfg.growOnMove = true)
    (a : RAction) (ha : RActKeys U a) (hB : PBounded p)
    (h : rStep kind cmp thr p a = .ok p') (hB' : PBounded p') :
    ∃ s' m', SimR (refCounted kind) cmp thr p' s' ∧ Good U s' m' ∧ s'.cfg = s.cfg ∧
      liftC m' = Pdb.applyOps (fun _ => kind) (liftC m) a.ops := by
  cases a with
  | set k v => exact rsim_write hkind hS hU hG hex hgrow k ha (.set v) hB h hB'
  | deref k => exact rsim_write hkind hS hU hG hex hgrow k ha .deref hB h hB'
  | ref k => exact rsim_write hkind hS hU hG hex hgrow k ha .ref hB h hB'
  | reindex =>
    obtain ⟨s', h1, h2⟩ := sim_ixopR reindexBatch reindexBatch_withVals reindexBatch_cfg hS h
    have hstep : stepA s .reindex = .ok s' := h1
    exact ⟨s', m, h2, stepA_ok hU.univ hG hex hgrow .reindex trivial hstep (h2.bounded hB'),
      stepA_cfg s s' _ hstep, rfl⟩
  | enact =>
    obtain ⟨s', h1, h2⟩ := sim_ixopR (fun x => .ok (enactDrop x))
      (fun x V T N => by simp only [enactDrop_withVals]; rfl)
      (fun x x' hx => by injection hx with hx; subst hx; exact enactDrop_cfg x) hS h
    have hstep : stepA s .enact = .ok s' := h1
    exact ⟨s', m, h2, stepA_ok hU.univ hG hex hgrow .enact trivial hstep (h2.bounded hB'),
      stepA_cfg s s' _ hstep, rfl⟩
  | reopen =>
    obtain ⟨s', h1, h2⟩ := sim_ixopR (fun x => .ok (reopen x))
      (fun x V T N => by simp only [reopen_withVals]; rfl)
      (fun x x' hx => by injection hx with hx; subst hx; exact reopen_cfg x) hS h
    have hstep : stepA s .reopen = .ok s' := h1
    exact ⟨s', m, h2, stepA_ok hU.univ hG hex hgrow .reopen trivial hstep (h2.bounded hB'),
      stepA_cfg s s' _ hstep, rfl⟩
  | relaunch =>
    obtain ⟨s', h1, h2⟩ := sim_ixopR (fun x => .ok (triggerReindex x))
      (fun x V T N => rfl)
      (fun x x' hx => by injection hx with hx; subst hx; rfl) hS h
    have hstep : stepA s .relaunch = .ok s' := h1
    exact ⟨s', m, h2, stepA_ok hU.univ hG hex hgrow .relaunch trivial hstep (h2.bounded hB'),
      stepA_cfg s s' _ hstep, rfl⟩

theorem rsim_run {kind : Pdb.Kind} {cmp thr} {U : Key → Prop} (hkind : kind ≠ .plain)
    (hU : PUniv U) : ∀ (acts : List RAction) (p : PCol) (s : Col) (p' : PCol)
    (m : Key → Option Val), SimR (refCounted kind) cmp thr p s → Good U s m →
    s.cfg.exact = true → s.cfg.growOnMove = true → (∀ a ∈ acts, RActKeys U a) →
    PBounded p → RAllBounded kind cmp thr p acts → rRun kind cmp thr p acts = .ok p' →
    ∃ s' m', SimR (refCounted kind) cmp thr p' s' ∧ Good U s' m' ∧
      liftC m' = Pdb.applyOps (fun _ => kind) (liftC m) (acts.flatMap RAction.ops) := by
  intro acts
  induction acts with
  | nil =>
    intro p s p' m hS hG _ _ _ _ _ h
    simp only [rRun] at h
    injection h with h; subst h
    exact ⟨s, m, hS, hG, rfl⟩
  | cons a as ih =>
    intro p s p' m hS hG hex hgrow hact hB hb h
    simp only [rRun] at h
    obtain ⟨p1, h1, h2⟩ := PRes.bind_ok h
    obtain ⟨hB1, hb1⟩ := hb p1 h1
    obtain ⟨s1, m1, hS1, hG1, hc, hl⟩ := rsim_step hkind hS hU hG hex hgrow a (hact a (by simp)) hB h1 hB1
    obtain ⟨s', m', hS', hG', hl'⟩ := ih p1 s1 p' m1 hS1 hG1 (by rw [hc]; exact hex)
      (by rw [hc]; exact hgrow) (fun a' ha' => hact a' (List.mem_cons_of_mem _ ha')) hB1 hb1 h2
    refine ⟨s', m', hS', hG', ?_⟩
    rw [hl', hl, List.flatMap_cons, Pdb.applyOps_append]

/-- kinds preimage and rc: the physical read (value and stored counter) after any history is what
P1's fold of the operations says -/
theorem rget_run {kind : Pdb.Kind} {cmp thr} {U : Key → Prop} (decomp : Bytes → Option Bytes)
    (hA : ∀ v, decomp (cmp v) = some v) (hkind : kind ≠ .plain) (hU : PUniv U) (cfg : Cfg) (b0 : Nat)
    (hex : cfg.exact = true) (hgrow : cfg.growOnMove = true) (hbits : 16 ≤ b0 ∧ b0 ≤ 49)
    (acts : List RAction) (p' : PCol) (hact : ∀ a ∈ acts, RActKeys U a)
    (hb : RAllBounded kind cmp thr (rInit kind cfg b0) acts)
    (hrun : rRun kind cmp thr (rInit kind cfg b0) acts = .ok p') (k : Key) (hk : U k) :
    rGet decomp p' k =
      Pdb.applyOps (fun _ => kind) (fun _ => none) (acts.flatMap RAction.ops) k := by
  obtain ⟨s', m', hS', hG', hl⟩ := rsim_run hkind hU acts _ _ p' _ (rInit_sim kind cmp thr cfg b0)
    (init_good U cfg b0 hbits.1 hbits.2) hex hgrow hact (rInit_pbounded kind cfg b0 hbits.2) hb hrun
  rw [rGet_eq decomp hA hS' hU hG' k hk, hl]
  rfl

/-! ## the plain kind is R3 (`Reference` is a no-op, the counter reads 1) -/

/-- the action of the plain physical column of R3 (`Refine.PAction`) an action amounts to -/
def toP : RAction → Option PAction
  | .set k v => some (.set k v)
  | .deref k => some (.del k)
  | .ref _ => none
  | .reindex => some .reindex
  | .enact => some .enact
  | .reopen => some .reopen
  | .relaunch => some .relaunch

theorem rStep_plain (cmp : Bytes → Bytes) (thr : Nat) (p : PCol) (a : RAction) :
    rStep .plain cmp thr p a = (toP a).elim (.ok p) (pStep cmp thr p) := by
  cases a with
  | set k v =>
    simp only [rStep, toP, Option.elim, pStep, rWrite, pWrite]
    cases pSearchAll p k with
    | none => rfl
    | some r => rfl
  | deref k =>
    simp only [rStep, toP, Option.elim, pStep, rWrite, pWrite]
    cases pSearchAll p k with
    | none => rfl
    | some r => rfl
  | ref k =>
    simp only [rStep, toP, Option.elim, rWrite]
    cases pSearchAll p k with
    | none => rfl
    | some r => rfl
  | reindex => rfl
  | enact => rfl
  | reopen => rfl
  | relaunch => rfl

theorem rRun_plain (cmp : Bytes → Bytes) (thr : Nat) : ∀ (acts : List RAction) (p : PCol),
    rRun .plain cmp thr p acts = pRun cmp thr p (acts.filterMap toP) := by
  intro acts
  induction acts with
  | nil => intro p; rfl
  | cons a as ih =>
    intro p
    simp only [rRun, rStep_plain]
    cases hp : toP a with
    | none =>
      simp only [List.filterMap_cons, hp, Option.elim, PRes.bind]
      exact ih p
    | some pa =>
      simp only [List.filterMap_cons, hp, Option.elim, pRun]
      congr 1
      funext p1
      exact ih p1

theorem rAllBounded_plain (cmp : Bytes → Bytes) (thr : Nat) : ∀ (acts : List RAction) (p : PCol),
    RAllBounded .plain cmp thr p acts → PAllBounded cmp thr p (acts.filterMap toP) := by
  intro acts
  induction acts with
  | nil => intro p _; trivial
  | cons a as ih =>
    intro p h
    simp only [RAllBounded, rStep_plain] at h
    cases hp : toP a with
    | none =>
      simp only [List.filterMap_cons, hp]
      rw [hp] at h
      exact ih p (h p rfl).2
    | some pa =>
      simp only [List.filterMap_cons, hp, PAllBounded]
      rw [hp] at h
      intro p1 h1
      obtain ⟨g1, g2⟩ := h p1 h1
      exact ⟨g1, ih p1 g2⟩

theorem rKeys_plain {U : Key → Prop} (acts : List RAction) (h : ∀ a ∈ acts, RActKeys U a) :
    ∀ a ∈ acts.filterMap toP, PActKeys U a := by
  intro pa hpa
  obtain ⟨a, ha, e⟩ := List.mem_filterMap.mp hpa
  have := h a ha
  cases a with
  | set k v => simp only [toP] at e; injection e with e; subst e; exact this
  | deref k => simp only [toP] at e; injection e with e; subst e; exact this
  | ref k => simp only [toP] at e; cases e
  | reindex => simp only [toP] at e; injection e with e; subst e; trivial
  | enact => simp only [toP] at e; injection e with e; subst e; trivial
  | reopen => simp only [toP] at e; injection e with e; subst e; trivial
  | relaunch => simp only [toP] at e; injection e with e; subst e; trivial

/-- on a plain column the `Reference`s of a history do not matter -/
theorem plain_ops : ∀ (acts : List RAction) (T : Pdb.Tbl Key Bytes),
    Pdb.applyOps (fun _ => Pdb.Kind.plain) T (acts.flatMap RAction.ops) =
      Pdb.applyOps (fun _ => Pdb.Kind.plain) T ((acts.filterMap toP).flatMap PAction.ops) := by
  intro acts
  induction acts with
  | nil => intro T; rfl
  | cons a as ih =>
    intro T
    rw [List.flatMap_cons, Pdb.applyOps_append]
    cases a with
    | set k v =>
      simp only [List.filterMap_cons, toP, List.flatMap_cons, Pdb.applyOps_append]
      exact ih _
    | deref k =>
      simp only [List.filterMap_cons, toP, List.flatMap_cons, Pdb.applyOps_append]
      exact ih _
    | ref k =>
      simp only [List.filterMap_cons, toP]
      have : Pdb.applyOps (fun _ => Pdb.Kind.plain) T (RAction.ops (.ref k)) = T := by
        show Pdb.applyOp (fun _ => Pdb.Kind.plain) T (.ref k) = T
        exact upd_self T k _ rfl
      rw [this]
      exact ih T
    | reindex =>
      simp only [List.filterMap_cons, toP, List.flatMap_cons, Pdb.applyOps_append]
      exact ih _
    | enact =>
      simp only [List.filterMap_cons, toP, List.flatMap_cons, Pdb.applyOps_append]
      exact ih _
    | reopen =>
      simp only [List.filterMap_cons, toP, List.flatMap_cons, Pdb.applyOps_append]
      exact ih _
    | relaunch =>
      simp only [List.filterMap_cons, toP, List.flatMap_cons, Pdb.applyOps_append]
      exact ih _

/-- the counter a keyed read returns: the stored one, 1 in a table without counter field -/
theorem read_count (t : VT) (key : TKey) (i : Nat) (v : Bytes) (c : Bool) (n : Nat)
    (h : readChain t key i = .ok (some (v, c, n))) :
    n = (if t.refCounted then rcAt t i else 1) ∧ 0 < n := by
  rw [readChain_eq] at h
  by_cases h1 : isTombstone (t.slots i)
  · rw [if_pos h1] at h; cases h
  rw [if_neg h1] at h
  by_cases h2 : t.multipart = true ∧ ¬ isMultiHead (t.slots i)
  · rw [if_pos h2] at h; cases h
  rw [if_neg h2] at h
  by_cases h3 : ¬ keyMatches key (t.slots i) (keyOff t i)
  · rw [if_pos h3] at h; cases h
  rw [if_neg h3] at h
  by_cases h4 : entEnd t i < keyOff t i + key.encodedSize
  · rw [if_pos h4] at h; cases h
  rw [if_neg h4] at h
  exact tailShape _ _ _ _ _ _ _ _ _ h

theorem init_eq (cfg : Cfg) (b0 : Nat) : rInit .plain cfg b0 = PCol.init cfg b0 := rfl

/-- the plain kind: R3, with the counter 1 -/
theorem rget_run_plain {cmp thr} {U : Key → Prop} (decomp : Bytes → Option Bytes)
    (hA : ∀ v, decomp (cmp v) = some v) (hU : PUniv U) (cfg : Cfg) (b0 : Nat)
    (hex : cfg.exact = true) (hgrow : cfg.growOnMove = true) (hbits : 16 ≤ b0 ∧ b0 ≤ 49)
    (acts : List RAction) (p' : PCol) (hact : ∀ a ∈ acts, RActKeys U a)
    (hb : RAllBounded .plain cmp thr (rInit .plain cfg b0) acts)
    (hrun : rRun .plain cmp thr (rInit .plain cfg b0) acts = .ok p') (k : Key) (hk : U k) :
    rGet decomp p' k =
      Pdb.applyOps (fun _ => Pdb.Kind.plain) (fun _ => none) (acts.flatMap RAction.ops) k := by
  rw [init_eq] at hb hrun
  rw [rRun_plain] at hrun
  have hb' := rAllBounded_plain cmp thr acts _ hb
  have hk' := rKeys_plain acts hact
  have hG0 := init_good U cfg b0 hbits.1 hbits.2
  have hS0 := init_sim cmp thr cfg b0
  have hB0 := init_pbounded cfg b0 hbits.2
  obtain ⟨s', _, hS', hG'⟩ := sim_run hU _ _ _ p' _ hS0 hG0 hex hgrow hk' hB0 hb' hrun
  have habs := run_abs decomp hA hU _ _ _ p' _ hS0 hG0 hex hgrow hk' hB0 hb' hrun k hk
  have e0 : pAbs decomp (PCol.init cfg b0) k = none := by
    rw [pAbs_eq decomp hA hS0 hU hG0 k hk]; rfl
  rw [plain_ops, ← Refine.applyOps_congr_key _ _ _ _ k e0, ← habs]
  -- the counter of a table without counter field reads 1
  unfold rGet pAbs pGet
  cases hs : pSearchAll p' k with
  | none => rfl
  | some r =>
    obtain ⟨j, i, a⟩ := r
    simp only [Option.bind_some]
    cases hr : readChain (p'.vt (Address.size_tier a)) (tkey k) (Address.offset a) with
    | error e => rfl
    | ok o =>
      cases o with
      | none => rfl
      | some x =>
        obtain ⟨b, c, n⟩ := x
        simp only
        have hcfg := (hS'.vs.cfgs _ (size_tier_lt a)).2.2
        have hrc : (p'.vt (Address.size_tier a)).refCounted = false := by
          rw [hcfg]; unfold tableOfTier; split <;> rfl
        have := (read_count _ _ _ b c n hr).1
        rw [hrc] at this
        simp only [Bool.false_eq_true, if_false] at this
        rw [this]

/-! ## an executable check of the run hypotheses (for concrete instances) -/

/-- run, checking the physical limits after every action -/
def rRunChecked (kind : Pdb.Kind) (cmp : Bytes → Bytes) (thr : Nat) (p : PCol) :
    List RAction → Option PCol
  | [] => some p
  | a :: as =>
    match rStep kind cmp thr p a with
    | .ok p1 => if pBoundedB p1 then rRunChecked kind cmp thr p1 as else none
    | _ => none

theorem rRunChecked_sound (kind : Pdb.Kind) (cmp : Bytes → Bytes) (thr : Nat) :
    ∀ (acts : List RAction) (p p' : PCol), rRunChecked kind cmp thr p acts = some p' →
      rRun kind cmp thr p acts = .ok p' ∧ RAllBounded kind cmp thr p acts := by
  intro acts
  induction acts with
  | nil =>
    intro p p' h
    simp only [rRunChecked] at h
    injection h with h; subst h
    exact ⟨rfl, trivial⟩
  | cons a as ih =>
    intro p p' h
    simp only [rRunChecked] at h
    cases hs : rStep kind cmp thr p a with
    | ok p1 =>
      rw [hs] at h
      simp only at h
      by_cases hb : pBoundedB p1 = true
      · simp only [hb, if_true] at h
        obtain ⟨h1, h2⟩ := ih p1 p' h
        refine ⟨?_, fun p1' hs' => ?_⟩
        · simp only [rRun, hs, PRes.bind]; exact h1
        · rw [hs] at hs'
          injection hs' with hs'
          subst hs'
          exact ⟨pBoundedB_sound p1 hb, h2⟩
      · simp [hb] at h
    | panic => rw [hs] at h; simp at h
    | diverge => rw [hs] at h; simp at h
    | vtErr e => rw [hs] at h; simp at h

/-! ## runs in two parts (history, then one more transaction) -/

theorem rRun_append (kind : Pdb.Kind) (cmp : Bytes → Bytes) (thr : Nat) :
    ∀ (as bs : List RAction) (p p' : PCol), rRun kind cmp thr p (as ++ bs) = .ok p' →
      ∃ p1, rRun kind cmp thr p as = .ok p1 ∧ rRun kind cmp thr p1 bs = .ok p' := by
  intro as
  induction as with
  | nil => intro bs p p' h; exact ⟨p, rfl, h⟩
  | cons a as ih =>
    intro bs p p' h
    simp only [List.cons_append, rRun] at h
    obtain ⟨p0, h0, h1⟩ := PRes.bind_ok h
    obtain ⟨p1, h2, h3⟩ := ih bs p0 p' h1
    exact ⟨p1, by simp only [rRun, h0, PRes.bind]; exact h2, h3⟩

theorem rAllBounded_append (kind : Pdb.Kind) (cmp : Bytes → Bytes) (thr : Nat) :
    ∀ (as bs : List RAction) (p p1 : PCol), RAllBounded kind cmp thr p (as ++ bs) →
      rRun kind cmp thr p as = .ok p1 →
      RAllBounded kind cmp thr p as ∧ RAllBounded kind cmp thr p1 bs ∧ (PBounded p → PBounded p1) := by
  intro as
  induction as with
  | nil =>
    intro bs p p1 h hr
    simp only [rRun] at hr
    injection hr with hr; subst hr
    exact ⟨trivial, h, id⟩
  | cons a as ih =>
    intro bs p p1 h hr
    simp only [rRun] at hr
    obtain ⟨p0, h0, h1⟩ := PRes.bind_ok hr
    obtain ⟨hb0, hrest⟩ := h p0 h0
    obtain ⟨i1, i2, i3⟩ := ih bs p0 p1 hrest h1
    refine ⟨fun p0' h0' => ?_, i2, fun _ => i3 hb0⟩
    rw [h0] at h0'
    injection h0' with h0'
    subst h0'
    exact ⟨hb0, i1⟩

/-- from the state a history reaches: one more stretch of actions moves the physical reads by
P1's `applyOps` (all kinds) -/
theorem rget_from {cmp thr} {U : Key → Prop} (kind : Pdb.Kind) (decomp : Bytes → Option Bytes)
    (hA : ∀ v, decomp (cmp v) = some v) (hU : PUniv U) (cfg : Cfg) (b0 : Nat)
    (hex : cfg.exact = true) (hgrow : cfg.growOnMove = true) (hbits : 16 ≤ b0 ∧ b0 ≤ 49)
    (hist more : List RAction) (p p' : PCol) (hact : ∀ a ∈ hist ++ more, RActKeys U a)
    (hb : RAllBounded kind cmp thr (rInit kind cfg b0) (hist ++ more))
    (hrun1 : rRun kind cmp thr (rInit kind cfg b0) hist = .ok p)
    (hrun2 : rRun kind cmp thr p more = .ok p') (k : Key) (hk : U k) :
    rGet decomp p' k =
      Pdb.applyOps (fun _ => kind) (rGet decomp p) (more.flatMap RAction.ops) k := by
  have hrun : rRun kind cmp thr (rInit kind cfg b0) (hist ++ more) = .ok p' := by
    clear hb hact
    revert hrun1
    generalize rInit kind cfg b0 = q
    induction hist generalizing q with
    | nil => intro h1; simp only [rRun] at h1; injection h1 with h1; subst h1; exact hrun2
    | cons a as ih =>
      intro h1
      simp only [rRun] at h1
      obtain ⟨p0, h0, h2⟩ := PRes.bind_ok h1
      simp only [List.cons_append, rRun, h0, PRes.bind]
      exact ih p0 h2
  obtain ⟨hb1, _, _⟩ := rAllBounded_append kind cmp thr hist more _ p hb hrun1
  have hact1 : ∀ a ∈ hist, RActKeys U a := fun a ha => hact a (List.mem_append_left _ ha)
  have e1 : ∀ x, U x → rGet decomp p x =
      Pdb.applyOps (fun _ => kind) (fun _ => none) (hist.flatMap RAction.ops) x := by
    intro x hx
    by_cases hkind : kind = .plain
    · subst hkind
      exact rget_run_plain decomp hA hU cfg b0 hex hgrow hbits hist p hact1 hb1 hrun1 x hx
    · exact rget_run decomp hA hkind hU cfg b0 hex hgrow hbits hist p hact1 hb1 hrun1 x hx
  have e2 : rGet decomp p' k =
      Pdb.applyOps (fun _ => kind) (fun _ => none) ((hist ++ more).flatMap RAction.ops) k := by
    by_cases hkind : kind = .plain
    · subst hkind
      exact rget_run_plain decomp hA hU cfg b0 hex hgrow hbits _ p' hact hb hrun k hk
    · exact rget_run decomp hA hkind hU cfg b0 hex hgrow hbits _ p' hact hb hrun k hk
  rw [e2, List.flatMap_append, Pdb.applyOps_append]
  exact Refine.applyOps_congr_key _ _ _ _ k (e1 k hk).symm

end Pdb.RefineRc
