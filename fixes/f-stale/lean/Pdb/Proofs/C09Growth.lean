/-
C09: growth (`triggerReindex`, `insertLoop`) as an extension of the set of tables, and the
independence of the index operations from the value tables.
-/
import Pdb.Proofs.C09Inv

namespace Pdb.Index
open Pdb.Gen Pdb.IndexPage

/-- well-formed tables with strictly increasing bits -/
structure Shape (s : Col) : Prop where
  wf : ∀ t ∈ s.tables, TableWF t
  order : List.Pairwise (· < ·) ((s.older ++ [s.current]).map (·.bits))

/-- `s'` is `s` with more index entries / more tables; values, allocator, progress untouched. -/
structure Ext (s s' : Col) : Prop where
  cfg : s'.cfg = s.cfg
  values : s'.values = s.values
  tiers : s'.tiers = s.tiers
  progress : s'.progress = s.progress
  nLive : s'.nLive = s.nLive
  tables : ∃ pushed, s'.older = s.older ++ pushed ∧
    ∀ kp a, s.current.Has kp a → ∃ t ∈ s'.current :: pushed, t.Has kp a
  bits : s.current.bits ≤ s'.current.bits

theorem Ext.refl (s : Col) : Ext s s :=
  ⟨rfl, rfl, rfl, rfl, rfl, ⟨[], by simp, fun kp a h => ⟨s.current, by simp, h⟩⟩, Nat.le_refl _⟩

theorem Ext.trans {s1 s2 s3 : Col} (h12 : Ext s1 s2) (h23 : Ext s2 s3) : Ext s1 s3 := by
  obtain ⟨p1, ho1, hh1⟩ := h12.tables
  obtain ⟨p2, ho2, hh2⟩ := h23.tables
  refine ⟨h23.cfg.trans h12.cfg, h23.values.trans h12.values, h23.tiers.trans h12.tiers,
    h23.progress.trans h12.progress, h23.nLive.trans h12.nLive,
    ⟨p1 ++ p2, by rw [ho2, ho1, List.append_assoc], fun kp a h => ?_⟩,
    Nat.le_trans h12.bits h23.bits⟩
  obtain ⟨t, ht, hht⟩ := hh1 kp a h
  rcases List.mem_cons.1 ht with h1 | h1
  · subst h1
    obtain ⟨t', ht', hht'⟩ := hh2 kp a hht
    refine ⟨t', ?_, hht'⟩
    rcases List.mem_cons.1 ht' with h2 | h2
    · subst h2; simp
    · exact List.mem_cons_of_mem _ (List.mem_append_right _ h2)
  · exact ⟨t, List.mem_cons_of_mem _ (List.mem_append_left _ h1), hht⟩

theorem Ext.trigger (s : Col) : Ext s (triggerReindex s) :=
  ⟨rfl, rfl, rfl, rfl, rfl,
    ⟨[s.current], rfl, fun kp a h => ⟨s.current, by simp, h⟩⟩, by simp [triggerReindex, Table.new]⟩

theorem Ext.tailAt {s s' : Col} (h : Ext s s') (a : Nat) : s'.tailAt a = s.tailAt a := by
  simp only [Col.tailAt, Col.valAt, h.values]

theorem Ext.valAt {s s' : Col} (h : Ext s s') (a : Nat) : s'.valAt a = s.valAt a := by
  simp only [Col.valAt, h.values]

/-- every `Has` witness of `s` survives in `s'` -/
theorem Ext.has_all {s s' : Col} (h : Ext s s') (kp a : Nat) (t : Table) (ht : t ∈ s.tables)
    (hh : t.Has kp a) : ∃ t' ∈ s'.tables, t'.Has kp a := by
  obtain ⟨p, ho, hm⟩ := h.tables
  simp only [Col.tables] at ht ⊢
  rcases List.mem_cons.1 ht with h1 | h1
  · subst h1
    obtain ⟨t', ht', hh'⟩ := hm kp a hh
    refine ⟨t', ?_, hh'⟩
    rcases List.mem_cons.1 ht' with h2 | h2
    · subst h2; simp
    · rw [ho]; exact List.mem_cons_of_mem _ (List.mem_append_right _ h2)
  · exact ⟨t, by rw [ho]; exact List.mem_cons_of_mem _ (List.mem_append_left _ h1), hh⟩

theorem pairwise_snoc_lt {l : List Nat} {c : Nat} (h : List.Pairwise (· < ·) (l ++ [c])) :
    ∀ x ∈ l, x < c := by
  intro x hx
  exact (List.pairwise_append.1 h).2.2 x hx c (by simp)

theorem Shape.trigger {s : Col} (h : Shape s) (hb : s.current.bits + 1 ≤ 49) :
    Shape (triggerReindex s) := by
  have hcur := h.wf s.current (by simp [Col.tables])
  refine ⟨fun t ht => ?_, ?_⟩
  · simp only [Col.tables, triggerReindex] at ht
    rcases List.mem_cons.1 ht with h1 | h1
    · rw [h1]; exact TableWF.new _ (by have := hcur.lo; omega) hb
    · rcases List.mem_append.1 h1 with h2 | h2
      · exact h.wf t (by simp [Col.tables, h2])
      · have : t = s.current := by simpa using h2
        rw [this]; exact hcur
  · simp only [triggerReindex, List.map_append, List.map_cons, List.map_nil, Table.new]
    have ho := h.order
    simp only [List.map_append, List.map_cons, List.map_nil] at ho
    rw [List.pairwise_append]
    refine ⟨ho, by simp, fun x hx y hy => ?_⟩
    have hy' : y = s.current.bits + 1 := by simpa using hy
    subst hy'
    rcases List.mem_append.1 hx with h1 | h1
    · have := pairwise_snoc_lt ho x h1; omega
    · have : x = s.current.bits := by simpa using h1
      omega

/-! ## `insertLoop` -/

theorem insertLoop_succ (s : Col) (kp a f : Nat) :
    insertLoop s kp a (f + 1) =
      insertCont s (s.current.insert kp a none) (fun _ => insertLoop (triggerReindex s) kp a f) := rfl

theorem insertLoop_bits (kp a : Nat) : ∀ (f : Nat) (s s' : Col),
    insertLoop s kp a f = .ok s' → s.current.bits ≤ s'.current.bits := by
  intro f
  induction f with
  | zero => intro s s' h; exact absurd h (by simp [insertLoop])
  | succ f ih =>
    intro s s' h
    rw [insertLoop_succ] at h
    rcases Table.insert_none_cases s.current kp a with ⟨t, ht⟩ | ht
    · rw [ht] at h
      simp only [insertCont] at h
      injection h with h
      subst h
      exact Nat.le_of_eq (Table.insert_none_written _ _ _ _ ht).2.1.symm
    · rw [ht] at h
      simp only [insertCont] at h
      have := ih _ _ h
      simp only [triggerReindex, Table.new] at this
      omega

theorem insertLoop_ok (kp a : Nat) : ∀ (f : Nat) (s s' : Col), Shape s →
    insertLoop s kp a f = .ok s' → s'.current.bits ≤ 49 →
    Ext s s' ∧ Shape s' ∧ (a ≠ 0 → s'.current.Has kp a) := by
  intro f
  induction f with
  | zero => intro s s' _ h; exact absurd h (by simp [insertLoop])
  | succ f ih =>
    intro s s' hS h hb
    have hcur := hS.wf s.current (by simp [Col.tables])
    rw [insertLoop_succ] at h
    rcases Table.insert_none_cases s.current kp a with ⟨t, ht⟩ | ht
    · rw [ht] at h
      simp only [insertCont] at h
      injection h with h
      subst h
      obtain ⟨hla, hbits, i, hi, hz, hp⟩ := Table.insert_none_written _ _ _ _ ht
      have hnew_lt := entry_new_lt a (Entry.extract_key kp s.current.bits) s.current.bits hcur.hi hla
      have hwf' : TableWF t := TableWF.of_pages s.current t hcur hbits _ i _ hnew_lt hp
      refine ⟨⟨rfl, rfl, rfl, rfl, rfl, ⟨[], by simp, fun kp' a' hh => ⟨t, by simp, ?_⟩⟩,
        Nat.le_of_eq hbits.symm⟩, ⟨fun t' ht' => ?_, ?_⟩, fun h0 => ?_⟩
      · exact Table.has_of_pages s.current t hbits _ i _ hp kp' a' hh (fun _ => Or.inr hz)
      · simp only [Col.tables] at ht'
        rcases List.mem_cons.1 ht' with h1 | h1
        · rw [h1]; exact hwf'
        · exact hS.wf t' (by simp [Col.tables, h1])
      · have := hS.order
        simp only [List.map_append, List.map_cons, List.map_nil] at this ⊢
        rw [hbits]; exact this
      · exact Table.has_written s.current t hcur hbits kp a i hi hla h0 hp
    · rw [ht] at h
      simp only [insertCont] at h
      have hmono := insertLoop_bits kp a f _ _ h
      have hb1 : s.current.bits + 1 ≤ 49 := by
        simp only [triggerReindex, Table.new] at hmono; omega
      obtain ⟨hE, hS', hH⟩ := ih _ _ (hS.trigger hb1) h hb
      exact ⟨(Ext.trigger s).trans hE, hS', hH⟩

theorem insertLoop_tiers (kp a : Nat) : ∀ (f : Nat) (s s' : Col),
    insertLoop s kp a f = .ok s' → s'.tiers = s.tiers := by
  intro f
  induction f with
  | zero => intro s s' h; exact absurd h (by simp [insertLoop])
  | succ f ih =>
    intro s s' h
    rw [insertLoop_succ] at h
    rcases Table.insert_none_cases s.current kp a with ⟨t, ht⟩ | ht
    · rw [ht] at h
      simp only [insertCont] at h
      injection h with h
      subst h
      rfl
    · rw [ht] at h
      simp only [insertCont] at h
      have := ih (triggerReindex s) s' h
      exact this

theorem insertCont_tiers (s s' : Col) (kp a F : Nat) (r : Plan)
    (h : insertCont s r (fun _ => insertLoop (triggerReindex s) kp a F) = .ok s') :
    s'.tiers = s.tiers := by
  cases r with
  | written t => simp only [insertCont] at h; injection h with h; subst h; rfl
  | needReindex =>
    simp only [insertCont] at h
    have := insertLoop_tiers kp a F (triggerReindex s) s' h
    exact this
  | skipped => simp only [insertCont] at h; injection h with h; subst h; rfl
  | panic => simp only [insertCont] at h; cases h

theorem insertLoop_ne_panic (kp a : Nat) : ∀ (f : Nat) (s : Col), insertLoop s kp a f ≠ .panic := by
  intro f
  induction f with
  | zero => intro s h; simp [insertLoop] at h
  | succ f ih =>
    intro s h
    rw [insertLoop_succ] at h
    rcases Table.insert_none_cases s.current kp a with ⟨t, ht⟩ | ht
    · rw [ht] at h; simp [insertCont] at h
    · rw [ht] at h
      simp only [insertCont] at h
      exact ih _ h

/-! ## index operations do not look at the value tables -/

def Col.withVals (s : Col) (v : Trie Slot) (t : Trie Tier) (n : Nat) : Col :=
  { s with values := v, tiers := t, nLive := n }

theorem insertCont_withVals (s : Col) (r : Plan) (next : Unit → Res) (v : Trie Slot) (t : Trie Tier)
    (n : Nat) :
    insertCont (s.withVals v t n) r (fun u => (next u).map (·.withVals v t n)) =
      (insertCont s r next).map (·.withVals v t n) := by
  cases r <;> rfl

theorem insertLoop_withVals (kp a : Nat) (v : Trie Slot) (t : Trie Tier) (n : Nat) :
    ∀ (f : Nat) (s : Col), insertLoop (s.withVals v t n) kp a f =
      (insertLoop s kp a f).map (·.withVals v t n) := by
  intro f
  induction f with
  | zero => intro s; rfl
  | succ f ih =>
    intro s
    rw [insertLoop_succ, insertLoop_succ, ← insertCont_withVals]
    have hc : (s.withVals v t n).current = s.current := rfl
    rw [hc]
    congr 1
    funext _
    have : triggerReindex (s.withVals v t n) = (triggerReindex s).withVals v t n := rfl
    rw [this]
    exact ih _

end Pdb.Index
