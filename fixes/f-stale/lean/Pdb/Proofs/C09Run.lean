/-
C09: action sequences.  `run` folds `step` over commits (set / del), reindex batches, enacted
drops, reopens and re-launched growths; `spec` is the abstract map.
-/
import Pdb.Proofs.C09Reopen

namespace Pdb.Index
open Pdb.Gen Pdb.IndexPage

/-! ## the configuration never changes -/

theorem insertLoop_cfg (kp a : Nat) : ∀ (f : Nat) (s s' : Col),
    insertLoop s kp a f = .ok s' → s'.cfg = s.cfg := by
  intro f
  induction f with
  | zero => intro s s' h; exact absurd h (by simp [insertLoop])
  | succ f ih =>
    intro s s' h
    rw [insertLoop_succ] at h
    rcases Table.insert_none_cases s.current kp a with ⟨t, ht⟩ | ht
    · rw [ht] at h
      simp only [insertCont] at h
      injection h with h
      subst h
      rfl
    · rw [ht] at h
      simp only [insertCont] at h
      have := ih (triggerReindex s) s' h
      exact this

theorem write_cfg (s s' : Col) (k : Key) (op : Option (Nat × Nat × Val)) (h : write s k op = .ok s') :
    s'.cfg = s.cfg := by
  unfold write at h
  cases hs : searchAll s k with
  | none =>
    rw [hs] at h
    simp only at h
    cases op with
    | none => simp only at h; injection h with h; subst h; rfl
    | some tv =>
      obtain ⟨tier, ext, v⟩ := tv
      simp only at h
      unfold writeNew at h
      simp only at h
      have := insertLoop_cfg _ _ _ _ _ h
      rw [this, Col.alloc_snd]
      rfl
  | some r =>
    obtain ⟨j, i, a⟩ := r
    rw [hs] at h
    simp only at h
    obtain ⟨s0, h0, hs0⟩ := writeExisting_ok h
    have hfin : s'.cfg = s0.cfg := by rcases hs0 with ⟨_, e⟩ | ⟨_, e⟩ <;> rw [e] <;> simp
    rw [hfin]
    clear hfin hs0 h
    revert s0
    intro s' h
    cases op with
    | none =>
      unfold writeExisting0 at h
      simp only at h
      cases hr : (((s.release (Address.size_tier a) (Address.offset a)).setVal a none
          (s.nLive - 1)).tableAt j).remove k.pre i with
      | none => rw [hr] at h; simp only at h; injection h with h; subst h; rfl
      | some t =>
        rw [hr] at h
        simp only at h
        injection h with h
        subst h
        cases j <;> rfl
    | some tv =>
      obtain ⟨tier', ext, v⟩ := tv
      unfold writeExisting0 at h
      simp only at h
      by_cases hti : Address.size_tier a = tier'
      · simp only [hti, if_true] at h
        injection h with h; subst h; rfl
      · simp only [hti, if_false] at h
        have hm : (moveValue s k a tier' ext v).2.cfg = s.cfg := by
          unfold moveValue
          simp only
          rw [Col.alloc_snd]
          rfl
        cases hins : (moveValue s k a tier' ext v).2.current.insert k.pre (moveValue s k a tier' ext v).1
            (if j = 0 then some i else none) with
        | written t =>
          rw [hins] at h
          simp only [insertCont] at h
          injection h with h; subst h; exact hm
        | needReindex =>
          rw [hins] at h
          simp only [insertCont] at h
          by_cases hg : s.cfg.growOnMove = true
          · simp only [hg, if_true] at h
            have := insertLoop_cfg _ _ _ _ _ h
            rw [this]; exact hm
          · simp only [hg] at h
            injection h with h; subst h; exact hm
        | skipped =>
          rw [hins] at h
          simp only [insertCont] at h
          injection h with h; subst h; exact hm
        | panic => rw [hins] at h; simp only [insertCont] at h; cases h

theorem applyPlan_cfg : ∀ (plan : List (Nat × Nat)) (s s' : Col),
    applyPlan s plan = .ok s' → s'.cfg = s.cfg := by
  intro plan
  induction plan with
  | nil => intro s s' h; simp only [applyPlan] at h; injection h with h; subst h; rfl
  | cons x rest ih =>
    intro s s' h
    obtain ⟨kp, a⟩ := x
    simp only [applyPlan] at h
    obtain ⟨s1, h1, h2⟩ := Res.bind_ok h
    have e1 : s1.cfg = s.cfg := by
      unfold writeReindex at h1
      by_cases hc : containsAddr s kp a = true
      · simp only [hc, if_true] at h1
        injection h1 with h1; subst h1; rfl
      · simp only [hc] at h1
        exact insertLoop_cfg _ _ _ _ _ h1
    rw [ih s1 s' h2, e1]

theorem reindexBatch_cfg (s s' : Col) (h : reindexBatch s = .ok s') : s'.cfg = s.cfg := by
  unfold reindexBatch at h
  cases hol : s.older with
  | nil => rw [hol] at h; simp only at h; injection h with h; subst h; rfl
  | cons t0 rest =>
    rw [hol] at h
    simp only at h
    by_cases hp : s.progress = total_chunks t0.bits
    · simp only [hp, if_true] at h
      injection h with h; subst h; rfl
    · simp only [hp, if_false] at h
      have := applyPlan_cfg _ _ _ h
      exact this

theorem enactDrop_cfg (s : Col) : (enactDrop s).cfg = s.cfg := by
  unfold enactDrop
  by_cases hd : dropPending s = true <;> simp [hd]

theorem reopen_cfg (s : Col) : (reopen s).cfg = s.cfg := by
  unfold reopen
  cases openIndex (List.filter Table.hasFile (s.current :: s.older)) with
  | none => rfl
  | some r => rfl

/-! ## actions -/

inductive Action where
  /-- `Operation::Set` of a value stored in size tier `tier` with `ext` continuation slots
  (`ext = 0`: a one-slot value; in the multipart tier `ext + 1` is the number of parts) -/
  | set (k : Key) (tier ext : Nat) (v : Val)
  /-- `Operation::Dereference` -/
  | del (k : Key)
  /-- one `process_reindex` batch -/
  | reindex
  /-- the logged records have been enacted (a logged `DropTable` takes effect) -/
  | enact
  /-- clean close + open, or the `open_index` part of a crash recovery -/
  | reopen
  /-- `trigger_reindex` by the validation of a rejected log record during recovery -/
  | relaunch

def stepA (s : Col) : Action → Res
  | .set k tier ext v => write s k (some (tier, ext, v))
  | .del k => write s k none
  | .reindex => reindexBatch s
  | .enact => .ok (enactDrop s)
  | .reopen => .ok (reopen s)
  | .relaunch => .ok (triggerReindex s)

def runA (s : Col) : List Action → Res
  | [] => .ok s
  | a :: as => (stepA s a).bind (fun s' => runA s' as)

/-- the abstract map after one action -/
def specStep (m : Key → Option Val) : Action → Key → Option Val
  | .set k _ _ v => upd m k (some v)
  | .del k => upd m k none
  | _ => m

def spec (m : Key → Option Val) : List Action → Key → Option Val
  | [] => m
  | a :: as => spec (specStep m a) as

/-- keys of the history lie in `U`; size tiers are real ones -/
def ActOK (U : Key → Prop) : Action → Prop
  | .set k tier _ _ => U k ∧ tier < 256
  | .del k => U k
  | _ => True

/-- the physical limits hold in every state the run goes through -/
def AllBounded (s : Col) : List Action → Prop
  | [] => True
  | a :: as => ∀ s1, stepA s a = .ok s1 → Bounded s1 ∧ AllBounded s1 as

theorem stepA_cfg (s s' : Col) (a : Action) (h : stepA s a = .ok s') : s'.cfg = s.cfg := by
  cases a with
  | set k tier ext v => exact write_cfg s s' k _ h
  | del k => exact write_cfg s s' k _ h
  | reindex => exact reindexBatch_cfg s s' h
  | enact => simp only [stepA] at h; injection h with h; subst h; exact enactDrop_cfg s
  | reopen => simp only [stepA] at h; injection h with h; subst h; exact reopen_cfg s
  | relaunch => simp only [stepA] at h; injection h with h; subst h; rfl

/-- One action keeps the invariants and follows the abstract map (fixed code: exact page
search, growth on a move into a full page). -/
theorem stepA_ok {U : Key → Prop} {s s' : Col} {m : Key → Option Val} (hU : Univ U)
    (hG : Good U s m) (hex : s.cfg.exact = true) (hgrow : s.cfg.growOnMove = true) (a : Action)
    (ha : ActOK U a) (h : stepA s a = .ok s') (hB : Bounded s') : Good U s' (specStep m a) := by
  have hx : ExactCur s := Or.inl hex
  cases a with
  | set k tier ext v =>
    exact write_ok hU hG k ha.1 (some (tier, ext, v))
      (fun t e' v' e => by injection e with e; injection e with e1 _; rw [← e1]; exact ha.2) hgrow h hB
  | del k =>
    exact write_ok hU hG k ha none (fun t e' v' e => by cases e) hgrow h hB
  | reindex => exact (reindexBatch_ok hU hG hx h hB).1
  | enact =>
    simp only [stepA] at h
    injection h with h; subst h
    exact enactDrop_ok hU hG
  | reopen =>
    simp only [stepA] at h
    injection h with h; subst h
    exact reopen_ok hG
  | relaunch =>
    simp only [stepA] at h
    injection h with h; subst h
    have := hB.bits
    simp only [triggerReindex, Table.new] at this
    exact triggerReindex_ok hG this

theorem runA_ok {U : Key → Prop} (hU : Univ U) : ∀ (acts : List Action) (s s' : Col)
    (m : Key → Option Val), Good U s m → s.cfg.exact = true → s.cfg.growOnMove = true →
    (∀ a ∈ acts, ActOK U a) → AllBounded s acts → runA s acts = .ok s' →
    Good U s' (spec m acts) := by
  intro acts
  induction acts with
  | nil =>
    intro s s' m hG _ _ _ _ h
    simp only [runA] at h
    injection h with h; subst h
    exact hG
  | cons a as ih =>
    intro s s' m hG hex hgrow hact hb h
    simp only [runA] at h
    obtain ⟨s1, h1, h2⟩ := Res.bind_ok h
    obtain ⟨hB1, hb1⟩ := hb s1 h1
    have hG1 := stepA_ok hU hG hex hgrow a (hact a (by simp)) h1 hB1
    have hc := stepA_cfg s s1 a h1
    exact ih s1 s' _ hG1 (by rw [hc]; exact hex) (by rw [hc]; exact hgrow)
      (fun a' ha' => hact a' (List.mem_cons_of_mem _ ha')) hb1 h2

/-- A reindex batch never panics. -/
theorem reindexBatch_ne_panic (s : Col) : reindexBatch s ≠ .panic := by
  have happly : ∀ (plan : List (Nat × Nat)) (s : Col), applyPlan s plan ≠ .panic := by
    intro plan
    induction plan with
    | nil => intro s h; simp [applyPlan] at h
    | cons x rest ih =>
      intro s h
      obtain ⟨kp, a⟩ := x
      simp only [applyPlan] at h
      cases hw : writeReindex s kp a with
      | ok s1 => rw [hw] at h; simp only [Res.bind] at h; exact ih s1 h
      | diverge => rw [hw] at h; simp only [Res.bind] at h; cases h
      | panic =>
        unfold writeReindex at hw
        by_cases hc : containsAddr s kp a = true
        · simp only [hc, if_true] at hw; cases hw
        · simp only [hc] at hw
          exact insertLoop_ne_panic _ _ _ _ hw
  unfold reindexBatch
  cases s.older with
  | nil => simp
  | cons t0 rest =>
    simp only
    by_cases hp : s.progress = total_chunks t0.bits
    · simp [hp]
    · simp only [hp, if_false]
      exact happly _ _

/-- With the exact page search no planning step panics. -/
theorem runA_ne_panic {U : Key → Prop} (hU : Univ U) : ∀ (acts : List Action) (s : Col)
    (m : Key → Option Val), Good U s m → s.cfg.exact = true → s.cfg.growOnMove = true →
    (∀ a ∈ acts, ActOK U a) → AllBounded s acts → runA s acts ≠ .panic := by
  intro acts
  induction acts with
  | nil => intro s m _ _ _ _ _ h; simp [runA] at h
  | cons a as ih =>
    intro s m hG hex hgrow hact hb h
    simp only [runA] at h
    cases h1 : stepA s a with
    | ok s1 =>
      rw [h1] at h
      simp only [Res.bind] at h
      obtain ⟨hB1, hb1⟩ := hb s1 h1
      have hG1 := stepA_ok hU hG hex hgrow a (hact a (by simp)) h1 hB1
      have hc := stepA_cfg s s1 a h1
      exact ih s1 _ hG1 (by rw [hc]; exact hex) (by rw [hc]; exact hgrow)
        (fun a' ha' => hact a' (List.mem_cons_of_mem _ ha')) hb1 h
    | diverge => rw [h1] at h; simp only [Res.bind] at h; cases h
    | panic =>
      have hx : ExactCur s := Or.inl hex
      cases a with
      | set k tier ext v => exact write_ne_panic hG hx k _ h1
      | del k => exact write_ne_panic hG hx k _ h1
      | reindex => exact reindexBatch_ne_panic s h1
      | enact => simp [stepA] at h1
      | reopen => simp [stepA] at h1
      | relaunch => simp [stepA] at h1

/-! ## the empty column -/

theorem init_good (U : Key → Prop) (cfg : Cfg) (b : Nat) (h1 : 16 ≤ b) (h2 : b ≤ 49) :
    Good U (Col.init cfg b) (fun _ => none) := by
  have hval : ∀ x, (Col.init cfg b).valAt x = none := fun _ => rfl
  have htail : ∀ x, (Col.init cfg b).tailAt x = none := fun _ => rfl
  have htier : ∀ t, (Col.init cfg b).tier t = Tier.init := fun _ => rfl
  refine ⟨⟨?_, ?_, ?_, ?_, ?_, fun _ => rfl⟩, ⟨fun tier => ⟨?_, ?_, ?_, ?_, ?_, ?_, ?_⟩, ?_⟩, ?_⟩
  · intro t ht
    have : t = Table.new b := by simpa [Col.tables, Col.init] using ht
    rw [this]; exact TableWF.new b h1 h2
  · simp [Col.init]
  · intro a tl ha; rw [htail] at ha; cases ha
  · intro a1 a2 tl ha; rw [htail] at ha; cases ha
  · intro t0 rest hol; simp [Col.init] at hol
  · intro off _ _ _; exact htail _
  · rw [htier]; simp [Tier.init, ownedOf]
  · intro off ho; rw [htier] at ho; simp [Tier.init, ownedOf] at ho
  · intro _; rw [htier]; simp [Tier.init]
  · intro off _ _ h3 h4
    rw [htier] at h4
    simp only [Tier.init] at h4
    omega
  · rw [htier]; simp [Tier.init]
  · intro hd _ hm; rw [htier] at hm; simp [Tier.init] at hm
  · intro a tl ha; rw [htail] at ha; cases ha
  · intro k _ v
    constructor
    · intro h; cases h
    · rintro ⟨a, ha⟩; rw [hval] at ha; cases ha

end Pdb.Index
