/-
C09 (totality): the size-tier specification of a history and its link with the model state.

`tierStep` / `tierSpec` track, as a function of the ACTION LIST alone, the size tier of the value
each key holds (`none`: the key is absent).  `TierLink U s m mt` ties that specification to a
model state: the slot that holds the tail of a key of `U` lies in the value table of the tier the
specification predicts.  It holds in the empty column and is preserved by every action
(`stepA_link`), so a `set k tier ..` inserts an index entry only if `mt k ≠ some tier`
(key absent, or present with another size tier): these are the `set`s counted by `nIns`
(Pdb/Proofs/C09Total.lean).
-/
import Pdb.Proofs.C09Run

namespace Pdb.Index
open Pdb.Gen Pdb.IndexPage

/-! ## the tier specification -/

/-- size tier of the value of every key after one action (`none`: absent).  Each lookup evaluates
the old function once. -/
def tierStep (mt : Key → Option Nat) : Action → Key → Option Nat
  | .set k tier _ _ => fun x => if x = k then some tier else mt x
  | .del k => fun x => if x = k then none else mt x
  | _ => mt

def tierSpec (mt : Key → Option Nat) : List Action → Key → Option Nat
  | [] => mt
  | a :: as => tierSpec (tierStep mt a) as

/-- `mt` is the tier specification belonging to the abstract map `m` and the state `s` -/
structure TierLink (U : Key → Prop) (s : Col) (m : Key → Option Val) (mt : Key → Option Nat) : Prop where
  /-- same domain as the abstract map (a fact about the two folds, not about the state) -/
  dom : ∀ k, mt k = none ↔ m k = none
  /-- the slot holding the tail of a key lies in the table of the predicted tier -/
  tier : ∀ k, U k → ∀ a, s.tailAt a = some k.tail → mt k = some (Address.size_tier a)

theorem TierLink.init (U : Key → Prop) (cfg : Cfg) (b : Nat) :
    TierLink U (Col.init cfg b) (fun _ => none) (fun _ => none) :=
  ⟨fun _ => ⟨fun _ => rfl, fun _ => rfl⟩, fun _ _ a h => by
    have : (Col.init cfg b).tailAt a = none := rfl
    rw [this] at h; cases h⟩

/-- a key the search does not find is absent from the tier specification -/
theorem TierLink.absent {U : Key → Prop} {s : Col} {m : Key → Option Val} {mt : Key → Option Nat}
    (hU : Univ U) (hG : Good U s m) (hL : TierLink U s m mt) (k : Key) (hk : U k)
    (hs : searchAll s k = none) : mt k = none := by
  rw [hL.dom]
  cases hm : m k with
  | none => rfl
  | some v =>
    obtain ⟨a, ha⟩ := (hG.abs k hk v).1 hm
    exact absurd ((tailAt_eq_some s a k.tail).2 ⟨v, ha⟩) (searchAll_complete hU hG.idx k hk hs a)

/-- a key the search finds at address `a` has the tier of `a` in the specification -/
theorem TierLink.found {U : Key → Prop} {s : Col} {m : Key → Option Val} {mt : Key → Option Nat}
    (hG : Good U s m) (hL : TierLink U s m mt) (k : Key) (hk : U k) (j i a : Nat)
    (hs : searchAll s k = some (j, i, a)) : mt k = some (Address.size_tier a) :=
  hL.tier k hk a (searchAll_sound hG.idx k j i a hs).1

/-! ## the index operations do not touch the value slots -/

theorem insertLoop_values (kp a : Nat) : ∀ (f : Nat) (s s' : Col),
    insertLoop s kp a f = .ok s' → s'.values = s.values := by
  intro f
  induction f with
  | zero => intro s s' h; exact absurd h (by simp [insertLoop])
  | succ f ih =>
    intro s s' h
    rw [insertLoop_succ] at h
    rcases Table.insert_none_cases s.current kp a with ⟨t, ht⟩ | ht
    · rw [ht] at h
      simp only [insertCont] at h
      injection h with h
      subst h
      rfl
    · rw [ht] at h
      simp only [insertCont] at h
      have := ih (triggerReindex s) s' h
      exact this

theorem insertCont_values (s s' : Col) (kp a F : Nat) (r : Plan)
    (h : insertCont s r (fun _ => insertLoop (triggerReindex s) kp a F) = .ok s') :
    s'.values = s.values := by
  cases r with
  | written t => simp only [insertCont] at h; injection h with h; subst h; rfl
  | needReindex =>
    simp only [insertCont] at h
    have := insertLoop_values kp a F (triggerReindex s) s' h
    exact this
  | skipped => simp only [insertCont] at h; injection h with h; subst h; rfl
  | panic => simp only [insertCont] at h; cases h

theorem applyPlan_values : ∀ (plan : List (Nat × Nat)) (s s' : Col),
    applyPlan s plan = .ok s' → s'.values = s.values := by
  intro plan
  induction plan with
  | nil => intro s s' h; simp only [applyPlan] at h; injection h with h; subst h; rfl
  | cons x rest ih =>
    intro s s' h
    obtain ⟨kp, a⟩ := x
    simp only [applyPlan] at h
    obtain ⟨s1, h1, h2⟩ := Res.bind_ok h
    have e1 : s1.values = s.values := by
      unfold writeReindex at h1
      by_cases hc : containsAddr s kp a = true
      · simp only [hc, if_true] at h1
        injection h1 with h1; subst h1; rfl
      · simp only [hc] at h1
        exact insertLoop_values _ _ _ _ _ h1
    rw [ih s1 s' h2, e1]

theorem reindexBatch_values (s s' : Col) (h : reindexBatch s = .ok s') : s'.values = s.values := by
  unfold reindexBatch at h
  cases hol : s.older with
  | nil => rw [hol] at h; simp only at h; injection h with h; subst h; rfl
  | cons t0 rest =>
    rw [hol] at h
    simp only at h
    by_cases hp : s.progress = total_chunks t0.bits
    · simp only [hp, if_true] at h
      injection h with h; subst h; rfl
    · simp only [hp, if_false] at h
      have := applyPlan_values _ _ _ h
      exact this

theorem enactDrop_values (s : Col) : (enactDrop s).values = s.values := by
  unfold enactDrop
  by_cases hd : dropPending s = true <;> simp [hd]

theorem reopen_values (s : Col) : (reopen s).values = s.values := by
  unfold reopen
  cases openIndex (List.filter Table.hasFile (s.current :: s.older)) with
  | none => rfl
  | some r => rfl

theorem tailAt_of_values {s s' : Col} (h : s'.values = s.values) (x : Nat) : s'.tailAt x = s.tailAt x := by
  simp only [Col.tailAt, Col.valAt, h]

/-! ## where a planned write leaves the tails -/

theorem Col.alloc_fst_le (s : Col) (hS : SlotInv s) (tier : Nat) :
    (s.alloc tier).1 ≤ (s.tier tier).filled := by
  cases hfr : (s.tier tier).free with
  | nil => rw [Col.alloc_nil s tier hfr]; exact Nat.le_refl _
  | cons o rest =>
    rw [Col.alloc_cons s tier o rest hfr]
    have := hS.range tier o (by simp [Col.dead, hfr])
    exact Nat.le_of_lt this.2

theorem Col.alloc_values (s : Col) (tier : Nat) : (s.alloc tier).2.values = s.values := by
  rw [Col.alloc_snd]; rfl

/-- `Set`: the tails of the other keys stay where they are (or disappear), the tail of the written
key ends up in a slot of the tier of the new value. -/
theorem write_set_tails {U : Key → Prop} {s s' : Col} {m : Key → Option Val} (hU : Univ U)
    (hG : Good U s m) (hgrow : s.cfg.growOnMove = true) (k : Key) (hk : U k) (tier ext : Nat) (v : Val)
    (htier : tier < 256) (hfil : (s.tier tier).filled < 2 ^ 56)
    (h : write s k (some (tier, ext, v)) = .ok s') :
    (∀ x tl, tl ≠ k.tail → s'.tailAt x = some tl → s.tailAt x = some tl) ∧
    (∀ x, s'.tailAt x = some k.tail → Address.size_tier x = tier) := by
  unfold write at h
  cases hs : searchAll s k with
  | none =>
    rw [hs] at h
    simp only at h
    unfold writeNew at h
    simp only at h
    have hv := insertLoop_values _ _ _ _ _ h
    have hoff : (s.alloc tier).1 < 2 ^ 56 :=
      Nat.lt_of_le_of_lt (Col.alloc_fst_le s hG.slots tier) hfil
    have ht : ∀ x, s'.tailAt x =
        if Address.new (s.alloc tier).1 tier = x then some k.tail else s.tailAt x := by
      intro x
      rw [tailAt_of_values hv x]
      have e : (((s.alloc tier).2.setVal (Address.new (s.alloc tier).1 tier) (some ⟨k.tail, v⟩)
          ((s.alloc tier).2.nLive + 1)).resize tier (s.alloc tier).1 ext).tailAt x =
          ((s.alloc tier).2.setVal (Address.new (s.alloc tier).1 tier) (some ⟨k.tail, v⟩)
          ((s.alloc tier).2.nLive + 1)).tailAt x := rfl
      rw [e, Col.tailAt_setVal, tailAt_of_values (Col.alloc_values s tier) x]
      rfl
    have hno := searchAll_complete hU hG.idx k hk hs
    refine ⟨fun x tl htl hx => ?_, fun x hx => ?_⟩
    · rw [ht x] at hx
      by_cases e : Address.new (s.alloc tier).1 tier = x
      · simp only [e, if_true] at hx
        injection hx with hx; exact absurd hx.symm htl
      · simpa [e] using hx
    · rw [ht x] at hx
      by_cases e : Address.new (s.alloc tier).1 tier = x
      · rw [← e]; exact address_tier_new _ _ hoff htier
      · simp only [e, if_false] at hx
        exact absurd hx (hno x)
  | some r =>
    obtain ⟨j, i, a⟩ := r
    rw [hs] at h
    simp only at h
    obtain ⟨tj, hF⟩ := found_of_search hG.idx k j i a hs
    have huniq : ∀ x, s.tailAt x = some k.tail → x = a := fun x hx => hG.idx.inj x a k.tail hx hF.live
    obtain ⟨s0, h0, hP⟩ := writeExisting_ok2 h
    simp only [hP.tailAt]
    clear hP h
    revert s0
    intro s' h
    unfold writeExisting0 at h
    simp only at h
    by_cases hti : Address.size_tier a = tier
    · simp only [hti, if_true] at h
      injection h with h
      subst h
      have ht : ∀ x, ((s.setVal a (some ⟨k.tail, v⟩) s.nLive).resize tier (Address.offset a) ext).tailAt x =
          if a = x then some k.tail else s.tailAt x := by
        intro x
        have e : ((s.setVal a (some ⟨k.tail, v⟩) s.nLive).resize tier (Address.offset a) ext).tailAt x =
            (s.setVal a (some ⟨k.tail, v⟩) s.nLive).tailAt x := rfl
        rw [e, Col.tailAt_setVal]
        rfl
      refine ⟨fun x tl htl hx => ?_, fun x hx => ?_⟩
      · rw [ht x] at hx
        by_cases e : a = x
        · simp only [e, if_true] at hx
          injection hx with hx; exact absurd hx.symm htl
        · simpa [e] using hx
      · rw [ht x] at hx
        by_cases e : a = x
        · rw [← e]; exact hti
        · simp only [e, if_false] at hx
          exact absurd (huniq x hx).symm e
    · simp only [hti, if_false, hgrow, if_true] at h
      have hv := insertCont_values _ _ _ _ _ _ h
      have hGD := freed_good hU hG k hk a s.nLive hF.live
      have hfreedfil : ((freed s a s.nLive).tier tier).filled = (s.tier tier).filled := by
        rw [freed_tier]
        by_cases e : Address.size_tier a = tier
        · exact absurd e hti
        · simp [e]
      have hoff : ((freed s a s.nLive).alloc tier).1 < 2 ^ 56 := by
        have := Col.alloc_fst_le (freed s a s.nLive) hGD.slots tier
        rw [hfreedfil] at this
        omega
      have hm2 : (moveValue s k a tier ext v).2 =
          (((freed s a s.nLive).alloc tier).2.setVal (Address.new ((freed s a s.nLive).alloc tier).1 tier)
            (some ⟨k.tail, v⟩) ((freed s a s.nLive).alloc tier).2.nLive).resize tier
            ((freed s a s.nLive).alloc tier).1 ext := rfl
      have ht : ∀ x, s'.tailAt x =
          if Address.new ((freed s a s.nLive).alloc tier).1 tier = x then some k.tail
          else if x = a then none else s.tailAt x := by
        intro x
        rw [tailAt_of_values hv x, hm2]
        have e : ((((freed s a s.nLive).alloc tier).2.setVal
            (Address.new ((freed s a s.nLive).alloc tier).1 tier)
            (some ⟨k.tail, v⟩) ((freed s a s.nLive).alloc tier).2.nLive).resize tier
            ((freed s a s.nLive).alloc tier).1 ext).tailAt x =
            (((freed s a s.nLive).alloc tier).2.setVal
            (Address.new ((freed s a s.nLive).alloc tier).1 tier)
            (some ⟨k.tail, v⟩) ((freed s a s.nLive).alloc tier).2.nLive).tailAt x := rfl
        rw [e, Col.tailAt_setVal, tailAt_of_values (Col.alloc_values _ tier) x, freed_tailAt]
        rfl
      refine ⟨fun x tl htl hx => ?_, fun x hx => ?_⟩
      · rw [ht x] at hx
        by_cases e : Address.new ((freed s a s.nLive).alloc tier).1 tier = x
        · simp only [e, if_true] at hx
          injection hx with hx; exact absurd hx.symm htl
        · simp only [e, if_false] at hx
          by_cases e2 : x = a
          · simp [e2] at hx
          · simpa [e2] using hx
      · rw [ht x] at hx
        by_cases e : Address.new ((freed s a s.nLive).alloc tier).1 tier = x
        · rw [← e]; exact address_tier_new _ _ hoff htier
        · simp only [e, if_false] at hx
          by_cases e2 : x = a
          · simp [e2] at hx
          · simp only [e2, if_false] at hx
            exact absurd (huniq x hx) e2

/-- `Dereference`: no tail appears. -/
theorem write_del_tails (s s' : Col) (k : Key) (h : write s k none = .ok s') :
    ∀ x tl, s'.tailAt x = some tl → s.tailAt x = some tl := by
  unfold write at h
  cases hs : searchAll s k with
  | none =>
    rw [hs] at h
    simp only at h
    injection h with h
    subst h
    exact fun _ _ hx => hx
  | some r =>
    obtain ⟨j, i, a⟩ := r
    rw [hs] at h
    simp only at h
    obtain ⟨s0, h0, hP⟩ := writeExisting_ok2 h
    simp only [hP.tailAt]
    clear hP h
    revert s0
    intro s' h
    unfold writeExisting0 at h
    simp only at h
    have key : ∀ x, s'.tailAt x =
        ((s.release (Address.size_tier a) (Address.offset a)).setVal a none (s.nLive - 1)).tailAt x := by
      intro x
      cases hr : (((s.release (Address.size_tier a) (Address.offset a)).setVal a none
          (s.nLive - 1)).tableAt j).remove k.pre i with
      | none => rw [hr] at h; simp only at h; injection h with h; subst h; rfl
      | some t =>
        rw [hr] at h
        simp only at h
        injection h with h
        subst h
        cases j <;> rfl
    intro x tl hx
    rw [key x, Col.tailAt_setVal] at hx
    by_cases e : a = x
    · simp [e] at hx
    · simp only [e, if_false] at hx
      exact hx

/-! ## the link is preserved by every action -/

theorem stepA_link {U : Key → Prop} {s s' : Col} {m : Key → Option Val} {mt : Key → Option Nat}
    (hU : Univ U) (hG : Good U s m) (hgrow : s.cfg.growOnMove = true) (hL : TierLink U s m mt)
    (a : Action) (ha : ActOK U a) (hfil : ∀ tier, tier < 256 → (s.tier tier).filled < 2 ^ 56)
    (h : stepA s a = .ok s') (hG' : Good U s' (specStep m a)) :
    TierLink U s' (specStep m a) (tierStep mt a) := by
  have frame : ∀ (a : Action), specStep m a = m → tierStep mt a = mt → s'.values = s.values →
      TierLink U s' (specStep m a) (tierStep mt a) := by
    intro a e1 e2 hv
    rw [e1, e2]
    exact ⟨hL.dom, fun k hk x hx => hL.tier k hk x (by rw [← tailAt_of_values hv x]; exact hx)⟩
  cases a with
  | set k tier ext v =>
    obtain ⟨h1, h2⟩ := write_set_tails hU hG hgrow k ha.1 tier ext v ha.2 (hfil tier ha.2) h
    refine ⟨fun k' => ?_, fun k' hk' x hx => ?_⟩
    · simp only [tierStep, specStep, upd]
      by_cases e : k' = k
      · simp [e]
      · simp only [e, if_false]; exact hL.dom k'
    · simp only [tierStep]
      by_cases e : k' = k
      · subst e
        simp only [if_true]
        rw [h2 x hx]
      · simp only [e, if_false]
        have hne : k'.tail ≠ k.tail := fun et => e (hU.atail k' k hk' ha.1 et)
        exact hL.tier k' hk' x (h1 x k'.tail hne hx)
  | del k =>
    have h1 := write_del_tails s s' k h
    refine ⟨fun k' => ?_, fun k' hk' x hx => ?_⟩
    · simp only [tierStep, specStep, upd]
      by_cases e : k' = k
      · simp [e]
      · simp only [e, if_false]; exact hL.dom k'
    · simp only [tierStep]
      by_cases e : k' = k
      · subst e
        exfalso
        obtain ⟨v, hv⟩ := (tailAt_eq_some s' x k'.tail).1 hx
        have := (hG'.abs k' hk' v).2 ⟨x, hv⟩
        simp [specStep, upd] at this
      · simp only [e, if_false]
        exact hL.tier k' hk' x (h1 x k'.tail hx)
  | reindex => exact frame .reindex rfl rfl (reindexBatch_values s s' h)
  | enact =>
    simp only [stepA] at h
    injection h with h; subst h
    exact frame .enact rfl rfl (enactDrop_values s)
  | reopen =>
    simp only [stepA] at h
    injection h with h; subst h
    exact frame .reopen rfl rfl (reopen_values s)
  | relaunch =>
    simp only [stepA] at h
    injection h with h; subst h
    exact frame .relaunch rfl rfl rfl

end Pdb.Index
