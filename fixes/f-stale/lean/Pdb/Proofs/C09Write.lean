/-
C09: planned writes (`write` = `HashColumn::write_plan`) preserve the invariants and implement
the map update; they do not panic when the page search is exact.
-/
import Pdb.Proofs.C09Purge
import Pdb.Proofs.C09Slots

namespace Pdb.Index
open Pdb.Gen Pdb.IndexPage

/-- Physical limits: at most 49 index bits, fewer than 2^56 slots per value table. -/
structure Bounded (s : Col) : Prop where
  bits : s.current.bits ≤ 49
  filled : ∀ tier, tier < 256 → (s.tier tier).filled ≤ 2 ^ 56

/-- The page search of the current table is exact (fixed `find_entry`, or >= 18 index bits). -/
def ExactCur (s : Col) : Prop := ExactAt s.cfg.exact s.current.bits

def upd (m : Key → Option Val) (k : Key) (o : Option Val) : Key → Option Val :=
  fun k' => if k' = k then o else m k'

structure Good (U : Key → Prop) (s : Col) (m : Key → Option Val) : Prop where
  idx : IdxInv U s
  slots : SlotInv s
  abs : Abs U s m

/-! ## value-table bookkeeping -/

theorem tailAt_vals_some (s0 s : Col) (a : Nat) (sl : Slot) (ts : Trie Tier) (n x : Nat) :
    (s.withVals (s0.values.set DEPTH a (some sl)) ts n).tailAt x =
      if x = a then some sl.tail else s0.tailAt x := by
  simp only [Col.tailAt, Col.valAt, Col.withVals, Trie.get_set]
  by_cases h : a = x
  · simp [h]
  · have : ¬ x = a := fun e => h e.symm
    simp [h, this]

theorem valAt_vals (s0 s : Col) (a : Nat) (o : Option Slot) (ts : Trie Tier) (n x : Nat) :
    (s.withVals (s0.values.set DEPTH a o) ts n).valAt x = if x = a then o else s0.valAt x := by
  simp only [Col.valAt, Col.withVals, Trie.get_set]
  by_cases h : a = x
  · simp [h]
  · have : ¬ x = a := fun e => h e.symm
    simp [h, this]

theorem tailAt_vals_none (s0 s : Col) (a : Nat) (ts : Trie Tier) (n x : Nat) :
    (s.withVals (s0.values.set DEPTH a none) ts n).tailAt x =
      if x = a then none else s0.tailAt x := by
  simp only [Col.tailAt, valAt_vals]
  by_cases h : x = a <;> simp [h]

theorem Col.alloc_snd (s : Col) (tier : Nat) :
    (s.alloc tier).2 = s.withVals s.values (s.alloc tier).2.tiers s.nLive := by
  cases hfr : (s.tier tier).free with
  | nil => rw [Col.alloc_nil s tier hfr]; rfl
  | cons o rest => rw [Col.alloc_cons s tier o rest hfr]; rfl

theorem tier_withVals (s : Col) (v : Trie Slot) (ts : Trie Tier) (n t : Nat) :
    (s.withVals v ts n).tier t = (ts.get t).getD Tier.init := rfl

theorem Col.resize_snd (s : Col) (tier hd m : Nat) :
    s.resize tier hd m = s.withVals s.values (s.resize tier hd m).tiers s.nLive := rfl

/-- the fill mark after `next_free` is at most the fill mark after the continuation slots have
been taken as well -/
theorem alloc_filled_le_resize (s : Col) (tier hd m : Nat) :
    ((s.alloc tier).2.tier tier).filled ≤ (((s.alloc tier).2.resize tier hd m).tier tier).filled := by
  rw [Col.tier_resize, if_pos rfl]
  exact Tier.resize_filled_le _ _ _

/-- the slot `next_free` returns holds no value -/
theorem SlotInv.alloc_fresh {s : Col} (h : SlotInv s) (tier : Nat) (htier : tier < 256)
    (hbound : ((s.alloc tier).2.tier tier).filled ≤ 2 ^ 56) :
    s.tailAt (Address.new (s.alloc tier).1 tier) = none ∧
      1 ≤ (s.alloc tier).1 ∧ (s.alloc tier).1 < 2 ^ 56 := by
  obtain ⟨_, h2, h3, h4⟩ := SlotInv.alloc_set (s' := (s.alloc tier).2.setVal
      (Address.new (s.alloc tier).1 tier) (some ⟨0, ""⟩) 0) h tier 0 htier
    hbound (fun _ => rfl) (fun x => by
      rw [Col.tailAt_setVal]
      have e : (s.alloc tier).2.tailAt x = s.tailAt x := by rw [Col.alloc_snd]; rfl
      by_cases hx : Address.new (s.alloc tier).1 tier = x
      · subst hx; simp
      · have : ¬ x = Address.new (s.alloc tier).1 tier := fun e => hx e.symm
        simp [hx, this, e])
  exact ⟨h2, h3, h4⟩

/-- `next_free` for the head slot, the continuation slots, and the value written at the head. -/
theorem SlotInv.alloc_resize {s s' : Col} (h : SlotInv s) (tier ext tl : Nat) (htier : tier < 256)
    (hts : ∀ t, s'.tier t = ((s.alloc tier).2.resize tier (s.alloc tier).1 ext).tier t)
    (ht : ∀ x, s'.tailAt x = if x = Address.new (s.alloc tier).1 tier then some tl else s.tailAt x)
    (hbound : (s'.tier tier).filled ≤ 2 ^ 56) :
    SlotInv s' ∧ s.tailAt (Address.new (s.alloc tier).1 tier) = none ∧
      1 ≤ (s.alloc tier).1 ∧ (s.alloc tier).1 < 2 ^ 56 := by
  have hb1 : ((s.alloc tier).2.tier tier).filled ≤ 2 ^ 56 := by
    rw [hts] at hbound
    exact Nat.le_trans (alloc_filled_le_resize s tier _ ext) hbound
  have ht1 : ∀ x, ((s.alloc tier).2.setVal (Address.new (s.alloc tier).1 tier) (some ⟨tl, ""⟩) 0).tailAt x =
      if x = Address.new (s.alloc tier).1 tier then some tl else s.tailAt x := by
    intro x
    rw [Col.tailAt_setVal]
    have e : (s.alloc tier).2.tailAt x = s.tailAt x := by rw [Col.alloc_snd]; rfl
    by_cases hx : Address.new (s.alloc tier).1 tier = x
    · subst hx; simp
    · have : ¬ x = Address.new (s.alloc tier).1 tier := fun e => hx e.symm
      simp [hx, this, e]
  obtain ⟨hS1, h2, h3, h4⟩ := SlotInv.alloc_set (s' := (s.alloc tier).2.setVal
      (Address.new (s.alloc tier).1 tier) (some ⟨tl, ""⟩) 0) h tier tl htier hb1 (fun _ => rfl) ht1
  refine ⟨?_, h2, h3, h4⟩
  have hlive := ht1 (Address.new (s.alloc tier).1 tier)
  rw [if_pos rfl] at hlive
  have e1 := address_tier_new (s.alloc tier).1 tier h4 htier
  have e2 := address_offset_new (s.alloc tier).1 tier h4 htier
  refine hS1.resize _ tl hlive ext (fun t => ?_) (fun x => by rw [ht, ht1]) (by rw [e1]; exact hbound)
  rw [hts, Col.tier_resize, e1, e2]
  by_cases e : tier = t
  · subst e; rw [if_pos rfl, if_pos rfl]; rfl
  · rw [if_neg e, if_neg e]; rfl

theorem Res.map_ok {f : Col → Col} {r : Res} {s' : Col} (h : r.map f = .ok s') :
    ∃ s, r = .ok s ∧ s' = f s := by
  cases r with
  | ok s => exact ⟨s, rfl, by injection h with h; exact h.symm⟩
  | panic => exact absurd h (by simp [Res.map])
  | diverge => exact absurd h (by simp [Res.map])

/-! ## the abstract map -/

theorem Abs.set {U : Key → Prop} {s s' : Col} {m : Key → Option Val} (hU : Univ U) (hA : Abs U s m)
    (k : Key) (hk : U k) (v : Val) (a : Nat)
    (hv : ∀ x, s'.valAt x = if x = a then some ⟨k.tail, v⟩ else s.valAt x)
    (hother : ∀ x, x ≠ a → s.tailAt x ≠ some k.tail)
    (hold : s.tailAt a = none ∨ s.tailAt a = some k.tail) : Abs U s' (upd m k (some v)) := by
  intro k' hk' v'
  unfold upd
  by_cases hkk : k' = k
  · subst hkk
    simp only [if_true]
    constructor
    · intro h; injection h with h; subst h
      exact ⟨a, by rw [hv]; simp⟩
    · rintro ⟨x, hx⟩
      rw [hv] at hx
      by_cases hxa : x = a
      · simp only [hxa, if_true] at hx
        injection hx with hx; injection hx with _ hx; rw [hx]
      · simp only [hxa, if_false] at hx
        exact absurd ((tailAt_eq_some s x k'.tail).2 ⟨v', hx⟩) (hother x hxa)
  · simp only [hkk, if_false]
    have hne : k'.tail ≠ k.tail := fun e => hkk (hU.atail k' k hk' hk e)
    rw [hA k' hk' v']
    constructor
    · rintro ⟨x, hx⟩
      refine ⟨x, ?_⟩
      rw [hv]
      have : x ≠ a := by
        intro e; subst e
        have h1 := (tailAt_eq_some s x k'.tail).2 ⟨v', hx⟩
        rcases hold with h2 | h2
        · rw [h2] at h1; exact absurd h1 (by simp)
        · rw [h2] at h1; injection h1 with h1; exact hne h1.symm
      simp [this, hx]
    · rintro ⟨x, hx⟩
      rw [hv] at hx
      by_cases hxa : x = a
      · simp only [hxa, if_true] at hx
        injection hx with hx; injection hx with hx _
        exact absurd hx.symm hne
      · simp only [hxa, if_false] at hx
        exact ⟨x, hx⟩

theorem Abs.del {U : Key → Prop} {s s' : Col} {m : Key → Option Val} (hU : Univ U) (hA : Abs U s m)
    (k : Key) (hk : U k) (a : Nat)
    (hv : ∀ x, s'.valAt x = if x = a then none else s.valAt x)
    (ha : s.tailAt a = some k.tail)
    (hother : ∀ x, x ≠ a → s.tailAt x ≠ some k.tail) : Abs U s' (upd m k none) := by
  intro k' hk' v'
  unfold upd
  by_cases hkk : k' = k
  · subst hkk
    simp only [if_true]
    constructor
    · intro h; exact absurd h (by simp)
    · rintro ⟨x, hx⟩
      rw [hv] at hx
      by_cases hxa : x = a
      · simp [hxa] at hx
      · simp only [hxa, if_false] at hx
        exact absurd ((tailAt_eq_some s x k'.tail).2 ⟨v', hx⟩) (hother x hxa)
  · simp only [hkk, if_false]
    have hne : k'.tail ≠ k.tail := fun e => hkk (hU.atail k' k hk' hk e)
    rw [hA k' hk' v']
    constructor
    · rintro ⟨x, hx⟩
      refine ⟨x, ?_⟩
      rw [hv]
      have : x ≠ a := by
        intro e; subst e
        have h1 := (tailAt_eq_some s x k'.tail).2 ⟨v', hx⟩
        rw [ha] at h1; injection h1 with h1; exact hne h1.symm
      simp [this, hx]
    · rintro ⟨x, hx⟩
      rw [hv] at hx
      by_cases hxa : x = a
      · simp [hxa] at hx
      · simp only [hxa, if_false] at hx
        exact ⟨x, hx⟩

theorem Abs.congr {U : Key → Prop} {s s' : Col} {m : Key → Option Val} (hA : Abs U s m)
    (hv : ∀ x, s'.valAt x = s.valAt x) : Abs U s' m := by
  intro k hk v
  rw [hA k hk v]
  constructor <;> rintro ⟨x, hx⟩ <;> exact ⟨x, by rw [hv] at *; exact hx⟩

/-! ## `write_plan_new` -/

theorem writeNew_ok {U : Key → Prop} {s s' : Col} {m : Key → Option Val} (hU : Univ U)
    (hG : Good U s m) (k : Key) (hk : U k) (tier ext : Nat) (v : Val) (htier : tier < 256)
    (hnone : searchAll s k = none) (h : writeNew s k tier ext v = .ok s') (hB : Bounded s') :
    Good U s' (upd m k (some v)) := by
  unfold writeNew at h
  simp only at h
  have e2 : ((s.alloc tier).2.setVal (Address.new (s.alloc tier).1 tier) (some ⟨k.tail, v⟩)
        ((s.alloc tier).2.nLive + 1)).resize tier (s.alloc tier).1 ext =
      s.withVals (s.values.set DEPTH (Address.new (s.alloc tier).1 tier) (some ⟨k.tail, v⟩))
        ((s.alloc tier).2.resize tier (s.alloc tier).1 ext).tiers (s.nLive + 1) := by
    rw [Col.alloc_snd s tier]; rfl
  rw [e2, insertLoop_withVals] at h
  obtain ⟨si, hi, hs'⟩ := Res.map_ok h
  subst hs'
  have hbits : si.current.bits ≤ 49 := hB.bits
  obtain ⟨hE, hS, hH⟩ := insertLoop_ok _ _ _ s si hG.idx.shape hi hbits
  have hnolive : ∀ x, s.tailAt x ≠ some k.tail := searchAll_complete hU hG.idx k hk hnone
  -- slots
  have htail : ∀ x, (si.withVals (s.values.set DEPTH (Address.new (s.alloc tier).1 tier)
      (some ⟨k.tail, v⟩)) ((s.alloc tier).2.resize tier (s.alloc tier).1 ext).tiers (s.nLive + 1)).tailAt x =
      if x = Address.new (s.alloc tier).1 tier then some k.tail else s.tailAt x :=
    fun x => tailAt_vals_some s si _ _ _ _ x
  obtain ⟨hSl, hfresh, ho1, ho56⟩ := SlotInv.alloc_resize
    (s' := si.withVals (s.values.set DEPTH (Address.new (s.alloc tier).1 tier)
      (some ⟨k.tail, v⟩)) ((s.alloc tier).2.resize tier (s.alloc tier).1 ext).tiers (s.nLive + 1))
    hG.slots tier ext k.tail htier (fun _ => rfl) htail (hB.filled tier htier)
  have ha0 : Address.new (s.alloc tier).1 tier ≠ 0 := address_new_ne_zero _ _ ho56 htier ho1
  refine ⟨?_, hSl, ?_⟩
  · refine (hG.idx.ext hE hS).add_val hU rfl rfl rfl _ k hk (fun x => ?_) (fun x _ => ?_) (hH ha0)
    · rw [htail x, hE.tailAt]
    · rw [hE.tailAt]; exact hnolive x
  · exact hG.abs.set hU k hk v _ (fun x => valAt_vals s si _ _ _ _ x) (fun x _ => hnolive x)
      (Or.inl hfresh)

/-! ## a key found by `search_all_indexes` -/

structure Found (s : Col) (k : Key) (j i a : Nat) (tj : Table) : Prop where
  live : s.tailAt a = some k.tail
  tab : s.tables[j]? = some tj
  wf : TableWF tj
  pos : i < 64
  addr : Entry.address ((tj.page (tj.chunk k.pre)).getD i 0) tj.bits = a
  ne : (tj.page (tj.chunk k.pre)).getD i 0 ≠ 0
  exact : ExactAt s.cfg.exact tj.bits → BaseMatch tj.bits k.pre (tj.page (tj.chunk k.pre)) i

theorem found_of_search {U : Key → Prop} {s : Col} (hI : IdxInv U s) (k : Key) (j i a : Nat)
    (h : searchAll s k = some (j, i, a)) : ∃ tj, Found s k j i a tj := by
  obtain ⟨hl, tj, htab, hs⟩ := searchAll_sound hI k j i a h
  have hwf := hI.wf tj (List.mem_of_getElem? htab)
  have := searchTable_sound s tj k i a hwf hs
  exact ⟨tj, hl, htab, hwf, this.2.1, this.2.2.2.1.symm, this.2.2.1, this.2.2.2.2⟩

/-- no other slot holds the tail of a found key -/
theorem Found.unique {U : Key → Prop} {s : Col} {k : Key} {j i a : Nat} {tj : Table}
    (hI : IdxInv U s) (hF : Found s k j i a tj) (x : Nat) (hx : x ≠ a) :
    s.tailAt x ≠ some k.tail :=
  fun h => hx (hI.inj x a k.tail h hF.live)

/-! ## `clear_slot` of a found value -/

def freed (s : Col) (a n : Nat) : Col :=
  (s.release (Address.size_tier a) (Address.offset a)).setVal a none n

theorem freed_tailAt (s : Col) (a n x : Nat) :
    (freed s a n).tailAt x = if x = a then none else s.tailAt x := by
  simp only [freed, Col.tailAt_setVal]
  by_cases h : a = x
  · simp [h]
  · have : ¬ x = a := fun e => h e.symm
    simp only [h, this, if_false]
    rfl

theorem freed_valAt (s : Col) (a n x : Nat) :
    (freed s a n).valAt x = if x = a then none else s.valAt x := by
  simp only [freed, Col.valAt_setVal]
  by_cases h : a = x
  · simp [h]
  · have : ¬ x = a := fun e => h e.symm
    simp only [h, this, if_false]
    rfl

theorem Col.tier_release (s : Col) (tier off t : Nat) :
    (s.release tier off).tier t =
      if tier = t then ⟨(s.tier tier).filled,
        (off :: chainRest (s.tier tier).chains off).reverse ++ (s.tier tier).free,
        chainDrop (s.tier tier).chains off⟩ else s.tier t :=
  Col.tier_set s tier t _

theorem freed_tier (s : Col) (a n t : Nat) :
    (freed s a n).tier t = if Address.size_tier a = t then
      ⟨(s.tier t).filled,
        (Address.offset a :: chainRest (s.tier t).chains (Address.offset a)).reverse ++ (s.tier t).free,
        chainDrop (s.tier t).chains (Address.offset a)⟩ else s.tier t := by
  have : (freed s a n).tier t = (s.release (Address.size_tier a) (Address.offset a)).tier t := rfl
  rw [this, Col.tier_release]
  by_cases h : Address.size_tier a = t
  · subst h; simp
  · simp [h]

theorem freed_good {U : Key → Prop} {s : Col} {m : Key → Option Val} (hU : Univ U)
    (hG : Good U s m) (k : Key) (hk : U k) (a n : Nat) (hl : s.tailAt a = some k.tail) :
    Good U (freed s a n) (upd m k none) :=
  ⟨hG.idx.del_val rfl rfl rfl a (freed_tailAt s a n),
   hG.slots.free_val a k.tail hl (freed_tier s a n) (freed_tailAt s a n),
   hG.abs.del hU k hk a (freed_valAt s a n) hl (fun x hx h => hx (hG.idx.inj x a k.tail h hl))⟩

/-! ## `write_plan_existing`: replace in place -/

theorem write_inplace_ok {U : Key → Prop} {s : Col} {m : Key → Option Val} (hU : Univ U)
    (hG : Good U s m) (k : Key) (hk : U k) (a ext : Nat) (v : Val) (hl : s.tailAt a = some k.tail)
    (hB : Bounded ((s.setVal a (some ⟨k.tail, v⟩) s.nLive).resize (Address.size_tier a)
      (Address.offset a) ext)) :
    Good U ((s.setVal a (some ⟨k.tail, v⟩) s.nLive).resize (Address.size_tier a) (Address.offset a) ext)
      (upd m k (some v)) := by
  have ht : ∀ x, (s.setVal a (some ⟨k.tail, v⟩) s.nLive).tailAt x = s.tailAt x := by
    intro x
    rw [Col.tailAt_setVal]
    by_cases h : a = x
    · subst h; simp [hl]
    · simp [h]
  have hS1 : SlotInv (s.setVal a (some ⟨k.tail, v⟩) s.nLive) := hG.slots.congr (fun _ => rfl) ht
  have hd := hG.slots.decode a k.tail hl
  refine ⟨?_, ?_, ?_⟩
  · exact hG.idx.congr rfl rfl rfl ht
  · refine hS1.resize a k.tail (by rw [ht]; exact hl) ext (fun t => ?_) (fun _ => rfl)
      (hB.filled _ hd.1)
    rw [Col.tier_resize]
    by_cases e : Address.size_tier a = t
    · subst e; simp
    · simp [e]
  · refine hG.abs.set hU k hk v a (fun x => ?_) (fun x hx h => hx (hG.idx.inj x a k.tail h hl))
      (Or.inr hl)
    have e : ((s.setVal a (some ⟨k.tail, v⟩) s.nLive).resize (Address.size_tier a) (Address.offset a)
        ext).valAt x = (s.setVal a (some ⟨k.tail, v⟩) s.nLive).valAt x := rfl
    rw [e, Col.valAt_setVal]
    by_cases h : a = x
    · simp [h]
    · have : ¬ x = a := fun e => h e.symm
      simp [h, this]

/-! ## `write_plan_existing`: remove -/

/-- zeroing / overwriting the found entry relates the table to itself up to dead addresses -/
theorem Found.tabRel {s s1 : Col} {k : Key} {j i a : Nat} {tj t : Table} (hF : Found s k j i a tj)
    (hdead : s1.tailAt a = none) (hb : t.bits = tj.bits) (e : Nat) (he : e < 2 ^ 64)
    (hnew : e ≠ 0 → s1.tailAt (Entry.address e tj.bits) = none)
    (hp : ∀ c, t.page c = if tj.chunk k.pre = c then (tj.page (tj.chunk k.pre)).set i e else tj.page c) :
    TabRel s1 tj t := by
  refine ⟨hb, TableWF.of_pages tj t hF.wf hb _ i e he hp, fun kp a' hh hl => ?_, fun kp a' hh hl => ?_⟩
  · refine Table.has_of_pages tj t hb _ i e hp kp a' hh (fun _ => Or.inl ?_)
    rw [hF.addr]
    intro e1; rw [e1] at hdead; exact hl hdead
  · rcases Table.has_rev_of_pages tj t hb _ i e hp kp a' hh with h1 | ⟨_, h2, h3⟩
    · exact h1
    · exfalso; rw [← h3] at hl; exact hl (hnew h2)

theorem write_remove_ok {U : Key → Prop} {s s' : Col} {m : Key → Option Val} (hU : Univ U)
    (hG : Good U s m) (k : Key) (hk : U k) (j i a : Nat) (tj : Table) (hF : Found s k j i a tj)
    (h : writeExisting0 s k none j i a = .ok s') : Good U s' (upd m k none) := by
  have hG1 := freed_good hU hG k hk a (s.nLive - 1) hF.live
  have htj : (freed s a (s.nLive - 1)).tableAt j = tj := by
    have : (freed s a (s.nLive - 1)).tables = s.tables := rfl
    simp only [Col.tableAt, this, List.getD_eq_getElem?_getD, hF.tab, Option.getD_some]
  have hdead : (freed s a (s.nLive - 1)).tailAt a = none := by rw [freed_tailAt]; simp
  unfold writeExisting0 at h
  simp only at h
  change (match ((freed s a (s.nLive - 1)).tableAt j).remove k.pre i with
    | some t => Res.ok ((freed s a (s.nLive - 1)).setTableAt j t)
    | none => Res.ok (freed s a (s.nLive - 1))) = Res.ok s' at h
  rw [htj] at h
  cases hr : tj.remove k.pre i with
  | none =>
    rw [hr] at h
    simp only at h
    injection h with h
    subst h
    exact hG1
  | some t =>
    rw [hr] at h
    simp only at h
    injection h with h
    subst h
    obtain ⟨hb, hp⟩ := Table.remove_some tj t k.pre i hr
    have hrel : TabRel (freed s a (s.nLive - 1)) tj t :=
      hF.tabRel hdead hb 0 (by decide) (fun h0 => absurd rfl h0) hp
    have hwfo : ∀ t' ∈ (freed s a (s.nLive - 1)).older, TableWF t' :=
      fun t' ht' => hG1.idx.wf t' (by simp [Col.tables, ht'])
    have hwfc : TableWF (freed s a (s.nLive - 1)).current := hG1.idx.wf _ (by simp [Col.tables])
    cases j with
    | zero =>
      have hcur : tj = s.current := by
        have := hF.tab
        simp only [Col.tables, List.getElem?_cons_zero, Option.some.injEq] at this
        exact this.symm
      have hrel' : TabRel (freed s a (s.nLive - 1)) (freed s a (s.nLive - 1)).current t := by
        have : (freed s a (s.nLive - 1)).current = tj := hcur.symm
        rw [this]; exact hrel
      refine ⟨hG1.idx.pointwise (s' := (freed s a (s.nLive - 1)).setTableAt 0 t) rfl (fun _ => rfl)
        hrel' (RelL.refl_of _ hwfo), hG1.slots.congr (fun _ => rfl) (fun _ => rfl),
        hG1.abs.congr (fun _ => rfl)⟩
    | succ j' =>
      have hold : (freed s a (s.nLive - 1)).older[j']? = some tj := by
        have h1 := hF.tab
        simp only [Col.tables, List.getElem?_cons_succ] at h1
        exact h1
      refine ⟨hG1.idx.pointwise (s' := (freed s a (s.nLive - 1)).setTableAt (j' + 1) t) rfl
        (fun _ => rfl) (TabRel.refl _ _ hwfc) (RelL.set _ hwfo j' tj t hold hrel),
        hG1.slots.congr (fun _ => rfl) (fun _ => rfl), hG1.abs.congr (fun _ => rfl)⟩

/-! ## `write_plan_existing`: move to another size tier -/

theorem Table.insert_some_needReindex (t : Table) (kp a i : Nat)
    (h : t.insert kp a (some i) = .needReindex) : t.insert kp a none = .needReindex := by
  unfold Table.insert at h ⊢
  by_cases hla : a > Entry.last_address t.bits
  · simp [hla]
  · simp only [hla, if_false] at h
    by_cases hc : Entry.partial_key (entryAt (t.page (t.chunk kp)) i) t.bits =
        Entry.partial_key (Entry.new a (Entry.extract_key kp t.bits) t.bits) t.bits
    · simp [hc] at h
    · simp [hc] at h

theorem Table.insert_ne_skipped (t : Table) (kp a : Nat) (sub : Option Nat) :
    t.insert kp a sub ≠ .skipped := by
  unfold Table.insert
  by_cases hla : a > Entry.last_address t.bits
  · simp [hla]
  · simp only [hla, if_false]
    cases sub with
    | none =>
      simp only
      cases firstEmpty (t.page (t.chunk kp)) INDEX_CHUNK_ENTRIES 0 <;> simp
    | some i =>
      simp only
      by_cases hc : Entry.partial_key (entryAt (t.page (t.chunk kp)) i) t.bits =
          Entry.partial_key (Entry.new a (Entry.extract_key kp t.bits) t.bits) t.bits <;> simp [hc]

/-- The index part of a move (with growth on a full page), seen on the value-free state. -/
theorem move_index {U : Key → Prop} {sD s' : Col} (hI : IdxInv U sD) (kp a' : Nat)
    (sub : Option Nat) (ha0 : a' ≠ 0) (hdead : sD.tailAt a' = none)
    (hsub : ∀ i, sub = some i → i < 64 ∧
      sD.tailAt (Entry.address ((sD.current.page (sD.current.chunk kp)).getD i 0) sD.current.bits) = none)
    (VS : Trie Slot) (TS : Trie Tier) (N F : Nat)
    (h : insertCont (sD.withVals VS TS N) (sD.current.insert kp a' sub)
      (fun _ => insertLoop (triggerReindex (sD.withVals VS TS N)) kp a' F) = .ok s')
    (hbits : s'.current.bits ≤ 49) :
    ∃ sI, s' = sI.withVals VS TS N ∧ IdxInv U sI ∧ sI.current.Has kp a' ∧
      sI.values = sD.values := by
  have hwfc : TableWF sD.current := hI.wf _ (by simp [Col.tables])
  cases hins : sD.current.insert kp a' sub with
  | skipped => exact absurd hins (Table.insert_ne_skipped _ _ _ _)
  | panic => rw [hins] at h; simp only [insertCont] at h; cases h
  | needReindex =>
    rw [hins] at h
    simp only [insertCont] at h
    have e1 : triggerReindex (sD.withVals VS TS N) = (triggerReindex sD).withVals VS TS N := rfl
    rw [e1, insertLoop_withVals] at h
    cases hi : insertLoop (triggerReindex sD) kp a' F with
    | panic => rw [hi] at h; simp only [Res.map] at h; cases h
    | diverge => rw [hi] at h; simp only [Res.map] at h; cases h
    | ok sI =>
      rw [hi] at h
      simp only [Res.map] at h
      injection h with h
      have hs' : s' = sI.withVals VS TS N := h.symm
      have hnone : sD.current.insert kp a' none = .needReindex := by
        cases sub with
        | none => exact hins
        | some i => exact Table.insert_some_needReindex _ _ _ _ hins
      have hloop : insertLoop sD kp a' (F + 1) = .ok sI := by
        rw [insertLoop_succ, hnone]
        simp only [insertCont]
        exact hi
      have hb : sI.current.bits ≤ 49 := by rw [hs'] at hbits; exact hbits
      obtain ⟨hE, hS, hH⟩ := insertLoop_ok kp a' _ sD sI hI.shape hloop hb
      exact ⟨sI, hs', hI.ext hE hS, hH ha0, hE.values⟩
  | written t =>
    rw [hins] at h
    simp only [insertCont] at h
    injection h with h
    have hs' : s' = ({ sD with current := t } : Col).withVals VS TS N := h.symm
    have hb : t.bits ≤ 49 := by rw [hs'] at hbits; exact hbits
    cases sub with
    | none =>
      have hloop : insertLoop sD kp a' 1 = .ok { sD with current := t } := by
        rw [insertLoop_succ, hins]
        simp only [insertCont]
      obtain ⟨hE, hS, hH⟩ := insertLoop_ok kp a' _ sD _ hI.shape hloop hb
      exact ⟨_, hs', hI.ext hE hS, hH ha0, rfl⟩
    | some i =>
      obtain ⟨hla, hbt, hpk, hp⟩ := Table.insert_some_written _ _ _ _ _ hwfc hins
      have hpklt := extract_key_lt kp sD.current.bits hwfc.hi
      have hnewlt := entry_new_lt a' (Entry.extract_key kp sD.current.bits) sD.current.bits hwfc.hi hla
      have haddr := entry_address_new a' _ sD.current.bits hwfc.hi hpklt hla
      have hrel : TabRel sD sD.current t := by
        refine ⟨hbt, TableWF.of_pages _ t hwfc hbt _ i _ hnewlt hp, fun kp' a'' hh hl => ?_,
          fun kp' a'' hh hl => ?_⟩
        · refine Table.has_of_pages _ t hbt _ i _ hp kp' a'' hh (fun _ => Or.inl ?_)
          intro e1
          have := (hsub i rfl).2
          rw [e1] at this
          exact hl this
        · rcases Table.has_rev_of_pages _ t hbt _ i _ hp kp' a'' hh with h1 | ⟨_, _, h3⟩
          · exact h1
          · exfalso
            rw [haddr] at h3
            rw [← h3] at hl
            exact hl hdead
      have hwfo : ∀ t' ∈ sD.older, TableWF t' := fun t' ht' => hI.wf t' (by simp [Col.tables, ht'])
      have hI' : IdxInv U ({ sD with current := t } : Col) :=
        hI.pointwise (s' := { sD with current := t }) rfl (fun _ => rfl) hrel (RelL.refl_of _ hwfo)
      -- position i is within the page: the old entry had the key's partial key; the new one is a witness
      have hhas : t.Has kp a' :=
        Table.has_written _ t hwfc hbt kp a' i (hsub i rfl).1 hla ha0 hp
      exact ⟨_, hs', hI', hhas, rfl⟩

theorem upd_upd (m : Key → Option Val) (k : Key) (o1 o2 : Option Val) :
    upd (upd m k o1) k o2 = upd m k o2 := by
  funext k'
  unfold upd
  by_cases h : k' = k <;> simp [h]

theorem write_move_ok {U : Key → Prop} {s s' : Col} {m : Key → Option Val} (hU : Univ U)
    (hG : Good U s m) (k : Key) (hk : U k) (j i a : Nat) (tj : Table) (hF : Found s k j i a tj)
    (tier' ext : Nat) (v : Val) (htier' : tier' < 256) (hne : Address.size_tier a ≠ tier')
    (hgrow : s.cfg.growOnMove = true)
    (h : writeExisting0 s k (some (tier', ext, v)) j i a = .ok s') (hB : Bounded s') :
    Good U s' (upd m k (some v)) ∧ s'.tailAt a = none := by
  have hGD := freed_good hU hG k hk a s.nLive hF.live
  -- the value part
  have hmv : moveValue s k a tier' ext v =
      (Address.new ((freed s a s.nLive).alloc tier').1 tier',
       (freed s a s.nLive).withVals
         ((freed s a s.nLive).values.set DEPTH (Address.new ((freed s a s.nLive).alloc tier').1 tier')
           (some ⟨k.tail, v⟩))
         (((freed s a s.nLive).alloc tier').2.resize tier' ((freed s a s.nLive).alloc tier').1 ext).tiers
         (freed s a s.nLive).nLive) := by
    unfold moveValue
    simp only
    have : (s.release (Address.size_tier a) (Address.offset a)).setVal a none s.nLive =
        freed s a s.nLive := rfl
    rw [this, Col.alloc_snd (freed s a s.nLive) tier']
    rfl
  unfold writeExisting0 at h
  simp only [hne, if_false, hgrow, if_true] at h
  rw [hmv] at h
  simp only at h
  have hdeadD : (freed s a s.nLive).tailAt a = none := by rw [freed_tailAt]; simp
  have hother : ∀ x, (freed s a s.nLive).tailAt x ≠ some k.tail := by
    intro x
    rw [freed_tailAt]
    by_cases hx : x = a
    · simp [hx]
    · simp only [hx, if_false]; exact hF.unique hG.idx x hx
  have hsub : ∀ i', (if j = 0 then some i else none) = some i' → i' < 64 ∧
      (freed s a s.nLive).tailAt (Entry.address (((freed s a s.nLive).current.page
        ((freed s a s.nLive).current.chunk k.pre)).getD i' 0) (freed s a s.nLive).current.bits) = none := by
    intro i' hi'
    by_cases hj : j = 0
    · simp only [hj, if_true] at hi'
      injection hi' with hi'
      subst hi'
      have hcur : tj = (freed s a s.nLive).current := by
        have := hF.tab
        rw [hj] at this
        simp only [Col.tables, List.getElem?_cons_zero, Option.some.injEq] at this
        exact this.symm
      rw [← hcur, hF.addr]
      exact ⟨hF.pos, hdeadD⟩
    · simp [hj] at hi'
  generalize freed s a s.nLive = sD at hGD h hdeadD hother hsub
  -- the tiers of the final state are those after the allocation
  have htiers : s'.tiers = ((sD.alloc tier').2.resize tier' (sD.alloc tier').1 ext).tiers :=
    insertCont_tiers (s := (sD.withVals (sD.values.set DEPTH (Address.new (sD.alloc tier').1 tier') (some ⟨k.tail, v⟩)) ((sD.alloc tier').2.resize tier' (sD.alloc tier').1 ext).tiers sD.nLive)) _ _ _ _ _ h
  have hbnd2 : (((sD.alloc tier').2.resize tier' (sD.alloc tier').1 ext).tier tier').filled ≤ 2 ^ 56 := by
    have h1 := hB.filled tier' htier'
    simp only [Col.tier] at h1 ⊢
    rw [htiers] at h1
    exact h1
  have hbnd : ((sD.alloc tier').2.tier tier').filled ≤ 2 ^ 56 :=
    Nat.le_trans (alloc_filled_le_resize sD tier' _ ext) hbnd2
  have hfreshD := hGD.slots.alloc_fresh tier' htier' hbnd
  have ha0 : Address.new (sD.alloc tier').1 tier' ≠ 0 :=
    address_new_ne_zero _ _ hfreshD.2.2 htier' hfreshD.2.1
  obtain ⟨sI, hs', hII, hHas, hvals⟩ := move_index hGD.idx k.pre _ _ ha0 hfreshD.1 hsub _ _ _ _ h hB.bits
  subst hs'
  have hItail : ∀ x, sI.tailAt x = sD.tailAt x := by
    intro x; simp only [Col.tailAt, Col.valAt, hvals]
  have htail : ∀ x, (sI.withVals (sD.values.set DEPTH (Address.new (sD.alloc tier').1 tier')
      (some ⟨k.tail, v⟩)) ((sD.alloc tier').2.resize tier' (sD.alloc tier').1 ext).tiers sD.nLive).tailAt x =
      if x = Address.new (sD.alloc tier').1 tier' then some k.tail else sD.tailAt x :=
    fun x => tailAt_vals_some sD sI _ _ _ _ x
  obtain ⟨hSl, _, _, _⟩ := SlotInv.alloc_resize
    (s' := sI.withVals (sD.values.set DEPTH (Address.new (sD.alloc tier').1 tier')
      (some ⟨k.tail, v⟩)) ((sD.alloc tier').2.resize tier' (sD.alloc tier').1 ext).tiers sD.nLive)
    hGD.slots tier' ext k.tail htier' (fun _ => rfl) htail hbnd2
  refine ⟨⟨?_, hSl, ?_⟩, ?_⟩
  rotate_left 2
  · rw [htail a, if_neg, hdeadD]
    intro e
    apply hne
    rw [e]
    exact address_tier_new _ _ hfreshD.2.2 htier'
  · refine hII.add_val hU rfl rfl rfl _ k hk (fun x => ?_) (fun x _ => ?_) hHas
    · rw [htail x, hItail]
    · rw [hItail]; exact hother x
  · have := hGD.abs.set (s' := sI.withVals (sD.values.set DEPTH (Address.new (sD.alloc tier').1 tier')
        (some ⟨k.tail, v⟩)) ((sD.alloc tier').2.resize tier' (sD.alloc tier').1 ext).tiers sD.nLive) hU k hk v _
      (fun x => valAt_vals sD sI _ _ _ _ x) (fun x _ => hother x) (Or.inl hfreshD.1)
    rw [upd_upd] at this
    exact this

theorem Col.setTableAt_tailAt (s : Col) (j : Nat) (t : Table) (x : Nat) :
    (s.setTableAt j t).tailAt x = s.tailAt x := by cases j <;> rfl

/-- after the removal of the found value nothing lives at its address -/
theorem writeExisting0_none_dead {s s0 : Col} {k : Key} {j i a : Nat}
    (h : writeExisting0 s k none j i a = .ok s0) : s0.tailAt a = none := by
  unfold writeExisting0 at h
  simp only at h
  change (match ((freed s a (s.nLive - 1)).tableAt j).remove k.pre i with
    | some t => Res.ok ((freed s a (s.nLive - 1)).setTableAt j t)
    | none => Res.ok (freed s a (s.nLive - 1))) = Res.ok s0 at h
  cases hr : ((freed s a (s.nLive - 1)).tableAt j).remove k.pre i with
  | none =>
    rw [hr] at h
    injection h with h
    subst h
    rw [freed_tailAt]; simp
  | some t =>
    rw [hr] at h
    injection h with h
    subst h
    rw [Col.setTableAt_tailAt, freed_tailAt]; simp

/-! ## the removal of the stale entries keeps everything -/

theorem Good.purgeOlder {U : Key → Prop} {s : Col} {m : Key → Option Val} (hG : Good U s m)
    (kp a : Nat) (hdead : s.tailAt a = none) : Good U (purgeOlder s kp a) m :=
  ⟨hG.idx.purgeOlder kp a hdead,
   hG.slots.congr (purgeOlder_tier s kp a) (purgeOlder_tailAt s kp a),
   hG.abs.congr (purgeOlder_valAt s kp a)⟩

theorem Bounded.of_purgeOlder {s : Col} {kp a : Nat} (h : Bounded (purgeOlder s kp a)) : Bounded s :=
  ⟨by have := h.bits; rwa [purgeOlder_current] at this,
   fun tier ht => by have := h.filled tier ht; rwa [purgeOlder_tier] at this⟩

theorem Bounded.purgeOlder {s : Col} (h : Bounded s) (kp a : Nat) : Bounded (purgeOlder s kp a) :=
  ⟨by rw [purgeOlder_current]; exact h.bits,
   fun tier ht => by rw [purgeOlder_tier]; exact h.filled tier ht⟩

/-- after a removal or a move of the found value no value lives at the old address -/
theorem dead_after {U : Key → Prop} {s0 : Col} {m' : Key → Option Val} {k : Key} (hU : Univ U)
    (hG0 : Good U s0 m') (hk : U k) (a : Nat)
    (hnot : ∀ v, s0.valAt a ≠ some ⟨k.tail, v⟩)
    (hold : ∀ tl, s0.tailAt a = some tl → tl = k.tail) : s0.tailAt a = none := by
  cases h : s0.tailAt a with
  | none => rfl
  | some tl =>
    have := hold tl h
    subst this
    obtain ⟨v, hv⟩ := (tailAt_eq_some s0 a k.tail).1 h
    exact absurd hv (hnot v)

/-! ## `write_plan` -/

theorem Abs.del_absent {U : Key → Prop} {s : Col} {m : Key → Option Val} (hA : Abs U s m)
    (k : Key) (hk : U k) (habs : ∀ x, s.tailAt x ≠ some k.tail) : Abs U s (upd m k none) := by
  intro k' hk' v'
  unfold upd
  by_cases hkk : k' = k
  · subst hkk
    simp only [if_true]
    constructor
    · intro h; exact absurd h (by simp)
    · rintro ⟨x, hx⟩
      exact absurd ((tailAt_eq_some s x k'.tail).2 ⟨v', hx⟩) (habs x)
  · simp only [hkk, if_false]
    exact hA k' hk' v'

/-- Planned writes keep the invariants and implement the map update (with the move fix). -/
theorem write_ok {U : Key → Prop} {s s' : Col} {m : Key → Option Val} (hU : Univ U)
    (hG : Good U s m) (k : Key) (hk : U k) (op : Option (Nat × Nat × Val))
    (hop : ∀ t e v, op = some (t, e, v) → t < 256) (hgrow : s.cfg.growOnMove = true)
    (h : write s k op = .ok s') (hB : Bounded s') : Good U s' (upd m k (op.map (·.2.2))) := by
  unfold write at h
  cases hs : searchAll s k with
  | none =>
    rw [hs] at h
    simp only at h
    cases op with
    | none =>
      simp only at h
      injection h with h
      subst h
      exact ⟨hG.idx, hG.slots, hG.abs.del_absent k hk (searchAll_complete hU hG.idx k hk hs)⟩
    | some tv =>
      obtain ⟨tier, ext, v⟩ := tv
      simp only at h
      exact writeNew_ok hU hG k hk tier ext v (hop tier ext v rfl) hs h hB
  | some r =>
    obtain ⟨j, i, a⟩ := r
    rw [hs] at h
    simp only at h
    obtain ⟨tj, hF⟩ := found_of_search hG.idx k j i a hs
    cases op with
    | none =>
      rw [writeExisting_none] at h
      obtain ⟨s0, h0, hs'⟩ := Res.map_ok h
      subst hs'
      have hG0 := write_remove_ok hU hG k hk j i a tj hF h0
      exact hG0.purgeOlder _ _ (writeExisting0_none_dead h0)
    | some tv =>
      obtain ⟨tier', ext, v⟩ := tv
      by_cases hti : Address.size_tier a = tier'
      · rw [writeExisting_inplace _ _ _ _ _ _ _ _ hti] at h
        have : writeExisting0 s k (some (tier', ext, v)) j i a =
            .ok ((s.setVal a (some ⟨k.tail, v⟩) s.nLive).resize (Address.size_tier a)
              (Address.offset a) ext) := by
          unfold writeExisting0
          simp only [hti, if_true]
        rw [this] at h
        injection h with h
        subst h
        exact write_inplace_ok hU hG k hk a ext v hF.live hB
      · rw [writeExisting_move _ _ _ _ _ _ _ _ hti] at h
        obtain ⟨s0, h0, hs'⟩ := Res.map_ok h
        subst hs'
        obtain ⟨hG0, hd0⟩ := write_move_ok hU hG k hk j i a tj hF tier' ext v (hop tier' ext v rfl) hti
          hgrow h0 hB.of_purgeOlder
        exact hG0.purgeOlder _ _ hd0

theorem moveValue_current (s : Col) (k : Key) (a tier' ext : Nat) (v : Val) :
    (moveValue s k a tier' ext v).2.current = s.current := by
  unfold moveValue
  simp only
  rw [Col.alloc_snd]
  rfl

/-- With an exact page search a planned write never panics. -/
theorem write_ne_panic {U : Key → Prop} {s : Col} {m : Key → Option Val}
    (hG : Good U s m) (hx : ExactCur s) (k : Key) (op : Option (Nat × Nat × Val)) :
    write s k op ≠ .panic := by
  unfold write
  cases hs : searchAll s k with
  | none =>
    simp only
    cases op with
    | none => simp
    | some tv =>
      obtain ⟨tier, ext, v⟩ := tv
      simp only
      unfold writeNew
      exact insertLoop_ne_panic _ _ _ _
  | some r =>
    obtain ⟨j, i, a⟩ := r
    simp only
    obtain ⟨tj, hF⟩ := found_of_search hG.idx k j i a hs
    rw [Ne, writeExisting_panic_iff]
    cases op with
    | none =>
      unfold writeExisting0
      simp only
      cases ((s.release (Address.size_tier a) (Address.offset a)).setVal a none (s.nLive - 1)).tableAt j
        |>.remove k.pre i <;> simp
    | some tv =>
      obtain ⟨tier', ext, v⟩ := tv
      unfold writeExisting0
      simp only
      by_cases hti : Address.size_tier a = tier'
      · simp [hti]
      · simp only [hti, if_false]
        have hcur := moveValue_current s k a tier' ext v
        have hwf : TableWF (moveValue s k a tier' ext v).2.current := by
          rw [hcur]; exact hG.idx.wf _ (by simp [Col.tables])
        have hnext : ∀ u : Unit, (fun (_ : Unit) => if s.cfg.growOnMove = true then
            insertLoop (triggerReindex (moveValue s k a tier' ext v).2) k.pre (moveValue s k a tier' ext v).1 LOOP_FUEL
            else Res.ok (moveValue s k a tier' ext v).2) u ≠ .panic := by
          intro u
          simp only
          by_cases hg : s.cfg.growOnMove = true
          · simp only [hg, if_true]; exact insertLoop_ne_panic _ _ _ _
          · simp [hg]
        have hcases : (∃ t', (moveValue s k a tier' ext v).2.current.insert k.pre (moveValue s k a tier' ext v).1
              (if j = 0 then some i else none) = .written t') ∨
            (moveValue s k a tier' ext v).2.current.insert k.pre (moveValue s k a tier' ext v).1
              (if j = 0 then some i else none) = .needReindex := by
          by_cases hj : j = 0
          · simp only [hj, if_true]
            apply Table.insert_some_no_panic _ _ _ _ hwf
            have hcur' : tj = s.current := by
              have := hF.tab
              rw [hj] at this
              simp only [Col.tables, List.getElem?_cons_zero, Option.some.injEq] at this
              exact this.symm
            rw [hcur, ← hcur']
            exact (hF.exact (by rw [hcur']; exact hx)).1
          · simp only [hj, if_false]
            exact Table.insert_none_cases _ _ _
        rcases hcases with ⟨t', ht'⟩ | ht'
        · rw [ht']; simp [insertCont]
        · rw [ht']; simp only [insertCont]; exact hnext ()

end Pdb.Index
