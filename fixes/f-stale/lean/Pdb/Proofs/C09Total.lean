/-
C09 (totality): from hypotheses on the INPUT only, every run of the (fixed) index model
succeeds, stays within the physical limits (`AllBounded`) and never runs out of loop fuel.

`TotL K L mt s rest` is the invariant: the entry codes of all tables are below the multiset `L`
of codes written so far (`TablesLe`), and what the REMAINING actions `rest` can still add keeps
  * every `K`-bit class of codes at or below 64 (`nIns`: only the INDEX-INSERTING `set`s of
    `rest` count, i.e. those whose key is absent or holds a value of another size tier in the
    tier specification `mt` of the actions executed so far, Pdb/Proofs/C09Tier.lean; a same-tier
    overwrite replaces the value in place and writes no index entry),
  * every fill mark at or below `2^(K+6)` (so every address fits an entry of a table with at
    least `K` bits),
  * the index bits at or below 49.
-/
import Pdb.Proofs.C09Count
import Pdb.Proofs.C09Tier

namespace Pdb.Index
open Pdb.Gen Pdb.IndexPage

/-! ## measures of an action list -/

/-- a `set` of a key of the `K`-bit class `p` -/
def isSetOf (K p : Nat) : Action → Bool
  | .set k _ _ _ => k.pre >>> (64 - K) == p
  | _ => false

def nSets (K p : Nat) (acts : List Action) : Nat := acts.countP (isSetOf K p)

/-- an INDEX-INSERTING `set` of a key of the `K`-bit class `p`: in the tier specification `mt` of
the actions before it the key is absent or holds a value of another size tier (`write_plan_new`,
or the tier move of `write_plan_existing`; a same-tier overwrite writes no index entry) -/
def isInsOf (K p : Nat) (mt : Key → Option Nat) : Action → Bool
  | .set k tier _ _ => k.pre >>> (64 - K) == p && mt k != some tier
  | _ => false

/-- number of index-inserting `set`s of class `p` in a history that starts from the tier
specification `mt`: a function of the action list alone -/
def nIns (K p : Nat) : (Key → Option Nat) → List Action → Nat
  | _, [] => 0
  | mt, a :: as => (if isInsOf K p mt a then 1 else 0) + nIns K p (tierStep mt a) as

theorem isInsOf_le (K p : Nat) (mt : Key → Option Nat) (a : Action) :
    isInsOf K p mt a = true → isSetOf K p a = true := by
  cases a <;> simp [isInsOf, isSetOf]
  intro h _; exact h

/-- the new count is at most the old one -/
theorem nIns_le_nSets (K p : Nat) : ∀ (acts : List Action) (mt : Key → Option Nat),
    nIns K p mt acts ≤ nSets K p acts := by
  intro acts
  induction acts with
  | nil => intro _; simp [nIns, nSets]
  | cons a as ih =>
    intro mt
    have h1 := ih (tierStep mt a)
    have h2 := isInsOf_le K p mt a
    simp only [nIns, nSets, List.countP_cons] at h1 ⊢
    cases hi : isInsOf K p mt a
    · simp only [Bool.false_eq_true, if_false]; omega
    · simp only [h2 hi, if_true]; omega

/-- slots a planned operation can take from a value table -/
def slotCost : Action → Nat
  | .set _ _ ext _ => ext + 1
  | _ => 0

def nSlots : List Action → Nat
  | [] => 0
  | a :: as => slotCost a + nSlots as

def isRelaunch : Action → Bool
  | .relaunch => true
  | _ => false

def nRelaunch (acts : List Action) : Nat := acts.countP isRelaunch

structure TotL (K : Nat) (L : List Code) (mt : Key → Option Nat) (s : Col) (rest : List Action) : Prop where
  le : TablesLe L s.tables
  cls : ∀ kp, L.countP (clsP K kp) + nIns K (kp >>> (64 - K)) mt rest ≤ 64
  filled : ∀ tier, tier < 256 → (s.tier tier).filled + nSlots rest ≤ 2 ^ (K + 6)
  bits : max s.current.bits K + nRelaunch rest ≤ 49

theorem TotL.bounded {K : Nat} {L : List Code} {mt : Key → Option Nat} {s : Col} {rest : List Action}
    (h : TotL K L mt s rest) :
    Bounded s := by
  refine ⟨by have := h.bits; omega, fun tier ht => ?_⟩
  have h1 := h.filled tier ht
  have h2 := h.bits
  have : 2 ^ (K + 6) ≤ 2 ^ 56 := Nat.pow_le_pow_right (by omega) (by omega)
  omega

theorem LOOP_FUEL_eq : LOOP_FUEL = 64 := by
  unfold LOOP_FUEL; rfl

/-! ## frames: operations that do not touch the index tables -/

theorem Col.alloc_tables (s : Col) (tier : Nat) :
    (s.alloc tier).2.current = s.current ∧ (s.alloc tier).2.older = s.older := by
  rw [Col.alloc_snd]; exact ⟨rfl, rfl⟩

theorem Col.alloc_tier (s : Col) (tier t : Nat) :
    ((s.alloc tier).2.tier t).filled ≤ (s.tier t).filled + (if tier = t then 1 else 0) := by
  cases hfr : (s.tier tier).free with
  | nil =>
    rw [Col.alloc_nil s tier hfr]
    simp only [Col.tier_set]
    by_cases h : tier = t
    · subst h; simp
    · simp [h]
  | cons o rest =>
    rw [Col.alloc_cons s tier o rest hfr]
    simp only [Col.tier_set]
    by_cases h : tier = t
    · subst h; simp
    · simp [h]

theorem Tier.resize_filled_le_add (T : Tier) (hd m : Nat) : (T.resize hd m).filled ≤ T.filled + m := by
  simp only [Tier.resize]; omega

theorem Col.resize_tier_le (s : Col) (tier hd m t : Nat) :
    ((s.resize tier hd m).tier t).filled ≤ (s.tier t).filled + (if tier = t then m else 0) := by
  rw [Col.tier_resize]
  by_cases h : tier = t
  · subst h; simp only [if_true]; exact Tier.resize_filled_le_add _ _ _
  · simp [h]

theorem Col.setVal_tier (s : Col) (a : Nat) (o : Option Slot) (n t : Nat) :
    (s.setVal a o n).tier t = s.tier t := rfl

theorem Col.release_tier_filled (s : Col) (tier off t : Nat) :
    ((s.release tier off).tier t).filled = (s.tier t).filled := by
  rw [Col.tier_release]
  by_cases h : tier = t
  · subst h; simp
  · simp [h]

theorem address_new_lt (K off tier : Nat) (hK : K ≤ 49) (ho : off < 2 ^ (K + 6)) (ht : tier < 256) :
    Address.new off tier < 2 ^ (K + 14) := by
  have ho' : off < 2 ^ 56 :=
    Nat.lt_of_lt_of_le ho (Nat.pow_le_pow_right (by omega) (by omega))
  rw [address_new_plain off tier ho' ht]
  apply Nat.or_lt_two_pow
  · rw [Nat.shiftLeft_eq]
    have : (2 : Nat) ^ (K + 14) = 2 ^ (K + 6) * 2 ^ 8 := by rw [← Nat.pow_add]
    rw [this]
    exact Nat.mul_lt_mul_of_pos_right ho (by decide)
  · have : (2 : Nat) ^ 8 ≤ 2 ^ (K + 14) := Nat.pow_le_pow_right (by omega) (by omega)
    have h8 : (2 : Nat) ^ 8 = 256 := by decide
    omega

/-! ## `TablesLe` under the structural steps -/

theorem TablesLe.setTableAt {L : List Code} {s : Col} (h : TablesLe L s.tables) (j : Nat) (t : Table)
    (ht : TableLe L t) : TablesLe L (s.setTableAt j t).tables := by
  intro t' ht'
  cases j with
  | zero =>
    simp only [Col.setTableAt, Col.tables] at ht'
    rcases List.mem_cons.1 ht' with h1 | h1
    · rw [h1]; exact ht
    · exact h t' (by simp [Col.tables, h1])
  | succ j =>
    simp only [Col.setTableAt, Col.tables] at ht'
    rcases List.mem_cons.1 ht' with h1 | h1
    · exact h t' (by simp [Col.tables, h1])
    · rcases List.mem_or_eq_of_mem_set h1 with h2 | h2
      · exact h t' (by simp [Col.tables, h2])
      · rw [h2]; exact ht

theorem Col.tableAt_mem (s : Col) (j : Nat) : s.tableAt j ∈ s.tables := by
  unfold Col.tableAt
  rw [List.getD_eq_getElem?_getD]
  cases h : s.tables[j]? with
  | none => simp [Col.tables]
  | some t => simpa using List.mem_of_getElem? h

/-- clearing one entry keeps a table below `L` -/
theorem TableLe.remove {L : List Code} {t t' : Table} (h : TableLe L t) (_hwf : TableWF t) (kp i : Nat)
    (hr : t.remove kp i = some t') : TableLe L t' := by
  obtain ⟨hb, hp⟩ := Table.remove_some t t' kp i hr
  intro c q
  by_cases hi : i < (t.page (t.chunk kp)).length
  · have hu := pageCodes_update t t' hb (t.chunk kp) i 0 hi hp c q
    have := h c q
    by_cases hc : t.chunk kp = c
    · simp only [hc, if_true] at hu
      rw [hit_zero] at hu
      omega
    · simp only [hc, if_false] at hu
      omega
  · have hset : (t.page (t.chunk kp)).set i 0 = t.page (t.chunk kp) :=
      List.set_eq_of_length_le (Nat.le_of_not_lt hi)
    have hpc : pageCodes t' c = pageCodes t c := by
      unfold pageCodes
      rw [hp c, hb, hset]
      by_cases hc : t.chunk kp = c
      · simp [hc]
      · simp [hc]
    rw [hpc]; exact h c q

/-- replacing one entry by the entry of (`kp`, `a`) keeps the table below `⟨rk kp, a⟩ :: L` -/
theorem TableLe.replace {L : List Code} {t t' : Table} (h : TableLe L t) (hwf : TableWF t) (kp a j : Nat)
    (hkp : kp < 2 ^ 64) (hr : t.insert kp a (some j) = .written t') :
    TableLe (⟨rk kp, a⟩ :: L) t' := by
  obtain ⟨hla, hb, _, hp⟩ := Table.insert_some_written t t' kp a j hwf hr
  intro c q
  have hcons : L.count q + (if q = ⟨rk kp, a⟩ then 1 else 0) = (Code.mk (rk kp) a :: L).count q := by
    rw [List.count_cons]
    by_cases hq : q = ⟨rk kp, a⟩
    · subst hq; simp
    · have : (Code.mk (rk kp) a == q) = false := by
        simp only [beq_eq_false_iff_ne, ne_eq]; exact fun e => hq e.symm
      simp [hq, this]
  by_cases hj : j < (t.page (t.chunk kp)).length
  · have hu := pageCodes_update t t' hb (t.chunk kp) j _ hj hp c q
    have := h c q
    by_cases hc : t.chunk kp = c
    · subst hc
      simp only [if_true] at hu
      have hn : hit q (codeOf t.bits (t.chunk kp) (Entry.new a (Entry.extract_key kp t.bits) t.bits)) ≤
          (if q = ⟨rk kp, a⟩ then 1 else 0) := hit_new t.bits kp a hwf.lo hwf.hi hkp hla q
      omega
    · simp only [hc, if_false] at hu
      omega
  · have hset : (t.page (t.chunk kp)).set j (Entry.new a (Entry.extract_key kp t.bits) t.bits) =
        t.page (t.chunk kp) := List.set_eq_of_length_le (Nat.le_of_not_lt hj)
    have hpc : pageCodes t' c = pageCodes t c := by
      unfold pageCodes
      rw [hp c, hb, hset]
      by_cases hc : t.chunk kp = c
      · simp [hc]
      · simp [hc]
    rw [hpc]
    have := h c q
    omega

/-! ## planned writes -/

theorem insertCont_needReindex (s : Col) (next : Unit → Res) :
    insertCont s .needReindex next = next () := rfl

theorem Table.insert_some_needReindex_addr (t : Table) (kp a i : Nat)
    (h : t.insert kp a (some i) = .needReindex) : a > Entry.last_address t.bits := by
  unfold Table.insert at h
  by_cases hla : a > Entry.last_address t.bits
  · exact hla
  · simp only [hla, if_false] at h
    by_cases hc : Entry.partial_key (entryAt (t.page (t.chunk kp)) i) t.bits =
        Entry.partial_key (Entry.new a (Entry.extract_key kp t.bits) t.bits) t.bits
    · simp [hc] at h
    · simp [hc] at h

/-- `InsHyp` for a fresh code on top of `L` -/
theorem InsHyp.ofCons {L : List Code} {s : Col} (h : TablesLe L s.tables) (kp a : Nat) :
    InsHyp (⟨rk kp, a⟩ :: L) s kp a := by
  refine ⟨fun t ht => (h t (by simp [Col.tables, ht])).mono (count_le_cons L _), fun c q => ?_⟩
  have := h s.current (by simp [Col.tables]) c q
  rw [List.count_cons]
  by_cases hq : c = s.current.chunk kp ∧ q = ⟨rk kp, a⟩
  · obtain ⟨hc, hq'⟩ := hq
    subst hc; subst hq'
    simp only [and_self, if_true, beq_self_eq_true]; omega
  · simp only [hq, if_false]; omega

theorem Shape.frame {s s' : Col} (h : Shape s) (hc : s'.current = s.current) (ho : s'.older = s.older) :
    Shape s' :=
  ⟨fun t ht => h.wf t (by simpa [Col.tables, hc, ho] using ht), by rw [hc, ho]; exact h.order⟩

/-- an index-inserting `set` of class `kp` leaves room for one more code of that class -/
theorem cls_room {K : Nat} {L : List Code} {mt : Key → Option Nat} {k : Key} {tier ext : Nat} {v : Val}
    {rest : List Action}
    (h : ∀ kp, L.countP (clsP K kp) + nIns K (kp >>> (64 - K)) mt (.set k tier ext v :: rest) ≤ 64)
    (hne : mt k ≠ some tier) (a : Nat) (hK : K ≤ 49) :
    ∀ kp, (Code.mk (rk k.pre) a :: L).countP (clsP K kp) +
      nIns K (kp >>> (64 - K)) (tierStep mt (.set k tier ext v)) rest ≤ 64 := by
  intro kp
  have := h kp
  have hne' : (mt k != some tier) = true := by simpa using hne
  simp only [nIns, isInsOf, hne', Bool.and_true, List.countP_cons] at this ⊢
  have hcl : clsP K kp ⟨rk k.pre, a⟩ = (k.pre >>> (64 - K) == kp >>> (64 - K)) := by
    unfold clsP
    simp only
    rw [rk_shift k.pre _ (by omega)]
  rw [hcl]
  cases hb : (k.pre >>> (64 - K) == kp >>> (64 - K)) <;> simp only [hb] at this ⊢ <;> omega

theorem nIns_cons_le (K p : Nat) (mt : Key → Option Nat) (a : Action) (rest : List Action) :
    nIns K p (tierStep mt a) rest ≤ nIns K p mt (a :: rest) := by
  simp only [nIns]; omega

theorem cls_drop {K : Nat} {L : List Code} {mt : Key → Option Nat} {a : Action} {rest : List Action}
    (h : ∀ kp, L.countP (clsP K kp) + nIns K (kp >>> (64 - K)) mt (a :: rest) ≤ 64) :
    ∀ kp, L.countP (clsP K kp) + nIns K (kp >>> (64 - K)) (tierStep mt a) rest ≤ 64 := by
  intro kp
  have := h kp
  have := nIns_cons_le K (kp >>> (64 - K)) mt a rest
  omega

theorem cls_cons_le {K : Nat} {L : List Code} {mt : Key → Option Nat} (q : Code) {rest : List Action}
    (h : ∀ kp, (q :: L).countP (clsP K kp) + nIns K (kp >>> (64 - K)) mt rest ≤ 64) :
    ∀ kp, L.countP (clsP K kp) + nIns K (kp >>> (64 - K)) mt rest ≤ 64 := by
  intro kp
  have := h kp
  simp only [List.countP_cons] at this
  omega

/-- Result of a planned write: it panics (excluded separately) or it succeeds and the invariant
holds for the remaining actions. -/
def StepRes (K : Nat) (r : Res) (mt : Key → Option Nat) (rest : List Action) : Prop :=
  r = .panic ∨ ∃ s' L', r = .ok s' ∧ TotL K L' mt s' rest

theorem insertLoop_step' (K : Nat) (hK : K ≤ 49) (L' : List Code) (mt : Key → Option Nat) (s : Col)
    (kp a F : Nat) (rest : List Action) (hS : Shape s) (hH : InsHyp L' s kp a) (hkp : kp < 2 ^ 64)
    (hfit : ∀ b, K ≤ b → s.current.bits ≤ b → b ≤ 49 → a ≤ Entry.last_address b) (hF : 49 < F)
    (hcls : ∀ kp', L'.countP (clsP K kp') + nIns K (kp' >>> (64 - K)) mt rest ≤ 64)
    (hfil : ∀ tier, tier < 256 → (s.tier tier).filled + nSlots rest ≤ 2 ^ (K + 6))
    (hbits : max s.current.bits K + nRelaunch rest ≤ 49) :
    ∃ s', insertLoop s kp a F = .ok s' ∧ TotL K L' mt s' rest ∧ Shape s' := by
  have hc : L'.countP (clsP K kp) ≤ 64 := by have := hcls kp; omega
  obtain ⟨s', h1, h2, h3⟩ := insertLoop_total K hK L' kp a hkp s.current.bits hfit hc F s hS hH (by omega)
    (Nat.le_refl _)
  refine ⟨s', h1, ⟨h2, hcls, fun tier ht => ?_, by omega⟩, (insertLoop_ok kp a F s s' hS h1 (by omega)).2.1⟩
  have : s'.tier tier = s.tier tier := by
    simp only [Col.tier, insertLoop_tiers kp a F s s' h1]
  rw [this]; exact hfil tier ht

theorem insertLoop_step (K : Nat) (_hK16 : 16 ≤ K) (hK : K ≤ 49) (L' : List Code) (mt : Key → Option Nat)
    (s : Col) (kp a F : Nat) (rest : List Action) (hS : Shape s) (hH : InsHyp L' s kp a) (hkp : kp < 2 ^ 64)
    (ha : a < 2 ^ (K + 14)) (hF : 49 < F)
    (hcls : ∀ kp', L'.countP (clsP K kp') + nIns K (kp' >>> (64 - K)) mt rest ≤ 64)
    (hfil : ∀ tier, tier < 256 → (s.tier tier).filled + nSlots rest ≤ 2 ^ (K + 6))
    (hbits : max s.current.bits K + nRelaunch rest ≤ 49) :
    ∃ s', insertLoop s kp a F = .ok s' ∧ TotL K L' mt s' rest := by
  obtain ⟨s', h1, h2, _⟩ := insertLoop_step' K hK L' mt s kp a F rest hS hH hkp
    (fun b hb _ hb49 => addr_fits K b a hb hb49 ha) hF hcls hfil hbits
  exact ⟨s', h1, h2⟩

/-- `write_plan_new` -/
theorem writeNew_total {s : Col} (hS : Shape s) (hSl : SlotInv s) (K : Nat) (hK16 : 16 ≤ K) (hK : K ≤ 49)
    (k : Key) (hkp : k.pre < 2 ^ 64) (L : List Code) (mt : Key → Option Nat) (rest : List Action)
    (tier ext : Nat) (v : Val) (htier : tier < 256) (hT : TotL K L mt s (.set k tier ext v :: rest))
    (hne : mt k ≠ some tier) :
    ∃ s' L', writeNew s k tier ext v = .ok s' ∧ TotL K L' (tierStep mt (.set k tier ext v)) s' rest := by
  have hfil0 : ∀ t, t < 256 → (s.tier t).filled + (ext + 1) + nSlots rest ≤ 2 ^ (K + 6) := by
    intro t ht
    have := hT.filled t ht
    simp only [nSlots, slotCost] at this
    omega
  have hbits : max s.current.bits K + nRelaunch rest ≤ 49 := by
    have := hT.bits
    simpa [nRelaunch, isRelaunch] using this
  have hoff : (s.alloc tier).1 < 2 ^ (K + 6) := by
    have h1 := Col.alloc_fst_le s hSl tier
    have h2 := hfil0 tier htier
    omega
  have ha := address_new_lt K _ tier hK hoff htier
  have key : ∀ F, 49 < F → ∀ s2 : Col, s2.current = s.current → s2.older = s.older →
      (∀ t, t < 256 → (s2.tier t).filled + nSlots rest ≤ 2 ^ (K + 6)) →
      ∃ s' L', insertLoop s2 k.pre (Address.new (s.alloc tier).1 tier) F = .ok s' ∧
        TotL K L' (tierStep mt (.set k tier ext v)) s' rest := by
    intro F hF s2 hcur hold hfil
    have hle2 : TablesLe L s2.tables := by
      simp only [Col.tables, hcur, hold]; exact hT.le
    obtain ⟨s', h1, h2⟩ := insertLoop_step K hK16 hK _ _ s2 k.pre _ F rest (hS.frame hcur hold)
      (InsHyp.ofCons hle2 k.pre _) hkp ha hF (cls_room hT.cls hne _ hK) hfil (by rw [hcur]; exact hbits)
    exact ⟨s', _, h1, h2⟩
  unfold writeNew
  refine key LOOP_FUEL (by rw [LOOP_FUEL_eq]; omega) _ (Col.alloc_tables s tier).1 (Col.alloc_tables s tier).2 ?_
  intro t ht
  have h3 := Col.resize_tier_le ((s.alloc tier).2.setVal (Address.new (s.alloc tier).1 tier)
    (some ⟨k.tail, v⟩) ((s.alloc tier).2.nLive + 1)) tier (s.alloc tier).1 ext t
  rw [Col.setVal_tier] at h3
  have h4 := Col.alloc_tier s tier t
  have h5 := hfil0 t ht
  by_cases htt : tier = t
  · subst htt; simp only [if_true] at h3 h4; omega
  · simp only [htt, if_false] at h3 h4; omega

/-- `write_plan_existing`, `Set` -/
theorem writeExisting_set_total {U : Key → Prop} {s : Col} {m : Key → Option Val} {mt : Key → Option Nat}
    (hU : Univ U) (hG : Good U s m) (hL : TierLink U s m mt) (hgrow : s.cfg.growOnMove = true) (K : Nat)
    (hK16 : 16 ≤ K) (hK : K ≤ 49)
    (k : Key) (hk : U k) (L : List Code) (rest : List Action) (tier ext : Nat) (v : Val)
    (htier : tier < 256) (hT : TotL K L mt s (.set k tier ext v :: rest)) (j i a : Nat)
    (hs : searchAll s k = some (j, i, a)) :
    StepRes K (writeExisting0 s k (some (tier, ext, v)) j i a) (tierStep mt (.set k tier ext v)) rest := by
  have hkp := hU.pre_lt k hk
  have hS := hG.idx.shape
  have hfil0 : ∀ t, t < 256 → (s.tier t).filled + (ext + 1) + nSlots rest ≤ 2 ^ (K + 6) := by
    intro t ht
    have := hT.filled t ht
    simp only [nSlots, slotCost] at this
    omega
  have hbits : max s.current.bits K + nRelaunch rest ≤ 49 := by
    have := hT.bits
    simpa [nRelaunch, isRelaunch] using this
  unfold writeExisting0
  simp only
  by_cases hti : Address.size_tier a = tier
  · -- replaced in place
    simp only [hti, if_true]
    right
    refine ⟨_, L, rfl, ?_, cls_drop hT.cls, fun t ht => ?_, hbits⟩
    · exact hT.le
    · have h3 := Col.resize_tier_le (s.setVal a (some ⟨k.tail, v⟩) s.nLive) tier (Address.offset a) ext t
      rw [Col.setVal_tier] at h3
      have h5 := hfil0 t ht
      by_cases htt : tier = t
      · subst htt; simp only [if_true] at h3; omega
      · simp only [htt, if_false] at h3; omega
  · -- moved to another tier: an index-inserting `set`
    have hne : mt k ≠ some tier := by
      rw [hL.found hG k hk j i a hs]
      exact fun e => hti (Option.some.inj e)
    simp only [hti, if_false, hgrow, if_true]
    have hmcur := moveValue_current s k a tier ext v
    have hmold : (moveValue s k a tier ext v).2.older = s.older := by
      unfold moveValue
      simp only
      rw [Col.alloc_snd]
      rfl
    have hSm : Shape (moveValue s k a tier ext v).2 := hS.frame hmcur hmold
    have hlem : TablesLe L (moveValue s k a tier ext v).2.tables := by
      simp only [Col.tables, hmcur, hmold]; exact hT.le
    have hSfreed : SlotInv (freed s a s.nLive) := by
      obtain ⟨tj, hF⟩ := found_of_search hG.idx k j i a hs
      exact (freed_good hU hG k hk a s.nLive hF.live).slots
    have hm1 : (moveValue s k a tier ext v).1 = Address.new ((freed s a s.nLive).alloc tier).1 tier := rfl
    have hfreedfil : ∀ t, ((freed s a s.nLive).tier t).filled = (s.tier t).filled := by
      intro t
      show (((s.release (Address.size_tier a) (Address.offset a)).setVal a none s.nLive).tier t).filled = _
      rw [Col.setVal_tier, Col.release_tier_filled]
    have hoff : ((freed s a s.nLive).alloc tier).1 < 2 ^ (K + 6) := by
      have h1 := Col.alloc_fst_le (freed s a s.nLive) hSfreed tier
      rw [hfreedfil] at h1
      have h2 := hfil0 tier htier
      omega
    have ha : (moveValue s k a tier ext v).1 < 2 ^ (K + 14) := by
      rw [hm1]; exact address_new_lt K _ tier hK hoff htier
    have hfilm : ∀ t, t < 256 →
        ((moveValue s k a tier ext v).2.tier t).filled + nSlots rest ≤ 2 ^ (K + 6) := by
      intro t ht
      have hm2 : (moveValue s k a tier ext v).2 =
          (((freed s a s.nLive).alloc tier).2.setVal (Address.new ((freed s a s.nLive).alloc tier).1 tier)
            (some ⟨k.tail, v⟩) ((freed s a s.nLive).alloc tier).2.nLive).resize tier
            ((freed s a s.nLive).alloc tier).1 ext := rfl
      rw [hm2]
      have h3 := Col.resize_tier_le (((freed s a s.nLive).alloc tier).2.setVal
        (Address.new ((freed s a s.nLive).alloc tier).1 tier) (some ⟨k.tail, v⟩)
        ((freed s a s.nLive).alloc tier).2.nLive) tier ((freed s a s.nLive).alloc tier).1 ext t
      rw [Col.setVal_tier] at h3
      have h4 := Col.alloc_tier (freed s a s.nLive) tier t
      rw [hfreedfil] at h4
      have h5 := hfil0 t ht
      by_cases htt : tier = t
      · subst htt; simp only [if_true] at h3 h4; omega
      · simp only [htt, if_false] at h3 h4; omega
    have hbm : max (moveValue s k a tier ext v).2.current.bits K + nRelaunch rest ≤ 49 := by
      rw [hmcur]; exact hbits
    -- from here on the moved state and the new address are opaque
    generalize (moveValue s k a tier ext v).2 = sm at hSm hlem hfilm hbm ⊢
    generalize (moveValue s k a tier ext v).1 = am at ha ⊢
    have hloop : ∀ F, 49 < F → ∀ s0, Shape s0 → InsHyp (⟨rk k.pre, am⟩ :: L) s0 k.pre am →
        (∀ t, t < 256 → (s0.tier t).filled + nSlots rest ≤ 2 ^ (K + 6)) →
        max s0.current.bits K + nRelaunch rest ≤ 49 →
        ∃ s' L', insertLoop s0 k.pre am F = .ok s' ∧ TotL K L' (tierStep mt (.set k tier ext v)) s' rest :=
      fun F hF s0 hS0 hH0 hf0 hb0 => by
        obtain ⟨s', h1, h2⟩ :=
          insertLoop_step K hK16 hK _ _ s0 k.pre _ F rest hS0 hH0 hkp ha hF (cls_room hT.cls hne _ hK) hf0 hb0
        exact ⟨s', _, h1, h2⟩
    have hwfm : TableWF sm.current := hSm.wf _ (by simp [Col.tables])
    by_cases hj : j = 0
    · simp only [hj, if_true]
      cases hins : sm.current.insert k.pre am (some i) with
      | written t =>
        right
        simp only [insertCont]
        refine ⟨_, ⟨rk k.pre, am⟩ :: L, rfl, ?_, cls_room hT.cls hne _ hK, hfilm, ?_⟩
        · intro t' ht'
          simp only [Col.tables] at ht'
          rcases List.mem_cons.1 ht' with h1 | h1
          · rw [h1]
            exact (hlem _ (by simp [Col.tables])).replace hwfm k.pre _ i hkp hins
          · exact (hlem t' (by simp [Col.tables, h1])).mono (count_le_cons L _)
        · have := (Table.insert_some_written _ _ _ _ _ hwfm hins).2.1
          show max t.bits K + _ ≤ 49
          rw [this]; exact hbm
      | needReindex =>
        right
        rw [insertCont_needReindex]
        have hlt : sm.current.bits < K := by
          -- the entry did not fit: fewer than `K` bits
          apply Nat.lt_of_not_le
          intro hb
          have hla := addr_fits K _ _ hb hwfm.hi ha
          have := Table.insert_some_needReindex_addr _ _ _ _ hins
          omega
        exact hloop LOOP_FUEL (by rw [LOOP_FUEL_eq]; omega) _ (hSm.trigger (by omega))
          (InsHyp.ofCons hlem k.pre _).trigger (fun t ht => hfilm t ht)
          (by simp only [triggerReindex, Table.new]; omega)
      | skipped => exact absurd hins (Table.insert_ne_skipped _ _ _ _)
      | panic => left; simp [insertCont]
    · simp only [hj, if_false]
      right
      have hsucc : ∀ F, insertCont sm (sm.current.insert k.pre am none)
          (fun _ => insertLoop (triggerReindex sm) k.pre am F) = insertLoop sm k.pre am (F + 1) :=
        fun F => (insertLoop_succ _ _ _ _).symm
      rw [hsucc]
      exact hloop (LOOP_FUEL + 1) (by rw [LOOP_FUEL_eq]; omega) _ hSm (InsHyp.ofCons hlem k.pre _) hfilm hbm

/-! ## the removal of the stale entries (fix-c09-stale-index-entries) keeps the bounds -/

/-- `TableLe.remove` does not use the well-formedness of the table -/
theorem TableLe.remove' {L : List Code} {t t' : Table} (h : TableLe L t) (kp i : Nat)
    (hr : t.remove kp i = some t') : TableLe L t' := by
  obtain ⟨hb, hp⟩ := Table.remove_some t t' kp i hr
  intro c q
  by_cases hi : i < (t.page (t.chunk kp)).length
  · have hu := pageCodes_update t t' hb (t.chunk kp) i 0 hi hp c q
    have := h c q
    by_cases hc : t.chunk kp = c
    · simp only [hc, if_true] at hu
      rw [hit_zero] at hu
      omega
    · simp only [hc, if_false] at hu
      omega
  · have hset : (t.page (t.chunk kp)).set i 0 = t.page (t.chunk kp) :=
      List.set_eq_of_length_le (Nat.le_of_not_lt hi)
    have hpc : pageCodes t' c = pageCodes t c := by
      unfold pageCodes
      rw [hp c, hb, hset]
      by_cases hc : t.chunk kp = c
      · simp [hc]
      · simp [hc]
    rw [hpc]; exact h c q

theorem TableLe.purgeTable {L : List Code} (ex : Bool) (kp a : Nat) (t : Table) (h : TableLe L t)
    (f p : Nat) : TableLe L (purgeTable ex kp a f t p) :=
  purgeTable_ind (TableLe L) ex kp a (fun _ i _ h1 hr _ => h1.remove' kp i hr) f t p h

theorem TotL.purgeOlder {K : Nat} {L : List Code} {mt : Key → Option Nat} {s : Col}
    {rest : List Action} (h : TotL K L mt s rest) (kp a : Nat) :
    TotL K L mt (purgeOlder s kp a) rest := by
  refine ⟨?_, h.cls, fun tier ht => ?_, ?_⟩
  · intro t' ht'
    simp only [Col.tables, purgeOlder_current] at ht'
    rcases List.mem_cons.1 ht' with h1 | h1
    · rw [h1]; exact h.le _ (by simp [Col.tables])
    · obtain ⟨t, ht, e⟩ := purgeOlder_mem s kp a t' h1
      have hle : TableLe L t := h.le t (by simp [Col.tables, ht])
      rcases e with e | e
      · rw [e]; exact hle
      · rw [e]; exact hle.purgeTable _ _ _ _ _ _
  · rw [purgeOlder_tier]; exact h.filled tier ht
  · rw [purgeOlder_current]; exact h.bits

theorem StepRes.writeExisting {K : Nat} {s : Col} {k : Key} {op : Option (Nat × Nat × Val)}
    {j i a : Nat} {mt : Key → Option Nat} {rest : List Action}
    (h : StepRes K (writeExisting0 s k op j i a) mt rest) :
    StepRes K (Pdb.Index.writeExisting s k op j i a) mt rest := by
  rcases h with h | ⟨s0, L', h0, hT⟩
  · exact Or.inl ((writeExisting_panic_iff s k op j i a).2 h)
  · right
    refine ⟨_, L', writeExisting_of_ok0 h0, ?_⟩
    cases frees op a
    · exact hT
    · exact hT.purgeOlder _ _

/-- `write_plan_existing`, `Dereference` -/
theorem writeExisting_del_total {s : Col} (hS : Shape s) (K : Nat) (k : Key) (L : List Code)
    (mt : Key → Option Nat) (rest : List Action) (hT : TotL K L mt s (.del k :: rest)) (j i a : Nat) :
    ∃ s' L', writeExisting0 s k none j i a = .ok s' ∧ TotL K L' (tierStep mt (.del k)) s' rest := by
  have hbits : max s.current.bits K + nRelaunch rest ≤ 49 := by
    have := hT.bits
    simpa [nRelaunch, isRelaunch] using this
  have hfil0 : ∀ t, t < 256 → (s.tier t).filled + nSlots rest ≤ 2 ^ (K + 6) := by
    intro t ht
    have := hT.filled t ht
    simpa [nSlots, slotCost] using this
  unfold writeExisting0
  simp only
  have hfil1 : ∀ t, t < 256 →
      (((s.release (Address.size_tier a) (Address.offset a)).setVal a none (s.nLive - 1)).tier t).filled +
        nSlots rest ≤ 2 ^ (K + 6) := by
    intro t ht
    rw [Col.setVal_tier, Col.release_tier_filled]; exact hfil0 t ht
  have hle1 : TablesLe L ((s.release (Address.size_tier a) (Address.offset a)).setVal a none (s.nLive - 1)).tables :=
    hT.le
  have hS1 : Shape ((s.release (Address.size_tier a) (Address.offset a)).setVal a none (s.nLive - 1)) :=
    hS.frame rfl rfl
  have hb1 : ((s.release (Address.size_tier a) (Address.offset a)).setVal a none (s.nLive - 1)).current.bits =
      s.current.bits := rfl
  generalize (s.release (Address.size_tier a) (Address.offset a)).setVal a none (s.nLive - 1) = s1
    at hfil1 hle1 hS1 hb1 ⊢
  cases hr : (s1.tableAt j).remove k.pre i with
  | none => exact ⟨_, L, rfl, hle1, cls_drop hT.cls, hfil1, by rw [hb1]; exact hbits⟩
  | some t =>
    simp only
    have hmem := Col.tableAt_mem s1 j
    have hlt := (hle1 _ hmem).remove (hS1.wf _ hmem) k.pre i hr
    refine ⟨_, L, rfl, hle1.setTableAt j t hlt, cls_drop hT.cls, ?_, ?_⟩
    · intro t' ht'
      have : (s1.setTableAt j t).tier t' = s1.tier t' := by
        cases j <;> rfl
      rw [this]; exact hfil1 t' ht'
    · have hb := (Table.remove_some _ _ _ _ hr).1
      cases j with
      | zero =>
        show max t.bits K + _ ≤ 49
        have h0 : s1.tableAt 0 = s1.current := rfl
        rw [hb, h0, hb1]; exact hbits
      | succ j =>
        show max s1.current.bits K + _ ≤ 49
        rw [hb1]; exact hbits

theorem write_total {U : Key → Prop} {s : Col} {m : Key → Option Val} {mt : Key → Option Nat}
    (hU : Univ U) (hG : Good U s m) (hL : TierLink U s m mt) (hgrow : s.cfg.growOnMove = true) (K : Nat)
    (hK16 : 16 ≤ K) (hK : K ≤ 49)
    (k : Key) (hk : U k) (L : List Code) (rest : List Action) :
    (∀ tier ext v, tier < 256 → TotL K L mt s (.set k tier ext v :: rest) →
      StepRes K (write s k (some (tier, ext, v))) (tierStep mt (.set k tier ext v)) rest) ∧
    (TotL K L mt s (.del k :: rest) → StepRes K (write s k none) (tierStep mt (.del k)) rest) := by
  have hkp := hU.pre_lt k hk
  have hS := hG.idx.shape
  constructor
  · intro tier ext v htier hT
    unfold write
    cases hs : searchAll s k with
    | none =>
      simp only
      right
      exact writeNew_total hS hG.slots K hK16 hK k hkp L mt rest tier ext v htier hT
        (by rw [hL.absent hU hG k hk hs]; exact fun e => by cases e)
    | some r =>
      obtain ⟨j, i, a⟩ := r
      simp only
      exact (writeExisting_set_total hU hG hL hgrow K hK16 hK k hk L rest tier ext v htier hT j i a hs).writeExisting
  · intro hT
    unfold write
    cases hs : searchAll s k with
    | none =>
      simp only
      right
      refine ⟨s, L, rfl, hT.le, cls_drop hT.cls, fun t ht => ?_, ?_⟩
      · have := hT.filled t ht
        simpa [nSlots, slotCost] using this
      · have := hT.bits
        simpa [nRelaunch, isRelaunch] using this
    | some r =>
      obtain ⟨j, i, a⟩ := r
      simp only
      exact StepRes.writeExisting (Or.inr (writeExisting_del_total hS K k L mt rest hT j i a))

/-! ## reindex batches -/

/-- `containsAddr` does not miss a code that is in the page -/
theorem count_zero_of_not_contains (s : Col) (hwf : TableWF s.current) (kp a : Nat) (hkp : kp < 2 ^ 64)
    (h : containsAddr s kp a = false) :
    (pageCodes s.current (s.current.chunk kp)).count ⟨kp, a⟩ = 0 := by
  apply Classical.byContradiction
  intro hne
  have hmem : (⟨kp, a⟩ : Code) ∈ pageCodes s.current (s.current.chunk kp) :=
    List.count_pos_iff.1 (Nat.pos_of_ne_zero hne)
  obtain ⟨e, he, h0, hq⟩ := mem_pageCodes _ _ _ hmem
  have hkp' : recover_index_key s.current.bits (s.current.chunk kp) e = kp := by
    have := congrArg Code.pre hq; exact this.symm
  have ha' : Entry.address e s.current.bits = a := by
    have := congrArg Code.addr hq; exact this.symm
  obtain ⟨j, hj, hget⟩ := List.getElem_of_mem he
  have hlen := (hwf.pages (s.current.chunk kp)).1
  have hgd : (s.current.page (s.current.chunk kp)).getD j 0 = e := by
    rw [getD_eq_getElem _ _ hj]; exact hget
  have hc := chunk_lt s.current.bits kp hwf.lo hwf.hi hkp
  have he64 := (hwf.pages (s.current.chunk kp)).2 e he
  have hbm : BaseMatch s.current.bits kp (s.current.page (s.current.chunk kp)) j := by
    refine ⟨?_, by rw [hgd]; exact h0⟩
    rw [hgd]
    have := recover_partial s.current.bits (s.current.chunk kp) e hwf.lo hwf.hi hc he64
    rw [hkp'] at this
    exact this.symm
  have := scanPage_complete s.cfg.exact s.current.bits kp (s.current.page (s.current.chunk kp))
    (fun a' => a' == a) hwf.hi (hwf.pages _).2 j (by omega) hbm (by rw [hgd, ha']; simp)
    SCAN_FUEL 0 (Nat.zero_le _) (by simp only [SCAN_FUEL, INDEX_CHUNK_ENTRIES]; omega)
  unfold containsAddr at h
  rw [this] at h
  cases h

/-- what is known of an element of a reindex plan -/
structure PlanOK (L : List Code) (b0 : Nat) (x : Nat × Nat) : Prop where
  pre_lt : x.1 < 2 ^ 64
  rk : rk x.1 = x.1
  addr : x.2 < 2 ^ (b0 + 14)
  mem : 1 ≤ L.count ⟨x.1, x.2⟩

theorem address_lt (e b : Nat) (hb : b ≤ 49) : Entry.address e b < 2 ^ (b + 14) := by
  simp only [Entry.address, wand]
  rw [last_address_eq b hb, Nat.and_two_pow_sub_one_eq_mod]
  exact Nat.mod_lt _ (Nat.two_pow_pos _)

theorem writeReindex_total (K : Nat) (hK : K ≤ 49) (L : List Code) (mt : Key → Option Nat) (s : Col)
    (rest : List Action) (hS : Shape s) (hT : TotL K L mt s rest) (b0 : Nat) (hb0 : b0 < s.current.bits) (x : Nat × Nat)
    (hx : PlanOK L b0 x) :
    ∃ s', writeReindex s x.1 x.2 = .ok s' ∧ TotL K L mt s' rest ∧ Shape s' ∧
      s.current.bits ≤ s'.current.bits := by
  unfold writeReindex
  by_cases hc : containsAddr s x.1 x.2 = true
  · simp only [hc, if_true]
    exact ⟨s, rfl, hT, hS, Nat.le_refl _⟩
  · simp only [hc]
    have hcur := hS.wf s.current (by simp [Col.tables])
    have hcf : containsAddr s x.1 x.2 = false := by
      cases h : containsAddr s x.1 x.2 with
      | true => exact absurd h hc
      | false => rfl
    have hzero := count_zero_of_not_contains s hcur x.1 x.2 hx.pre_lt hcf
    have hH : InsHyp L s x.1 x.2 := by
      refine ⟨fun t ht => hT.le t (by simp [Col.tables, ht]), fun c q => ?_⟩
      have := hT.le s.current (by simp [Col.tables]) c q
      by_cases hq : c = s.current.chunk x.1 ∧ q = ⟨rk x.1, x.2⟩
      · obtain ⟨h1, h2⟩ := hq
        subst h1; subst h2
        simp only [and_self, if_true]
        rw [hx.rk, hzero]
        exact hx.mem
      · simp only [hq, if_false]; omega
    obtain ⟨s', h1, h2, h3⟩ := insertLoop_step' K hK L mt s x.1 x.2 LOOP_FUEL rest hS hH hx.pre_lt
      (fun b _ hb hb49 => by
        rw [last_address_eq b hb49]
        have : 2 ^ (b0 + 14) ≤ 2 ^ (b + 14) := Nat.pow_le_pow_right (by omega) (by omega)
        have := hx.addr
        omega)
      (by rw [LOOP_FUEL_eq]; omega) hT.cls hT.filled hT.bits
    exact ⟨s', h1, h2, h3, insertLoop_bits _ _ _ _ _ h1⟩

theorem Res.bind_ok_eq (s1 : Col) (f : Col → Res) : (Res.ok s1).bind f = f s1 := rfl

theorem applyPlan_total (K : Nat) (hK : K ≤ 49) (L : List Code) (mt : Key → Option Nat)
    (rest : List Action) (b0 : Nat) :
    ∀ (plan : List (Nat × Nat)) (s : Col), Shape s → TotL K L mt s rest → b0 < s.current.bits →
      (∀ x ∈ plan, PlanOK L b0 x) → ∃ s', applyPlan s plan = .ok s' ∧ TotL K L mt s' rest := by
  intro plan
  induction plan with
  | nil => intro s _ hT _ _; exact ⟨s, rfl, hT⟩
  | cons x xs ih =>
    intro s hS hT hb0 hx
    obtain ⟨kp, a⟩ := x
    obtain ⟨s1, h1, hT1, hS1, hb1⟩ := writeReindex_total K hK L mt s rest hS hT b0 hb0 (kp, a)
      (hx _ (by simp))
    obtain ⟨s', h2, hT2⟩ := ih s1 hS1 hT1 (by omega) (fun y hy => hx y (List.mem_cons_of_mem _ hy))
    refine ⟨s', ?_, hT2⟩
    simp only [applyPlan]
    have h1' : writeReindex s kp a = .ok s1 := h1
    rw [h1', Res.bind_ok_eq]
    exact h2

theorem collectPlan_mem (t : Table) : ∀ (f c : Nat) (acc : List (Nat × Nat)) (n : Nat),
    ∀ x ∈ (collectPlan t f c acc n).1, x ∈ acc ∨ ∃ c', x ∈ collectChunk t.bits c' (t.page c') := by
  intro f
  induction f with
  | zero => intro c acc n x hx; simp only [collectPlan] at hx; exact Or.inl hx
  | succ f ih =>
    intro c acc n x hx
    unfold collectPlan at hx
    by_cases hc : c < total_chunks t.bits ∧ n < MAX_REINDEX_BATCH
    · simp only [hc, and_self, if_true] at hx
      rcases ih _ _ _ x hx with h | h
      · rcases List.mem_append.1 h with h1 | h1
        · exact Or.inr ⟨c, List.mem_reverse.1 h1⟩
        · exact Or.inl h1
      · exact Or.inr h
    · simp only [hc, if_false] at hx
      exact Or.inl hx

theorem planOK_of_chunk (L : List Code) (t : Table) (hwf : TableWF t) (hle : TableLe L t) (c : Nat)
    (x : Nat × Nat) (hx : x ∈ collectChunk t.bits c (t.page c)) : PlanOK L t.bits x := by
  unfold collectChunk at hx
  rw [List.mem_filterMap] at hx
  obtain ⟨e, he, hq⟩ := hx
  by_cases h0 : e = 0
  · simp [h0] at hq
  · simp only [h0, if_false] at hq
    have hx' : x = (recover_index_key t.bits c e, Entry.address e t.bits) := (Option.some.inj hq).symm
    subst hx'
    refine ⟨recover_lt _ _ _ hwf.lo hwf.hi, rk_recover _ _ _ hwf.lo hwf.hi, address_lt _ _ hwf.hi, ?_⟩
    have hmem : (⟨recover_index_key t.bits c e, Entry.address e t.bits⟩ : Code) ∈ pageCodes t c := by
      unfold pageCodes
      rw [List.mem_filterMap]
      exact ⟨e, he, by simp [codeOf, h0]⟩
    have := hle c ⟨recover_index_key t.bits c e, Entry.address e t.bits⟩
    have hpos := List.count_pos_iff.2 hmem
    show 1 ≤ L.count ⟨recover_index_key t.bits c e, Entry.address e t.bits⟩
    omega

theorem TotL.skip {K : Nat} {L : List Code} {mt : Key → Option Nat} {s : Col} {a : Action}
    {rest : List Action} (h : TotL K L mt s (a :: rest)) (h1 : slotCost a = 0) (h2 : isRelaunch a = false) :
    TotL K L (tierStep mt a) s rest := by
  refine ⟨h.le, cls_drop h.cls, fun t ht => ?_, ?_⟩
  · have := h.filled t ht
    simp only [nSlots, h1] at this
    omega
  · have := h.bits
    simp only [nRelaunch, List.countP_cons, h2] at this
    simpa [nRelaunch] using this

theorem TotL.frame {K : Nat} {L : List Code} {mt : Key → Option Nat} {s s' : Col} {rest : List Action}
    (h : TotL K L mt s rest) (hle : TablesLe L s'.tables) (ht : ∀ t, s'.tier t = s.tier t)
    (hb : s'.current.bits ≤ max s.current.bits K) : TotL K L mt s' rest := by
  refine ⟨hle, h.cls, fun t h256 => by rw [ht]; exact h.filled t h256, ?_⟩
  have := h.bits
  omega

theorem reindexBatch_total (K : Nat) (hK : K ≤ 49) (L : List Code) (mt : Key → Option Nat) (s : Col)
    (rest : List Action) (hS : Shape s) (hT : TotL K L mt s rest) :
    ∃ s', reindexBatch s = .ok s' ∧ TotL K L mt s' rest := by
  unfold reindexBatch
  cases hol : s.older with
  | nil => exact ⟨s, rfl, hT⟩
  | cons t0 restT =>
    simp only
    by_cases hp : s.progress = total_chunks t0.bits
    · simp only [hp, if_true]; exact ⟨s, rfl, hT⟩
    · simp only [hp, if_false]
      have ht0 : t0 ∈ s.tables := by simp [Col.tables, hol]
      have hlt : t0.bits < s.current.bits := by
        have := hS.order
        rw [hol] at this
        simp only [List.map_append, List.map_cons, List.map_nil] at this
        exact pairwise_snoc_lt this t0.bits (by simp)
      have hle' : TablesLe L (s.current :: t0 :: restT) := by
        rw [← hol]; exact hT.le
      refine applyPlan_total K hK L mt rest t0.bits _ _ (hS.frame rfl hol.symm)
        (hT.frame hle' (fun _ => rfl) (Nat.le_max_left _ _)) hlt ?_
      intro x hx
      rcases collectPlan_mem t0 _ _ _ _ x (List.mem_reverse.1 hx) with h | ⟨c, h⟩
      · simp at h
      · exact planOK_of_chunk L t0 (hS.wf t0 ht0) (hT.le t0 ht0) c x h

/-! ## one action, whole runs -/

theorem stepA_total {U : Key → Prop} {s : Col} {m : Key → Option Val} {mt : Key → Option Nat}
    (hU : Univ U) (hG : Good U s m) (hL : TierLink U s m mt) (hgrow : s.cfg.growOnMove = true) (K : Nat)
    (hK16 : 16 ≤ K) (hK : K ≤ 49)
    (a : Action) (ha : ActOK U a) (L : List Code) (rest : List Action) (hT : TotL K L mt s (a :: rest)) :
    StepRes K (stepA s a) (tierStep mt a) rest := by
  have hS := hG.idx.shape
  cases a with
  | set k tier ext v =>
    exact (write_total hU hG hL hgrow K hK16 hK k ha.1 L rest).1 tier ext v ha.2 hT
  | del k => exact (write_total hU hG hL hgrow K hK16 hK k ha L rest).2 hT
  | reindex =>
    right
    obtain ⟨s', h1, h2⟩ := reindexBatch_total K hK L mt s rest hS (hT.skip rfl rfl)
    exact ⟨s', L, h1, h2⟩
  | enact =>
    right
    refine ⟨_, L, rfl, (hT.skip rfl rfl).frame ?_ (fun _ => ?_) ?_⟩
    · intro t ht
      apply hT.le t
      unfold enactDrop at ht
      by_cases hd : dropPending s = true
      · simp only [hd, if_true, Col.tables] at ht
        rcases List.mem_cons.1 ht with h | h
        · simp [Col.tables, h]
        · exact List.mem_cons_of_mem _ (List.mem_of_mem_tail h)
      · simpa [hd] using ht
    · unfold enactDrop
      by_cases hd : dropPending s = true <;> simp [hd, Col.tier]
    · unfold enactDrop
      by_cases hd : dropPending s = true <;> simp only [hd, if_true] <;> exact Nat.le_max_left _ _
  | reopen =>
    right
    refine ⟨_, L, rfl, ?_⟩
    have hT' := hT.skip (a := .reopen) rfl rfl
    have hfiles : ∀ t ∈ s.files, t ∈ s.tables := by
      intro t ht
      unfold Col.files at ht
      have := (List.mem_filter.1 ht).1
      rcases List.mem_append.1 this with h | h
      · simp [Col.tables, h]
      · have : t = s.current := by simpa using h
        simp [Col.tables, this]
    rcases reopen_cases hG.idx with ⟨_, hr⟩ | ⟨init, last, hf, hr⟩
    · show TotL K L mt (reopen s) rest
      rw [hr]
      refine hT'.frame ?_ (fun _ => rfl) ?_
      · intro t ht
        have : t = Table.new MIN_INDEX_BITS := by simpa [Col.tables] using ht
        rw [this]; exact TableLe.new _ _
      · show MIN_INDEX_BITS ≤ _
        simp only [MIN_INDEX_BITS]; omega
    · show TotL K L mt (reopen s) rest
      rw [hr]
      refine hT'.frame ?_ (fun _ => rfl) ?_
      · intro t ht
        apply hT.le t
        apply hfiles
        rw [hf]
        simp only [Col.tables] at ht
        rcases List.mem_cons.1 ht with h | h
        · simp [h]
        · exact List.mem_append_left _ h
      · show last.bits ≤ _
        have hl : last ∈ s.older ++ [s.current] := by
          have : last ∈ s.files := by rw [hf]; simp
          unfold Col.files at this
          exact (List.mem_filter.1 this).1
        rcases List.mem_append.1 hl with h | h
        · have ho := hS.order
          simp only [List.map_append, List.map_cons, List.map_nil] at ho
          have := pairwise_snoc_lt ho last.bits (List.mem_map_of_mem h)
          omega
        · have : last = s.current := by simpa using h
          rw [this]; exact Nat.le_max_left _ _
  | relaunch =>
    right
    refine ⟨_, L, rfl, ?_, cls_drop hT.cls, fun t ht => ?_, ?_⟩
    · intro t ht
      simp only [triggerReindex, Col.tables] at ht
      rcases List.mem_cons.1 ht with h | h
      · rw [h]; exact TableLe.new _ _
      · rcases List.mem_append.1 h with h1 | h1
        · exact hT.le t (by simp [Col.tables, h1])
        · have : t = s.current := by simpa using h1
          rw [this]; exact hT.le _ (by simp [Col.tables])
    · have := hT.filled t ht
      simp only [nSlots, slotCost] at this
      have e : (triggerReindex s).tier t = s.tier t := rfl
      rw [e]; omega
    · have := hT.bits
      have e : nRelaunch (Action.relaunch :: rest) = nRelaunch rest + 1 := by
        simp only [nRelaunch, List.countP_cons, isRelaunch, if_true]
      rw [e] at this
      simp only [triggerReindex, Table.new]
      omega

theorem stepA_ne_panic {U : Key → Prop} {s : Col} {m : Key → Option Val} (hG : Good U s m)
    (hex : s.cfg.exact = true) (a : Action) : stepA s a ≠ .panic := by
  have hx : ExactCur s := Or.inl hex
  cases a with
  | set k tier ext v => exact write_ne_panic hG hx k _
  | del k => exact write_ne_panic hG hx k _
  | reindex => exact reindexBatch_ne_panic s
  | enact => simp [stepA]
  | reopen => simp [stepA]
  | relaunch => simp [stepA]

/-- From the input-side invariant: the run succeeds and every state it goes through is within the
physical limits.  `mt` is the tier specification of the actions executed before `acts`. -/
theorem runA_total {U : Key → Prop} (hU : Univ U) (K : Nat) (hK16 : 16 ≤ K) (hK : K ≤ 49) :
    ∀ (acts : List Action) (s : Col) (m : Key → Option Val) (mt : Key → Option Nat) (L : List Code),
      Good U s m → TierLink U s m mt →
      s.cfg.exact = true → s.cfg.growOnMove = true → (∀ a ∈ acts, ActOK U a) → TotL K L mt s acts →
      ∃ s', runA s acts = .ok s' ∧ AllBounded s acts := by
  intro acts
  induction acts with
  | nil => intro s m mt L _ _ _ _ _ _; exact ⟨s, rfl, trivial⟩
  | cons a as ih =>
    intro s m mt L hG hL hex hgrow hact hT
    have ha := hact a (by simp)
    rcases stepA_total hU hG hL hgrow K hK16 hK a ha L as hT with hp | ⟨s1, L1, h1, hT1⟩
    · exact absurd hp (stepA_ne_panic hG hex a)
    · have hB1 := hT1.bounded
      have hG1 := stepA_ok hU hG hex hgrow a ha h1 hB1
      have hfil : ∀ tier, tier < 256 → (s.tier tier).filled < 2 ^ 56 := by
        intro tier ht
        have h2 := hT.filled tier ht
        have : 2 ^ (K + 6) ≤ 2 ^ 55 := Nat.pow_le_pow_right (by omega) (by omega)
        have : (2 : Nat) ^ 55 < 2 ^ 56 := by decide
        omega
      have hL1 := stepA_link hU hG hgrow hL a ha hfil h1 hG1
      have hc := stepA_cfg s s1 a h1
      obtain ⟨s', h2, hb2⟩ := ih s1 _ _ L1 hG1 hL1 (by rw [hc]; exact hex) (by rw [hc]; exact hgrow)
        (fun a' ha' => hact a' (List.mem_cons_of_mem _ ha')) hT1
      refine ⟨s', ?_, fun s1' hs1' => ?_⟩
      · simp only [runA, h1, Res.bind]; exact h2
      · rw [h1] at hs1'
        injection hs1' with hs1'
        subst hs1'
        exact ⟨hB1, hb2⟩

end Pdb.Index
