/-
R3: composition.  The physical plain hash column `PCol` (page model of the index + byte-level
value tables, Pdb/Model/Refine.lean) is simulated step by step by the index model `Index.Col`
(C09), the value tables being related by R2 (`RepL`, chains included: the multipart tier 255 is
simulated slot by slot), the values of the index model being codes of the byte strings.  With R1
this gives `pGet = Pdb.spec`.
-/
import Pdb.Proofs.Refine1
import Pdb.Proofs.Refine2
import Pdb.Proofs.Refine4

namespace Pdb.Refine
open Pdb.Gen Pdb.Index Pdb.ValueTable

/-! ## values of the index model as codes of byte strings -/

def codeChars : Bytes → List Char
  | [] => []
  | n :: r => List.replicate n 'a' ++ 'b' :: codeChars r

def decChars : List Char → Nat → Bytes
  | [], _ => []
  | c :: r, n => if c = 'a' then decChars r (n + 1) else n :: decChars r 0

theorem decChars_rep (n : Nat) : ∀ (m : Nat) (rest : List Char),
    decChars (List.replicate n 'a' ++ 'b' :: rest) m = (m + n) :: decChars rest 0 := by
  induction n with
  | zero => intro m rest; simp [decChars]
  | succ n ih =>
    intro m rest
    simp only [List.replicate_succ, List.cons_append, decChars, if_true]
    rw [ih]; congr 1; omega

theorem decChars_code (b : Bytes) : decChars (codeChars b) 0 = b := by
  induction b with
  | nil => rfl
  | cons n r ih => simp only [codeChars]; rw [decChars_rep, ih]; simp

/-- an injective code of byte strings by values of the index model -/
def codeVal (b : Bytes) : Val := String.ofList (codeChars b)
def decVal (s : Val) : Bytes := decChars s.toList 0

theorem decVal_codeVal (b : Bytes) : decVal (codeVal b) = b := by
  unfold decVal codeVal
  rw [String.toList_ofList]
  exact decChars_code b

/-! ## addresses -/

theorem size_tier_eq (a : Nat) : Address.size_tier a = a % 256 := by
  simp only [Address.size_tier, wcast, wand, wsub, wshl, SIZE_TIERS_BITS]
  have hm : ((1 <<< (8 % 64) % 2 ^ 64 % 2 ^ 64 + 2 ^ 64 - 1 % 2 ^ 64) % 2 ^ 64) = 2 ^ 8 - 1 := by decide
  rw [hm, Nat.and_two_pow_sub_one_eq_mod]
  have : (2 : Nat) ^ 8 = 256 := by decide
  rw [this]
  omega

theorem offset_eq (a : Nat) : Address.offset a = a / 256 := by
  simp only [Address.offset, wshr, SIZE_TIERS_BITS]
  have : (8 : Nat) % 64 = 8 := by decide
  rw [this, Nat.shiftRight_eq_div_pow]

theorem size_tier_lt (a : Nat) : Address.size_tier a < 256 := by
  rw [size_tier_eq]; omega

theorem addr_decomp (a : Nat) : a = Address.offset a * 256 + Address.size_tier a := by
  rw [size_tier_eq, offset_eq]; omega

theorem address_new_eq (off tier : Nat) (ho : off < 2 ^ 56) (ht : tier < 256) :
    Address.new off tier = off * 256 + tier := by
  rw [address_new_plain off tier ho ht, ← Nat.shiftLeft_add_eq_or_of_lt (by omega : tier < 2 ^ 8),
    Nat.shiftLeft_eq]

/-! ## key tails -/

theorem encTail_length (n : Nat) : (encTail n).length = PARTIAL_SIZE := by
  simp [encTail]

theorem encTail_inj (a b : Nat) (ha : a < 2 ^ 208) (hb : b < 2 ^ 208) (h : encTail a = encTail b) :
    a = b := by
  unfold encTail at h
  have h' := List.reverse_inj.mp h
  have e : (256 : Nat) ^ PARTIAL_SIZE = 2 ^ 208 := by decide
  have h1 := fromLe_leBytes PARTIAL_SIZE a (by rw [e]; exact ha)
  have h2 := fromLe_leBytes PARTIAL_SIZE b (by rw [e]; exact hb)
  rw [← h1, ← h2, h']

theorem tkey_ok (k : Key) : (tkey k).Ok := by
  simp [TKey.Ok, tkey, TKey.bytes, TKey.encodedSize, encTail_length]

/-- A-tail at the byte level: u64 prefixes, tails that fit the 26 stored bytes, distinct keys
have distinct tails. -/
structure PUniv (U : Key → Prop) : Prop where
  univ : Univ U
  tail_lt : ∀ k, U k → k.tail < 2 ^ 208

/-! ## the value store of the index model, tier by tier -/

/-- the index part of an index-model state (value store emptied) -/
def strip (s : Col) : Col := s.withVals Trie.empty Trie.empty 0

/-- the byte-level cell of a slot of the index model: stored tail, stored form of the value -/
def encSlot (cmp : Bytes → Bytes) (thr : Nat) (sl : Slot) : Bytes × Bytes × Bool :=
  (encTail sl.tail, (storedForm cmp thr (decVal sl.val)).1, (storedForm cmp thr (decVal sl.val)).2)

/-- `Index.Col` restricted to one size tier (`off * 256 + tier` is `Address.new off tier`) -/
def storeOf (cmp : Bytes → Bytes) (thr : Nat) (s : Col) (tier : Nat) : AStore :=
  ⟨fun off => (s.valAt (off * 256 + tier)).map (encSlot cmp thr), s.tier tier⟩

/-- the value tables of `p` represent the value store of `s`, tier by tier (the multipart tier
255 included) -/
structure VSim (cmp : Bytes → Bytes) (thr : Nat) (p : PCol) (s : Col) : Prop where
  cfgs : ∀ tier, tier < 256 → SameCfg (tableOfTier false tier) (p.vt tier)
  rep : ∀ tier, tier < 256 → Rep (p.vt tier) (storeOf cmp thr s tier)

structure Sim (cmp : Bytes → Bytes) (thr : Nat) (p : PCol) (s : Col) : Prop where
  ix : p.ix = strip s
  vs : VSim cmp thr p s

theorem Sim.cfg {cmp thr p s} (h : Sim cmp thr p s) : p.cfg = s.cfg := congrArg Col.cfg h.ix
theorem Sim.current {cmp thr p s} (h : Sim cmp thr p s) : p.current = s.current :=
  congrArg Col.current h.ix
theorem Sim.older {cmp thr p s} (h : Sim cmp thr p s) : p.older = s.older := congrArg Col.older h.ix
theorem Sim.progress {cmp thr p s} (h : Sim cmp thr p s) : p.progress = s.progress :=
  congrArg Col.progress h.ix

theorem VSim.congr {cmp thr p s p' s'} (h : VSim cmp thr p s) (hv : p'.vt = p.vt)
    (hvals : s'.values = s.values) (htiers : s'.tiers = s.tiers) : VSim cmp thr p' s' := by
  have e1 : ∀ a, s'.valAt a = s.valAt a := fun a => by simp only [Col.valAt, hvals]
  have e2 : ∀ t, s'.tier t = s.tier t := fun t => by simp only [Col.tier, htiers]
  have e3 : ∀ t, storeOf cmp thr s' t = storeOf cmp thr s t := fun t => by
    simp only [storeOf, e1, e2]
  have e4 : ∀ t, p'.vt t = p.vt t := fun t => congrFun hv t
  refine ⟨fun t ht => ?_, fun t ht => ?_⟩
  · rw [e4 t]; exact h.cfgs t ht
  · rw [e4 t, e3 t]; exact h.rep t ht

theorem init_vt (cfg : Cfg) (b t : Nat) : (PCol.init cfg b).vt t = tableOfTier false t := by
  simp only [PCol.init]

theorem init_sim (cmp : Bytes → Bytes) (thr : Nat) (cfg : Cfg) (b : Nat) :
    Sim cmp thr (PCol.init cfg b) (Col.init cfg b) := by
  have hix : (PCol.init cfg b).ix = strip (Col.init cfg b) := rfl
  refine ⟨hix, ⟨fun t _ => ?_, fun t ht => ?_⟩⟩
  · rw [init_vt]; exact SameCfg.refl _
  · rw [init_vt]
    unfold tableOfTier
    split
    · exact ⟨[], RepL.empty _ _ _⟩
    · exact ⟨[], RepL.empty _ _ _⟩

/-! ## reads -/

theorem pHolds_true_iff (p : PCol) (k : Key) (a : Nat) :
    pHolds p k a = true ↔
      ∃ x, readChain (p.vt (Address.size_tier a)) (tkey k) (Address.offset a) = .ok (some x) := by
  unfold pHolds
  split
  · rename_i x hx; simp [hx]
  · rename_i hx
    simp only [Bool.false_eq_true, false_iff]
    rintro ⟨x, hx'⟩
    exact hx x hx'

/-- every address reads the same in both models -/
theorem VSim.cell_all {cmp thr p s} (h : VSim cmp thr p s) (a : Nat) :
    absVT (p.vt (Address.size_tier a)) (Address.offset a) = (s.valAt a).map (encSlot cmp thr) := by
  obtain ⟨L, hr⟩ := h.rep _ (size_tier_lt a)
  have := hr.cells (Address.offset a)
  simp only [storeOf] at this
  rw [← addr_decomp a] at this
  exact this

/-- the byte comparison of `get_in_index` / `search_index` decides "the slot holds the key's
tail" of the index model -/
theorem pHolds_eq {cmp thr p s} {U : Key → Prop} (h : VSim cmp thr p s) (hU : PUniv U)
    (hI : IdxInv U s) (k : Key) (hk : U k) (a : Nat) :
    pHolds p k a = (s.tailAt a == some k.tail) := by
  rw [Bool.eq_iff_iff, pHolds_true_iff, beq_iff_eq]
  have hc := h.cell_all a
  constructor
  · rintro ⟨⟨v, c, n⟩, hx⟩
    have := absVT_of_read _ _ _ v c n hx
    rw [hc] at this
    cases hv : s.valAt a with
    | none => rw [hv] at this; cases this
    | some sl =>
      rw [hv] at this
      simp only [Option.map_some, encSlot, Option.some.injEq, Prod.mk.injEq] at this
      have htl : s.tailAt a = some sl.tail := by simp [Col.tailAt, hv]
      obtain ⟨k', hk', hkt, _⟩ := hI.reach a sl.tail htl
      have := encTail_inj sl.tail k.tail (by rw [← hkt]; exact hU.tail_lt k' hk')
        (hU.tail_lt k hk) this.1
      rw [htl, this]
  · intro ht
    obtain ⟨w, hw⟩ := (tailAt_eq_some s a k.tail).1 ht
    rw [hw] at hc
    simp only [Option.map_some, encSlot] at hc
    obtain ⟨n, hn⟩ := read_of_absVT _ _ _ _ _ hc
    exact ⟨_, hn⟩

theorem pSearchTable_eq {cmp thr p s} {U : Key → Prop} (h : Sim cmp thr p s) (hU : PUniv U)
    (hI : IdxInv U s) (k : Key) (hk : U k) (t : Table) : pSearchTable p t k = searchTable s t k := by
  unfold pSearchTable searchTable
  rw [h.cfg]
  have : pHolds p k = fun a => s.tailAt a == some k.tail := funext (pHolds_eq h.vs hU hI k hk)
  rw [this]

theorem pSearchOlder_eq {cmp thr p s} {U : Key → Prop} (h : Sim cmp thr p s) (hU : PUniv U)
    (hI : IdxInv U s) (k : Key) (hk : U k) :
    ∀ (ts : List Table) (j : Nat), pSearchOlder p k ts j = searchOlder s k ts j := by
  intro ts
  induction ts with
  | nil => intro j; rfl
  | cons t ts ih =>
    intro j
    unfold pSearchOlder searchOlder
    rw [pSearchTable_eq h hU hI k hk t]
    cases searchTable s t k with
    | none => exact ih (j + 1)
    | some r => rfl

theorem pSearchAll_eq {cmp thr p s} {U : Key → Prop} (h : Sim cmp thr p s) (hU : PUniv U)
    (hI : IdxInv U s) (k : Key) (hk : U k) : pSearchAll p k = searchAll s k := by
  unfold pSearchAll searchAll Col.tables
  rw [h.current, h.older]
  exact pSearchOlder_eq h hU hI k hk _ 0

/-- `get` on bytes = `get` of the index model, decoded (A-compress) -/
theorem pGet_eq {cmp thr p s} {U : Key → Prop} (decomp : Bytes → Option Bytes)
    (hA : ∀ v, decomp (cmp v) = some v) (h : Sim cmp thr p s) (hU : PUniv U)
    (hI : IdxInv U s) (k : Key) (hk : U k) : pGet decomp p k = (lookup s k).map decVal := by
  unfold pGet lookup
  rw [pSearchAll_eq h hU hI k hk]
  cases hs : searchAll s k with
  | none => rfl
  | some r =>
    obtain ⟨j, i, a⟩ := r
    simp only [Option.bind_some]
    have ht := (searchAll_sound hI k j i a hs).1
    obtain ⟨w, hw⟩ := (tailAt_eq_some s a k.tail).1 ht
    have hc := h.vs.cell_all a
    rw [hw] at hc
    simp only [Option.map_some, encSlot] at hc
    obtain ⟨n, hn⟩ := read_of_absVT _ _ _ _ _ hc
    have hn' : readChain (p.vt (Address.size_tier a)) (tkey k) (Address.offset a) =
      .ok (some ((storedForm cmp thr (decVal w)).1, (storedForm cmp thr (decVal w)).2, n)) := hn
    rw [hn', hw]
    simp only [Option.map_some]
    exact C06_stored_decodes cmp decomp hA thr (decVal w)

/-! ## index-only operations do not look at the value store -/

theorem withVals_self (s : Col) : (strip s).withVals s.values s.tiers s.nLive = s := by
  cases s; rfl

theorem Res.map_map_ok (r : Res) (f : Col → Col) (s' : Col) (h : r = .ok s') :
    r.map f = .ok (f s') := by rw [h]; rfl

theorem writeReindex_withVals (s : Col) (kp a : Nat) (V : Trie Slot) (T : Trie Tier) (N : Nat) :
    writeReindex (s.withVals V T N) kp a = (writeReindex s kp a).map (·.withVals V T N) := by
  unfold writeReindex
  have : containsAddr (s.withVals V T N) kp a = containsAddr s kp a := rfl
  rw [this]
  by_cases hc : containsAddr s kp a = true
  · simp only [hc, if_true]; rfl
  · simp only [hc]; exact insertLoop_withVals kp a V T N _ s

theorem applyPlan_withVals (V : Trie Slot) (T : Trie Tier) (N : Nat) :
    ∀ (plan : List (Nat × Nat)) (s : Col),
      applyPlan (s.withVals V T N) plan = (applyPlan s plan).map (·.withVals V T N) := by
  intro plan
  induction plan with
  | nil => intro s; rfl
  | cons x rest ih =>
    intro s
    obtain ⟨kp, a⟩ := x
    simp only [applyPlan]
    rw [writeReindex_withVals]
    cases writeReindex s kp a with
    | ok s1 => exact ih s1
    | panic => rfl
    | diverge => rfl

theorem reindexBatch_withVals (s : Col) (V : Trie Slot) (T : Trie Tier) (N : Nat) :
    reindexBatch (s.withVals V T N) = (reindexBatch s).map (·.withVals V T N) := by
  unfold reindexBatch
  have ho : (s.withVals V T N).older = s.older := rfl
  have hp : (s.withVals V T N).progress = s.progress := rfl
  rw [ho, hp]
  cases s.older with
  | nil => rfl
  | cons t0 rest =>
    simp only
    by_cases hq : s.progress = total_chunks t0.bits
    · simp only [hq, if_true]; rfl
    · simp only [hq, if_false]
      exact applyPlan_withVals V T N _ ⟨s.cfg, s.current, t0 :: rest, _, s.values, s.tiers, s.nLive⟩

theorem enactDrop_withVals (s : Col) (V : Trie Slot) (T : Trie Tier) (N : Nat) :
    enactDrop (s.withVals V T N) = (enactDrop s).withVals V T N := by
  unfold enactDrop
  have : dropPending (s.withVals V T N) = dropPending s := rfl
  rw [this]
  by_cases hd : dropPending s = true
  · simp only [hd, if_true]; rfl
  · simp only [hd]; rfl

theorem reopen_withVals (s : Col) (V : Trie Slot) (T : Trie Tier) (N : Nat) :
    reopen (s.withVals V T N) = (reopen s).withVals V T N := by
  unfold reopen
  have hc : (s.withVals V T N).current = s.current := rfl
  have ho : (s.withVals V T N).older = s.older := rfl
  rw [hc, ho]
  cases openIndex (List.filter Table.hasFile (s.current :: s.older)) with
  | none => rfl
  | some r => rfl

theorem withIx_ix (p : PCol) (s' : Col) (hc : p.cfg = s'.cfg) : (p.withIx (strip s')).ix = strip s' := by
  show (⟨p.cfg, s'.current, s'.older, s'.progress, Trie.empty, Trie.empty, 0⟩ : Col) = _
  rw [hc]; rfl

/-- a step of the physical column that only touches the index is the same step of the index
model -/
theorem sim_ixop {cmp thr p s p'} (f : Col → Res)
    (hf : ∀ (s : Col) V T N, f (s.withVals V T N) = (f s).map (·.withVals V T N))
    (hcfg : ∀ s s', f s = .ok s' → s'.cfg = s.cfg)
    (hS : Sim cmp thr p s) (h : liftIx p (f p.ix) = .ok p') :
    ∃ s', f s = .ok s' ∧ Sim cmp thr p' s' := by
  rw [hS.ix] at h
  have e1 : f (strip s) = (f s).map strip := hf s _ _ _
  rw [e1] at h
  cases hfs : f s with
  | ok s' =>
    rw [hfs] at h
    simp only [Res.map, liftIx] at h
    injection h with h
    subst h
    refine ⟨s', rfl, withIx_ix p s' (by rw [hS.cfg, hcfg s s' hfs]), ?_⟩
    have e2 : f s = (f (strip s)).map (·.withVals s.values s.tiers s.nLive) := by
      rw [← hf, withVals_self]
    rw [hfs] at e2
    obtain ⟨x, _, hx⟩ := Res.map_ok e2.symm
    exact hS.vs.congr rfl (by rw [hx]; rfl) (by rw [hx]; rfl)
  | panic => rw [hfs] at h; cases h
  | diverge => rw [hfs] at h; cases h

/-! ## value-store operations -/

theorem setVT_vt (p : PCol) (tier : Nat) (t : VT) (i : Nat) :
    (p.setVT tier t).vt i = if i = tier then t else p.vt i := rfl

theorem storeOf_eq {cmp thr} (s' : Col) (t : Nat) (A : AStore)
    (hc : ∀ off, (s'.valAt (off * 256 + t)).map (encSlot cmp thr) = A.cell off)
    (ht : s'.tier t = A.tier) : storeOf cmp thr s' t = A := by
  obtain ⟨cell, tier⟩ := A
  simp only [storeOf]
  congr 1
  funext off; exact hc off

/-- the value tables after an operation on the table of one tier -/
theorem VSim.update {cmp thr p s} (h : VSim cmp thr p s) (tier : Nat) (ht : tier < 256) (t' : VT)
    (s' : Col) (hcfg : SameCfg (p.vt tier) t') (hrep : Rep t' (storeOf cmp thr s' tier))
    (hother : ∀ t, t < 256 → t ≠ tier → storeOf cmp thr s' t = storeOf cmp thr s t) :
    VSim cmp thr (p.setVT tier t') s' := by
  refine ⟨fun t htl => ?_, fun t htl => ?_⟩
  · rw [setVT_vt]
    by_cases e : t = tier
    · rw [if_pos e, e]; exact SameCfg.trans (h.cfgs tier ht) hcfg
    · rw [if_neg e]; exact h.cfgs t htl
  · rw [setVT_vt]
    by_cases e : t = tier
    · rw [if_pos e, e]; exact hrep
    · rw [if_neg e, hother t htl e]; exact h.rep t htl

theorem alloc_valAt (s : Col) (tier y : Nat) : (s.alloc tier).2.valAt y = s.valAt y := by
  rw [Col.alloc_snd]; rfl

theorem alloc_tier_other (s : Col) (tier t : Nat) (h : t ≠ tier) :
    (s.alloc tier).2.tier t = s.tier t := by
  have hne : ¬ tier = t := fun e => h e.symm
  cases hf : (s.tier tier).free with
  | nil => rw [Col.alloc_nil s tier hf]; simp only []; rw [Col.tier_set, if_neg hne]
  | cons o rest => rw [Col.alloc_cons s tier o rest hf]; simp only []; rw [Col.tier_set, if_neg hne]

/-- the allocator of the index model on one tier is `AStore.alloc` -/
theorem storeOf_alloc {cmp thr} (s : Col) (tier : Nat) :
    (storeOf cmp thr s tier).alloc.1 = (s.alloc tier).1 ∧
    (storeOf cmp thr s tier).alloc.2.tier = (s.alloc tier).2.tier tier ∧
    (storeOf cmp thr s tier).alloc.2.cell = (storeOf cmp thr s tier).cell := by
  have hst : (storeOf cmp thr s tier).tier = s.tier tier := rfl
  cases hf : (s.tier tier).free with
  | nil =>
    rw [AStore.alloc_nil _ (by rw [hst]; exact hf), Col.alloc_nil s tier hf]
    refine ⟨rfl, ?_, rfl⟩
    simp only []; rw [Col.tier_set, if_pos rfl]; rfl
  | cons o rest =>
    rw [AStore.alloc_cons _ o rest (by rw [hst]; exact hf), Col.alloc_cons s tier o rest hf]
    refine ⟨rfl, ?_, rfl⟩
    simp only []; rw [Col.tier_set, if_pos rfl]; rfl

theorem addr_eq_iff (off t off' t' : Nat) (ht : t < 256) (ht' : t' < 256) :
    off * 256 + t = off' * 256 + t' ↔ off = off' ∧ t = t' := by
  omega

theorem resize_valAt (s : Col) (tier hd m y : Nat) : (s.resize tier hd m).valAt y = s.valAt y := rfl

theorem tier_lt (cmp : Bytes → Bytes) (thr : Nat) (key : TKey) (v : Bytes) :
    (tierFor cmp thr false key v).2 < 256 := by
  have := tierOfLen_lt false key (storedForm cmp thr v).1.length
  have h256 : SIZE_TIERS = 256 := rfl
  simp only [tierFor]
  omega

/-- continuation slots of the stored form of `v` under key `k`: parts of the chain minus the head
(0 in every fixed-size tier) -/
def extFor (cmp : Bytes → Bytes) (thr : Nat) (k : Key) (v : Bytes) : Nat :=
  numParts (tableOfTier false (tierFor cmp thr false (tkey k) v).2) (tkey k)
    (tierFor cmp thr false (tkey k) v).1.1 - 1

/-- a successful write that leaves the table below the physical limit satisfies the bound C06
asks for (`filled + parts ≤ 2^64`) -/
theorem write_bound (t : VT) (key : TKey) (v : Bytes) (at_ : Option Nat) (c : Bool) (r : WrOk)
    (F : List Nat) (L : List (List Nat)) (hinv : ValueTable.SlotInv t F L)
    (hat : at_ = none ∨ ∃ c0 ∈ L, at_ = c0.head?)
    (hw : writeChain t key v at_ c = .ok r) (hpre : t.filled ≤ 2 ^ 56)
    (hpost : r.table.filled ≤ 2 ^ 56) : t.filled + numParts t key v ≤ 2 ^ 64 := by
  have hpos : 0 < t.filled := by have := hinv.count; omega
  obtain ⟨_, hfill⟩ := writeChain_struct t key v at_ c r F hinv.free hpos hw
  have hF : F.length ≤ t.filled := by have := hinv.count; omega
  have hwl : (oldWalk t (chunksOf t key v).length at_).1.length ≤ t.filled := by
    rcases hat with e | ⟨c0, hc0, e⟩
    · rw [e]; simp [oldWalk]
    · rw [e, oldWalk_spec t _ c0 (Or.inr (hinv.chains c0 hc0))]
      have h1 := length_le_flatten L c0 hc0
      have h2 := hinv.count
      simp only [List.length_take]
      omega
  unfold numParts
  have : (2 : Nat) ^ 56 * 4 ≤ 2 ^ 64 := by decide
  omega

/-- `write_new_value_plan` on bytes = `alloc` + `setVal` + `resize` of the index model -/
theorem vsim_insert {cmp thr p s} (h : VSim cmp thr p s) (k : Key) (v : Bytes) (n : Nat) (r : WrOk)
    (hw : writeChain (p.vt (tierFor cmp thr false (tkey k) v).2) (tkey k)
      (tierFor cmp thr false (tkey k) v).1.1 none (tierFor cmp thr false (tkey k) v).1.2 = .ok r)
    (hpre : (p.vt (tierFor cmp thr false (tkey k) v).2).filled ≤ 2 ^ 56)
    (hpost : r.table.filled ≤ 2 ^ 56) :
    r.addr = (s.alloc (tierFor cmp thr false (tkey k) v).2).1 ∧
      VSim cmp thr (p.setVT (tierFor cmp thr false (tkey k) v).2 r.table)
        (((s.alloc (tierFor cmp thr false (tkey k) v).2).2.setVal
          (Address.new (s.alloc (tierFor cmp thr false (tkey k) v).2).1
            (tierFor cmp thr false (tkey k) v).2) (some ⟨k.tail, codeVal v⟩) n).resize
          (tierFor cmp thr false (tkey k) v).2 (s.alloc (tierFor cmp thr false (tkey k) v).2).1
          (extFor cmp thr k v)) := by
  have ht := tier_lt cmp thr (tkey k) v
  unfold extFor
  generalize htf : tierFor cmp thr false (tkey k) v = tf at *
  obtain ⟨L, hr⟩ := h.rep tf.2 ht
  have hok : WriteOk (p.vt tf.2) (tkey k) tf.1.1 := by
    rw [← htf]
    exact C06_tier_writeOk cmp thr false (tkey k) v (tkey_ok k) _ (by rw [htf]; exact h.cfgs tf.2 ht)
  have hb := write_bound _ _ _ none _ r _ L hr.inv (Or.inl rfl) hw hpre hpost
  obtain ⟨r', h1, h2, h3, h4, h5⟩ := hr.insert (encTail k.tail) tf.1.1 tf.1.2 hok hb
  have er : r' = r := by
    have h1' : writeChain (p.vt tf.2) (tkey k) tf.1.1 none tf.1.2 = .ok r' := h1
    rw [hw] at h1'; injection h1' with e; exact e.symm
  subst er
  have hnp : numParts (p.vt tf.2) (TKey.partialKey (encTail k.tail)) tf.1.1 =
      numParts (tableOfTier false tf.2) (tkey k) tf.1.1 := numParts_cfg _ _ _ _ (h.cfgs tf.2 ht)
  rw [hnp] at h2 h3
  have hal := storeOf_alloc (cmp := cmp) (thr := thr) s tf.2
  have ha : r'.addr = (s.alloc tf.2).1 := by rw [h2]; exact hal.1
  refine ⟨ha, ?_⟩
  have hra : r'.addr < 2 ^ 56 := by
    have hne := h3.ne_nil r'.chain (by simp)
    have := h3.inv.range r'.addr (List.mem_append_right _ (by
      rw [List.flatten_cons]
      exact List.mem_append_left _ (by rw [h5]; exact headD_mem _ hne)))
    omega
  have haddr : Address.new (s.alloc tf.2).1 tf.2 = r'.addr * 256 + tf.2 := by
    rw [← ha]; exact address_new_eq r'.addr tf.2 hra ht
  rw [haddr, ← ha]
  have hx : encSlot cmp thr ⟨k.tail, codeVal v⟩ = (encTail k.tail, tf.1.1, tf.1.2) := by
    simp only [encSlot, decVal_codeVal]
    rw [← htf]; rfl
  refine h.update tf.2 ht r'.table _ h4 ⟨r'.chain :: L, ?_⟩ (fun t htl hne => ?_)
  · have : storeOf cmp thr (((s.alloc tf.2).2.setVal (r'.addr * 256 + tf.2)
          (some ⟨k.tail, codeVal v⟩) n).resize tf.2 r'.addr
          (numParts (tableOfTier false tf.2) (tkey k) tf.1.1 - 1)) tf.2 =
          ((storeOf cmp thr s tf.2).insert (encTail k.tail, tf.1.1, tf.1.2)
            (numParts (tableOfTier false tf.2) (tkey k) tf.1.1 - 1)).2 := by
      apply storeOf_eq
      · intro off
        simp only [AStore.insert, AStore.setCell, AStore.resize, hal.2.2, resize_valAt,
          Col.valAt_setVal, alloc_valAt]
        rw [hal.1, ← ha]
        by_cases e : off = r'.addr
        · subst e; simp [hx]
        · have : ¬ r'.addr * 256 + tf.2 = off * 256 + tf.2 := by omega
          simp only [this, e, if_false]; rfl
      · simp only [AStore.insert, AStore.setCell, AStore.resize]
        rw [Col.tier_resize, if_pos rfl, hal.1, ← ha, hal.2.1]
        rfl
    rw [this]; exact h3
  · apply storeOf_eq
    · intro off
      have : ¬ r'.addr * 256 + tf.2 = off * 256 + t := by omega
      simp only [resize_valAt, Col.valAt_setVal, alloc_valAt, this, if_false]; rfl
    · rw [Col.tier_resize, if_neg (fun e => hne e.symm)]
      exact alloc_tier_other s tf.2 t hne

theorem VSim.live_tier {cmp thr p s} (_h : VSim cmp thr p s) (a : Nat) : Address.size_tier a < 256 :=
  size_tier_lt a

/-- the live chain whose head is the offset of a live address -/
theorem VSim.live_chain {cmp : Bytes → Bytes} {thr : Nat} {p : PCol} {s : Col} {L : List (List Nat)}
    (a : Nat) (old : Slot)
    (hv : s.valAt a = some old)
    (hr : RepL (p.vt (Address.size_tier a)) (storeOf cmp thr s (Address.size_tier a)) L) :
    ∃ c0 ∈ L, c0.headD 0 = Address.offset a := by
  apply hr.live
  simp only [storeOf]
  rw [← addr_decomp a, hv]; rfl

/-- `write_replace_plan` on bytes = `setVal` + `resize` on the same address of the index model -/
theorem vsim_replace {cmp thr p s} (h : VSim cmp thr p s) (k : Key) (v : Bytes) (n a : Nat)
    (old : Slot) (hv : s.valAt a = some old)
    (heq : Address.size_tier a = (tierFor cmp thr false (tkey k) v).2) (r : WrOk)
    (hw : writeChain (p.vt (tierFor cmp thr false (tkey k) v).2) (tkey k)
        (tierFor cmp thr false (tkey k) v).1.1 (some (Address.offset a))
        (tierFor cmp thr false (tkey k) v).1.2 = .ok r)
    (hpre : (p.vt (tierFor cmp thr false (tkey k) v).2).filled ≤ 2 ^ 56)
    (hpost : r.table.filled ≤ 2 ^ 56) :
    VSim cmp thr (p.setVT (tierFor cmp thr false (tkey k) v).2 r.table)
      ((s.setVal a (some ⟨k.tail, codeVal v⟩) n).resize (tierFor cmp thr false (tkey k) v).2
        (Address.offset a) (extFor cmp thr k v)) := by
  have ht := tier_lt cmp thr (tkey k) v
  unfold extFor
  generalize htf : tierFor cmp thr false (tkey k) v = tf at *
  obtain ⟨L, hr⟩ := h.rep tf.2 ht
  have hok : WriteOk (p.vt tf.2) (tkey k) tf.1.1 := by
    rw [← htf]
    exact C06_tier_writeOk cmp thr false (tkey k) v (tkey_ok k) _ (by rw [htf]; exact h.cfgs tf.2 ht)
  have hdec : a = Address.offset a * 256 + tf.2 := by rw [← heq]; exact addr_decomp a
  obtain ⟨c0, hc0, hhd⟩ : ∃ c0 ∈ L, c0.headD 0 = Address.offset a := by
    apply hr.live
    simp only [storeOf]
    rw [← hdec, hv]; rfl
  have hhead : c0.head? = some (Address.offset a) := by
    rw [← hhd]
    have := hr.ne_nil c0 hc0
    cases c0 with
    | nil => exact absurd rfl this
    | cons x y => rfl
  have hb := write_bound _ _ _ (some (Address.offset a)) _ r _ L hr.inv
    (Or.inr ⟨c0, hc0, hhead.symm⟩) hw hpre hpost
  obtain ⟨r', h1, _, h3, h4⟩ := hr.replace c0 hc0 (encTail k.tail) tf.1.1 tf.1.2 hok hb
  rw [hhd] at h1 h3
  have er : r' = r := by
    have h1' : writeChain (p.vt tf.2) (tkey k) tf.1.1 (some (Address.offset a)) tf.1.2 = .ok r' := h1
    rw [hw] at h1'; injection h1' with e; exact e.symm
  subst er
  have hnp : numParts (p.vt tf.2) (TKey.partialKey (encTail k.tail)) tf.1.1 =
      numParts (tableOfTier false tf.2) (tkey k) tf.1.1 := numParts_cfg _ _ _ _ (h.cfgs tf.2 ht)
  rw [hnp] at h3
  have hx : encSlot cmp thr ⟨k.tail, codeVal v⟩ = (encTail k.tail, tf.1.1, tf.1.2) := by
    simp only [encSlot, decVal_codeVal]
    rw [← htf]; rfl
  refine h.update tf.2 ht r'.table _ h4 ⟨r'.chain :: L.erase c0, ?_⟩ (fun t htl hne => ?_)
  · have : storeOf cmp thr ((s.setVal a (some ⟨k.tail, codeVal v⟩) n).resize tf.2 (Address.offset a)
          (numParts (tableOfTier false tf.2) (tkey k) tf.1.1 - 1)) tf.2 =
        (storeOf cmp thr s tf.2).replace (Address.offset a) (encTail k.tail, tf.1.1, tf.1.2)
          (numParts (tableOfTier false tf.2) (tkey k) tf.1.1 - 1) := by
      apply storeOf_eq
      · intro off
        simp only [AStore.replace, AStore.setCell, AStore.resize, resize_valAt, Col.valAt_setVal]
        by_cases e : off = Address.offset a
        · subst e; rw [if_pos hdec]; simp [hx]
        · have : ¬ a = off * 256 + tf.2 := by omega
          simp only [this, e, if_false]; rfl
      · simp only [AStore.replace, AStore.setCell, AStore.resize]
        rw [Col.tier_resize, if_pos rfl]
        rfl
    rw [this]; exact h3
  · apply storeOf_eq
    · intro off
      have : ¬ a = off * 256 + t := by omega
      simp only [resize_valAt, Col.valAt_setVal, this, if_false]; rfl
    · rw [Col.tier_resize, if_neg (fun e => hne e.symm)]
      rfl

/-- `write_remove_plan` on bytes = `release` + `setVal none` of the index model -/
theorem vsim_remove {cmp thr p s} (h : VSim cmp thr p s) (n a : Nat) (old : Slot)
    (hv : s.valAt a = some old) (hpre : (p.vt (Address.size_tier a)).filled ≤ 2 ^ 56) :
    ∃ t' : VT, pRemoveVal p a = .ok (p.setVT (Address.size_tier a) t') ∧
      t'.filled = (p.vt (Address.size_tier a)).filled ∧
      VSim cmp thr (p.setVT (Address.size_tier a) t') (freed s a n) := by
  have ht := size_tier_lt a
  obtain ⟨L, hr⟩ := h.rep _ ht
  have hdec := addr_decomp a
  obtain ⟨c0, hc0, hhd⟩ := VSim.live_chain a old hv hr
  obtain ⟨t', h1, h3, h4, h5⟩ := hr.remove c0 hc0 (by omega)
  rw [hhd] at h1 h3
  refine ⟨t', ?_, h5, ?_⟩
  · unfold pRemoveVal; rw [h1]
  refine h.update _ ht t' _ h4 ⟨L.erase c0, ?_⟩ (fun t htl hne => ?_)
  · have : storeOf cmp thr (freed s a n) (Address.size_tier a) =
        (storeOf cmp thr s (Address.size_tier a)).remove (Address.offset a) := by
      apply storeOf_eq
      · intro off
        simp only [AStore.remove, AStore.setCell, freed_valAt]
        by_cases e : off = Address.offset a
        · subst e; rw [if_pos hdec.symm]; simp
        · have : ¬ off * 256 + Address.size_tier a = a := by omega
          simp only [this, e, if_false]; rfl
      · rw [freed_tier, if_pos rfl]; rfl
    rw [this]; exact h3
  · apply storeOf_eq
    · intro off
      have : ¬ off * 256 + t = a := by omega
      simp only [freed_valAt, this, if_false]; rfl
    · rw [freed_tier, if_neg (fun e => hne e.symm)]; rfl

/-! ## planned writes -/

/-- the index-model action a physical action is simulated by: the tier is the one
`Column::compress` selects, `ext` the number of parts of the chain minus one, the value is the
code of the bytes -/
def mirror (cmp : Bytes → Bytes) (thr : Nat) : PAction → Index.Action
  | .set k v => .set k (tierFor cmp thr false (tkey k) v).2 (extFor cmp thr k v) (codeVal v)
  | .del k => .del k
  | .reindex => .reindex
  | .enact => .enact
  | .reopen => .reopen
  | .relaunch => .relaunch

/-- physical limits (C09's `Bounded` on the physical column) -/
structure PBounded (p : PCol) : Prop where
  bits : p.current.bits ≤ 49
  filled : ∀ tier, tier < 256 → (p.vt tier).filled ≤ 2 ^ 56

theorem strip_setVal (s : Col) (a : Nat) (o : Option Slot) (n : Nat) :
    strip (s.setVal a o n) = strip s := rfl

theorem strip_alloc (s : Col) (t : Nat) : strip (s.alloc t).2 = strip s := by
  rw [Col.alloc_snd]; rfl

theorem strip_freed (s : Col) (a n : Nat) : strip (freed s a n) = strip s := rfl

theorem setVT_ix (p : PCol) (tier : Nat) (t : VT) : (p.setVT tier t).ix = p.ix := rfl

/-- index part of `sim_ixop`, without the value tables -/
theorem ixop_run {p : PCol} {s : Col} {p' : PCol} (f : Col → Res)
    (hf : ∀ (s : Col) V T N, f (s.withVals V T N) = (f s).map (·.withVals V T N))
    (hcfg : ∀ s s', f s = .ok s' → s'.cfg = s.cfg)
    (hix : p.ix = strip s) (h : liftIx p (f p.ix) = .ok p') :
    ∃ s', f s = .ok s' ∧ p'.ix = strip s' ∧ p'.vt = p.vt ∧ s'.values = s.values ∧
      s'.tiers = s.tiers := by
  rw [hix] at h
  have e1 : f (strip s) = (f s).map strip := hf s _ _ _
  rw [e1] at h
  cases hfs : f s with
  | ok s' =>
    rw [hfs] at h
    simp only [Res.map, liftIx] at h
    injection h with h
    subst h
    have hc : p.cfg = s'.cfg := by
      rw [hcfg s s' hfs]; exact congrArg Col.cfg hix
    have e2 : f s = (f (strip s)).map (·.withVals s.values s.tiers s.nLive) := by
      rw [← hf, withVals_self]
    rw [hfs] at e2
    obtain ⟨x, _, hx⟩ := Res.map_ok e2.symm
    exact ⟨s', rfl, withIx_ix p s' hc, rfl, by rw [hx]; rfl, by rw [hx]; rfl⟩
  | panic => rw [hfs] at h; cases h
  | diverge => rw [hfs] at h; cases h

theorem insertLoop_hf (kp a f : Nat) (s : Col) (V : Trie Slot) (T : Trie Tier) (N : Nat) :
    insertLoop (s.withVals V T N) kp a f = (insertLoop s kp a f).map (·.withVals V T N) :=
  insertLoop_withVals kp a V T N f s

/-- the index part of a tier move (`write_insert_plan` with the old sub-index, growing if the
page is full and the move fix is in) as a function of the column alone -/
def moveIx (g : Bool) (kp a' : Nat) (sub : Option Nat) (x : Col) : Res :=
  insertCont x (x.current.insert kp a' sub)
    (fun _ => if g then insertLoop (triggerReindex x) kp a' LOOP_FUEL else .ok x)

theorem moveIx_hf (g : Bool) (kp a' : Nat) (sub : Option Nat) (s : Col) (V : Trie Slot)
    (T : Trie Tier) (N : Nat) :
    moveIx g kp a' sub (s.withVals V T N) = (moveIx g kp a' sub s).map (·.withVals V T N) := by
  unfold moveIx
  rw [← insertCont_withVals]
  have hc : (s.withVals V T N).current = s.current := rfl
  rw [hc]
  congr 1
  funext _
  cases g with
  | false => rfl
  | true =>
    simp only [if_true]
    have : triggerReindex (s.withVals V T N) = (triggerReindex s).withVals V T N := rfl
    rw [this]
    exact insertLoop_withVals kp a' V T N _ _

theorem moveIx_cfg (g : Bool) (kp a' : Nat) (sub : Option Nat) (s s' : Col)
    (h : moveIx g kp a' sub s = .ok s') : s'.cfg = s.cfg := by
  unfold moveIx at h
  cases hins : s.current.insert kp a' sub with
  | written t => rw [hins] at h; simp only [insertCont] at h; injection h with h; subst h; rfl
  | needReindex =>
    rw [hins] at h
    simp only [insertCont] at h
    cases g with
    | false => simp only [Bool.false_eq_true, if_false] at h; injection h with h; subst h; rfl
    | true =>
      simp only [if_true] at h
      exact insertLoop_cfg _ _ _ (triggerReindex s) _ h
  | skipped => rw [hins] at h; simp only [insertCont] at h; injection h with h; subst h; rfl
  | panic => rw [hins] at h; simp only [insertCont] at h; cases h

theorem Sim.of_parts {cmp thr p s} (hix : p.ix = strip s) (hv : VSim cmp thr p s) :
    Sim cmp thr p s := ⟨hix, hv⟩

theorem liftIx_vt {p p' : PCol} {r : Res} (h : liftIx p r = .ok p') : p'.vt = p.vt := by
  cases r with
  | ok s => simp only [liftIx] at h; injection h with h; subst h; rfl
  | panic => cases h
  | diverge => cases h

/-- `write_plan_new` -/
theorem sim_writeNew {cmp thr p s p'} (hS : Sim cmp thr p s) (k : Key) (v : Bytes)
    (hB : PBounded p)
    (h : pWriteNew p k (tierFor cmp thr false (tkey k) v) = .ok p') (hB' : PBounded p') :
    ∃ s', writeNew s k (tierFor cmp thr false (tkey k) v).2 (extFor cmp thr k v) (codeVal v) = .ok s' ∧
      Sim cmp thr p' s' := by
  have ht := tier_lt cmp thr (tkey k) v
  unfold pWriteNew pInsertVal at h
  cases hw : writeChain (p.vt (tierFor cmp thr false (tkey k) v).2) (tkey k)
      (tierFor cmp thr false (tkey k) v).1.1 none (tierFor cmp thr false (tkey k) v).1.2 with
  | error e => rw [hw] at h; cases h
  | ok r =>
    rw [hw] at h
    simp only at h
    have hvt := liftIx_vt h
    have hpost : r.table.filled ≤ 2 ^ 56 := by
      have := hB'.filled (tierFor cmp thr false (tkey k) v).2 ht
      rw [hvt, setVT_vt, if_pos rfl] at this
      exact this
    obtain ⟨e2, e3⟩ := vsim_insert hS.vs k v
      ((s.alloc (tierFor cmp thr false (tkey k) v).2).2.nLive + 1) r hw (hB.filled _ ht) hpost
    rw [e2] at h
    unfold writeNew
    simp only
    have hix : (p.setVT (tierFor cmp thr false (tkey k) v).2 r.table).ix =
        strip (((s.alloc (tierFor cmp thr false (tkey k) v).2).2.setVal
          (Address.new (s.alloc (tierFor cmp thr false (tkey k) v).2).1
            (tierFor cmp thr false (tkey k) v).2) (some ⟨k.tail, codeVal v⟩)
          ((s.alloc (tierFor cmp thr false (tkey k) v).2).2.nLive + 1)).resize
          (tierFor cmp thr false (tkey k) v).2 (s.alloc (tierFor cmp thr false (tkey k) v).2).1
          (extFor cmp thr k v)) := by
      rw [setVT_ix]
      show p.ix = strip (s.alloc (tierFor cmp thr false (tkey k) v).2).2
      rw [strip_alloc]; exact hS.ix
    obtain ⟨s', f1, f2, f3, f4, f5⟩ := ixop_run
      (fun x => insertLoop x k.pre (Address.new (s.alloc (tierFor cmp thr false (tkey k) v).2).1
        (tierFor cmp thr false (tkey k) v).2) LOOP_FUEL)
      (fun x V T N => insertLoop_hf _ _ _ x V T N) (fun x x' hx => insertLoop_cfg _ _ _ x x' hx) hix h
    exact ⟨s', f1, f2, e3.congr f3 f4 f5⟩

theorem found_val {U : Key → Prop} {s : Col} (hI : IdxInv U s) (k : Key) (j i a : Nat)
    (h : searchAll s k = some (j, i, a)) : ∃ w, s.valAt a = some ⟨k.tail, w⟩ :=
  (tailAt_eq_some s a k.tail).1 (searchAll_sound hI k j i a h).1

/-- `write_plan_existing` -/
theorem sim_writeExisting {cmp thr p s p'} {U : Key → Prop} (hS : Sim cmp thr p s)
    (hI : IdxInv U s) (k : Key) (j sub a : Nat) (hs : searchAll s k = some (j, sub, a))
    (op : Option Bytes) (hB : PBounded p)
    (h : pWriteExisting0 p k (op.map (fun v => tierFor cmp thr false (tkey k) v)) j sub a = .ok p')
    (hB' : PBounded p') :
    ∃ s', writeExisting0 s k
        (op.map (fun v => ((tierFor cmp thr false (tkey k) v).2, extFor cmp thr k v, codeVal v)))
        j sub a = .ok s' ∧ Sim cmp thr p' s' := by
  obtain ⟨w, hw⟩ := found_val hI k j sub a hs
  have hta := size_tier_lt a
  cases op with
  | none =>
    simp only [Option.map_none] at h ⊢
    unfold pWriteExisting0 at h
    unfold writeExisting0
    simp only at h ⊢
    obtain ⟨t', e1, _, e3⟩ := vsim_remove hS.vs (s.nLive - 1) a _ hw (hB.filled _ hta)
    rw [e1] at h
    simp only at h
    have hix : (p.setVT (Address.size_tier a) t').ix = strip (freed s a (s.nLive - 1)) := by
      rw [setVT_ix, strip_freed]; exact hS.ix
    have hfr : (s.release (Address.size_tier a) (Address.offset a)).setVal a none (s.nLive - 1) =
        freed s a (s.nLive - 1) := rfl
    rw [hfr]
    have htab : (p.setVT (Address.size_tier a) t').ix.tableAt j = (freed s a (s.nLive - 1)).tableAt j := by
      rw [hix]; rfl
    rw [htab] at h
    cases hr : ((freed s a (s.nLive - 1)).tableAt j).remove k.pre sub with
    | none =>
      rw [hr] at h
      simp only at h ⊢
      injection h with h; subst h
      exact ⟨_, rfl, hix, e3⟩
    | some t =>
      rw [hr] at h
      simp only at h ⊢
      injection h with h; subst h
      refine ⟨_, rfl, ?_, e3.congr rfl (by cases j <;> rfl) (by cases j <;> rfl)⟩
      rw [hix]
      have : (strip (freed s a (s.nLive - 1))).setTableAt j t =
          strip ((freed s a (s.nLive - 1)).setTableAt j t) := by cases j <;> rfl
      rw [this]
      exact withIx_ix _ _ (by
        have hc : (p.setVT (Address.size_tier a) t').cfg = (freed s a (s.nLive - 1)).cfg :=
          congrArg Col.cfg hix
        rw [hc]; cases j <;> rfl)
  | some v =>
    have ht := tier_lt cmp thr (tkey k) v
    simp only [Option.map_some] at h ⊢
    unfold pWriteExisting0 at h
    unfold writeExisting0
    simp only at h ⊢
    by_cases heq : Address.size_tier a = (tierFor cmp thr false (tkey k) v).2
    · -- replace in place
      rw [if_pos heq] at h
      rw [if_pos heq]
      cases hwc : writeChain (p.vt (tierFor cmp thr false (tkey k) v).2) (tkey k)
          (tierFor cmp thr false (tkey k) v).1.1 (some (Address.offset a))
          (tierFor cmp thr false (tkey k) v).1.2 with
      | error e => rw [hwc] at h; cases h
      | ok r =>
        rw [hwc] at h
        simp only at h
        injection h with h; subst h
        have hpost : r.table.filled ≤ 2 ^ 56 := by
          have := hB'.filled (tierFor cmp thr false (tkey k) v).2 ht
          rw [setVT_vt, if_pos rfl] at this
          exact this
        have e3 := vsim_replace hS.vs k v s.nLive a _ hw heq r hwc (hB.filled _ ht) hpost
        exact ⟨_, rfl, by rw [setVT_ix]; exact hS.ix, e3⟩
    · -- move to another tier
      rw [if_neg heq] at h
      rw [if_neg heq]
      obtain ⟨t1, e1, e1f, e1v⟩ := vsim_remove hS.vs s.nLive a _ hw (hB.filled _ hta)
      rw [e1] at h
      simp only at h
      unfold pInsertVal at h
      have hvt1 : (p.setVT (Address.size_tier a) t1).vt (tierFor cmp thr false (tkey k) v).2 =
          p.vt (tierFor cmp thr false (tkey k) v).2 := by
        rw [setVT_vt, if_neg (fun e => heq e.symm)]
      cases hwc : writeChain ((p.setVT (Address.size_tier a) t1).vt (tierFor cmp thr false (tkey k) v).2)
          (tkey k) (tierFor cmp thr false (tkey k) v).1.1 none
          (tierFor cmp thr false (tkey k) v).1.2 with
      | error e => rw [hwc] at h; cases h
      | ok r =>
        rw [hwc] at h
        simp only at h
        have hpre : ((p.setVT (Address.size_tier a) t1).vt (tierFor cmp thr false (tkey k) v).2).filled
            ≤ 2 ^ 56 := by
          rw [hvt1]; exact hB.filled _ ht
        have hvt := liftIx_vt h
        have hpost : r.table.filled ≤ 2 ^ 56 := by
          have := hB'.filled (tierFor cmp thr false (tkey k) v).2 ht
          rw [hvt, setVT_vt, if_pos rfl] at this
          exact this
        obtain ⟨e2a, e2v⟩ := vsim_insert e1v k v
          ((freed s a s.nLive).alloc (tierFor cmp thr false (tkey k) v).2).2.nLive r hwc hpre hpost
        rw [e2a] at h
        have hmv : moveValue s k a (tierFor cmp thr false (tkey k) v).2 (extFor cmp thr k v) (codeVal v) =
            (Address.new ((freed s a s.nLive).alloc (tierFor cmp thr false (tkey k) v).2).1
                (tierFor cmp thr false (tkey k) v).2,
              (((freed s a s.nLive).alloc (tierFor cmp thr false (tkey k) v).2).2.setVal
                (Address.new ((freed s a s.nLive).alloc (tierFor cmp thr false (tkey k) v).2).1
                  (tierFor cmp thr false (tkey k) v).2) (some ⟨k.tail, codeVal v⟩)
                ((freed s a s.nLive).alloc (tierFor cmp thr false (tkey k) v).2).2.nLive).resize
                (tierFor cmp thr false (tkey k) v).2
                ((freed s a s.nLive).alloc (tierFor cmp thr false (tkey k) v).2).1
                (extFor cmp thr k v)) := rfl
        rw [hmv]
        simp only
        have hix : ((p.setVT (Address.size_tier a) t1).setVT (tierFor cmp thr false (tkey k) v).2
            r.table).ix = strip ((((freed s a s.nLive).alloc (tierFor cmp thr false (tkey k) v).2).2.setVal
                (Address.new ((freed s a s.nLive).alloc (tierFor cmp thr false (tkey k) v).2).1
                  (tierFor cmp thr false (tkey k) v).2) (some ⟨k.tail, codeVal v⟩)
                ((freed s a s.nLive).alloc (tierFor cmp thr false (tkey k) v).2).2.nLive).resize
                (tierFor cmp thr false (tkey k) v).2
                ((freed s a s.nLive).alloc (tierFor cmp thr false (tkey k) v).2).1
                (extFor cmp thr k v)) := by
          rw [setVT_ix, setVT_ix]
          show p.ix = strip ((freed s a s.nLive).alloc (tierFor cmp thr false (tkey k) v).2).2
          rw [strip_alloc, strip_freed]; exact hS.ix
        have hg : p.cfg.growOnMove = s.cfg.growOnMove := by rw [hS.cfg]
        rw [hg] at h
        obtain ⟨s', f1, f2, f3, f4, f5⟩ := ixop_run
          (moveIx s.cfg.growOnMove k.pre
            (Address.new ((freed s a s.nLive).alloc (tierFor cmp thr false (tkey k) v).2).1
              (tierFor cmp thr false (tkey k) v).2) (if j = 0 then some sub else none))
          (fun x V T N => moveIx_hf _ _ _ _ x V T N) (fun x x' hx => moveIx_cfg _ _ _ _ x x' hx) hix h
        exact ⟨s', f1, f2, e2v.congr f3 f4 f5⟩

/-! ## steps and runs -/

/-- keys of the history lie in `U` (no restriction on the size tier) -/
def PActKeys (U : Key → Prop) : PAction → Prop
  | .set k _ => U k
  | .del k => U k
  | _ => True

/-- keys of the history lie in `U`; values go to single-slot tiers (not the multipart tier 255);
only used to state the former partial theorem and the gap it left -/
def PActOK (cmp : Bytes → Bytes) (thr : Nat) (U : Key → Prop) : PAction → Prop
  | .set k v => U k ∧ (tierFor cmp thr false (tkey k) v).2 < 255
  | .del k => U k
  | _ => True

theorem PActOK.keys {cmp thr} {U : Key → Prop} {a : PAction} (h : PActOK cmp thr U a) :
    PActKeys U a := by
  cases a with
  | set k v => exact h.1
  | del k => exact h
  | reindex => trivial
  | enact => trivial
  | reopen => trivial
  | relaunch => trivial

/-- the physical limits hold in every state the run goes through -/
def PAllBounded (cmp : Bytes → Bytes) (thr : Nat) (p : PCol) : List PAction → Prop
  | [] => True
  | a :: as => ∀ p1, pStep cmp thr p a = .ok p1 → PBounded p1 ∧ PAllBounded cmp thr p1 as

theorem Sim.bounded {cmp thr p s} (hS : Sim cmp thr p s) (hB : PBounded p) : Bounded s := by
  refine ⟨by rw [← hS.current]; exact hB.bits, fun tier ht => ?_⟩
  obtain ⟨L, hr⟩ := hS.vs.rep tier ht
  have := hr.filled
  simp only [storeOf] at this
  rw [← this]; exact hB.filled tier ht

/-! ## the removal of the stale entries (fix-c09-stale-index-entries) -/

theorem purgeOlder_withVals (s : Col) (V : Trie Slot) (T : Trie Tier) (N kp a : Nat) :
    purgeOlder (s.withVals V T N) kp a = (purgeOlder s kp a).withVals V T N := by
  unfold purgeOlder
  have : (s.withVals V T N).cfg = s.cfg := rfl
  rw [this]
  cases s.cfg.purge <;> rfl

theorem withIx_purge_ix (p : PCol) (s : Col) (kp a : Nat) (hix : p.ix = strip s) :
    (p.withIx (purgeOlder p.ix kp a)).ix = strip (purgeOlder s kp a) := by
  have e : purgeOlder p.ix kp a = strip (purgeOlder s kp a) := by
    rw [hix]; exact purgeOlder_withVals s _ _ _ kp a
  rw [e]
  exact withIx_ix _ _ (by
    have hc : p.cfg = s.cfg := congrArg Col.cfg hix
    rw [hc, purgeOlder_cfg])

theorem sim_purgeOlder {cmp thr p s} (hS : Sim cmp thr p s) (kp a : Nat) :
    Sim cmp thr (p.withIx (purgeOlder p.ix kp a)) (purgeOlder s kp a) :=
  ⟨withIx_purge_ix p s kp a hS.ix,
   hS.vs.congr rfl (purgeOlder_values s kp a) (purgeOlder_tiers s kp a)⟩

theorem PBounded.of_purge {p : PCol} {kp a : Nat}
    (h : PBounded (p.withIx (purgeOlder p.ix kp a))) : PBounded p :=
  ⟨by
    have := h.bits
    have e : (p.withIx (purgeOlder p.ix kp a)).current = p.current := by
      show (purgeOlder p.ix kp a).current = p.current
      rw [purgeOlder_current]; rfl
    rwa [e] at this, h.filled⟩

/-- `write_plan_existing` of the fixed code -/
theorem sim_writeExisting' {cmp thr p s p'} {U : Key → Prop} (hS : Sim cmp thr p s)
    (hI : IdxInv U s) (k : Key) (j sub a : Nat) (hs : searchAll s k = some (j, sub, a))
    (op : Option Bytes) (hB : PBounded p)
    (h : pWriteExisting p k (op.map (fun v => tierFor cmp thr false (tkey k) v)) j sub a = .ok p')
    (hB' : PBounded p') :
    ∃ s', writeExisting s k
        (op.map (fun v => ((tierFor cmp thr false (tkey k) v).2, extFor cmp thr k v, codeVal v)))
        j sub a = .ok s' ∧ Sim cmp thr p' s' := by
  have hfr : pFrees (op.map (fun v => tierFor cmp thr false (tkey k) v)) a =
      frees (op.map (fun v => ((tierFor cmp thr false (tkey k) v).2, extFor cmp thr k v, codeVal v))) a := by
    cases op <;> rfl
  unfold pWriteExisting at h
  rw [hfr] at h
  cases hf : frees (op.map (fun v => ((tierFor cmp thr false (tkey k) v).2, extFor cmp thr k v, codeVal v))) a
  · rw [hf] at h
    simp only [Bool.false_eq_true, if_false] at h
    obtain ⟨s', h1, h2⟩ := sim_writeExisting hS hI k j sub a hs op hB h hB'
    exact ⟨s', by rw [writeExisting_of_not_frees _ _ _ _ _ _ hf]; exact h1, h2⟩
  · rw [hf] at h
    simp only [if_true] at h
    cases h0 : pWriteExisting0 p k (op.map (fun v => tierFor cmp thr false (tkey k) v)) j sub a with
    | ok p0 =>
      rw [h0] at h
      simp only [PRes.mapIx] at h
      injection h with h
      subst h
      obtain ⟨s0, h1, h2⟩ := sim_writeExisting hS hI k j sub a hs op hB h0 hB'.of_purge
      refine ⟨purgeOlder s0 k.pre a, ?_, sim_purgeOlder h2 _ _⟩
      rw [writeExisting_of_frees _ _ _ _ _ _ hf, h1]
      rfl
    | panic => rw [h0] at h; simp [PRes.mapIx] at h
    | diverge => rw [h0] at h; simp [PRes.mapIx] at h
    | vtErr e => rw [h0] at h; simp [PRes.mapIx] at h

theorem sim_write {cmp thr p s p'} {U : Key → Prop} {m : Key → Option Val}
    (hS : Sim cmp thr p s) (hU : PUniv U) (hG : Good U s m) (k : Key) (hk : U k) (op : Option Bytes)
    (hB : PBounded p) (h : pWrite cmp thr p k op = .ok p') (hB' : PBounded p') :
    ∃ s', write s k (op.map (fun v =>
        ((tierFor cmp thr false (tkey k) v).2, extFor cmp thr k v, codeVal v))) = .ok s' ∧
      Sim cmp thr p' s' := by
  unfold pWrite at h
  rw [pSearchAll_eq hS hU hG.idx k hk] at h
  unfold write
  cases hs : searchAll s k with
  | none =>
    rw [hs] at h
    simp only at h ⊢
    cases op with
    | none => simp only [Option.map_none] at h ⊢; injection h with h; subst h; exact ⟨s, rfl, hS⟩
    | some v =>
      simp only [Option.map_some] at h ⊢
      exact sim_writeNew hS k v hB h hB'
  | some r =>
    obtain ⟨j, sub, a⟩ := r
    rw [hs] at h
    simp only at h ⊢
    exact sim_writeExisting' hS hG.idx k j sub a hs op hB h hB'

/-- FORWARD SIMULATION: every step of the physical column is the mirrored step of the index
model, and the value tables keep representing its value store. -/
theorem sim_step {cmp thr p s p'} {U : Key → Prop} {m : Key → Option Val}
    (hS : Sim cmp thr p s) (hU : PUniv U) (hG : Good U s m) (a : PAction)
    (ha : PActKeys U a) (hB : PBounded p) (h : pStep cmp thr p a = .ok p')
    (hB' : PBounded p') :
    ∃ s', stepA s (mirror cmp thr a) = .ok s' ∧ Sim cmp thr p' s' := by
  cases a with
  | set k v =>
    have := sim_write hS hU hG k ha (some v) hB h hB'
    exact this
  | del k =>
    have := sim_write hS hU hG k ha none hB h hB'
    exact this
  | reindex =>
    exact sim_ixop reindexBatch reindexBatch_withVals reindexBatch_cfg hS h
  | enact =>
    obtain ⟨s', h1, h2⟩ := sim_ixop (fun x => .ok (enactDrop x))
      (fun x V T N => by simp only [enactDrop_withVals]; rfl)
      (fun x x' hx => by injection hx with hx; subst hx; exact enactDrop_cfg x) hS h
    injection h1 with h1; subst h1
    exact ⟨_, rfl, h2⟩
  | reopen =>
    obtain ⟨s', h1, h2⟩ := sim_ixop (fun x => .ok (reopen x))
      (fun x V T N => by simp only [reopen_withVals]; rfl)
      (fun x x' hx => by injection hx with hx; subst hx; exact reopen_cfg x) hS h
    injection h1 with h1; subst h1
    exact ⟨_, rfl, h2⟩
  | relaunch =>
    obtain ⟨s', h1, h2⟩ := sim_ixop (fun x => .ok (triggerReindex x))
      (fun x V T N => rfl)
      (fun x x' hx => by injection hx with hx; subst hx; rfl) hS h
    injection h1 with h1; subst h1
    exact ⟨_, rfl, h2⟩

theorem PRes.bind_ok {r : PRes} {f : PCol → PRes} {p' : PCol} (h : r.bind f = .ok p') :
    ∃ p1, r = .ok p1 ∧ f p1 = .ok p' := by
  cases r with
  | ok p1 => exact ⟨p1, rfl, h⟩
  | panic => cases h
  | diverge => cases h
  | vtErr e => cases h

theorem mirror_ok {cmp thr} {U : Key → Prop} (a : PAction) (h : PActKeys U a) :
    ActOK U (mirror cmp thr a) := by
  cases a with
  | set k v => exact ⟨h, tier_lt cmp thr (tkey k) v⟩
  | del k => exact h
  | reindex => trivial
  | enact => trivial
  | reopen => trivial
  | relaunch => trivial

theorem sim_run {cmp thr} {U : Key → Prop} (hU : PUniv U) : ∀ (acts : List PAction) (p : PCol)
    (s : Col) (p' : PCol) (m : Key → Option Val), Sim cmp thr p s → Good U s m →
    s.cfg.exact = true → s.cfg.growOnMove = true → (∀ a ∈ acts, PActKeys U a) →
    PBounded p → PAllBounded cmp thr p acts → pRun cmp thr p acts = .ok p' →
    ∃ s', runA s (acts.map (mirror cmp thr)) = .ok s' ∧ Sim cmp thr p' s' ∧
      Good U s' (Index.spec m (acts.map (mirror cmp thr))) := by
  intro acts
  induction acts with
  | nil =>
    intro p s p' m hS hG _ _ _ _ _ h
    simp only [pRun] at h
    injection h with h; subst h
    exact ⟨s, rfl, hS, hG⟩
  | cons a as ih =>
    intro p s p' m hS hG hex hgrow hact hB hb h
    simp only [pRun] at h
    obtain ⟨p1, h1, h2⟩ := PRes.bind_ok h
    obtain ⟨hB1, hb1⟩ := hb p1 h1
    have ha := hact a (by simp)
    obtain ⟨s1, e1, hS1⟩ := sim_step hS hU hG a ha hB h1 hB1
    have hBs1 := hS1.bounded hB1
    have hG1 := stepA_ok hU.univ hG hex hgrow (mirror cmp thr a) (mirror_ok a ha) e1 hBs1
    have hc := stepA_cfg s s1 _ e1
    obtain ⟨s', e2, hS', hG'⟩ := ih p1 s1 p' _ hS1 hG1 (by rw [hc]; exact hex)
      (by rw [hc]; exact hgrow) (fun a' ha' => hact a' (List.mem_cons_of_mem _ ha')) hB1 hb1 h2
    refine ⟨s', ?_, hS', hG'⟩
    simp only [List.map_cons, runA, e1, Res.bind]
    exact e2

/-! ## the logical table of the physical column -/

/-- an abstract map of the index model, values decoded, as a P1 table of a plain column -/
def liftB (m : Key → Option Val) : Pdb.Tbl Key Bytes := fun k => (m k).map (fun w => (decVal w, 1))

theorem spec_mirror {cmp thr} (acts : List PAction) : ∀ m : Key → Option Val,
    liftB (Index.spec m (acts.map (mirror cmp thr))) =
      Pdb.applyOps (fun _ => Pdb.Kind.plain) (liftB m) (acts.flatMap PAction.ops) := by
  induction acts with
  | nil => intro m; rfl
  | cons a as ih =>
    intro m
    simp only [List.map_cons, List.flatMap_cons, Index.spec]
    rw [ih, Pdb.applyOps_append]
    congr 1
    cases a with
    | set k v =>
      funext x
      simp only [mirror, specStep, PAction.ops, Pdb.applyOps, List.foldl_cons, List.foldl_nil,
        Pdb.applyOp, Pdb.Op.key, Pdb.applyCell, Pdb.upd, liftB, Index.upd]
      by_cases h : x = k <;> simp [h, decVal_codeVal]
    | del k =>
      funext x
      simp only [mirror, specStep, PAction.ops, Pdb.applyOps, List.foldl_cons, List.foldl_nil,
        Pdb.applyOp, Pdb.Op.key, Pdb.applyCell, Pdb.upd, liftB, Index.upd]
      by_cases h : x = k <;> simp [h]
    | reindex => rfl
    | enact => rfl
    | reopen => rfl
    | relaunch => rfl

theorem init_pbounded (cfg : Cfg) (b : Nat) (hb : b ≤ 49) : PBounded (PCol.init cfg b) := by
  refine ⟨hb, fun tier _ => ?_⟩
  rw [init_vt]
  unfold tableOfTier
  split <;> simp [VT.empty]

/-! ## an executable check of the run hypotheses (for concrete instances) -/

def pBoundedB (p : PCol) : Bool :=
  decide (p.current.bits ≤ 49) && (List.range 256).all (fun t => decide ((p.vt t).filled ≤ 2 ^ 56))

theorem pBoundedB_sound (p : PCol) (h : pBoundedB p = true) : PBounded p := by
  unfold pBoundedB at h
  rw [Bool.and_eq_true] at h
  refine ⟨of_decide_eq_true h.1, fun tier ht => ?_⟩
  have := List.all_eq_true.1 h.2 tier (List.mem_range.2 ht)
  exact of_decide_eq_true this

/-- run, checking the physical limits after every action -/
def pRunChecked (cmp : Bytes → Bytes) (thr : Nat) (p : PCol) : List PAction → Option PCol
  | [] => some p
  | a :: as =>
    match pStep cmp thr p a with
    | .ok p1 => if pBoundedB p1 then pRunChecked cmp thr p1 as else none
    | _ => none

theorem pRunChecked_sound (cmp : Bytes → Bytes) (thr : Nat) : ∀ (acts : List PAction) (p p' : PCol),
    pRunChecked cmp thr p acts = some p' →
    pRun cmp thr p acts = .ok p' ∧ PAllBounded cmp thr p acts := by
  intro acts
  induction acts with
  | nil =>
    intro p p' h
    simp only [pRunChecked] at h
    injection h with h; subst h
    exact ⟨rfl, trivial⟩
  | cons a as ih =>
    intro p p' h
    simp only [pRunChecked] at h
    cases hs : pStep cmp thr p a with
    | ok p1 =>
      rw [hs] at h
      simp only at h
      by_cases hb : pBoundedB p1 = true
      · simp only [hb, if_true] at h
        obtain ⟨h1, h2⟩ := ih p1 p' h
        refine ⟨?_, fun p1' hs' => ?_⟩
        · simp only [pRun, hs, PRes.bind]; exact h1
        · rw [hs] at hs'
          injection hs' with hs'
          subst hs'
          exact ⟨pBoundedB_sound p1 hb, h2⟩
      · simp [hb] at h
    | panic => rw [hs] at h; simp at h
    | diverge => rw [hs] at h; simp at h
    | vtErr e => rw [hs] at h; simp at h

/-! ## runs in two parts (history, then one more transaction) -/

theorem pRun_append (cmp : Bytes → Bytes) (thr : Nat) : ∀ (as bs : List PAction) (p p' : PCol),
    pRun cmp thr p (as ++ bs) = .ok p' →
    ∃ p1, pRun cmp thr p as = .ok p1 ∧ pRun cmp thr p1 bs = .ok p' := by
  intro as
  induction as with
  | nil => intro bs p p' h; exact ⟨p, rfl, h⟩
  | cons a as ih =>
    intro bs p p' h
    simp only [List.cons_append, pRun] at h
    obtain ⟨p0, h0, h1⟩ := PRes.bind_ok h
    obtain ⟨p1, h2, h3⟩ := ih bs p0 p' h1
    exact ⟨p1, by simp only [pRun, h0, PRes.bind]; exact h2, h3⟩

theorem pAllBounded_append (cmp : Bytes → Bytes) (thr : Nat) : ∀ (as bs : List PAction) (p p1 : PCol),
    PAllBounded cmp thr p (as ++ bs) → pRun cmp thr p as = .ok p1 →
    PAllBounded cmp thr p as ∧ PAllBounded cmp thr p1 bs ∧ (PBounded p → PBounded p1) := by
  intro as
  induction as with
  | nil =>
    intro bs p p1 h hr
    simp only [pRun] at hr
    injection hr with hr; subst hr
    exact ⟨trivial, h, id⟩
  | cons a as ih =>
    intro bs p p1 h hr
    simp only [pRun] at hr
    obtain ⟨p0, h0, h1⟩ := PRes.bind_ok hr
    obtain ⟨hb0, hrest⟩ := h p0 h0
    obtain ⟨i1, i2, i3⟩ := ih bs p0 p1 hrest h1
    refine ⟨fun p0' h0' => ?_, i2, fun _ => i3 hb0⟩
    rw [h0] at h0'
    injection h0' with h0'
    subst h0'
    exact ⟨hb0, i1⟩

/-- `applyOps` at a key depends on the table only through that key -/
theorem applyOps_congr_key {V : Type} (kind : Key → Pdb.Kind) (ops : List (Pdb.Op Key V)) :
    ∀ (t t' : Pdb.Tbl Key V) (k : Key), t k = t' k →
      Pdb.applyOps kind t ops k = Pdb.applyOps kind t' ops k := by
  induction ops with
  | nil => intro t t' k h; exact h
  | cons op ops ih =>
    intro t t' k h
    rw [applyOps_cons, applyOps_cons]
    apply ih
    simp only [Pdb.applyOp, Pdb.upd]
    by_cases e : k = op.key
    · simp only [e, if_true]; rw [← e, h]
    · simp only [e, if_false]; exact h

/-! ## the composed statements -/

/-- Hypotheses of the composed theorem, all on the physical column:
  univ      A-tail at the byte level (u64 prefixes, 26-byte tails, distinct keys have distinct
            tails)                                                          -- inherited from C09
  exact, grow   the two C09 fixes (exact page search, growth on a move into a full page)  -- C09
  bits      initial index size                                                            -- C09
  keys      keys of the history lie in `U`; NO restriction on the values: whatever `tierFor`
            selects, the multipart tier 255 included
  bounded   every state of the run has at most 49 index bits and fewer than 2^56 slots per value
            table                                                           -- C09 (`AllBounded`)
`WriteOk` (C06) is not a hypothesis: it is discharged by `C06_tier_writeOk` because the tier is
the one `tierFor` selects; nor is C06's `filled + parts ≤ 2^64`: it follows from `bounded`
(`write_bound`).  A-compress is a separate hypothesis of the theorems. -/
structure PRunHypFull (cmp : Bytes → Bytes) (thr : Nat) (U : Key → Prop) (cfg : Cfg) (b0 : Nat)
    (acts : List PAction) : Prop where
  univ : PUniv U
  exact : cfg.exact = true
  grow : cfg.growOnMove = true
  bits : 16 ≤ b0 ∧ b0 ≤ 49
  keys : ∀ a ∈ acts, PActKeys U a
  bounded : PAllBounded cmp thr (PCol.init cfg b0) acts

/-- the hypotheses of the former partial theorem: `PRunHypFull` plus "every value of the history
goes to a single-slot tier" (`PActOK`: `tierFor .. < 255`) -/
structure PRunHyp (cmp : Bytes → Bytes) (thr : Nat) (U : Key → Prop) (cfg : Cfg) (b0 : Nat)
    (acts : List PAction) : Prop where
  univ : PUniv U
  exact : cfg.exact = true
  grow : cfg.growOnMove = true
  bits : 16 ≤ b0 ∧ b0 ≤ 49
  actsOK : ∀ a ∈ acts, PActOK cmp thr U a
  bounded : PAllBounded cmp thr (PCol.init cfg b0) acts

theorem PRunHyp.full {cmp thr} {U : Key → Prop} {cfg : Cfg} {b0 : Nat} {acts : List PAction}
    (h : PRunHyp cmp thr U cfg b0 acts) : PRunHypFull cmp thr U cfg b0 acts :=
  ⟨h.univ, h.exact, h.grow, h.bits, fun a ha => (h.actsOK a ha).keys, h.bounded⟩

theorem pAbs_eq {cmp thr p s} {U : Key → Prop} {m : Key → Option Val} (decomp : Bytes → Option Bytes)
    (hA : ∀ v, decomp (cmp v) = some v) (hS : Sim cmp thr p s) (hU : PUniv U) (hG : Good U s m)
    (k : Key) (hk : U k) : pAbs decomp p k = liftB m k := by
  unfold pAbs liftB
  rw [pGet_eq decomp hA hS hU hG.idx k hk, lookup_eq hU.univ hG.idx hG.abs k hk]
  cases m k <;> rfl

/-- from any simulated good state: the run moves the abstraction by the logical operations -/
theorem run_abs {cmp thr} {U : Key → Prop} (decomp : Bytes → Option Bytes)
    (hA : ∀ v, decomp (cmp v) = some v) (hU : PUniv U) (acts : List PAction) (p : PCol) (s : Col)
    (p' : PCol) (m : Key → Option Val) (hS : Sim cmp thr p s) (hG : Good U s m)
    (hex : s.cfg.exact = true) (hgrow : s.cfg.growOnMove = true)
    (hact : ∀ a ∈ acts, PActKeys U a) (hB : PBounded p) (hb : PAllBounded cmp thr p acts)
    (hrun : pRun cmp thr p acts = .ok p') (k : Key) (hk : U k) :
    pAbs decomp p' k =
      Pdb.applyOps (fun _ => Pdb.Kind.plain) (pAbs decomp p) (acts.flatMap PAction.ops) k := by
  obtain ⟨s', _, hS', hG'⟩ := sim_run hU acts p s p' m hS hG hex hgrow hact hB hb hrun
  rw [pAbs_eq decomp hA hS' hU hG' k hk, spec_mirror]
  exact applyOps_congr_key _ _ _ _ k (pAbs_eq decomp hA hS hU hG k hk).symm

/-- the state reached by a history from the empty column is simulated by a good state of the
index model -/
theorem reach_sim {cmp thr} {U : Key → Prop} {cfg : Cfg} {b0 : Nat} {acts : List PAction}
    (h : PRunHypFull cmp thr U cfg b0 acts) (p' : PCol)
    (hrun : pRun cmp thr (PCol.init cfg b0) acts = .ok p') :
    ∃ s' m, Sim cmp thr p' s' ∧ Good U s' m ∧ s'.cfg = cfg ∧
      runA (Col.init cfg b0) (acts.map (mirror cmp thr)) = .ok s' := by
  obtain ⟨s', h1, h2, h3⟩ := sim_run h.univ acts _ _ p' _ (init_sim cmp thr cfg b0)
    (init_good U cfg b0 h.bits.1 h.bits.2) h.exact h.grow h.keys (init_pbounded cfg b0 h.bits.2)
    h.bounded hrun
  refine ⟨s', _, h2, h3, ?_, h1⟩
  have : ∀ (as : List Index.Action) (s0 s1 : Col), runA s0 as = .ok s1 → s1.cfg = s0.cfg := by
    intro as
    induction as with
    | nil => intro s0 s1 e; simp only [runA] at e; injection e with e; subst e; rfl
    | cons a as ih =>
      intro s0 s1 e
      simp only [runA] at e
      obtain ⟨sm, e1, e2⟩ := Res.bind_ok e
      rw [ih sm s1 e2, stepA_cfg s0 sm a e1]
  exact this _ _ _ h1

end Pdb.Refine
