/-
R5, part 2: the simulation of R3 (Pdb/Proofs/Refine3.lean) for value tables WITH or WITHOUT the
counter field.  The values of the index model now code the whole P1 cell (value bytes and
reference count); the representation relation additionally says that the counter stored in the
head slot of every live value is the coded count (`VSimR.cnt`), at most `LOCKED_REF`.
-/
import Pdb.Proofs.Refine3
import Pdb.Proofs.RefineRc1
import Pdb.Model.RefineRc

namespace Pdb.RefineRc
open Pdb.Gen Pdb.Index Pdb.ValueTable Pdb.Refine

/-! ## values of the index model as codes of P1 cells -/

/-- the code of the cell (value `v`, count `n`) -/
def codeCell (v : Bytes) (n : Nat) : Val := codeVal (n :: v)
def valOf (w : Val) : Bytes := (decVal w).tail
def cntOf (w : Val) : Nat := (decVal w).headD 0

theorem valOf_codeCell (v : Bytes) (n : Nat) : valOf (codeCell v n) = v := by
  simp [valOf, codeCell, decVal_codeVal]

theorem cntOf_codeCell (v : Bytes) (n : Nat) : cntOf (codeCell v n) = n := by
  simp [cntOf, codeCell, decVal_codeVal]

/-- the byte-level cell of a slot of the index model: stored tail, stored form of the value -/
def encSlotR (cmp : Bytes → Bytes) (thr : Nat) (sl : Slot) : Bytes × Bytes × Bool :=
  (encTail sl.tail, (storedForm cmp thr (valOf sl.val)).1, (storedForm cmp thr (valOf sl.val)).2)

def storeOfR (cmp : Bytes → Bytes) (thr : Nat) (s : Col) (tier : Nat) : AStore :=
  ⟨fun off => (s.valAt (off * 256 + tier)).map (encSlotR cmp thr), s.tier tier⟩

/-- the value tables of `p` (with counter field iff `rc`) represent the value store of `s`, and
the stored counters are the coded counts -/
structure VSimR (rc : Bool) (cmp : Bytes → Bytes) (thr : Nat) (p : PCol) (s : Col) : Prop where
  cfgs : ∀ tier, tier < 256 → SameCfg (tableOfTier rc tier) (p.vt tier)
  rep : ∀ tier, tier < 256 → Rep (p.vt tier) (storeOfR cmp thr s tier)
  cnt : ∀ tier off sl v c n, tier < 256 → s.valAt (off * 256 + tier) = some sl →
    readChain (p.vt tier) (.partialKey (encTail sl.tail)) off = .ok (some (v, c, n)) →
    n = cntOf sl.val ∧ n ≤ LOCKED_REF

structure SimR (rc : Bool) (cmp : Bytes → Bytes) (thr : Nat) (p : PCol) (s : Col) : Prop where
  ix : p.ix = strip s
  vs : VSimR rc cmp thr p s

theorem SimR.cfg {rc cmp thr p s} (h : SimR rc cmp thr p s) : p.cfg = s.cfg := congrArg Col.cfg h.ix
theorem SimR.current {rc cmp thr p s} (h : SimR rc cmp thr p s) : p.current = s.current :=
  congrArg Col.current h.ix
theorem SimR.older {rc cmp thr p s} (h : SimR rc cmp thr p s) : p.older = s.older :=
  congrArg Col.older h.ix

theorem VSimR.congr {rc cmp thr p s p' s'} (h : VSimR rc cmp thr p s) (hv : p'.vt = p.vt)
    (hvals : s'.values = s.values) (htiers : s'.tiers = s.tiers) : VSimR rc cmp thr p' s' := by
  have e1 : ∀ a, s'.valAt a = s.valAt a := fun a => by simp only [Col.valAt, hvals]
  have e2 : ∀ t, s'.tier t = s.tier t := fun t => by simp only [Col.tier, htiers]
  have e3 : ∀ t, storeOfR cmp thr s' t = storeOfR cmp thr s t := fun t => by
    simp only [storeOfR, e1, e2]
  have e4 : ∀ t, p'.vt t = p.vt t := fun t => congrFun hv t
  refine ⟨fun t ht => ?_, fun t ht => ?_, fun tier off sl v c n ht hv hr => ?_⟩
  · rw [e4 t]; exact h.cfgs t ht
  · rw [e4 t, e3 t]; exact h.rep t ht
  · rw [e1] at hv; rw [e4] at hr; exact h.cnt tier off sl v c n ht hv hr

theorem rInit_vt (kind : Pdb.Kind) (cfg : Cfg) (b t : Nat) :
    (rInit kind cfg b).vt t = tableOfTier (refCounted kind) t := by
  simp only [rInit]

theorem rInit_sim (kind : Pdb.Kind) (cmp : Bytes → Bytes) (thr : Nat) (cfg : Cfg) (b : Nat) :
    SimR (refCounted kind) cmp thr (rInit kind cfg b) (Col.init cfg b) := by
  have hix : (rInit kind cfg b).ix = strip (Col.init cfg b) := rfl
  refine ⟨hix, ⟨fun t _ => ?_, fun t ht => ?_, fun tier off sl v c n _ hv _ => ?_⟩⟩
  · rw [rInit_vt]; exact SameCfg.refl _
  · rw [rInit_vt]
    unfold tableOfTier
    split
    · exact ⟨[], RepL.empty _ _ _⟩
    · exact ⟨[], RepL.empty _ _ _⟩
  · have : (Col.init cfg b).valAt (off * 256 + tier) = none := rfl
    rw [this] at hv; cases hv

theorem rInit_pbounded (kind : Pdb.Kind) (cfg : Cfg) (b : Nat) (hb : b ≤ 49) :
    PBounded (rInit kind cfg b) := by
  refine ⟨hb, fun tier _ => ?_⟩
  rw [rInit_vt]
  unfold tableOfTier
  split <;> simp [VT.empty]

/-! ## reads -/

/-- every address reads the same in both models -/
theorem VSimR.cell_all {rc cmp thr p s} (h : VSimR rc cmp thr p s) (a : Nat) :
    absVT (p.vt (Address.size_tier a)) (Address.offset a) = (s.valAt a).map (encSlotR cmp thr) := by
  obtain ⟨L, hr⟩ := h.rep _ (size_tier_lt a)
  have := hr.cells (Address.offset a)
  simp only [storeOfR] at this
  rw [← addr_decomp a] at this
  exact this

theorem pHolds_eqR {rc cmp thr p s} {U : Key → Prop} (h : VSimR rc cmp thr p s) (hU : PUniv U)
    (hI : IdxInv U s) (k : Key) (hk : U k) (a : Nat) :
    pHolds p k a = (s.tailAt a == some k.tail) := by
  rw [Bool.eq_iff_iff, pHolds_true_iff, beq_iff_eq]
  have hc := h.cell_all a
  constructor
  · rintro ⟨⟨v, c, n⟩, hx⟩
    have := absVT_of_read _ _ _ v c n hx
    rw [hc] at this
    cases hv : s.valAt a with
    | none => rw [hv] at this; cases this
    | some sl =>
      rw [hv] at this
      simp only [Option.map_some, encSlotR, Option.some.injEq, Prod.mk.injEq] at this
      have htl : s.tailAt a = some sl.tail := by simp [Col.tailAt, hv]
      obtain ⟨k', hk', hkt, _⟩ := hI.reach a sl.tail htl
      have := encTail_inj sl.tail k.tail (by rw [← hkt]; exact hU.tail_lt k' hk')
        (hU.tail_lt k hk) this.1
      rw [htl, this]
  · intro ht
    obtain ⟨w, hw⟩ := (tailAt_eq_some s a k.tail).1 ht
    rw [hw] at hc
    simp only [Option.map_some, encSlotR] at hc
    obtain ⟨n, hn⟩ := read_of_absVT _ _ _ _ _ hc
    exact ⟨_, hn⟩

theorem pSearchTable_eqR {rc cmp thr p s} {U : Key → Prop} (h : SimR rc cmp thr p s) (hU : PUniv U)
    (hI : IdxInv U s) (k : Key) (hk : U k) (t : Table) : pSearchTable p t k = searchTable s t k := by
  unfold pSearchTable searchTable
  rw [h.cfg]
  have : pHolds p k = fun a => s.tailAt a == some k.tail := funext (pHolds_eqR h.vs hU hI k hk)
  rw [this]

theorem pSearchOlder_eqR {rc cmp thr p s} {U : Key → Prop} (h : SimR rc cmp thr p s) (hU : PUniv U)
    (hI : IdxInv U s) (k : Key) (hk : U k) :
    ∀ (ts : List Table) (j : Nat), pSearchOlder p k ts j = searchOlder s k ts j := by
  intro ts
  induction ts with
  | nil => intro j; rfl
  | cons t ts ih =>
    intro j
    unfold pSearchOlder searchOlder
    rw [pSearchTable_eqR h hU hI k hk t]
    cases searchTable s t k with
    | none => exact ih (j + 1)
    | some r => rfl

theorem pSearchAll_eqR {rc cmp thr p s} {U : Key → Prop} (h : SimR rc cmp thr p s) (hU : PUniv U)
    (hI : IdxInv U s) (k : Key) (hk : U k) : pSearchAll p k = searchAll s k := by
  unfold pSearchAll searchAll Col.tables
  rw [h.current, h.older]
  exact pSearchOlder_eqR h hU hI k hk _ 0

/-- the keyed read at the address of a live slot of the index model: stored form and count -/
theorem VSimR.read_live {rc cmp thr p s} (h : VSimR rc cmp thr p s) (a : Nat) (sl : Slot)
    (hv : s.valAt a = some sl) :
    readChain (p.vt (Address.size_tier a)) (.partialKey (encTail sl.tail)) (Address.offset a) =
      .ok (some ((storedForm cmp thr (valOf sl.val)).1, (storedForm cmp thr (valOf sl.val)).2,
        cntOf sl.val)) ∧ cntOf sl.val ≤ LOCKED_REF := by
  have hc := h.cell_all a
  rw [hv] at hc
  simp only [Option.map_some, encSlotR] at hc
  obtain ⟨n, hn⟩ := read_of_absVT _ _ _ _ _ hc
  have hv' : s.valAt (Address.offset a * 256 + Address.size_tier a) = some sl := by
    rw [← addr_decomp a]; exact hv
  obtain ⟨e1, e2⟩ := h.cnt _ _ sl _ _ n (size_tier_lt a) hv' hn
  rw [← e1]
  exact ⟨hn, e2⟩

/-- the P1 cell coded by an abstract map of the index model -/
def liftC (m : Key → Option Val) : Pdb.Tbl Key Bytes := fun k => (m k).map (fun w => (valOf w, cntOf w))

/-- `get` + stored counter on bytes = the decoded cell of the index model (A-compress) -/
theorem rGet_eq {rc cmp thr p s} {U : Key → Prop} {m : Key → Option Val}
    (decomp : Bytes → Option Bytes) (hA : ∀ v, decomp (cmp v) = some v) (h : SimR rc cmp thr p s)
    (hU : PUniv U) (hG : Good U s m) (k : Key) (hk : U k) : rGet decomp p k = liftC m k := by
  unfold rGet liftC
  rw [pSearchAll_eqR h hU hG.idx k hk, ← lookup_eq hU.univ hG.idx hG.abs k hk]
  unfold lookup
  cases hs : searchAll s k with
  | none => rfl
  | some r =>
    obtain ⟨j, i, a⟩ := r
    simp only [Option.bind_some]
    have ht := (searchAll_sound hG.idx k j i a hs).1
    obtain ⟨w, hw⟩ := (tailAt_eq_some s a k.tail).1 ht
    have hr := (h.vs.read_live a _ hw).1
    have hr' : readChain (p.vt (Address.size_tier a)) (tkey k) (Address.offset a) =
      .ok (some ((storedForm cmp thr (valOf w)).1, (storedForm cmp thr (valOf w)).2, cntOf w)) := hr
    rw [hr', hw]
    simp only [Option.map_some]
    rw [C06_stored_decodes cmp decomp hA thr (valOf w)]
    rfl

/-! ## value-store operations -/

theorem storeOfR_eq {cmp thr} (s' : Col) (t : Nat) (A : AStore)
    (hc : ∀ off, (s'.valAt (off * 256 + t)).map (encSlotR cmp thr) = A.cell off)
    (ht : s'.tier t = A.tier) : storeOfR cmp thr s' t = A := by
  obtain ⟨cell, tier⟩ := A
  simp only [storeOfR]
  congr 1
  funext off; exact hc off

/-- the value tables after an operation on the table of one tier -/
theorem VSimR.update {rc cmp thr p s} (h : VSimR rc cmp thr p s) (tier : Nat) (ht : tier < 256)
    (t' : VT) (s' : Col) (hcfg : SameCfg (p.vt tier) t')
    (hrep : Rep t' (storeOfR cmp thr s' tier))
    (hother : ∀ t, t < 256 → t ≠ tier → storeOfR cmp thr s' t = storeOfR cmp thr s t)
    (hvother : ∀ t off, t < 256 → t ≠ tier → s'.valAt (off * 256 + t) = s.valAt (off * 256 + t))
    (hcnt : ∀ off sl v c n, s'.valAt (off * 256 + tier) = some sl →
      readChain t' (.partialKey (encTail sl.tail)) off = .ok (some (v, c, n)) →
      n = cntOf sl.val ∧ n ≤ LOCKED_REF) :
    VSimR rc cmp thr (p.setVT tier t') s' := by
  refine ⟨fun t htl => ?_, fun t htl => ?_, fun t off sl v c n htl hv hr => ?_⟩
  · rw [setVT_vt]
    by_cases e : t = tier
    · rw [if_pos e, e]; exact SameCfg.trans (h.cfgs tier ht) hcfg
    · rw [if_neg e]; exact h.cfgs t htl
  · rw [setVT_vt]
    by_cases e : t = tier
    · rw [if_pos e, e]; exact hrep
    · rw [if_neg e, hother t htl e]; exact h.rep t htl
  · rw [setVT_vt] at hr
    by_cases e : t = tier
    · subst e
      rw [if_pos rfl] at hr
      exact hcnt off sl v c n hv hr
    · rw [if_neg e] at hr
      rw [hvother t off htl e] at hv
      exact h.cnt t off sl v c n htl hv hr

/-- the allocator of the index model on one tier is `AStore.alloc` -/
theorem storeOfR_alloc {cmp thr} (s : Col) (tier : Nat) :
    (storeOfR cmp thr s tier).alloc.1 = (s.alloc tier).1 ∧
    (storeOfR cmp thr s tier).alloc.2.tier = (s.alloc tier).2.tier tier ∧
    (storeOfR cmp thr s tier).alloc.2.cell = (storeOfR cmp thr s tier).cell := by
  have hst : (storeOfR cmp thr s tier).tier = s.tier tier := rfl
  cases hf : (s.tier tier).free with
  | nil =>
    rw [AStore.alloc_nil _ (by rw [hst]; exact hf), Col.alloc_nil s tier hf]
    refine ⟨rfl, ?_, rfl⟩
    simp only []; rw [Col.tier_set, if_pos rfl]; rfl
  | cons o rest =>
    rw [AStore.alloc_cons _ o rest (by rw [hst]; exact hf), Col.alloc_cons s tier o rest hf]
    refine ⟨rfl, ?_, rfl⟩
    simp only []; rw [Col.tier_set, if_pos rfl]; rfl

theorem tier_ltR (cmp : Bytes → Bytes) (thr : Nat) (rc : Bool) (key : TKey) (v : Bytes) :
    (tierFor cmp thr rc key v).2 < 256 := by
  have := tierOfLen_lt rc key (storedForm cmp thr v).1.length
  have h256 : SIZE_TIERS = 256 := rfl
  simp only [tierFor]
  omega

/-- continuation slots of the stored form of `v` under key `k` -/
def extForR (cmp : Bytes → Bytes) (thr : Nat) (rc : Bool) (k : Key) (v : Bytes) : Nat :=
  numParts (tableOfTier rc (tierFor cmp thr rc (tkey k) v).2) (tkey k)
    (tierFor cmp thr rc (tkey k) v).1.1 - 1

/-- a live address of the index model is the head of a listed chain -/
theorem live_chainR {cmp : Bytes → Bytes} {thr : Nat} {t : VT} {s : Col} {L : List (List Nat)}
    (tier off : Nat) (sl : Slot) (hv : s.valAt (off * 256 + tier) = some sl)
    (hr : RepL t (storeOfR cmp thr s tier) L) : ∃ c0 ∈ L, c0.headD 0 = off := by
  apply hr.live
  simp only [storeOfR]
  rw [hv]; rfl

/-- `write_new_value_plan` on bytes = `alloc` + `setVal` + `resize` of the index model; the new
entry carries the count 1 -/
theorem vsim_insertR {rc cmp thr p s} (h : VSimR rc cmp thr p s) (k : Key) (v : Bytes) (n : Nat)
    (r : WrOk)
    (hw : writeChain (p.vt (tierFor cmp thr rc (tkey k) v).2) (tkey k)
      (tierFor cmp thr rc (tkey k) v).1.1 none (tierFor cmp thr rc (tkey k) v).1.2 = .ok r)
    (hpre : (p.vt (tierFor cmp thr rc (tkey k) v).2).filled ≤ 2 ^ 56)
    (hpost : r.table.filled ≤ 2 ^ 56) :
    r.addr = (s.alloc (tierFor cmp thr rc (tkey k) v).2).1 ∧
      VSimR rc cmp thr (p.setVT (tierFor cmp thr rc (tkey k) v).2 r.table)
        (((s.alloc (tierFor cmp thr rc (tkey k) v).2).2.setVal
          (Address.new (s.alloc (tierFor cmp thr rc (tkey k) v).2).1
            (tierFor cmp thr rc (tkey k) v).2) (some ⟨k.tail, codeCell v 1⟩) n).resize
          (tierFor cmp thr rc (tkey k) v).2 (s.alloc (tierFor cmp thr rc (tkey k) v).2).1
          (extForR cmp thr rc k v)) := by
  have ht := tier_ltR cmp thr rc (tkey k) v
  unfold extForR
  generalize htf : tierFor cmp thr rc (tkey k) v = tf at *
  obtain ⟨L, hr⟩ := h.rep tf.2 ht
  have hok : WriteOk (p.vt tf.2) (tkey k) tf.1.1 := by
    rw [← htf]
    exact C06_tier_writeOk cmp thr rc (tkey k) v (tkey_ok k) _ (by rw [htf]; exact h.cfgs tf.2 ht)
  have hb := write_bound _ _ _ none _ r _ L hr.inv (Or.inl rfl) hw hpre hpost
  obtain ⟨r', h1, h2, h3, h4, h5⟩ := hr.insert (encTail k.tail) tf.1.1 tf.1.2 hok hb
  have er : r' = r := by
    have h1' : writeChain (p.vt tf.2) (tkey k) tf.1.1 none tf.1.2 = .ok r' := h1
    rw [hw] at h1'; injection h1' with e; exact e.symm
  subst er
  -- what C06 says about the new entry and the old ones
  obtain ⟨r2, q1, q2, _, _, _, q6⟩ := C06_roundtrip (p.vt tf.2) (tkey k) tf.1.1 tf.1.2 _ L hok hr.inv hb
  have er2 : r2 = r' := by rw [hw] at q1; injection q1 with e; exact e.symm
  subst er2
  have hnp : numParts (p.vt tf.2) (TKey.partialKey (encTail k.tail)) tf.1.1 =
      numParts (tableOfTier rc tf.2) (tkey k) tf.1.1 := numParts_cfg _ _ _ _ (h.cfgs tf.2 ht)
  rw [hnp] at h2 h3
  have hal := storeOfR_alloc (cmp := cmp) (thr := thr) s tf.2
  have ha : r2.addr = (s.alloc tf.2).1 := by rw [h2]; exact hal.1
  refine ⟨ha, ?_⟩
  have hra : r2.addr < 2 ^ 56 := by
    have hne := h3.ne_nil r2.chain (by simp)
    have := h3.inv.range r2.addr (List.mem_append_right _ (by
      rw [List.flatten_cons]
      exact List.mem_append_left _ (by rw [h5]; exact headD_mem _ hne)))
    omega
  have haddr : Address.new (s.alloc tf.2).1 tf.2 = r2.addr * 256 + tf.2 := by
    rw [← ha]; exact address_new_eq r2.addr tf.2 hra ht
  rw [haddr, ← ha]
  have hx : encSlotR cmp thr ⟨k.tail, codeCell v 1⟩ = (encTail k.tail, tf.1.1, tf.1.2) := by
    simp only [encSlotR, valOf_codeCell]
    rw [← htf]; rfl
  refine h.update tf.2 ht r2.table _ h4 ⟨r2.chain :: L, ?_⟩ (fun t htl hne => ?_)
    (fun t off htl hne => ?_) (fun off sl v' c' n' hv hrd => ?_)
  · have : storeOfR cmp thr (((s.alloc tf.2).2.setVal (r2.addr * 256 + tf.2)
          (some ⟨k.tail, codeCell v 1⟩) n).resize tf.2 r2.addr
          (numParts (tableOfTier rc tf.2) (tkey k) tf.1.1 - 1)) tf.2 =
          ((storeOfR cmp thr s tf.2).insert (encTail k.tail, tf.1.1, tf.1.2)
            (numParts (tableOfTier rc tf.2) (tkey k) tf.1.1 - 1)).2 := by
      apply storeOfR_eq
      · intro off
        simp only [AStore.insert, AStore.setCell, AStore.resize, hal.2.2, resize_valAt,
          Col.valAt_setVal, alloc_valAt]
        rw [hal.1, ← ha]
        by_cases e : off = r2.addr
        · subst e; simp [hx]
        · have : ¬ r2.addr * 256 + tf.2 = off * 256 + tf.2 := by omega
          simp only [this, e, if_false]; rfl
      · simp only [AStore.insert, AStore.setCell, AStore.resize]
        rw [Col.tier_resize, if_pos rfl, hal.1, ← ha, hal.2.1]
        rfl
    rw [this]; exact h3
  · apply storeOfR_eq
    · intro off
      have : ¬ r2.addr * 256 + tf.2 = off * 256 + t := by omega
      simp only [resize_valAt, Col.valAt_setVal, alloc_valAt, this, if_false]; rfl
    · rw [Col.tier_resize, if_neg (fun e => hne e.symm)]
      exact alloc_tier_other s tf.2 t hne
  · have : ¬ r2.addr * 256 + tf.2 = off * 256 + t := by omega
    simp only [resize_valAt, Col.valAt_setVal, alloc_valAt, this, if_false]
  · simp only [resize_valAt, Col.valAt_setVal, alloc_valAt] at hv
    by_cases e : off = r2.addr
    · subst e
      rw [if_pos rfl] at hv
      injection hv with hv
      subst hv
      have q2' : readChain r2.table (.partialKey (encTail k.tail)) r2.addr =
        .ok (some (tf.1.1, tf.1.2, 1)) := q2
      simp only at hrd
      rw [q2'] at hrd
      injection hrd with hrd; injection hrd with hrd; injection hrd with _ hrd
      injection hrd with _ hrd
      rw [cntOf_codeCell, ← hrd]
      exact ⟨rfl, by decide⟩
    · have : ¬ r2.addr * 256 + tf.2 = off * 256 + tf.2 := by omega
      rw [if_neg this] at hv
      obtain ⟨c0, hc0, hhd⟩ := live_chainR tf.2 off sl hv hr
      have := q6 c0 hc0 (.partialKey (encTail sl.tail))
      rw [hhd] at this
      rw [this] at hrd
      exact h.cnt tf.2 off sl v' c' n' ht hv hrd

/-- `write_remove_plan` on bytes = `release` + `setVal none` of the index model -/
theorem vsim_removeR {rc cmp thr p s} (h : VSimR rc cmp thr p s) (n a : Nat) (old : Slot)
    (hv : s.valAt a = some old) (hpre : (p.vt (Address.size_tier a)).filled ≤ 2 ^ 56) :
    ∃ t' : VT, pRemoveVal p a = .ok (p.setVT (Address.size_tier a) t') ∧
      t'.filled = (p.vt (Address.size_tier a)).filled ∧
      VSimR rc cmp thr (p.setVT (Address.size_tier a) t') (freed s a n) := by
  have ht := size_tier_lt a
  obtain ⟨L, hr⟩ := h.rep _ ht
  have hdec := addr_decomp a
  have hv' : s.valAt (Address.offset a * 256 + Address.size_tier a) = some old := by
    rw [← hdec]; exact hv
  obtain ⟨c0, hc0, hhd⟩ := live_chainR _ _ old hv' hr
  obtain ⟨t', h1, h3, h4, h5⟩ := hr.remove c0 hc0 (by omega)
  have hinvP : ValueTable.SlotInv (p.vt (Address.size_tier a)) (s.tier (Address.size_tier a)).free
      (c0 :: L.erase c0) := SlotInv_perm _ _ _ _ (List.perm_cons_erase hc0) hr.inv
  obtain ⟨t2, q1, _, _, q4⟩ := C06_remove_frees _ _ c0 (L.erase c0) hinvP (by omega)
  have et : t2 = t' := by
    rw [h1] at q1; injection q1 with e; injection e with e _; exact e.symm
  subst et
  rw [hhd] at h1 h3
  refine ⟨t2, ?_, h5, ?_⟩
  · unfold pRemoveVal; rw [h1]
  refine h.update _ ht t2 _ h4 ⟨L.erase c0, ?_⟩ (fun t htl hne => ?_) (fun t off htl hne => ?_)
    (fun off sl v c n' hvs hrd => ?_)
  · have : storeOfR cmp thr (freed s a n) (Address.size_tier a) =
        (storeOfR cmp thr s (Address.size_tier a)).remove (Address.offset a) := by
      apply storeOfR_eq
      · intro off
        simp only [AStore.remove, AStore.setCell, freed_valAt]
        by_cases e : off = Address.offset a
        · subst e; rw [if_pos hdec.symm]; simp
        · have : ¬ off * 256 + Address.size_tier a = a := by omega
          simp only [this, e, if_false]; rfl
      · rw [freed_tier, if_pos rfl]; rfl
    rw [this]; exact h3
  · apply storeOfR_eq
    · intro off
      have : ¬ off * 256 + t = a := by omega
      simp only [freed_valAt, this, if_false]; rfl
    · rw [freed_tier, if_neg (fun e => hne e.symm)]; rfl
  · have : ¬ off * 256 + t = a := by omega
    simp only [freed_valAt, this, if_false]
  · rw [freed_valAt] at hvs
    by_cases e : off * 256 + Address.size_tier a = a
    · rw [if_pos e] at hvs; cases hvs
    · rw [if_neg e] at hvs
      obtain ⟨c1, hc1, hhd1⟩ := live_chainR _ off sl hvs hr
      have hne : c1 ≠ c0 := by
        intro e1; rw [e1, hhd] at hhd1; apply e; rw [← hhd1]; exact hdec.symm
      have := q4 c1 ((List.mem_erase_of_ne hne).mpr hc1) (.partialKey (encTail sl.tail))
      rw [hhd1] at this
      rw [this] at hrd
      exact h.cnt _ off sl v c n' ht hvs hrd

/-- `change_ref` on bytes = a new count in the code of the cell of the index model.  `none`: the
entry has to go (nothing was written). -/
theorem vsim_bumpR {cmp thr p s} (h : VSimR true cmp thr p s) (a : Nat) (k : Key) (w : Val)
    (hv : s.valAt a = some ⟨k.tail, w⟩) (inc : Bool) :
    (goes inc (cntOf w) →
      changeRef (p.vt (Address.size_tier a)) (Address.offset a) inc = (p.vt (Address.size_tier a), false)) ∧
    (¬ goes inc (cntOf w) →
      (changeRef (p.vt (Address.size_tier a)) (Address.offset a) inc).2 = true ∧
      VSimR true cmp thr
        (p.setVT (Address.size_tier a) (changeRef (p.vt (Address.size_tier a)) (Address.offset a) inc).1)
        (s.setVal a (some ⟨k.tail, codeCell (valOf w) (newCount inc (cntOf w))⟩) s.nLive)) := by
  have ht := size_tier_lt a
  obtain ⟨L, hr⟩ := h.rep _ ht
  have hdec := addr_decomp a
  have hrcT : (p.vt (Address.size_tier a)).refCounted = true := by
    have := (h.cfgs _ ht).2.2
    rw [this]
    unfold tableOfTier; split <;> rfl
  have hcell : (storeOfR cmp thr s (Address.size_tier a)).cell (Address.offset a) =
      some (encTail k.tail, (storedForm cmp thr (valOf w)).1, (storedForm cmp thr (valOf w)).2) := by
    simp only [storeOfR]
    rw [← hdec, hv]; rfl
  obtain ⟨n, hn, hpos, g1, g2⟩ := repL_changeRef hr hrcT (Address.offset a) _ _ _ hcell
    (encTail_length k.tail) inc
  obtain ⟨hread, hle⟩ := h.read_live a _ hv
  have en : n = cntOf w := by
    have hr1 : readChain (p.vt (Address.size_tier a)) (.partialKey (encTail k.tail)) (Address.offset a) =
      .ok (some ((storedForm cmp thr (valOf w)).1, (storedForm cmp thr (valOf w)).2, cntOf w)) := hread
    rw [hn] at hr1
    injection hr1 with e; injection e with e; injection e with _ e; injection e with _ e
  subst en
  have hle' : cntOf w ≤ LOCKED_REF := hle
  refine ⟨g1, fun hg => ?_⟩
  obtain ⟨f1, f2, f3, f4⟩ := g2 hg hle'
  rw [f1]
  refine ⟨rfl, ?_⟩
  simp only
  have hval : ∀ x, (s.setVal a (some ⟨k.tail, codeCell (valOf w) (newCount inc (cntOf w))⟩) s.nLive).valAt x =
      if a = x then some ⟨k.tail, codeCell (valOf w) (newCount inc (cntOf w))⟩ else s.valAt x :=
    fun x => Col.valAt_setVal s a x _ _
  have hst : ∀ t, storeOfR cmp thr
      (s.setVal a (some ⟨k.tail, codeCell (valOf w) (newCount inc (cntOf w))⟩) s.nLive) t =
      storeOfR cmp thr s t := by
    intro t
    apply storeOfR_eq
    · intro off
      rw [hval]
      by_cases e : a = off * 256 + t
      · rw [if_pos e]
        simp only [storeOfR, Option.map_some, encSlotR, valOf_codeCell]
        rw [← e, hv]; rfl
      · rw [if_neg e]; rfl
    · rfl
  refine h.update _ ht _ _ (bumped_cfg _ _ _) ⟨L, by rw [hst]; exact f2⟩ (fun t _ _ => hst t)
    (fun t off htl hne => ?_) (fun off sl v c n' hvs hrd => ?_)
  · have : ¬ a = off * 256 + t := by omega
    rw [hval, if_neg this]
  · rw [hval] at hvs
    by_cases e : a = off * 256 + Address.size_tier a
    · rw [if_pos e] at hvs
      injection hvs with hvs
      subst hvs
      have eo : off = Address.offset a := by omega
      subst eo
      simp only at hrd
      rw [f3] at hrd
      injection hrd with e1; injection e1 with e1; injection e1 with _ e1; injection e1 with _ e1
      rw [cntOf_codeCell, ← e1]
      exact ⟨rfl, newCount_le inc _ hle'⟩
    · rw [if_neg e] at hvs
      obtain ⟨c1, hc1, hhd1⟩ := live_chainR _ off sl hvs hr
      have hne : c1.headD 0 ≠ Address.offset a := by
        intro e1; apply e; rw [hhd1] at e1; rw [e1]; exact hdec
      have := f4 c1 hc1 hne (.partialKey (encTail sl.tail))
      rw [hhd1] at this
      rw [this] at hrd
      exact h.cnt _ off sl v c n' ht hvs hrd

/-! ## planned writes -/

theorem SimR.bounded {rc cmp thr p s} (hS : SimR rc cmp thr p s) (hB : PBounded p) : Bounded s := by
  refine ⟨by rw [← hS.current]; exact hB.bits, fun tier ht => ?_⟩
  obtain ⟨L, hr⟩ := hS.vs.rep tier ht
  have := hr.filled
  simp only [storeOfR] at this
  rw [← this]; exact hB.filled tier ht

/-- `write_plan_new` -/
theorem sim_writeNewR {rc cmp thr p s p'} (hS : SimR rc cmp thr p s) (k : Key) (v : Bytes)
    (hB : PBounded p)
    (h : pWriteNew p k (tierFor cmp thr rc (tkey k) v) = .ok p') (hB' : PBounded p') :
    ∃ s', writeNew s k (tierFor cmp thr rc (tkey k) v).2 (extForR cmp thr rc k v) (codeCell v 1) = .ok s' ∧
      SimR rc cmp thr p' s' := by
  have ht := tier_ltR cmp thr rc (tkey k) v
  unfold pWriteNew pInsertVal at h
  cases hw : writeChain (p.vt (tierFor cmp thr rc (tkey k) v).2) (tkey k)
      (tierFor cmp thr rc (tkey k) v).1.1 none (tierFor cmp thr rc (tkey k) v).1.2 with
  | error e => rw [hw] at h; cases h
  | ok r =>
    rw [hw] at h
    simp only at h
    have hvt := liftIx_vt h
    have hpost : r.table.filled ≤ 2 ^ 56 := by
      have := hB'.filled (tierFor cmp thr rc (tkey k) v).2 ht
      rw [hvt, setVT_vt, if_pos rfl] at this
      exact this
    obtain ⟨e2, e3⟩ := vsim_insertR hS.vs k v
      ((s.alloc (tierFor cmp thr rc (tkey k) v).2).2.nLive + 1) r hw (hB.filled _ ht) hpost
    rw [e2] at h
    unfold writeNew
    simp only
    have hix : (p.setVT (tierFor cmp thr rc (tkey k) v).2 r.table).ix =
        strip (((s.alloc (tierFor cmp thr rc (tkey k) v).2).2.setVal
          (Address.new (s.alloc (tierFor cmp thr rc (tkey k) v).2).1
            (tierFor cmp thr rc (tkey k) v).2) (some ⟨k.tail, codeCell v 1⟩)
          ((s.alloc (tierFor cmp thr rc (tkey k) v).2).2.nLive + 1)).resize
          (tierFor cmp thr rc (tkey k) v).2 (s.alloc (tierFor cmp thr rc (tkey k) v).2).1
          (extForR cmp thr rc k v)) := by
      rw [setVT_ix]
      show p.ix = strip (s.alloc (tierFor cmp thr rc (tkey k) v).2).2
      rw [strip_alloc]; exact hS.ix
    obtain ⟨s', f1, f2, f3, f4, f5⟩ := ixop_run
      (fun x => insertLoop x k.pre (Address.new (s.alloc (tierFor cmp thr rc (tkey k) v).2).1
        (tierFor cmp thr rc (tkey k) v).2) LOOP_FUEL)
      (fun x V T N => insertLoop_hf _ _ _ x V T N) (fun x x' hx => insertLoop_cfg _ _ _ x x' hx) hix h
    exact ⟨s', f1, f2, e3.congr f3 f4 f5⟩

/-- `write_plan_existing`, removal: `write_remove_plan` + `index.write_remove_plan` -/
theorem sim_removeR {rc cmp thr p s p'} {U : Key → Prop} (hS : SimR rc cmp thr p s)
    (hI : IdxInv U s) (k : Key) (j sub a : Nat) (hs : searchAll s k = some (j, sub, a))
    (hB : PBounded p) (h : pWriteExisting0 p k none j sub a = .ok p') :
    ∃ s', writeExisting0 s k none j sub a = .ok s' ∧ SimR rc cmp thr p' s' := by
  obtain ⟨w, hw⟩ := found_val hI k j sub a hs
  have hta := size_tier_lt a
  unfold pWriteExisting0 at h
  unfold writeExisting0
  simp only at h ⊢
  obtain ⟨t', e1, _, e3⟩ := vsim_removeR hS.vs (s.nLive - 1) a _ hw (hB.filled _ hta)
  rw [e1] at h
  simp only at h
  have hix : (p.setVT (Address.size_tier a) t').ix = strip (freed s a (s.nLive - 1)) := by
    rw [setVT_ix, strip_freed]; exact hS.ix
  have hfr : (s.release (Address.size_tier a) (Address.offset a)).setVal a none (s.nLive - 1) =
      freed s a (s.nLive - 1) := rfl
  rw [hfr]
  have htab : (p.setVT (Address.size_tier a) t').ix.tableAt j = (freed s a (s.nLive - 1)).tableAt j := by
    rw [hix]; rfl
  rw [htab] at h
  cases hr : ((freed s a (s.nLive - 1)).tableAt j).remove k.pre sub with
  | none =>
    rw [hr] at h
    simp only at h ⊢
    injection h with h; subst h
    exact ⟨_, rfl, hix, e3⟩
  | some t =>
    rw [hr] at h
    simp only at h ⊢
    injection h with h; subst h
    refine ⟨_, rfl, ?_, e3.congr rfl (by cases j <;> rfl) (by cases j <;> rfl)⟩
    rw [hix]
    have : (strip (freed s a (s.nLive - 1))).setTableAt j t =
        strip ((freed s a (s.nLive - 1)).setTableAt j t) := by cases j <;> rfl
    rw [this]
    exact withIx_ix _ _ (by
      have hc : (p.setVT (Address.size_tier a) t').cfg = (freed s a (s.nLive - 1)).cfg :=
        congrArg Col.cfg hix
      rw [hc]; cases j <;> rfl)


theorem simR_purgeOlder {rc cmp thr p s} (hS : SimR rc cmp thr p s) (kp a : Nat) :
    SimR rc cmp thr (p.withIx (purgeOlder p.ix kp a)) (purgeOlder s kp a) :=
  ⟨withIx_purge_ix p s kp a hS.ix,
   hS.vs.congr rfl (purgeOlder_values s kp a) (purgeOlder_tiers s kp a)⟩

/-- `write_plan_existing`, removal, fixed code (fix-c09-stale-index-entries): the entries of the
freed address are removed from the queued tables as well -/
theorem sim_removeR' {rc cmp thr p s p'} {U : Key → Prop} (hS : SimR rc cmp thr p s)
    (hI : IdxInv U s) (k : Key) (j sub a : Nat) (hs : searchAll s k = some (j, sub, a))
    (hB : PBounded p) (h : pWriteExisting p k none j sub a = .ok p') :
    ∃ s', writeExisting s k none j sub a = .ok s' ∧ SimR rc cmp thr p' s' := by
  unfold pWriteExisting at h
  have hf : pFrees none a = true := rfl
  rw [hf] at h
  simp only [if_true] at h
  cases h0 : pWriteExisting0 p k none j sub a with
  | ok p0 =>
    rw [h0] at h
    simp only [PRes.mapIx] at h
    injection h with h
    subst h
    obtain ⟨s0, h1, h2⟩ := sim_removeR hS hI k j sub a hs hB h0
    refine ⟨purgeOlder s0 k.pre a, ?_, simR_purgeOlder h2 _ _⟩
    rw [writeExisting_none, h1]
    rfl
  | panic => rw [h0] at h; simp [PRes.mapIx] at h
  | diverge => rw [h0] at h; simp [PRes.mapIx] at h
  | vtErr e => rw [h0] at h; simp [PRes.mapIx] at h

/-- a new value (same key tail) in a live slot of the index model -/
theorem good_setVal {U : Key → Prop} {s : Col} {m : Key → Option Val} (hU : Univ U)
    (hG : Good U s m) (k : Key) (hk : U k) (a : Nat) (v : Val) (hl : s.tailAt a = some k.tail) :
    Good U (s.setVal a (some ⟨k.tail, v⟩) s.nLive) (Index.upd m k (some v)) := by
  have ht : ∀ x, (s.setVal a (some ⟨k.tail, v⟩) s.nLive).tailAt x = s.tailAt x := by
    intro x
    rw [Col.tailAt_setVal]
    by_cases h : a = x
    · subst h; simp [hl]
    · simp [h]
  refine ⟨hG.idx.congr rfl rfl rfl ht, hG.slots.congr (fun _ => rfl) ht, ?_⟩
  refine hG.abs.set hU k hk v a (fun x => ?_) (fun x hx h => hx (hG.idx.inj x a k.tail h hl))
    (Or.inr hl)
  rw [Col.valAt_setVal]
  by_cases h : a = x
  · simp [h]
  · have : ¬ x = a := fun e => h e.symm
    simp [h, this]

end Pdb.RefineRc
