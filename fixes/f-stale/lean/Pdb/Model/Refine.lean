/-
Refinement glue between the layers of the model (DESIGN section 6):

  Spec / P1  Pdb.Tbl, Pdb.applyOps, Pdb.spec           (Pdb/Model/Pipeline.lean)
     ^  R1   `absCol`
  P2 index   Pdb.Index.Col (pages + abstract value store) (Pdb/Model/Index.lean)
     ^  R2   `absVT`, `AStore`
  P2/P3      Pdb.ValueTable.VT (byte-level slots)        (Pdb/Model/ValueTable.lean)

and the PHYSICAL plain hash column `PCol` = the page model of the index (tables of
Pdb/Model/Index.lean) + one byte-level value table per size tier, with the operations of
`HashColumn::{get, write_plan, reindex, drop_index, open_index}` executed on bytes
(`readChain` / `writeChain` / `removePlan`, tier chosen by `tierFor`).  `PCol` is the left-hand
side of the composed theorem R3 (Pdb/Props/Refine.lean); nothing in it refers to the abstract
value store of `Index.Col`.

This file holds definitions only.  It imports only `Pdb.Gen.*` and `Pdb.Model.*`.
-/
import Pdb.Model.Pipeline
import Pdb.Model.Index
import Pdb.Model.ValueTable

namespace Pdb.Refine
open Pdb.Gen Pdb.Index Pdb.ValueTable

/-! ## R1: the logical table of an index-layer column -/

/-- Abstraction of an index-layer column: the P1 table of a plain column (count 1). -/
def absCol (s : Col) : Pdb.Tbl Key Val := fun k => (lookup s k).map (fun v => (v, 1))

/-! ## R2: the value store one byte-level table implements -/

/-- offset of the key tail inside slot `i` (`for_parts`: size/marker field, `next` link of a
multipart head, reference counter) -/
def keyOff (t : VT) (i : Nat) : Nat :=
  (if (decide (t.multipart = true ∧ isMulti (t.slots i)) : Bool) then SIZE_SIZE + INDEX_SIZE
    else SIZE_SIZE) + refSize t

/-- the 26-byte key tail stored in slot `i` (`partial_key_at`) -/
def storedTail (t : VT) (i : Nat) : Bytes := ((t.slots i).drop (keyOff t i)).take PARTIAL_SIZE

/-- Abstraction of a byte-level value table: slot number -> (key tail, stored bytes, compressed
flag) of the value whose chain STARTS there, read by `readChain` (so a multipart chain is one
cell at its head slot; tombstones, continuation parts and unused slots are `none`). -/
def absVT (t : VT) (i : Nat) : Option (Bytes × Bytes × Bool) :=
  match readChain t (.partialKey (storedTail t i)) i with
  | .ok (some (v, c, _)) => some (storedTail t i, v, c)
  | _ => none

/-- One value table as the index model sees it: `Index.Col.values` restricted to one size tier
(cells by slot number, at the HEAD slot of a value) and the tier's allocator state `Index.Tier`
(fill mark, LIFO free list, continuation slots of the multi-slot values). -/
structure AStore where
  cell : Nat → Option (Bytes × Bytes × Bool)
  tier : Tier

/-- `Index.Col.alloc` on one tier -/
def AStore.alloc (A : AStore) : Nat × AStore :=
  match A.tier.free with
  | o :: rest => (o, { A with tier := ⟨A.tier.filled, rest, A.tier.chains⟩ })
  | [] => (A.tier.filled, { A with tier := ⟨A.tier.filled + 1, [], A.tier.chains⟩ })

def AStore.setCell (A : AStore) (a : Nat) (o : Option (Bytes × Bytes × Bool)) : AStore :=
  { A with cell := fun i => if i = a then o else A.cell i }

/-- `Index.Col.resize` on one tier: the value at head slot `h` takes `m` continuation slots -/
def AStore.resize (A : AStore) (h m : Nat) : AStore := { A with tier := A.tier.resize h m }

/-- `write_plan_new`, value-table part: `alloc`, `setVal`, `resize` (`m` continuation slots) -/
def AStore.insert (A : AStore) (x : Bytes × Bytes × Bool) (m : Nat) : Nat × AStore :=
  (A.alloc.1, (A.alloc.2.setCell A.alloc.1 (some x)).resize A.alloc.1 m)

/-- `write_replace_plan`: `setVal` on the same head slot, `resize` -/
def AStore.replace (A : AStore) (a : Nat) (x : Bytes × Bytes × Bool) (m : Nat) : AStore :=
  (A.setCell a (some x)).resize a m

/-- `write_remove_plan`: `release` (the whole chain) then `setVal none` -/
def AStore.remove (A : AStore) (a : Nat) : AStore :=
  { (A.setCell a none) with
    tier := ⟨A.tier.filled, (a :: chainRest A.tier.chains a).reverse ++ A.tier.free,
      chainDrop A.tier.chains a⟩ }

/-! ## R3: the physical plain hash column -/

/-- the 26 stored key bytes (`hash[6..32]`) of the number `Index.Key.tail` (big endian, as
`Index.parseKey` reads them) -/
def encTail (n : Nat) : Bytes := (leBytes PARTIAL_SIZE n).reverse

/-- `TableKey::Partial(hash)` of a hashed key -/
def tkey (k : Key) : TKey := .partialKey (encTail k.tail)

structure PCol where
  cfg : Cfg
  current : Table
  /-- `Reindex::queue`, oldest first -/
  older : List Table
  progress : Nat
  /-- the value table of every size tier, byte level -/
  vt : Nat → VT

/-- a fresh plain column (no ref counts): empty index with `bits` bits, empty value tables -/
def PCol.init (cfg : Cfg) (bits : Nat) : PCol :=
  ⟨cfg, Table.new bits, [], 0, tableOfTier false⟩

/-- The index part as a state of the index model WITHOUT value store, so that the index-only
operations of Pdb/Model/Index.lean (`insertLoop`, `reindexBatch`, `enactDrop`, `reopen`,
`triggerReindex`, `Table.insert/remove`) are used as they are. -/
def PCol.ix (p : PCol) : Col := ⟨p.cfg, p.current, p.older, p.progress, Trie.empty, Trie.empty, 0⟩

def PCol.withIx (p : PCol) (s : Col) : PCol :=
  { p with current := s.current, older := s.older, progress := s.progress }

def PCol.setVT (p : PCol) (tier : Nat) (t : VT) : PCol :=
  { p with vt := fun i => if i = tier then t else p.vt i }

inductive PRes where
  | ok (p : PCol)
  | panic
  | diverge
  /-- a value-table operation failed (`overwrite_chain` assert, corrupt free list, cyclic chain) -/
  | vtErr (e : WrErr)

def liftIx (p : PCol) : Res → PRes
  | .ok s => .ok (p.withIx s)
  | .panic => .panic
  | .diverge => .diverge

/-- The `TableKeyQuery::Check` of `get_in_index` / `search_index`: the slot at address `a`
holds a value stored under `k`'s tail (byte comparison inside `readChain`). -/
def pHolds (p : PCol) (k : Key) (a : Nat) : Bool :=
  match readChain (p.vt (Address.size_tier a)) (tkey k) (Address.offset a) with
  | .ok (some _) => true
  | _ => false

def pSearchTable (p : PCol) (t : Table) (k : Key) : Option (Nat × Nat) :=
  scanPage p.cfg.exact t.bits k.pre (t.page (t.chunk k.pre)) (pHolds p k) SCAN_FUEL 0

def pSearchOlder (p : PCol) (k : Key) : List Table → Nat → Option (Nat × Nat × Nat)
  | [], _ => none
  | t :: ts, j =>
    match pSearchTable p t k with
    | some (i, a) => some (j, i, a)
    | none => pSearchOlder p k ts (j + 1)

/-- `search_all_indexes` -/
def pSearchAll (p : PCol) (k : Key) : Option (Nat × Nat × Nat) :=
  pSearchOlder p k (p.current :: p.older) 0

/-- `HashColumn::get` + `Column::decompress`: the value bytes the client gets. -/
def pGet (decomp : Bytes → Option Bytes) (p : PCol) (k : Key) : Option Bytes :=
  (pSearchAll p k).bind (fun r =>
    match readChain (p.vt (Address.size_tier r.2.2)) (tkey k) (Address.offset r.2.2) with
    | .ok (some (b, c, _)) => decodeStored decomp (b, c)
    | _ => none)

/-- Abstraction of the physical column: the P1 table of a plain column (count 1). -/
def pAbs (decomp : Bytes → Option Bytes) (p : PCol) : Pdb.Tbl Key Bytes :=
  fun k => (pGet decomp p k).map (fun v => (v, 1))

/-- `write_new_value_plan`: insert the stored form into the table of its tier -/
def pInsertVal (p : PCol) (k : Key) (tf : (Bytes × Bool) × Nat) : Except WrErr (Nat × PCol) :=
  match writeChain (p.vt tf.2) (tkey k) tf.1.1 none tf.1.2 with
  | .ok r => .ok (Address.new r.addr tf.2, p.setVT tf.2 r.table)
  | .error e => .error e

/-- `ValueTable::write_remove_plan` at an address -/
def pRemoveVal (p : PCol) (a : Nat) : Except WrErr PCol :=
  match removePlan (p.vt (Address.size_tier a)) (Address.offset a) with
  | .ok (t, _) => .ok (p.setVT (Address.size_tier a) t)
  | .error e => .error e

/-- `write_plan_new` -/
def pWriteNew (p : PCol) (k : Key) (tf : (Bytes × Bool) × Nat) : PRes :=
  match pInsertVal p k tf with
  | .error e => .vtErr e
  | .ok (a, p2) => liftIx p2 (insertLoop p2.ix k.pre a LOOP_FUEL)

/-- `write_plan_existing` for a key found at (table `j`, `sub`, address `a`); `op = some tf` is a
`Set` whose stored form and tier are `tf`, `none` a `Dereference`.  Without the removal of the
entries that go stale (see `pWriteExisting`). -/
def pWriteExisting0 (p : PCol) (k : Key) (op : Option ((Bytes × Bool) × Nat)) (j sub a : Nat) :
    PRes :=
  match op with
  | some tf =>
    if Address.size_tier a = tf.2 then
      -- write_replace_plan: same slot
      match writeChain (p.vt tf.2) (tkey k) tf.1.1 (some (Address.offset a)) tf.1.2 with
      | .ok r => .ok (p.setVT tf.2 r.table)
      | .error e => .vtErr e
    else
      match pRemoveVal p a with
      | .error e => .vtErr e
      | .ok p1 =>
        match pInsertVal p1 k tf with
        | .error e => .vtErr e
        | .ok (a', p2) =>
          liftIx p2 (insertCont p2.ix (p2.current.insert k.pre a' (if j = 0 then some sub else none))
            (fun _ => if p.cfg.growOnMove then insertLoop (triggerReindex p2.ix) k.pre a' LOOP_FUEL
              else .ok p2.ix))
  | none =>
    match pRemoveVal p a with
    | .error e => .vtErr e
    | .ok p1 =>
      match (p1.ix.tableAt j).remove k.pre sub with
      | some t => .ok (p1.withIx (p1.ix.setTableAt j t))
      | none => .ok p1

/-- does the operation free the value slot at `a`?  (`Index.frees`) -/
def pFrees (op : Option ((Bytes × Bool) × Nat)) (a : Nat) : Bool :=
  match op with
  | some tf => Address.size_tier a != tf.2
  | none => true

def PRes.mapIx (f : Col → Col) : PRes → PRes
  | .ok p => .ok (p.withIx (f p.ix))
  | .panic => .panic
  | .diverge => .diverge
  | .vtErr e => .vtErr e

/-- `write_plan_existing` of the fixed code (fix-c09-stale-index-entries): as
`Index.writeExisting`, the entries (partial key of `k`, freed address `a`) are removed from the
queued tables (`Index.purgeOlder`; nothing happens with `cfg.purge = false`). -/
def pWriteExisting (p : PCol) (k : Key) (op : Option ((Bytes × Bool) × Nat)) (j sub a : Nat) :
    PRes :=
  if pFrees op a then (pWriteExisting0 p k op j sub a).mapIx (fun s => purgeOlder s k.pre a)
  else pWriteExisting0 p k op j sub a

/-- `HashColumn::write_plan` on bytes; the tier and the stored form come from `Column::compress`
(`tierFor`, no ref counts). -/
def pWrite (cmp : Bytes → Bytes) (thr : Nat) (p : PCol) (k : Key) (op : Option Bytes) : PRes :=
  match pSearchAll p k with
  | some (j, sub, a) =>
    pWriteExisting p k (op.map (fun v => tierFor cmp thr false (tkey k) v)) j sub a
  | none =>
    match op with
    | some v => pWriteNew p k (tierFor cmp thr false (tkey k) v)
    | none => .ok p

inductive PAction where
  /-- `Operation::Set(key, value)` -/
  | set (k : Key) (v : Bytes)
  /-- `Operation::Dereference(key)` -/
  | del (k : Key)
  /-- one `process_reindex` batch -/
  | reindex
  /-- the logged records have been enacted (a logged `DropTable` takes effect) -/
  | enact
  /-- clean close + open, or the `open_index` part of a crash recovery -/
  | reopen
  /-- `trigger_reindex` by the validation of a rejected log record during recovery -/
  | relaunch

def pStep (cmp : Bytes → Bytes) (thr : Nat) (p : PCol) : PAction → PRes
  | .set k v => pWrite cmp thr p k (some v)
  | .del k => pWrite cmp thr p k none
  | .reindex => liftIx p (reindexBatch p.ix)
  | .enact => .ok (p.withIx (enactDrop p.ix))
  | .reopen => .ok (p.withIx (reopen p.ix))
  | .relaunch => .ok (p.withIx (triggerReindex p.ix))

def PRes.bind (r : PRes) (f : PCol → PRes) : PRes :=
  match r with
  | .ok p => f p
  | .panic => .panic
  | .diverge => .diverge
  | .vtErr e => .vtErr e

def pRun (cmp : Bytes → Bytes) (thr : Nat) (p : PCol) : List PAction → PRes
  | [] => .ok p
  | a :: as => (pStep cmp thr p a).bind (fun p' => pRun cmp thr p' as)

/-- the P1 operations a physical action performs (maintenance actions: none) -/
def PAction.ops : PAction → List (Pdb.Op Key Bytes)
  | .set k v => [.set k v]
  | .del k => [.deref k]
  | _ => []

end Pdb.Refine
